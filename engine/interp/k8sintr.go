// Intrinsics at the Kubernetes library boundary.
package interp

import (
	"fmt"
	"go/types"
)

func registerK8s() {
	// the scheme is only consulted by SetControllerReference (itself an intrinsic)
	intrinsics["github.com/DataDog/extendeddaemonset/zzverif/fakeapi.NewScheme"] = func(fr *frame, a []value) value {
		var cell value = structure{}
		return &cell
	}
	intrinsics["k8s.io/apimachinery/pkg/api/errors.IsNotFound"] = func(fr *frame, a []value) value {
		return fr.statusReason(a[0]) == "NotFound"
	}
	intrinsics["k8s.io/apimachinery/pkg/api/errors.IsAlreadyExists"] = func(fr *frame, a []value) value {
		return fr.statusReason(a[0]) == "AlreadyExists"
	}
	intrinsics["k8s.io/apimachinery/pkg/api/errors.IsConflict"] = func(fr *frame, a []value) value {
		return fr.statusReason(a[0]) == "Conflict"
	}
}

// statusReason walks an error chain looking for *errors.StatusError and returns its reason.
func (fr *frame) statusReason(v value) string {
	for depth := 0; depth < 10; depth++ {
		itf, ok := v.(iface)
		if !ok || itf.t == nil {
			return ""
		}
		ts := itf.t.String()
		switch ts {
		case "*k8s.io/apimachinery/pkg/api/errors.StatusError":
			p := itf.v.(*value)
			if p == nil {
				return ""
			}
			se := (*p).(structure) // {ErrStatus metav1.Status}
			st := se[0].(structure)
			// metav1.Status{TypeMeta, ListMeta, Status, Message, Reason, Details, Code}
			named := fr.i.named("k8s.io/apimachinery/pkg/apis/meta/v1", "Status").Underlying().(*types.Struct)
			for k := 0; k < named.NumFields(); k++ {
				if named.Field(k).Name() == "Reason" {
					return fr.i.ctx.concStr(st[k])
				}
			}
			return ""
		case "*fmt.wrapError":
			p := itf.v.(*value)
			v = (*p).(structure)[1]
			continue
		}
		return ""
	}
	return ""
}

var _ = fmt.Sprint
