// Intrinsics at the Kubernetes library boundary.
package interp

import (
	"fmt"
	"go/types"
)

func registerK8s() {
	// the scheme is only consulted by SetControllerReference (itself an intrinsic)
	intrinsics["github.com/DataDog/extendeddaemonset/zzverif/fakeapi.NewScheme"] = func(fr *frame, a []value) value {
		var cell value = structure{}
		return &cell
	}
	intrinsics["k8s.io/apimachinery/pkg/api/errors.IsNotFound"] = func(fr *frame, a []value) value {
		return fr.statusReason(a[0]) == "NotFound"
	}
	intrinsics["k8s.io/apimachinery/pkg/api/errors.IsAlreadyExists"] = func(fr *frame, a []value) value {
		return fr.statusReason(a[0]) == "AlreadyExists"
	}
	intrinsics["k8s.io/apimachinery/pkg/api/errors.IsConflict"] = func(fr *frame, a []value) value {
		return fr.statusReason(a[0]) == "Conflict"
	}
}

// statusReason walks an error chain looking for *errors.StatusError and returns its reason.
func (fr *frame) statusReason(v value) string {
	for depth := 0; depth < 10; depth++ {
		itf, ok := v.(iface)
		if !ok || itf.t == nil {
			return ""
		}
		ts := itf.t.String()
		switch ts {
		case "*k8s.io/apimachinery/pkg/api/errors.StatusError":
			p := itf.v.(*value)
			if p == nil {
				return ""
			}
			se := (*p).(structure) // {ErrStatus metav1.Status}
			st := se[0].(structure)
			// metav1.Status{TypeMeta, ListMeta, Status, Message, Reason, Details, Code}
			named := fr.i.named("k8s.io/apimachinery/pkg/apis/meta/v1", "Status").Underlying().(*types.Struct)
			for k := 0; k < named.NumFields(); k++ {
				if named.Field(k).Name() == "Reason" {
					return fr.i.ctx.concStr(st[k])
				}
			}
			return ""
		case "*fmt.wrapError":
			p := itf.v.(*value)
			v = (*p).(structure)[1]
			continue
		}
		return ""
	}
	return ""
}

var _ = fmt.Sprint

// ---- struct helpers ---------------------------------------------------------------

func structOf(t types.Type) *types.Struct {
	if p, ok := t.Underlying().(*types.Pointer); ok {
		t = p.Elem()
	}
	s, ok := t.Underlying().(*types.Struct)
	if !ok {
		panic(engineAbort{"ENGINE", fmt.Sprintf("structOf: %v is not a struct", t)})
	}
	return s
}

func fieldIndex(t types.Type, name string) int {
	s := structOf(t)
	for i := 0; i < s.NumFields(); i++ {
		if s.Field(i).Name() == name {
			return i
		}
	}
	return -1
}

func typeName(t types.Type) (pkg, name string) {
	if p, ok := t.(*types.Pointer); ok {
		t = p.Elem()
	}
	t = types.Unalias(t)
	if n, ok := t.(*types.Named); ok {
		if n.Obj().Pkg() != nil {
			pkg = n.Obj().Pkg().Path()
		}
		return pkg, n.Obj().Name()
	}
	return "", ""
}

// objectMeta returns the ObjectMeta structure (and its type) embedded in an API object value.
func objectMetaOf(itf iface) (structure, types.Type) {
	p, ok := itf.v.(*value)
	if !ok || p == nil {
		panic(engineAbort{"ENGINE", "objectMetaOf: not a non-nil pointer"})
	}
	st := (*p).(structure)
	idx := fieldIndex(itf.t, "ObjectMeta")
	if idx < 0 {
		panic(engineAbort{"UNSUPPORTED", fmt.Sprintf("objectMetaOf: %v has no ObjectMeta", itf.t)})
	}
	return st[idx].(structure), structOf(itf.t).Field(idx).Type()
}

func apiVersionOf(pkg string) string {
	switch pkg {
	case "github.com/DataDog/extendeddaemonset/api/v1alpha1":
		return "datadoghq.com/v1alpha1"
	case "k8s.io/api/core/v1":
		return "v1"
	case "k8s.io/api/apps/v1":
		return "apps/v1"
	}
	return pkg
}

func init() {
	registerK8s2()
}

func registerK8s2() {
	intrinsics["sigs.k8s.io/controller-runtime/pkg/controller/controllerutil.SetControllerReference"] = setControllerReference
	intrinsics["(k8s.io/apimachinery/pkg/conversion.Equalities).DeepEqual"] = func(fr *frame, a []value) value {
		x, y := a[1].(iface), a[2].(iface)
		if x.t == nil || y.t == nil {
			return x.t == nil && y.t == nil
		}
		if !types.Identical(x.t, y.t) {
			return false
		}
		return mkSym(fr.deepEq(x.t, x.v, y.v, 0), types.Bool)
	}
	intrinsics["(k8s.io/apimachinery/third_party/forked/golang/reflect.Equalities).DeepEqual"] = intrinsics["(k8s.io/apimachinery/pkg/conversion.Equalities).DeepEqual"]
	// the fake API applies "replace metadata and spec"; the serialized patch is only logged by the callers
	intrinsics["(*sigs.k8s.io/controller-runtime/pkg/client.mergeFromPatch).Data"] = func(fr *frame, a []value) value {
		return tuple{bytesVal([]byte("{}")), iface{}}
	}
	intrinsics["k8s.io/apimachinery/pkg/util/validation.IsQualifiedName"] = func(fr *frame, a []value) value {
		return strSliceOrNil(nativeIsQualifiedName(fr.i.ctx.concStr(a[0])))
	}
	intrinsics["k8s.io/apimachinery/pkg/util/validation.IsValidLabelValue"] = func(fr *frame, a []value) value {
		return strSliceOrNil(nativeIsValidLabelValue(fr.i.ctx.concStr(a[0])))
	}
}

func strSliceOrNil(ss []string) value {
	if len(ss) == 0 {
		return []value(nil)
	}
	return strSlice(ss)
}

func setControllerReference(fr *frame, a []value) value {
	owner, obj := a[0].(iface), a[1].(iface)
	if owner.t == nil || obj.t == nil {
		fr.runtimePanic("runtime error: invalid memory address or nil pointer dereference (SetControllerReference on nil object)")
	}
	ometa, metaT := objectMetaOf(owner)
	cmeta, _ := objectMetaOf(obj)
	get := func(m structure, name string) value { return m[fieldIndex(metaT, name)] }
	ownerNs := fr.i.ctx.concStr(get(ometa, "Namespace"))
	objNs := fr.i.ctx.concStr(get(cmeta, "Namespace"))
	if ownerNs != "" {
		if objNs == "" {
			return fr.i.errorString("cluster-scoped resource must not have a namespace-scoped owner, owner's namespace " + ownerNs)
		}
		if ownerNs != objNs {
			return fr.i.errorString("cross-namespace owner references are disallowed, owner's namespace " + ownerNs + ", obj's namespace " + objNs)
		}
	}
	pkg, kind := typeName(owner.t)
	refT := fr.i.named("k8s.io/apimachinery/pkg/apis/meta/v1", "OwnerReference")
	ref := zero(refT).(structure)
	set := func(name string, v value) { ref[fieldIndex(refT, name)] = v }
	bptr := func(b bool) value { var c value = b; return &c }
	set("APIVersion", apiVersionOf(pkg))
	set("Kind", kind)
	set("Name", get(ometa, "Name"))
	set("UID", get(ometa, "UID"))
	set("Controller", bptr(true))
	set("BlockOwnerDeletion", bptr(true))
	oi := fieldIndex(metaT, "OwnerReferences")
	refs, _ := cmeta[oi].([]value)
	ctrlIdx := fieldIndex(refT, "Controller")
	for k, r := range refs {
		rs := r.(structure)
		same := fr.i.ctx.concStr(rs[fieldIndex(refT, "Kind")]) == kind &&
			fr.i.ctx.concStr(rs[fieldIndex(refT, "Name")]) == fr.i.ctx.concStr(get(ometa, "Name"))
		if same {
			refs[k] = ref
			return iface{}
		}
		if cp, ok := rs[ctrlIdx].(*value); ok && cp != nil && fr.i.ctx.concBool(*cp) {
			return fr.i.errorString("Object is already owned by another " + fr.i.ctx.concStr(rs[fieldIndex(refT, "Kind")]) + " controller " + fr.i.ctx.concStr(rs[fieldIndex(refT, "Name")]))
		}
	}
	// write through the pointer: ObjectMeta is stored inside the object structure
	p := obj.v.(*value)
	st := (*p).(structure)
	mi := fieldIndex(obj.t, "ObjectMeta")
	m := st[mi].(structure)
	m[oi] = append(append([]value{}, refs...), ref)
	return iface{}
}

// deepEq: apimachinery's semantic DeepEqual over interpreter values (nil and empty
// slices/maps are equal; metav1.Time by instant; resource.Quantity structurally).
func (fr *frame) deepEq(t types.Type, a, b value, depth int) *Term {
	if depth > 100 {
		panic(engineAbort{"UNSUPPORTED", "DeepEqual: value too deep (cyclic?)"})
	}
	if pkg, name := typeName(t); pkg == "k8s.io/apimachinery/pkg/apis/meta/v1" && (name == "Time" || name == "MicroTime") {
		if _, isPtr := t.(*types.Pointer); !isPtr {
			return timeEq(a.(structure)[0], b.(structure)[0])
		}
	}
	if pkg, name := typeName(t); pkg == "k8s.io/apimachinery/pkg/api/resource" && name == "Quantity" {
		if _, isPtr := t.(*types.Pointer); !isPtr {
			// Semantic equality of quantities: a.Cmp(b) == 0, through the interpreted method
			fn := fr.i.prog.LookupMethod(types.NewPointer(t), nil, "Cmp")
			if fn == nil {
				panic(engineAbort{"ENGINE", "resource.Quantity.Cmp not found"})
			}
			var cell value = a
			r := call(fr.i, fr, 0, fn, []value{&cell, b})
			tr, _, _ := termOf(r)
			return mkEq(tr, mkInt(0))
		}
	}
	switch u := t.Underlying().(type) {
	case *types.Basic:
		return symEquals(t, a, b)
	case *types.Pointer:
		pa, pb := a.(*value), b.(*value)
		if pa == nil || pb == nil {
			return mkBool(pa == nil && pb == nil)
		}
		if pa == pb {
			return tTrue
		}
		return fr.deepEq(u.Elem(), *pa, *pb, depth+1)
	case *types.Struct:
		sa, sb := a.(structure), b.(structure)
		var cs []*Term
		for i := 0; i < u.NumFields(); i++ {
			c := fr.deepEq(u.Field(i).Type(), sa[i], sb[i], depth+1)
			if c.Op == "bool" && !c.B {
				return tFalse
			}
			cs = append(cs, c)
		}
		return mkAnd(cs...)
	case *types.Slice:
		xa, xb := a.([]value), b.([]value)
		if len(xa) != len(xb) {
			return tFalse
		}
		var cs []*Term
		for i := range xa {
			c := fr.deepEq(u.Elem(), xa[i], xb[i], depth+1)
			if c.Op == "bool" && !c.B {
				return tFalse
			}
			cs = append(cs, c)
		}
		return mkAnd(cs...)
	case *types.Array:
		xa, xb := a.(array), b.(array)
		var cs []*Term
		for i := range xa {
			cs = append(cs, fr.deepEq(u.Elem(), xa[i], xb[i], depth+1))
		}
		return mkAnd(cs...)
	case *types.Map:
		ma, mb := a.(*omap), b.(*omap)
		if ma.len() != mb.len() {
			return tFalse
		}
		if ma.len() == 0 {
			return tTrue
		}
		var cs []*Term
		for _, e := range ma.entries {
			if e.deleted {
				continue
			}
			v2, ok := mb.lookup(e.key)
			if !ok {
				return tFalse
			}
			c := fr.deepEq(u.Elem(), e.val, v2, depth+1)
			if c.Op == "bool" && !c.B {
				return tFalse
			}
			cs = append(cs, c)
		}
		return mkAnd(cs...)
	case *types.Interface:
		ia, ib := a.(iface), b.(iface)
		if ia.t == nil || ib.t == nil {
			return mkBool(ia.t == nil && ib.t == nil)
		}
		if !types.Identical(ia.t, ib.t) {
			return tFalse
		}
		return fr.deepEq(ia.t, ia.v, ib.v, depth+1)
	case *types.Signature:
		return tFalse
	}
	panic(engineAbort{"UNSUPPORTED", fmt.Sprintf("DeepEqual on %v", t)})
}
