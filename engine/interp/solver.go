// Solver pipe: one long-lived `z3 -in` (or cvc5 --incremental) per worker.
package interp

import (
	"bufio"
	"fmt"
	"io"
	"math/big"
	"os/exec"
	"strings"
	"time"
)

type Solver struct {
	Name     string
	cmd      *exec.Cmd
	in       io.WriteCloser
	out      *bufio.Reader
	Queries  int
	Time     time.Duration
	MaxTime  time.Duration
	Errors   []string
	Unknowns int
	depth    int
	log      io.Writer // optional transcript
	// timeoutMs is the per-query soft timeout the process was started with; Retried counts the
	// queries answered only at the second attempt (six times that timeout)
	timeoutMs int
	Retried   int
}

func NewSolver(kind string, timeoutMs int) (*Solver, error) {
	var cmd *exec.Cmd
	switch kind {
	case "z3", "":
		kind = "z3"
		cmd = exec.Command("z3", "-in", fmt.Sprintf("-t:%d", timeoutMs))
	case "z3-new":
		cmd = exec.Command("z3-new", "-in", fmt.Sprintf("-t:%d", timeoutMs))
	case "cvc5":
		cmd = exec.Command("cvc5", "--incremental", "--lang=smt2", "--produce-models", fmt.Sprintf("--tlimit-per=%d", timeoutMs))
	default:
		return nil, fmt.Errorf("unknown solver %q", kind)
	}
	in, err := cmd.StdinPipe()
	if err != nil {
		return nil, err
	}
	outp, err := cmd.StdoutPipe()
	if err != nil {
		return nil, err
	}
	cmd.Stderr = cmd.Stdout
	if err := cmd.Start(); err != nil {
		return nil, err
	}
	s := &Solver{Name: kind, cmd: cmd, in: in, out: bufio.NewReaderSize(outp, 1<<16), timeoutMs: timeoutMs}
	if kind == "cvc5" {
		s.send("(set-logic ALL)")
	}
	s.send("(set-option :produce-models true)")
	return s, nil
}

func (s *Solver) Close() {
	if s == nil || s.cmd == nil {
		return
	}
	s.in.Close()
	done := make(chan struct{})
	go func() { s.cmd.Wait(); close(done) }()
	select {
	case <-done:
	case <-time.After(2 * time.Second):
		s.cmd.Process.Kill()
	}
}

func (s *Solver) send(cmd string) {
	if s.log != nil {
		io.WriteString(s.log, cmd+"\n")
	}
	if _, err := io.WriteString(s.in, cmd+"\n"); err != nil {
		panic(engineAbort{"SOLVER", "solver pipe write failed: " + err.Error()})
	}
}

func (s *Solver) Push()  { s.send("(push 1)"); s.depth++ }
func (s *Solver) Pop()   { s.send("(pop 1)"); s.depth-- }
func (s *Solver) PopTo(d int) {
	for s.depth > d {
		s.Pop()
	}
}

func (s *Solver) Declare(name string, sort Sort) {
	if sort == SBool {
		s.send("(declare-const " + quoteSym(name) + " Bool)")
	} else {
		s.send("(declare-const " + quoteSym(name) + " Int)")
	}
}

func (s *Solver) Assert(t *Term) {
	s.send("(assert " + t.SMT() + ")")
}

func (s *Solver) readLine() string {
	line, err := s.out.ReadString('\n')
	if err != nil {
		panic(engineAbort{"SOLVER", "solver pipe closed: " + err.Error()})
	}
	return strings.TrimSpace(line)
}

// Check returns "sat", "unsat" or "unknown" (errors are reported as unknown and recorded).
// A z3 "unknown" without error is a soft timeout (wall clock: a starved process on a loaded
// machine hits it on queries that normally take milliseconds): the query is asked once more with
// six times the timeout before the answer is accepted as unknown.
func (s *Solver) Check() string {
	r := s.check1()
	if r == "unknown" && len(s.Errors) == 0 && strings.HasPrefix(s.Name, "z3") && s.timeoutMs > 0 {
		s.send(fmt.Sprintf("(set-option :timeout %d)", 6*s.timeoutMs))
		r = s.check1()
		s.send(fmt.Sprintf("(set-option :timeout %d)", s.timeoutMs))
		if r != "unknown" {
			s.Retried++
			s.Unknowns--
		}
	}
	return r
}

func (s *Solver) check1() string {
	t0 := time.Now()
	s.send("(check-sat)")
	var res string
	for {
		line := s.readLine()
		if line == "" {
			continue
		}
		if line == "sat" || line == "unsat" || line == "unknown" {
			res = line
			break
		}
		if strings.HasPrefix(line, "(error") {
			s.Errors = append(s.Errors, line)
			// keep reading: the check-sat answer still follows
			continue
		}
		// unexpected output
		s.Errors = append(s.Errors, "unexpected solver output: "+line)
	}
	d := time.Since(t0)
	s.Queries++
	s.Time += d
	if d > s.MaxTime {
		s.MaxTime = d
	}
	if len(s.Errors) > 0 {
		return "unknown"
	}
	if res == "unknown" {
		s.Unknowns++
	}
	return res
}

// CheckWith checks satisfiability of the current stack plus extra.
func (s *Solver) CheckWith(extra ...*Term) string {
	s.Push()
	for _, e := range extra {
		s.Assert(e)
	}
	r := s.Check()
	s.Pop()
	return r
}

// Model returns values for the given symbols; must follow a "sat" answer while the
// asserted stack is unchanged.
func (s *Solver) Model(names []string, sorts []Sort) map[string]interface{} {
	m := map[string]interface{}{}
	if len(names) == 0 {
		return m
	}
	var sb strings.Builder
	sb.WriteString("(get-value (")
	for _, n := range names {
		sb.WriteString(quoteSym(n) + " ")
	}
	sb.WriteString("))")
	s.send(sb.String())
	// read a balanced s-expression
	var buf strings.Builder
	depth := 0
	started := false
	for {
		line := s.readLine()
		if strings.HasPrefix(line, "(error") {
			s.Errors = append(s.Errors, line)
			return nil
		}
		buf.WriteString(line + " ")
		inBar := false
		for _, c := range line {
			switch {
			case c == '|':
				inBar = !inBar
			case inBar:
			case c == '(':
				depth++
				started = true
			case c == ')':
				depth--
			}
		}
		if started && depth <= 0 {
			break
		}
	}
	toks := tokenize(buf.String())
	// ( ( name val ) ( name val ) ... )
	pos := 0
	var parseVal func() interface{}
	parseVal = func() interface{} {
		tk := toks[pos]
		pos++
		switch tk {
		case "true":
			return true
		case "false":
			return false
		case "(":
			// (- n)
			op := toks[pos]
			pos++
			if op == "-" {
				v := parseVal().(*big.Int)
				pos++ // ")"
				return new(big.Int).Neg(v)
			}
			panic(engineAbort{"SOLVER", "cannot parse model value near " + op})
		default:
			bi, ok := new(big.Int).SetString(tk, 10)
			if !ok {
				panic(engineAbort{"SOLVER", "cannot parse model value " + tk})
			}
			return bi
		}
	}
	if toks[pos] != "(" {
		panic(engineAbort{"SOLVER", "bad get-value answer: " + buf.String()})
	}
	pos++
	for pos < len(toks) && toks[pos] == "(" {
		pos++
		name := toks[pos]
		pos++
		name = strings.Trim(name, "|")
		v := parseVal()
		pos++ // ")"
		m[name] = v
	}
	return m
}

func tokenize(s string) []string {
	var toks []string
	i := 0
	for i < len(s) {
		c := s[i]
		switch {
		case c == ' ' || c == '\t' || c == '\n' || c == '\r':
			i++
		case c == '(' || c == ')':
			toks = append(toks, string(c))
			i++
		case c == '|':
			j := i + 1
			for j < len(s) && s[j] != '|' {
				j++
			}
			toks = append(toks, s[i:j+1])
			i = j + 1
		default:
			j := i
			for j < len(s) && !strings.ContainsRune(" \t\n\r()", rune(s[j])) {
				j++
			}
			toks = append(toks, s[i:j])
			i = j
		}
	}
	return toks
}
