// Path exploration: work queue of decision prefixes, workers with private solver pipes.
package interp

import (
	"fmt"
	"go/token"
	"hash/fnv"
	"os"
	"runtime"
	"runtime/debug"
	"sort"
	"strings"
	"sync"
	"time"

	"golang.org/x/tools/go/ssa"
)

// Region is a known-finding region: a conjunction over named facts for one assertion id.
type Region struct {
	Property  string          `json:"property"`
	Assertion string          `json:"assertion"`
	Facts     map[string]bool `json:"region"`
	What      string          `json:"what"`
	Site      string          `json:"site,omitempty"`
}

type Cex struct {
	Property   string            `json:"property"`
	Harness    string            `json:"harness"`
	Assertion  string            `json:"assertion"`
	Kind       string            `json:"kind"` // violation | witness | panic | arith | sample | known
	Decisions  []uint8           `json:"decisions"`
	Tape       []TapeEntry       `json:"tape"`
	Facts      map[string]bool   `json:"facts,omitempty"`
	Observed   map[string]string `json:"observed_symbolic,omitempty"`
	Detail     string            `json:"detail,omitempty"`
	Region     int               `json:"region,omitempty"`
	NativeOK   *bool             `json:"native_reproduced,omitempty"`
	NativeNote string            `json:"native_note,omitempty"`
}

type Stats struct {
	Paths           int
	PathsByEnd      map[string]int
	Decisions       int
	Forks           int
	Concretizations int
	Asserts         int
	AssertsSymbolic int
	Obligations     int
	ObligDischarged int
	Steps           int64
}

type Inconclusive struct {
	Kind, Msg string
	Decisions []uint8
}

type HarnessResult struct {
	Harness      string
	Stats        Stats
	Violations   []*Cex
	ViolCount    map[string]int
	Known        map[int]*Cex // region index -> sample
	KnownCount   map[int]int
	Reach        map[string]*Cex // reach id -> witness
	ReachIDs     map[string]bool // all reach ids seen
	Samples      []*Cex
	Inconclusive []Inconclusive
	Funcs        map[string]int64 // function -> SSA instructions executed
	Intrinsics   map[string]int
	Symbols      map[string]string // symbol label -> bounds description
	AssertIDs    map[string]int
	SolverName   string
	Queries      int
	SolverTime   time.Duration
	SolverMax    time.Duration
	Wall         time.Duration
	CrossChecked   int
	CrossDisagree  []string
	CrossSolver    string
}

type Explorer struct {
	Prog         *ssa.Program
	Fn           *ssa.Function
	Property     string
	Regions      []Region
	Jobs         int
	Seed         int64
	SampleEvery  int // sample 1/N of complete paths for the concolic cross-check
	MaxSamples   int
	MaxPaths     int
	MaxDecisions int
	MaxConcRange int
	MaxSteps     int64
	SolverKind   string
	TimeoutMs    int
	Trace        bool
	Tier         string
	MaxSeconds   int
	CrossCheckMax int // number of discharged (unsat) verdict queries re-checked with a second solver
	Progress     bool

	mu       sync.Mutex
	cond     *sync.Cond
	queue    [][]uint8
	active   int
	stopped  bool
	pathCount int
	xqueries  []string // SMT-LIB scripts of discharged verdict queries (expected unsat)
	xseen     int
	res      *HarnessResult
}

type worker struct {
	ex     *Explorer
	solver *Solver
	stats  Stats
	funcs  map[*ssa.Function]int64
	intr   map[string]int
}

func (ex *Explorer) push(prefix []uint8) {
	ex.mu.Lock()
	ex.queue = append(ex.queue, prefix)
	ex.mu.Unlock()
	ex.cond.Signal()
}

func (ex *Explorer) next() []uint8 {
	ex.mu.Lock()
	defer ex.mu.Unlock()
	for {
		if ex.stopped {
			return nil
		}
		if n := len(ex.queue); n > 0 {
			p := ex.queue[n-1]
			ex.queue = ex.queue[:n-1]
			ex.active++
			return p
		}
		if ex.active == 0 {
			ex.cond.Broadcast()
			return nil
		}
		ex.cond.Wait()
	}
}

func (ex *Explorer) done() {
	ex.mu.Lock()
	ex.active--
	if ex.active == 0 && len(ex.queue) == 0 {
		ex.cond.Broadcast()
	}
	ex.mu.Unlock()
}

func (ex *Explorer) Run() *HarnessResult {
	t0 := time.Now()
	ex.cond = sync.NewCond(&ex.mu)
	if ex.Jobs <= 0 {
		ex.Jobs = runtime.NumCPU()
	}
	if ex.MaxDecisions == 0 {
		ex.MaxDecisions = 4000
	}
	if ex.MaxConcRange == 0 {
		ex.MaxConcRange = 128
	}
	if ex.MaxPaths == 0 {
		ex.MaxPaths = 2000000
	}
	if ex.MaxSteps == 0 {
		ex.MaxSteps = 50_000_000
	}
	if ex.TimeoutMs == 0 {
		ex.TimeoutMs = 10000
	}
	ex.res = &HarnessResult{
		Harness:    ex.Fn.String(),
		ViolCount:  map[string]int{},
		Known:      map[int]*Cex{},
		KnownCount: map[int]int{},
		Reach:      map[string]*Cex{},
		ReachIDs:   map[string]bool{},
		Funcs:      map[string]int64{},
		Intrinsics: map[string]int{},
		Symbols:    map[string]string{},
		AssertIDs:  map[string]int{},
	}
	ex.res.Stats.PathsByEnd = map[string]int{}
	ex.queue = [][]uint8{{}}
	if ex.MaxSeconds == 0 {
		ex.MaxSeconds = 600
	}
	stopTimer := make(chan struct{})
	go func() {
		tick := time.NewTicker(10 * time.Second)
		defer tick.Stop()
		for {
			select {
			case <-stopTimer:
				return
			case <-tick.C:
				ex.mu.Lock()
				if ex.Progress {
					fmt.Fprintf(os.Stderr, "  [%s] %.0fs paths=%d queue=%d active=%d\n", ex.Fn.Name(), time.Since(t0).Seconds(), ex.pathCount, len(ex.queue), ex.active)
				}
				if time.Since(t0) > time.Duration(ex.MaxSeconds)*time.Second && !ex.stopped {
					ex.stopped = true
					if len(ex.res.Inconclusive) < 20 {
						ex.res.Inconclusive = append(ex.res.Inconclusive, Inconclusive{"UNWIND", fmt.Sprintf("time budget of %ds exhausted after %d paths (%d prefixes still queued)", ex.MaxSeconds, ex.pathCount, len(ex.queue)), nil})
					}
					ex.cond.Broadcast()
				}
				ex.mu.Unlock()
			}
		}
	}()
	defer close(stopTimer)
	var wg sync.WaitGroup
	workers := make([]*worker, ex.Jobs)
	for k := 0; k < ex.Jobs; k++ {
		s, err := NewSolver(ex.SolverKind, ex.TimeoutMs)
		if err != nil {
			fmt.Fprintln(os.Stderr, "cannot start solver:", err)
			os.Exit(2)
		}
		w := &worker{ex: ex, solver: s, funcs: map[*ssa.Function]int64{}, intr: map[string]int{}}
		w.stats.PathsByEnd = map[string]int{}
		workers[k] = w
		wg.Add(1)
		go func() {
			defer wg.Done()
			for {
				p := ex.next()
				if p == nil {
					return
				}
				w.runPath(p)
				ex.done()
			}
		}()
	}
	wg.Wait()
	r := ex.res
	for _, w := range workers {
		r.SolverName = w.solver.Name
		r.Queries += w.solver.Queries
		r.SolverTime += w.solver.Time
		if w.solver.MaxTime > r.SolverMax {
			r.SolverMax = w.solver.MaxTime
		}
		w.solver.Close()
		r.Stats.Paths += w.stats.Paths
		r.Stats.Decisions += w.stats.Decisions
		r.Stats.Forks += w.stats.Forks
		r.Stats.Concretizations += w.stats.Concretizations
		r.Stats.Asserts += w.stats.Asserts
		r.Stats.AssertsSymbolic += w.stats.AssertsSymbolic
		r.Stats.Obligations += w.stats.Obligations
		r.Stats.ObligDischarged += w.stats.ObligDischarged
		r.Stats.Steps += w.stats.Steps
		for k, v := range w.stats.PathsByEnd {
			r.Stats.PathsByEnd[k] += v
		}
		for f, n := range w.funcs {
			r.Funcs[f.String()] += n
		}
		for f, n := range w.intr {
			r.Intrinsics[f] += n
		}
	}
	if len(ex.xqueries) > 0 {
		ex.crossCheck(r)
	}
	r.Wall = time.Since(t0)
	return r
}

func (ex *Explorer) inconclusive(kind, msg string, dec []uint8) {
	ex.mu.Lock()
	defer ex.mu.Unlock()
	if len(ex.res.Inconclusive) < 20 {
		ex.res.Inconclusive = append(ex.res.Inconclusive, Inconclusive{kind, msg, append([]uint8(nil), dec...)})
	} else {
		// keep counting in the first entry's message
		ex.res.Inconclusive[0].Msg = strings.TrimSuffix(ex.res.Inconclusive[0].Msg, " (+more)") + " (+more)"
	}
}

func pathHash(dec []uint8, seed int64) uint64 {
	h := fnv.New64a()
	h.Write(dec)
	var b [8]byte
	for i := 0; i < 8; i++ {
		b[i] = byte(seed >> (8 * i))
	}
	h.Write(b[:])
	return h.Sum64()
}

// runPath executes the harness once along the given decision prefix.
func (w *worker) runPath(prefix []uint8) {
	ex := w.ex
	ctx := &pathCtx{
		ex: ex, w: w, prefix: prefix,
		symByName: map[string]*symDecl{},
		labelN:    map[string]int{},
		facts:     map[string]*Term{},
		reachHit:  map[string]bool{},
		natives:   map[*value]interface{}{},
	}
	s := w.solver
	base := s.depth
	s.Push()
	end := "complete"
	var endDetail string
	func() {
		defer func() {
			r := recover()
			if r == nil {
				return
			}
			switch p := r.(type) {
			case pathEnd:
				end = p.reason
			case engineAbort:
				end = "abort:" + p.kind
				endDetail = p.msg
			case targetPanic:
				end = "panic"
				endDetail = panicMessage(p)
			case runtime.Error:
				end = "abort:ENGINE"
				endDetail = "interpreter runtime error: " + p.Error() + "\n" + string(debug.Stack())
			default:
				end = "abort:ENGINE"
				endDetail = fmt.Sprintf("interpreter panic: %v\n%s", r, debug.Stack())
			}
		}()
		i := newInterpreter(ex.Prog, ctx)
		call(i, nil, token.NoPos, ex.Fn, nil)
	}()
	w.stats.Paths++
	w.stats.Steps += ctx.steps

	func() {
		defer func() {
			if r := recover(); r != nil {
				if ea, ok := r.(engineAbort); ok {
					end = "abort:" + ea.kind
					endDetail = ea.msg
					return
				}
				panic(r)
			}
		}()
		switch {
		case end == "complete" || end == "panic":
			ctx.finish(end, endDetail)
		}
	}()
	if strings.HasPrefix(end, "abort:") {
		ex.inconclusive(strings.TrimPrefix(end, "abort:"), endDetail, ctx.decisions)
	}
	w.stats.PathsByEnd[end]++
	s.PopTo(base)
	if len(s.Errors) > 0 {
		ex.inconclusive("SOLVER", s.Errors[0], ctx.decisions)
		s.Errors = nil
	}
	ex.mu.Lock()
	ex.pathCount++
	over := ex.pathCount > ex.MaxPaths
	ex.mu.Unlock()
	if over {
		ex.inconclusive("UNWIND", fmt.Sprintf("more than %d paths", ex.MaxPaths), nil)
		ex.mu.Lock()
		ex.stopped = true
		ex.cond.Broadcast()
		ex.mu.Unlock()
	}
}

func panicMessage(p targetPanic) string {
	s := toString(p.v)
	if len(s) > 300 {
		s = s[:300]
	}
	return s
}

// finish runs end-of-path checks: panic => violation; overflow obligations; sampling.
func (c *pathCtx) finish(end, detail string) {
	ex := c.ex
	if end == "panic" {
		// a panic escaping the harness is a violation of "<harness>.nopanic"
		id := "PANIC"
		if c.lastPanicSite != "" {
			id = "PANIC:" + c.lastPanicSite
		}
		c.reportFailure(id, tTrue, "panic", detail+" | stack: "+c.lastPanicStack)
		return
	}
	// arithmetic obligations
	if len(c.obligs) > 0 {
		c.w.stats.Obligations += len(c.obligs)
		all := make([]*Term, len(c.obligs))
		for i, o := range c.obligs {
			all[i] = o.t
		}
		if m := c.modelWith(mkNot(mkAnd(all...))); m != nil {
			// find the first failing obligation under the model
			which := c.obligs[0]
			for _, o := range c.obligs {
				if b, ok := o.t.eval(m).(bool); ok && !b {
					which = o
					break
				}
			}
			cex := c.mkCex("ARITH:"+which.why, "arith", m)
			cex.Detail = which.why + " at " + which.pos + ": " + which.t.SMT()
			ex.mu.Lock()
			if len(ex.res.Inconclusive) < 20 {
				ex.res.Inconclusive = append(ex.res.Inconclusive, Inconclusive{"ARITH", cex.Detail, append([]uint8(nil), c.decisions...)})
			}
			ex.mu.Unlock()
		} else {
			c.w.stats.ObligDischarged += len(c.obligs)
		}
	}
	// sampling for the concolic cross-check
	if ex.SampleEvery > 0 && pathHash(c.decisions, ex.Seed)%uint64(ex.SampleEvery) == 0 {
		ex.mu.Lock()
		room := len(ex.res.Samples) < ex.MaxSamples
		ex.mu.Unlock()
		if room {
			if m := c.modelWith(); m != nil {
				cex := c.mkCex("", "sample", m)
				ex.mu.Lock()
				if len(ex.res.Samples) < ex.MaxSamples {
					ex.res.Samples = append(ex.res.Samples, cex)
				}
				ex.mu.Unlock()
			}
		}
	}
}

// recordDischarged keeps the SMT-LIB text of an "unsat" verdict query for the second-solver pass
// (reservoir of CrossCheckMax queries).
func (c *pathCtx) recordDischarged(neg *Term) {
	ex := c.ex
	if ex.CrossCheckMax <= 0 {
		return
	}
	ex.mu.Lock()
	ex.xseen++
	n := ex.xseen
	slot := -1
	if len(ex.xqueries) < ex.CrossCheckMax {
		slot = len(ex.xqueries)
		ex.xqueries = append(ex.xqueries, "")
	} else if k := int(pathHash(c.decisions, int64(n)) % uint64(n)); k < ex.CrossCheckMax {
		slot = k
	}
	ex.mu.Unlock()
	if slot < 0 {
		return
	}
	var sb strings.Builder
	sb.WriteString("(push 1)\n")
	for _, d := range c.syms {
		if d.Sort == SBool {
			sb.WriteString("(declare-const " + quoteSym(d.Name) + " Bool)\n")
		} else {
			sb.WriteString("(declare-const " + quoteSym(d.Name) + " Int)\n")
		}
	}
	for _, t := range c.pc {
		sb.WriteString("(assert " + t.SMT() + ")\n")
	}
	sb.WriteString("(assert " + neg.SMT() + ")\n(check-sat)\n(pop 1)\n")
	ex.mu.Lock()
	ex.xqueries[slot] = sb.String()
	ex.mu.Unlock()
}

func (c *pathCtx) mkCex(assertion, kind string, m map[string]interface{}) *Cex {
	cex := &Cex{
		Property:  c.ex.Property,
		Harness:   c.ex.Fn.String(),
		Assertion: assertion,
		Kind:      kind,
		Decisions: append([]uint8(nil), c.decisions...),
		Tape:      c.tapeFrom(m),
		Facts:     map[string]bool{},
		Observed:  map[string]string{},
	}
	for n, t := range c.facts {
		if b, ok := t.eval(m).(bool); ok {
			cex.Facts[n] = b
		}
	}
	for _, o := range c.obs {
		cex.Observed[o.Name] = renderValue(o.v, m)
	}
	return cex
}

// regionTerm builds the term for a known-finding region on this path (false if a fact is undefined).
func (c *pathCtx) regionTerm(r Region) *Term {
	var cs []*Term
	names := make([]string, 0, len(r.Facts))
	for n := range r.Facts {
		names = append(names, n)
	}
	sort.Strings(names)
	for _, n := range names {
		t, ok := c.facts[n]
		if !ok {
			return tFalse
		}
		if r.Facts[n] {
			cs = append(cs, t)
		} else {
			cs = append(cs, mkNot(t))
		}
	}
	return mkAnd(cs...)
}

// reportFailure handles a failed (or possibly failing) assertion: cond is the
// condition under which it fails (in addition to the pc).
func (c *pathCtx) reportFailure(id string, failCond *Term, kind, detail string) {
	ex := c.ex
	var regs []*Term
	var regIdx []int
	for i, r := range ex.Regions {
		if r.Assertion == id {
			rt := c.regionTerm(r)
			regs = append(regs, rt)
			regIdx = append(regIdx, i)
		}
	}
	outside := mkAnd(failCond, mkNot(mkOr(regs...)))
	m := c.modelWith(outside)
	if m == nil {
		c.recordDischarged(outside)
	}
	if m != nil {
		cex := c.mkCex(id, kind, m)
		cex.Detail = detail
		ex.mu.Lock()
		ex.res.ViolCount[id]++
		if ex.res.ViolCount[id] <= 3 {
			ex.res.Violations = append(ex.res.Violations, cex)
		}
		ex.mu.Unlock()
	}
	for k, rt := range regs {
		if rt.Op == "bool" && !rt.B {
			continue
		}
		ex.mu.Lock()
		_, have := ex.res.Known[regIdx[k]]
		ex.mu.Unlock()
		if have {
			// still count occurrences cheaply: one sat query
			if c.solver().CheckWith(failCond, rt) == "sat" {
				ex.mu.Lock()
				ex.res.KnownCount[regIdx[k]]++
				ex.mu.Unlock()
			}
			continue
		}
		if m := c.modelWith(failCond, rt); m != nil {
			cex := c.mkCex(id, "known", m)
			cex.Region = regIdx[k]
			cex.Detail = detail
			ex.mu.Lock()
			if _, dup := ex.res.Known[regIdx[k]]; !dup {
				ex.res.Known[regIdx[k]] = cex
			}
			ex.res.KnownCount[regIdx[k]]++
			ex.mu.Unlock()
		}
	}
}

// crossCheck re-runs the recorded discharged queries with a second solver; every answer must be unsat.
func (ex *Explorer) crossCheck(r *HarnessResult) {
	kind := "cvc5"
	if ex.SolverKind == "cvc5" {
		kind = "z3"
	}
	r.CrossSolver = kind
	s, err := NewSolver(kind, ex.TimeoutMs)
	if err != nil {
		r.CrossDisagree = append(r.CrossDisagree, "cannot start "+kind+": "+err.Error())
		return
	}
	defer s.Close()
	for _, q := range ex.xqueries {
		if q == "" {
			continue
		}
		// strip the trailing check-sat/pop: use the pipe API for the answer
		body := strings.TrimSuffix(q, "(check-sat)\n(pop 1)\n")
		func() {
			defer func() {
				if rec := recover(); rec != nil {
					r.CrossDisagree = append(r.CrossDisagree, fmt.Sprint(rec))
				}
			}()
			s.send(strings.TrimSuffix(body, "\n"))
			s.depth++
			ans := s.Check()
			s.Pop()
			r.CrossChecked++
			if ans != "unsat" {
				msg := kind + " answered " + ans + " on a query z3 discharged"
				if len(s.Errors) > 0 {
					msg += ": " + s.Errors[0]
					s.Errors = nil
				}
				if len(r.CrossDisagree) < 5 {
					r.CrossDisagree = append(r.CrossDisagree, msg+"\n"+q)
				}
			}
		}()
	}
}
