// time.Time / time.Duration intrinsics (DESIGN §2.3).
//
// Representation of a time.Time value: structure{wall, ext, loc} as in package time,
// but wall is a tag: 1 = "normal" instant, ext = ns since the Unix epoch (Int term or int64);
// 0 = "ancient" instant, ext = ns since the zero Time (January 1, year 1).  The zero
// value {0,0,nil} is therefore the zero Time.  Ancient instants are earlier than every
// normal instant; the distance between the two families saturates like time.Sub does.
package interp

import (
	"fmt"
	"go/types"
	"math"
	"time"
)

func mkTimeVal(ns *Term) value {
	return structure{uint64(1), mkSym(ns, types.Int64), (*value)(nil)}
}

func mkAncient(ns *Term) value {
	return structure{uint64(0), mkSym(ns, types.Int64), (*value)(nil)}
}

func timeParts(v value) (normal bool, ns *Term) {
	s, ok := v.(structure)
	if !ok || len(s) != 3 {
		panic(engineAbort{"ENGINE", fmt.Sprintf("not a time.Time value: %T", v)})
	}
	w, ok := s[0].(uint64)
	if !ok {
		panic(engineAbort{"UNSUPPORTED", "time.Time with symbolic tag"})
	}
	t, _, ok := termOf(s[1])
	if !ok {
		panic(engineAbort{"ENGINE", "time.Time ext is not an integer"})
	}
	return w == 1, t
}

func durTerm(v value) *Term {
	t, _, ok := termOf(v)
	if !ok {
		panic(engineAbort{"ENGINE", fmt.Sprintf("not a duration: %T", v)})
	}
	return t
}

func timeLess(a, b value) *Term {
	an, at := timeParts(a)
	bn, bt := timeParts(b)
	switch {
	case an == bn:
		return mkLt(at, bt)
	case !an && bn:
		return tTrue
	default:
		return tFalse
	}
}

func timeEq(a, b value) *Term {
	an, at := timeParts(a)
	bn, bt := timeParts(b)
	if an != bn {
		return tFalse
	}
	return mkEq(at, bt)
}

func (c *pathCtx) now() value {
	// base + delta_k, 0 < delta_1 <= delta_2 <= ... < 1s
	lo := mkInt(1)
	d := c.newSym("now", SInt, "int")
	d.Lo, d.Hi = lo.I, mkInt(nsPerSec-1).I
	prev := c.lastNow
	if prev == nil {
		prev = lo
	}
	if c.model != nil {
		func() {
			defer func() {
				if recover() != nil {
					c.model = nil
				}
			}()
			c.model[d.Name] = prev.eval(c.model)
		}()
	}
	c.addPC(mkAnd(mkLe(prev, d.term), mkLe(d.term, mkInt(nsPerSec-1))))
	c.lastNow = d.term
	return mkTimeVal(mkAdd(d.term, mkInt(baseSec*nsPerSec)))
}

func registerTime() {
	intrinsics["time.Now"] = func(fr *frame, a []value) value { return fr.i.ctx.now() }
	intrinsics["(time.Time).Add"] = func(fr *frame, a []value) value {
		n, t := timeParts(a[0])
		r := mkAdd(t, durTerm(a[1]))
		fr.i.ctx.addOblig(inRangeTerm(r, types.Int64), fr.fn.String(), "time.Add result outside the engine's instant range")
		if n {
			return mkTimeVal(r)
		}
		return mkAncient(r)
	}
	intrinsics["(time.Time).Sub"] = func(fr *frame, a []value) value {
		an, at := timeParts(a[0])
		bn, bt := timeParts(a[1])
		switch {
		case an == bn:
			r := mkSub(at, bt)
			fr.i.ctx.addOblig(inRangeTerm(r, types.Int64), fr.fn.String(), "time.Sub saturates (distance > 292y)")
			return mkSym(r, types.Int64)
		case an && !bn:
			return int64(math.MaxInt64)
		default:
			return int64(math.MinInt64)
		}
	}
	intrinsics["time.Since"] = func(fr *frame, a []value) value {
		return intrinsics["(time.Time).Sub"](fr, []value{fr.i.ctx.now(), a[0]})
	}
	intrinsics["time.Until"] = func(fr *frame, a []value) value {
		return intrinsics["(time.Time).Sub"](fr, []value{a[0], fr.i.ctx.now()})
	}
	intrinsics["(time.Time).Before"] = func(fr *frame, a []value) value { return mkSym(timeLess(a[0], a[1]), types.Bool) }
	intrinsics["(time.Time).After"] = func(fr *frame, a []value) value { return mkSym(timeLess(a[1], a[0]), types.Bool) }
	intrinsics["(time.Time).Equal"] = func(fr *frame, a []value) value { return mkSym(timeEq(a[0], a[1]), types.Bool) }
	intrinsics["(time.Time).Compare"] = func(fr *frame, a []value) value {
		lt := timeLess(a[0], a[1])
		gt := timeLess(a[1], a[0])
		return mkSym(mkIte(lt, mkInt(-1), mkIte(gt, mkInt(1), mkInt(0))), types.Int)
	}
	intrinsics["(time.Time).IsZero"] = func(fr *frame, a []value) value {
		n, t := timeParts(a[0])
		if n {
			return false
		}
		return mkSym(mkEq(t, mkInt(0)), types.Bool)
	}
	intrinsics["(time.Time).Unix"] = func(fr *frame, a []value) value {
		n, t := timeParts(a[0])
		if !n {
			return int64(-62135596800)
		}
		// floor division; instants on analysed paths are after 1970
		return mkSym(mkTDiv(t, mkInt(nsPerSec)), types.Int64)
	}
	intrinsics["(time.Time).UnixNano"] = func(fr *frame, a []value) value {
		_, t := timeParts(a[0])
		return mkSym(t, types.Int64)
	}
	intrinsics["(time.Time).Second"] = func(fr *frame, a []value) value {
		n, t := timeParts(a[0])
		if !n {
			return 0
		}
		return mkSym(mkTMod(mkTDiv(t, mkInt(nsPerSec)), mkInt(60)), types.Int)
	}
	for _, m := range []string{"UTC", "Local", "Round", "Truncate"} {
		m := m
		intrinsics["(time.Time)."+m] = func(fr *frame, a []value) value {
			if m == "Round" || m == "Truncate" {
				// metav1.Time.Rfc3339Copy etc.: only with whole-second instants on analysed paths
				panic(engineAbort{"UNSUPPORTED", "time.Time." + m})
			}
			return a[0]
		}
	}
	intrinsics["(time.Time).In"] = func(fr *frame, a []value) value { return a[0] }
	intrinsics["(time.Time).String"] = func(fr *frame, a []value) value { return "<time>" }
	intrinsics["(time.Time).Format"] = func(fr *frame, a []value) value { return "<time>" }
	intrinsics["(time.Duration).String"] = func(fr *frame, a []value) value {
		if d, ok := a[0].(int64); ok {
			return time.Duration(d).String()
		}
		return "<duration>"
	}
	intrinsics["(time.Duration).Seconds"] = func(fr *frame, a []value) value {
		if d, ok := a[0].(int64); ok {
			return time.Duration(d).Seconds()
		}
		// symbolic: whole seconds (truncation); callers on analysed paths convert back to int
		return &symv{t: mkTDiv(durTerm(a[0]), mkInt(nsPerSec)), k: types.Float64}
	}
	intrinsics["(time.Duration).Minutes"] = func(fr *frame, a []value) value {
		if d, ok := a[0].(int64); ok {
			return time.Duration(d).Minutes()
		}
		panic(engineAbort{"UNSUPPORTED", "symbolic Duration.Minutes"})
	}
	intrinsics["time.Sleep"] = nop
}
