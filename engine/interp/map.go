// Deterministic insertion-ordered maps for the interpreter.
package interp

import (
	"fmt"
	"go/types"
)

type mentry struct {
	key, val value
	deleted  bool
}

// omap is the representation of every Go map value.  Iteration is in insertion
// order so that re-execution of a decision prefix is deterministic.
type omap struct {
	keyType types.Type
	builtin bool          // keys are usable as Go map keys (basic, pointer, chan)
	idx     map[value]int // builtin keys: key -> index in entries
	entries []*mentry
	n       int
}

func usesBuiltinMap(t types.Type) bool {
	switch t := t.(type) {
	case *types.Basic, *types.Chan, *types.Pointer:
		return true
	case *types.Named, *types.Alias:
		return usesBuiltinMap(t.Underlying())
	case *types.Interface, *types.Array, *types.Struct:
		return false
	}
	panic(fmt.Sprintf("invalid map key type: %T", t))
}

func makeMap(kt types.Type) *omap {
	m := &omap{keyType: kt, builtin: usesBuiltinMap(kt)}
	if m.builtin {
		m.idx = make(map[value]int)
	}
	return m
}

func checkConcreteKey(k value) {
	if _, ok := k.(*symv); ok {
		panic(engineAbort{"ENGINE", "symbolic map key reached the map implementation"})
	}
}

func (m *omap) find(k value) int {
	if m == nil {
		return -1
	}
	checkConcreteKey(k)
	if m.builtin {
		if i, ok := m.idx[k]; ok {
			return i
		}
		return -1
	}
	for i, e := range m.entries {
		if !e.deleted && equals(m.keyType, e.key, k) {
			return i
		}
	}
	return -1
}

func (m *omap) lookup(k value) (value, bool) {
	if i := m.find(k); i >= 0 {
		return m.entries[i].val, true
	}
	return nil, false
}

func (m *omap) insert(k, v value) {
	if i := m.find(k); i >= 0 {
		m.entries[i].val = v
		return
	}
	m.entries = append(m.entries, &mentry{key: k, val: v})
	if m.builtin {
		m.idx[k] = len(m.entries) - 1
	}
	m.n++
}

func (m *omap) delete(k value) {
	if i := m.find(k); i >= 0 {
		m.entries[i].deleted = true
		if m.builtin {
			delete(m.idx, k)
		}
		m.n--
	}
}

func (m *omap) len() int {
	if m == nil {
		return 0
	}
	return m.n
}

type omapIter struct {
	m *omap
	i int
}

func (it *omapIter) next() tuple {
	if it.m != nil {
		for it.i < len(it.m.entries) {
			e := it.m.entries[it.i]
			it.i++
			if !e.deleted {
				return tuple{true, e.key, e.val}
			}
		}
	}
	return tuple{false, nil, nil}
}
