// Copyright 2013 The Go Authors. All rights reserved.
// Use of this source code is governed by a BSD-style
// license that can be found in the LICENSE file.

package interp

import (
	"bytes"
	"fmt"
	"go/constant"
	"go/token"
	"go/types"
	"os"
	"strings"
	"unsafe"

	"golang.org/x/tools/go/ssa"
)

// If the target program panics, the interpreter panics with this type.
type targetPanic struct {
	v value
}

func (p targetPanic) String() string {
	return toString(p.v)
}

// If the target program calls exit, the interpreter panics with this type.
type exitPanic int

// constValue returns the value of the constant with the
// dynamic type tag appropriate for c.Type().
func constValue(c *ssa.Const) value {
	if c.Value == nil {
		return zero(c.Type()) // typed zero
	}
	// c is not a type parameter so it's underlying type is basic.

	if t, ok := c.Type().Underlying().(*types.Basic); ok {
		// TODO(adonovan): eliminate untyped constants from SSA form.
		switch t.Kind() {
		case types.Bool, types.UntypedBool:
			return constant.BoolVal(c.Value)
		case types.Int, types.UntypedInt:
			// Assume sizeof(int) is same on host and target.
			return int(c.Int64())
		case types.Int8:
			return int8(c.Int64())
		case types.Int16:
			return int16(c.Int64())
		case types.Int32, types.UntypedRune:
			return int32(c.Int64())
		case types.Int64:
			return c.Int64()
		case types.Uint:
			// Assume sizeof(uint) is same on host and target.
			return uint(c.Uint64())
		case types.Uint8:
			return uint8(c.Uint64())
		case types.Uint16:
			return uint16(c.Uint64())
		case types.Uint32:
			return uint32(c.Uint64())
		case types.Uint64:
			return c.Uint64()
		case types.Uintptr:
			// Assume sizeof(uintptr) is same on host and target.
			return uintptr(c.Uint64())
		case types.Float32:
			return float32(c.Float64())
		case types.Float64, types.UntypedFloat:
			return c.Float64()
		case types.Complex64:
			return complex64(c.Complex128())
		case types.Complex128, types.UntypedComplex:
			return c.Complex128()
		case types.String, types.UntypedString:
			if c.Value.Kind() == constant.String {
				return constant.StringVal(c.Value)
			}
			return string(rune(c.Int64()))
		}
	}

	panic(fmt.Sprintf("constValue: %s", c))
}

// fitsInt returns true if x fits in type int according to sizes.
func fitsInt(x int64, sizes types.Sizes) bool {
	intSize := sizes.Sizeof(types.Typ[types.Int])
	if intSize < sizes.Sizeof(types.Typ[types.Int64]) {
		maxInt := int64(1)<<((intSize*8)-1) - 1
		minInt := -int64(1) << ((intSize * 8) - 1)
		return minInt <= x && x <= maxInt
	}
	return true
}

// asInt64 converts x, which must be an integer, to an int64.
//
// Callers that need a value directly usable as an int should combine this with fitsInt().
func asInt64(x value) int64 {
	switch x := x.(type) {
	case int:
		return int64(x)
	case int8:
		return int64(x)
	case int16:
		return int64(x)
	case int32:
		return int64(x)
	case int64:
		return x
	case uint:
		return int64(x)
	case uint8:
		return int64(x)
	case uint16:
		return int64(x)
	case uint32:
		return int64(x)
	case uint64:
		return int64(x)
	case uintptr:
		return int64(x)
	}
	panic(fmt.Sprintf("cannot convert %T to int64", x))
}

// asUint64 converts x, which must be an unsigned integer, to a uint64
// suitable for use as a bitwise shift count.
func asUint64(x value) uint64 {
	switch x := x.(type) {
	case uint:
		return uint64(x)
	case uint8:
		return uint64(x)
	case uint16:
		return uint64(x)
	case uint32:
		return uint64(x)
	case uint64:
		return x
	case uintptr:
		return uint64(x)
	}
	panic(fmt.Sprintf("cannot convert %T to uint64", x))
}

// asUnsigned returns the value of x, which must be an integer type, as its equivalent unsigned type,
// and returns true if x is non-negative.
func asUnsigned(x value) (value, bool) {
	switch x := x.(type) {
	case int:
		return uint(x), x >= 0
	case int8:
		return uint8(x), x >= 0
	case int16:
		return uint16(x), x >= 0
	case int32:
		return uint32(x), x >= 0
	case int64:
		return uint64(x), x >= 0
	case uint, uint8, uint32, uint64, uintptr:
		return x, true
	}
	panic(fmt.Sprintf("cannot convert %T to unsigned", x))
}

// zero returns a new "zero" value of the specified type.
func zero(t types.Type) value {
	switch t := t.(type) {
	case *types.Basic:
		if t.Kind() == types.UntypedNil {
			panic("untyped nil has no zero value")
		}
		if t.Info()&types.IsUntyped != 0 {
			// TODO(adonovan): make it an invariant that
			// this is unreachable.  Currently some
			// constants have 'untyped' types when they
			// should be defaulted by the typechecker.
			t = types.Default(t).(*types.Basic)
		}
		switch t.Kind() {
		case types.Bool:
			return false
		case types.Int:
			return int(0)
		case types.Int8:
			return int8(0)
		case types.Int16:
			return int16(0)
		case types.Int32:
			return int32(0)
		case types.Int64:
			return int64(0)
		case types.Uint:
			return uint(0)
		case types.Uint8:
			return uint8(0)
		case types.Uint16:
			return uint16(0)
		case types.Uint32:
			return uint32(0)
		case types.Uint64:
			return uint64(0)
		case types.Uintptr:
			return uintptr(0)
		case types.Float32:
			return float32(0)
		case types.Float64:
			return float64(0)
		case types.Complex64:
			return complex64(0)
		case types.Complex128:
			return complex128(0)
		case types.String:
			return ""
		case types.UnsafePointer:
			return unsafe.Pointer(nil)
		default:
			panic(fmt.Sprint("zero for unexpected type:", t))
		}
	case *types.Pointer:
		return (*value)(nil)
	case *types.Array:
		a := make(array, t.Len())
		for i := range a {
			a[i] = zero(t.Elem())
		}
		return a
	case *types.Named:
		return zero(t.Underlying())
	case *types.Alias:
		return zero(types.Unalias(t))
	case *types.Interface:
		return iface{} // nil type, methodset and value
	case *types.Slice:
		return []value(nil)
	case *types.Struct:
		s := make(structure, t.NumFields())
		for i := range s {
			s[i] = zero(t.Field(i).Type())
		}
		return s
	case *types.Tuple:
		if t.Len() == 1 {
			return zero(t.At(0).Type())
		}
		s := make(tuple, t.Len())
		for i := range s {
			s[i] = zero(t.At(i).Type())
		}
		return s
	case *types.Chan:
		return (*chanObj)(nil)
	case *types.Map:
		return (*omap)(nil)
	case *types.Signature:
		return (*ssa.Function)(nil)
	}
	panic(fmt.Sprint("zero: unexpected ", t))
}

// slice returns x[lo:hi:max].  Any of lo, hi and max may be nil.  Symbolic
// bounds are concretised by forking over [0,cap]; out-of-range ends in a target panic.
func (fr *frame) slice(instr *ssa.Slice, x, lo, hi, max value) value {
	var Len, Cap int
	if sv, ok := x.(*symv); ok {
		x = fr.i.ctx.concStr(sv)
	}
	switch x := x.(type) {
	case string:
		Len = len(x)
		Cap = len(x)
	case []value:
		Len = len(x)
		Cap = cap(x)
	case *value: // *array
		if x == nil {
			fr.runtimePanic("runtime error: invalid memory address or nil pointer dereference")
		}
		a := (*x).(array)
		Len = len(a)
		Cap = cap(a)
	}

	m := int64(Cap)
	if max != nil {
		m = fr.concIndex(max, int64(Cap), "slice bounds")
	}
	h := int64(Len)
	if hi != nil {
		h = fr.concIndex(hi, m, "slice bounds")
	}
	l := int64(0)
	if lo != nil {
		l = fr.concIndex(lo, h, "slice bounds")
	}
	if l > h || h > m {
		fr.runtimePanic("runtime error: slice bounds out of range")
	}

	switch x := x.(type) {
	case string:
		return x[l:h]
	case []value:
		return x[l:h:m]
	case *value: // *array
		a := (*x).(array)
		return []value(a)[l:h:m]
	}
	panic(engineAbort{"ENGINE", fmt.Sprintf("slice: unexpected X type: %T", x)})
}

// lookup returns x[idx] where x is a map.
func lookup(fr *frame, instr *ssa.Lookup, x, idx value) value {
	switch x := x.(type) { // map
	case *omap:
		v, ok := x.lookup(fr.mapKey(idx))
		if !ok {
			v = zero(instr.X.Type().Underlying().(*types.Map).Elem())
		}
		if instr.CommaOk {
			v = tuple{v, ok}
		}
		return v
	}
	panic(engineAbort{"ENGINE", fmt.Sprintf("unexpected x type in Lookup: %T", x)})
}

// binop implements all arithmetic and logical binary operators for
// numeric datatypes and strings.  Both operands must have identical
// dynamic type.
func binop(fr *frame, instr ssa.Instruction, op token.Token, t types.Type, x, y value) value {
	if r, ok := symBinop(fr, instr, op, t, x, y); ok {
		return r
	}
	if (op == token.QUO || op == token.REM) {
		if _, _, isInt := termOf(y); isInt {
			if _, isStr := y.(string); !isStr {
				if _, isB := y.(bool); !isB && asInt64orU(y) == 0 {
					fr.runtimePanic("runtime error: integer divide by zero")
				}
			}
		}
	}
	switch op {
	case token.ADD:
		switch x.(type) {
		case int:
			return x.(int) + y.(int)
		case int8:
			return x.(int8) + y.(int8)
		case int16:
			return x.(int16) + y.(int16)
		case int32:
			return x.(int32) + y.(int32)
		case int64:
			return x.(int64) + y.(int64)
		case uint:
			return x.(uint) + y.(uint)
		case uint8:
			return x.(uint8) + y.(uint8)
		case uint16:
			return x.(uint16) + y.(uint16)
		case uint32:
			return x.(uint32) + y.(uint32)
		case uint64:
			return x.(uint64) + y.(uint64)
		case uintptr:
			return x.(uintptr) + y.(uintptr)
		case float32:
			return x.(float32) + y.(float32)
		case float64:
			return x.(float64) + y.(float64)
		case complex64:
			return x.(complex64) + y.(complex64)
		case complex128:
			return x.(complex128) + y.(complex128)
		case string:
			return x.(string) + y.(string)
		}

	case token.SUB:
		switch x.(type) {
		case int:
			return x.(int) - y.(int)
		case int8:
			return x.(int8) - y.(int8)
		case int16:
			return x.(int16) - y.(int16)
		case int32:
			return x.(int32) - y.(int32)
		case int64:
			return x.(int64) - y.(int64)
		case uint:
			return x.(uint) - y.(uint)
		case uint8:
			return x.(uint8) - y.(uint8)
		case uint16:
			return x.(uint16) - y.(uint16)
		case uint32:
			return x.(uint32) - y.(uint32)
		case uint64:
			return x.(uint64) - y.(uint64)
		case uintptr:
			return x.(uintptr) - y.(uintptr)
		case float32:
			return x.(float32) - y.(float32)
		case float64:
			return x.(float64) - y.(float64)
		case complex64:
			return x.(complex64) - y.(complex64)
		case complex128:
			return x.(complex128) - y.(complex128)
		}

	case token.MUL:
		switch x.(type) {
		case int:
			return x.(int) * y.(int)
		case int8:
			return x.(int8) * y.(int8)
		case int16:
			return x.(int16) * y.(int16)
		case int32:
			return x.(int32) * y.(int32)
		case int64:
			return x.(int64) * y.(int64)
		case uint:
			return x.(uint) * y.(uint)
		case uint8:
			return x.(uint8) * y.(uint8)
		case uint16:
			return x.(uint16) * y.(uint16)
		case uint32:
			return x.(uint32) * y.(uint32)
		case uint64:
			return x.(uint64) * y.(uint64)
		case uintptr:
			return x.(uintptr) * y.(uintptr)
		case float32:
			return x.(float32) * y.(float32)
		case float64:
			return x.(float64) * y.(float64)
		case complex64:
			return x.(complex64) * y.(complex64)
		case complex128:
			return x.(complex128) * y.(complex128)
		}

	case token.QUO:
		switch x.(type) {
		case int:
			return x.(int) / y.(int)
		case int8:
			return x.(int8) / y.(int8)
		case int16:
			return x.(int16) / y.(int16)
		case int32:
			return x.(int32) / y.(int32)
		case int64:
			return x.(int64) / y.(int64)
		case uint:
			return x.(uint) / y.(uint)
		case uint8:
			return x.(uint8) / y.(uint8)
		case uint16:
			return x.(uint16) / y.(uint16)
		case uint32:
			return x.(uint32) / y.(uint32)
		case uint64:
			return x.(uint64) / y.(uint64)
		case uintptr:
			return x.(uintptr) / y.(uintptr)
		case float32:
			return x.(float32) / y.(float32)
		case float64:
			return x.(float64) / y.(float64)
		case complex64:
			return x.(complex64) / y.(complex64)
		case complex128:
			return x.(complex128) / y.(complex128)
		}

	case token.REM:
		switch x.(type) {
		case int:
			return x.(int) % y.(int)
		case int8:
			return x.(int8) % y.(int8)
		case int16:
			return x.(int16) % y.(int16)
		case int32:
			return x.(int32) % y.(int32)
		case int64:
			return x.(int64) % y.(int64)
		case uint:
			return x.(uint) % y.(uint)
		case uint8:
			return x.(uint8) % y.(uint8)
		case uint16:
			return x.(uint16) % y.(uint16)
		case uint32:
			return x.(uint32) % y.(uint32)
		case uint64:
			return x.(uint64) % y.(uint64)
		case uintptr:
			return x.(uintptr) % y.(uintptr)
		}

	case token.AND:
		switch x.(type) {
		case int:
			return x.(int) & y.(int)
		case int8:
			return x.(int8) & y.(int8)
		case int16:
			return x.(int16) & y.(int16)
		case int32:
			return x.(int32) & y.(int32)
		case int64:
			return x.(int64) & y.(int64)
		case uint:
			return x.(uint) & y.(uint)
		case uint8:
			return x.(uint8) & y.(uint8)
		case uint16:
			return x.(uint16) & y.(uint16)
		case uint32:
			return x.(uint32) & y.(uint32)
		case uint64:
			return x.(uint64) & y.(uint64)
		case uintptr:
			return x.(uintptr) & y.(uintptr)
		}

	case token.OR:
		switch x.(type) {
		case int:
			return x.(int) | y.(int)
		case int8:
			return x.(int8) | y.(int8)
		case int16:
			return x.(int16) | y.(int16)
		case int32:
			return x.(int32) | y.(int32)
		case int64:
			return x.(int64) | y.(int64)
		case uint:
			return x.(uint) | y.(uint)
		case uint8:
			return x.(uint8) | y.(uint8)
		case uint16:
			return x.(uint16) | y.(uint16)
		case uint32:
			return x.(uint32) | y.(uint32)
		case uint64:
			return x.(uint64) | y.(uint64)
		case uintptr:
			return x.(uintptr) | y.(uintptr)
		}

	case token.XOR:
		switch x.(type) {
		case int:
			return x.(int) ^ y.(int)
		case int8:
			return x.(int8) ^ y.(int8)
		case int16:
			return x.(int16) ^ y.(int16)
		case int32:
			return x.(int32) ^ y.(int32)
		case int64:
			return x.(int64) ^ y.(int64)
		case uint:
			return x.(uint) ^ y.(uint)
		case uint8:
			return x.(uint8) ^ y.(uint8)
		case uint16:
			return x.(uint16) ^ y.(uint16)
		case uint32:
			return x.(uint32) ^ y.(uint32)
		case uint64:
			return x.(uint64) ^ y.(uint64)
		case uintptr:
			return x.(uintptr) ^ y.(uintptr)
		}

	case token.AND_NOT:
		switch x.(type) {
		case int:
			return x.(int) &^ y.(int)
		case int8:
			return x.(int8) &^ y.(int8)
		case int16:
			return x.(int16) &^ y.(int16)
		case int32:
			return x.(int32) &^ y.(int32)
		case int64:
			return x.(int64) &^ y.(int64)
		case uint:
			return x.(uint) &^ y.(uint)
		case uint8:
			return x.(uint8) &^ y.(uint8)
		case uint16:
			return x.(uint16) &^ y.(uint16)
		case uint32:
			return x.(uint32) &^ y.(uint32)
		case uint64:
			return x.(uint64) &^ y.(uint64)
		case uintptr:
			return x.(uintptr) &^ y.(uintptr)
		}

	case token.SHL:
		u, ok := asUnsigned(y)
		if !ok {
			panic("negative shift amount")
		}
		y := asUint64(u)
		switch x.(type) {
		case int:
			return x.(int) << y
		case int8:
			return x.(int8) << y
		case int16:
			return x.(int16) << y
		case int32:
			return x.(int32) << y
		case int64:
			return x.(int64) << y
		case uint:
			return x.(uint) << y
		case uint8:
			return x.(uint8) << y
		case uint16:
			return x.(uint16) << y
		case uint32:
			return x.(uint32) << y
		case uint64:
			return x.(uint64) << y
		case uintptr:
			return x.(uintptr) << y
		}

	case token.SHR:
		u, ok := asUnsigned(y)
		if !ok {
			panic("negative shift amount")
		}
		y := asUint64(u)
		switch x.(type) {
		case int:
			return x.(int) >> y
		case int8:
			return x.(int8) >> y
		case int16:
			return x.(int16) >> y
		case int32:
			return x.(int32) >> y
		case int64:
			return x.(int64) >> y
		case uint:
			return x.(uint) >> y
		case uint8:
			return x.(uint8) >> y
		case uint16:
			return x.(uint16) >> y
		case uint32:
			return x.(uint32) >> y
		case uint64:
			return x.(uint64) >> y
		case uintptr:
			return x.(uintptr) >> y
		}

	case token.LSS:
		switch x.(type) {
		case int:
			return x.(int) < y.(int)
		case int8:
			return x.(int8) < y.(int8)
		case int16:
			return x.(int16) < y.(int16)
		case int32:
			return x.(int32) < y.(int32)
		case int64:
			return x.(int64) < y.(int64)
		case uint:
			return x.(uint) < y.(uint)
		case uint8:
			return x.(uint8) < y.(uint8)
		case uint16:
			return x.(uint16) < y.(uint16)
		case uint32:
			return x.(uint32) < y.(uint32)
		case uint64:
			return x.(uint64) < y.(uint64)
		case uintptr:
			return x.(uintptr) < y.(uintptr)
		case float32:
			return x.(float32) < y.(float32)
		case float64:
			return x.(float64) < y.(float64)
		case string:
			return x.(string) < y.(string)
		}

	case token.LEQ:
		switch x.(type) {
		case int:
			return x.(int) <= y.(int)
		case int8:
			return x.(int8) <= y.(int8)
		case int16:
			return x.(int16) <= y.(int16)
		case int32:
			return x.(int32) <= y.(int32)
		case int64:
			return x.(int64) <= y.(int64)
		case uint:
			return x.(uint) <= y.(uint)
		case uint8:
			return x.(uint8) <= y.(uint8)
		case uint16:
			return x.(uint16) <= y.(uint16)
		case uint32:
			return x.(uint32) <= y.(uint32)
		case uint64:
			return x.(uint64) <= y.(uint64)
		case uintptr:
			return x.(uintptr) <= y.(uintptr)
		case float32:
			return x.(float32) <= y.(float32)
		case float64:
			return x.(float64) <= y.(float64)
		case string:
			return x.(string) <= y.(string)
		}

	case token.EQL:
		return mkSym(eqnil(t, x, y), types.Bool)

	case token.NEQ:
		return mkSym(mkNot(eqnil(t, x, y)), types.Bool)

	case token.GTR:
		switch x.(type) {
		case int:
			return x.(int) > y.(int)
		case int8:
			return x.(int8) > y.(int8)
		case int16:
			return x.(int16) > y.(int16)
		case int32:
			return x.(int32) > y.(int32)
		case int64:
			return x.(int64) > y.(int64)
		case uint:
			return x.(uint) > y.(uint)
		case uint8:
			return x.(uint8) > y.(uint8)
		case uint16:
			return x.(uint16) > y.(uint16)
		case uint32:
			return x.(uint32) > y.(uint32)
		case uint64:
			return x.(uint64) > y.(uint64)
		case uintptr:
			return x.(uintptr) > y.(uintptr)
		case float32:
			return x.(float32) > y.(float32)
		case float64:
			return x.(float64) > y.(float64)
		case string:
			return x.(string) > y.(string)
		}

	case token.GEQ:
		switch x.(type) {
		case int:
			return x.(int) >= y.(int)
		case int8:
			return x.(int8) >= y.(int8)
		case int16:
			return x.(int16) >= y.(int16)
		case int32:
			return x.(int32) >= y.(int32)
		case int64:
			return x.(int64) >= y.(int64)
		case uint:
			return x.(uint) >= y.(uint)
		case uint8:
			return x.(uint8) >= y.(uint8)
		case uint16:
			return x.(uint16) >= y.(uint16)
		case uint32:
			return x.(uint32) >= y.(uint32)
		case uint64:
			return x.(uint64) >= y.(uint64)
		case uintptr:
			return x.(uintptr) >= y.(uintptr)
		case float32:
			return x.(float32) >= y.(float32)
		case float64:
			return x.(float64) >= y.(float64)
		case string:
			return x.(string) >= y.(string)
		}
	}
	panic(fmt.Sprintf("invalid binary op: %T %s %T", x, op, y))
}

// eqnil returns the comparison x == y using the equivalence relation
// appropriate for type t.
// If t is a reference type, at most one of x or y may be a nil value
// of that type.
func eqnil(t types.Type, x, y value) *Term {
	switch t.Underlying().(type) {
	case *types.Map, *types.Signature, *types.Slice:
		// Since these types don't support comparison,
		// one of the operands must be a literal nil.
		isNil := func(v value) bool {
			switch v := v.(type) {
			case *omap:
				return v == nil
			case *ssa.Function:
				return v == nil
			case *closure:
				return v == nil
			case []value:
				return v == nil
			}
			panic(engineAbort{"ENGINE", fmt.Sprintf("eqnil(%s): illegal dynamic type: %T", t, v)})
		}
		return mkBool(isNil(x) && isNil(y))
	}

	return symEquals(t, x, y)
}

func unop(fr *frame, instr *ssa.UnOp, x value) value {
	if sv, ok := x.(*symv); ok {
		switch instr.Op {
		case token.NOT:
			return mkSym(mkNot(sv.t), types.Bool)
		case token.SUB:
			if sv.k == types.Float64 {
				panic(engineAbort{"UNSUPPORTED", "negation of symbolic float"})
			}
			r := mkNeg(sv.t)
			fr.i.ctx.addOblig(inRangeTerm(r, sv.k), fr.pos(instr), "overflow in negation")
			return mkSym(r, sv.k)
		}
		panic(engineAbort{"UNSUPPORTED", fmt.Sprintf("unary %s on symbolic value at %s", instr.Op, fr.pos(instr))})
	}
	switch instr.Op {
	case token.ARROW: // receive
		v, ok := x.(*chanObj).recv(fr, instr.X.Type().Underlying().(*types.Chan).Elem())
		if instr.CommaOk {
			v = tuple{v, ok}
		}
		return v
	case token.SUB:
		switch x := x.(type) {
		case int:
			return -x
		case int8:
			return -x
		case int16:
			return -x
		case int32:
			return -x
		case int64:
			return -x
		case uint:
			return -x
		case uint8:
			return -x
		case uint16:
			return -x
		case uint32:
			return -x
		case uint64:
			return -x
		case uintptr:
			return -x
		case float32:
			return -x
		case float64:
			return -x
		case complex64:
			return -x
		case complex128:
			return -x
		}
	case token.MUL:
		if x.(*value) == nil {
			fr.runtimePanic("runtime error: invalid memory address or nil pointer dereference")
		}
		fr.raceRead(x.(*value))
		return load(mustDeref(instr.X.Type()), x.(*value))
	case token.NOT:
		return !x.(bool)
	case token.XOR:
		switch x := x.(type) {
		case int:
			return ^x
		case int8:
			return ^x
		case int16:
			return ^x
		case int32:
			return ^x
		case int64:
			return ^x
		case uint:
			return ^x
		case uint8:
			return ^x
		case uint16:
			return ^x
		case uint32:
			return ^x
		case uint64:
			return ^x
		case uintptr:
			return ^x
		}
	}
	panic(fmt.Sprintf("invalid unary op %s %T", instr.Op, x))
}

// typeAssert checks whether dynamic type of itf is instr.AssertedType.
// It returns the extracted value on success, and panics on failure,
// unless instr.CommaOk, in which case it always returns a "value,ok" tuple.
func typeAssert(fr *frame, instr *ssa.TypeAssert, itf iface) value {
	i := fr.i
	var v value
	err := ""
	if itf.t == nil {
		err = fmt.Sprintf("interface conversion: interface is nil, not %s", instr.AssertedType)

	} else if idst, ok := instr.AssertedType.Underlying().(*types.Interface); ok {
		v = itf
		err = checkInterface(i, idst, itf)

	} else if types.Identical(itf.t, instr.AssertedType) {
		v = itf.v // extract value

	} else {
		err = fmt.Sprintf("interface conversion: interface is %s, not %s", itf.t, instr.AssertedType)
	}
	// Note: if instr.Underlying==true ever becomes reachable from interp check that
	// types.Identical(itf.t.Underlying(), instr.AssertedType)

	if err != "" {
		if !instr.CommaOk {
			fr.runtimePanic(err)
		}
		return tuple{zero(instr.AssertedType), false}
	}
	if instr.CommaOk {
		return tuple{v, true}
	}
	return v
}

// callBuiltin interprets a call to builtin fn with arguments args,
// returning its result.
func callBuiltin(caller *frame, callpos token.Pos, fn *ssa.Builtin, args []value) value {
	switch fn.Name() {
	case "append":
		if len(args) == 1 {
			return args[0]
		}
		if sv, ok := args[1].(*symv); ok {
			args[1] = caller.i.ctx.concStr(sv)
		}
		if s, ok := args[1].(string); ok {
			// append([]byte, ...string) []byte
			arg0 := args[0].([]value)
			for i := 0; i < len(s); i++ {
				arg0 = append(arg0, s[i])
			}
			return arg0
		}
		// append([]T, ...[]T) []T
		return append(args[0].([]value), args[1].([]value)...)

	case "copy": // copy([]T, []T) int or copy([]byte, string) int
		src := args[1]
		if sv, ok := src.(*symv); ok {
			src = caller.i.ctx.concStr(sv)
		}
		if s, ok := src.(string); ok {
			var res []value
			for _, b := range []byte(s) {
				res = append(res, b)
			}
			src = res
		}
		return copy(args[0].([]value), src.([]value))

	case "close": // close(chan T)
		ch := args[0].(*chanObj)
		if ch == nil || ch.closed {
			caller.runtimePanic("close of nil or closed channel")
		}
		ch.closed = true
		return nil

	case "delete": // delete(map[K]value, K)
		switch m := args[0].(type) {
		case *omap:
			if m != nil {
				m.delete(caller.mapKey(args[1]))
			}
		default:
			panic(engineAbort{"ENGINE", fmt.Sprintf("illegal map type: %T", m)})
		}
		return nil

	case "print", "println": // print(any, ...)
		ln := fn.Name() == "println"
		var buf bytes.Buffer
		for i, arg := range args {
			if i > 0 && ln {
				buf.WriteRune(' ')
			}
			buf.WriteString(toString(arg))
		}
		if ln {
			buf.WriteRune('\n')
		}
		os.Stderr.Write(buf.Bytes())
		return nil

	case "len":
		switch x := args[0].(type) {
		case string:
			return len(x)
		case *symv:
			return len(caller.i.ctx.concStr(x))
		case array:
			return len(x)
		case *value:
			return len((*x).(array))
		case []value:
			return len(x)
		case *omap:
			return x.len()
		case *chanObj:
			if x == nil {
				return 0
			}
			return len(x.q)
		default:
			panic(engineAbort{"ENGINE", fmt.Sprintf("len: illegal operand: %T", x)})
		}

	case "cap":
		switch x := args[0].(type) {
		case array:
			return cap(x)
		case *value:
			return cap((*x).(array))
		case []value:
			return cap(x)
		case *chanObj:
			if x == nil {
				return 0
			}
			return x.cap
		default:
			panic(engineAbort{"ENGINE", fmt.Sprintf("cap: illegal operand: %T", x)})
		}

	case "min":
		return foldLeft(func(a, b value) value { return symMinMax(caller, a, b, true) }, args)
	case "max":
		return foldLeft(func(a, b value) value { return symMinMax(caller, a, b, false) }, args)

	case "panic":
		// ssa.Panic handles most cases; this is only for "go
		// panic" or "defer panic".
		panic(targetPanic{args[0]})

	case "recover":
		return doRecover(caller)

	case "ssa:wrapnilchk":
		recv := args[0]
		if recv.(*value) == nil {
			recvType := args[1]
			methodName := args[2]
			caller.runtimePanic(fmt.Sprintf("value method (%s).%s called using nil *%s pointer",
				recvType, methodName, recvType))
		}
		return recv

	case "ssa:deferstack":
		return &caller.defers
	}

	panic(engineAbort{"UNSUPPORTED", "unknown built-in: " + fn.Name()})
}

func symMinMax(fr *frame, a, b value, isMin bool) value {
	_, aSym := a.(*symv)
	_, bSym := b.(*symv)
	if !aSym && !bSym {
		if isMin {
			return min(a, b)
		}
		return max(a, b)
	}
	ta, k, _ := termOf(a)
	tb, _, _ := termOf(b)
	if !isIntKind(k) {
		panic(engineAbort{"UNSUPPORTED", "min/max on symbolic non-integer"})
	}
	if isMin {
		return mkSym(mkIte(mkLe(ta, tb), ta, tb), k)
	}
	return mkSym(mkIte(mkLe(ta, tb), tb, ta), k)
}

func rangeIter(fr *frame, x value, t types.Type) iter {
	switch x := x.(type) {
	case *omap:
		return &omapIter{m: x}
	case string:
		return &stringIter{Reader: strings.NewReader(x)}
	case *symv:
		return &stringIter{Reader: strings.NewReader(fr.i.ctx.concStr(x))}
	}
	panic(engineAbort{"ENGINE", fmt.Sprintf("cannot range over %T", x)})
}

// widen widens a basic typed value x to the widest type of its
// category, one of:
//
//	bool, int64, uint64, float64, complex128, string.
//
// This is inefficient but reduces the size of the cross-product of
// cases we have to consider.
func widen(x value) value {
	switch y := x.(type) {
	case bool, int64, uint64, float64, complex128, string, unsafe.Pointer:
		return x
	case int:
		return int64(y)
	case int8:
		return int64(y)
	case int16:
		return int64(y)
	case int32:
		return int64(y)
	case uint:
		return uint64(y)
	case uint8:
		return uint64(y)
	case uint16:
		return uint64(y)
	case uint32:
		return uint64(y)
	case uintptr:
		return uint64(y)
	case float32:
		return float64(y)
	case complex64:
		return complex128(y)
	}
	panic(fmt.Sprintf("cannot widen %T", x))
}

// conv converts the value x of type t_src to type t_dst and returns
// the result.
// Possible cases are described with the ssa.Convert operator.
func conv(fr *frame, instr ssa.Instruction, t_dst, t_src types.Type, x value) value {
	ut_src := t_src.Underlying()
	ut_dst := t_dst.Underlying()
	if sv, ok := x.(*symv); ok {
		return symConv(fr, instr, ut_dst, ut_src, sv)
	}

	// Destination type is not an "untyped" type.
	if b, ok := ut_dst.(*types.Basic); ok && b.Info()&types.IsUntyped != 0 {
		panic("oops: conversion to 'untyped' type: " + b.String())
	}

	// Nor is it an interface type.
	if _, ok := ut_dst.(*types.Interface); ok {
		if _, ok := ut_src.(*types.Interface); ok {
			panic("oops: Convert should be ChangeInterface")
		} else {
			panic("oops: Convert should be MakeInterface")
		}
	}

	// Remaining conversions:
	//    + untyped string/number/bool constant to a specific
	//      representation.
	//    + conversions between non-complex numeric types.
	//    + conversions between complex numeric types.
	//    + integer/[]byte/[]rune -> string.
	//    + string -> []byte/[]rune.
	//
	// All are treated the same: first we extract the value to the
	// widest representation (int64, uint64, float64, complex128,
	// or string), then we convert it to the desired type.

	switch ut_src := ut_src.(type) {
	case *types.Pointer:
		switch ut_dst := ut_dst.(type) {
		case *types.Basic:
			// *value to unsafe.Pointer?
			if ut_dst.Kind() == types.UnsafePointer {
				return unsafe.Pointer(x.(*value))
			}
		}

	case *types.Slice:
		// []byte or []rune -> string
		switch ut_src.Elem().Underlying().(*types.Basic).Kind() {
		case types.Byte:
			x := x.([]value)
			b := make([]byte, 0, len(x))
			for i := range x {
				b = append(b, x[i].(byte))
			}
			return string(b)

		case types.Rune:
			x := x.([]value)
			r := make([]rune, 0, len(x))
			for i := range x {
				r = append(r, x[i].(rune))
			}
			return string(r)
		}

	case *types.Basic:
		x = widen(x)

		// integer -> string?
		if ut_src.Info()&types.IsInteger != 0 {
			if ut_dst, ok := ut_dst.(*types.Basic); ok && ut_dst.Kind() == types.String {
				return fmt.Sprintf("%c", x)
			}
		}

		// string -> []rune, []byte or string?
		if s, ok := x.(string); ok {
			switch ut_dst := ut_dst.(type) {
			case *types.Slice:
				var res []value
				switch ut_dst.Elem().Underlying().(*types.Basic).Kind() {
				case types.Rune:
					for _, r := range []rune(s) {
						res = append(res, r)
					}
					return res
				case types.Byte:
					for _, b := range []byte(s) {
						res = append(res, b)
					}
					return res
				}
			case *types.Basic:
				if ut_dst.Kind() == types.String {
					return x.(string)
				}
			}
			break // fail: no other conversions for string
		}

		// unsafe.Pointer -> *value
		if ut_src.Kind() == types.UnsafePointer {
			// TODO(adonovan): this is wrong and cannot
			// really be fixed with the current design.
			//
			// return (*value)(x.(unsafe.Pointer))
			// creates a new pointer of a different
			// type but the underlying interface value
			// knows its "true" type and so cannot be
			// meaningfully used through the new pointer.
			//
			// To make this work, the interpreter needs to
			// simulate the memory layout of a real
			// compiled implementation.
			//
			// To at least preserve type-safety, we'll
			// just return the zero value of the
			// destination type.
			return zero(t_dst)
		}

		// Conversions between complex numeric types?
		if ut_src.Info()&types.IsComplex != 0 {
			switch ut_dst.(*types.Basic).Kind() {
			case types.Complex64:
				return complex64(x.(complex128))
			case types.Complex128:
				return x.(complex128)
			}
			break // fail: no other conversions for complex
		}

		// Conversions between non-complex numeric types?
		if ut_src.Info()&types.IsNumeric != 0 {
			kind := ut_dst.(*types.Basic).Kind()
			switch x := x.(type) {
			case int64: // signed integer -> numeric?
				switch kind {
				case types.Int:
					return int(x)
				case types.Int8:
					return int8(x)
				case types.Int16:
					return int16(x)
				case types.Int32:
					return int32(x)
				case types.Int64:
					return int64(x)
				case types.Uint:
					return uint(x)
				case types.Uint8:
					return uint8(x)
				case types.Uint16:
					return uint16(x)
				case types.Uint32:
					return uint32(x)
				case types.Uint64:
					return uint64(x)
				case types.Uintptr:
					return uintptr(x)
				case types.Float32:
					return float32(x)
				case types.Float64:
					return float64(x)
				}

			case uint64: // unsigned integer -> numeric?
				switch kind {
				case types.Int:
					return int(x)
				case types.Int8:
					return int8(x)
				case types.Int16:
					return int16(x)
				case types.Int32:
					return int32(x)
				case types.Int64:
					return int64(x)
				case types.Uint:
					return uint(x)
				case types.Uint8:
					return uint8(x)
				case types.Uint16:
					return uint16(x)
				case types.Uint32:
					return uint32(x)
				case types.Uint64:
					return uint64(x)
				case types.Uintptr:
					return uintptr(x)
				case types.Float32:
					return float32(x)
				case types.Float64:
					return float64(x)
				}

			case float64: // floating point -> numeric?
				switch kind {
				case types.Int:
					return int(x)
				case types.Int8:
					return int8(x)
				case types.Int16:
					return int16(x)
				case types.Int32:
					return int32(x)
				case types.Int64:
					return int64(x)
				case types.Uint:
					return uint(x)
				case types.Uint8:
					return uint8(x)
				case types.Uint16:
					return uint16(x)
				case types.Uint32:
					return uint32(x)
				case types.Uint64:
					return uint64(x)
				case types.Uintptr:
					return uintptr(x)
				case types.Float32:
					return float32(x)
				case types.Float64:
					return float64(x)
				}
			}
		}
	}

	panic(fmt.Sprintf("unsupported conversion: %s  -> %s, dynamic type %T", t_src, t_dst, x))
}

// sliceToArrayPointer converts the value x of type slice to type t_dst
// a pointer to array and returns the result.
func sliceToArrayPointer(t_dst, t_src types.Type, x value) value {
	if _, ok := t_src.Underlying().(*types.Slice); ok {
		if ptr, ok := t_dst.Underlying().(*types.Pointer); ok {
			if arr, ok := ptr.Elem().Underlying().(*types.Array); ok {
				x := x.([]value)
				if arr.Len() > int64(len(x)) {
					panic("array length is greater than slice length")
				}
				if x == nil {
					return zero(t_dst)
				}
				v := value(array(x[:arr.Len()]))
				return &v
			}
		}
	}

	panic(fmt.Sprintf("unsupported conversion: %s  -> %s, dynamic type %T", t_src, t_dst, x))
}

// checkInterface checks that the method set of x implements the
// interface itype.
// On success it returns "", on failure, an error message.
func checkInterface(i *interpreter, itype *types.Interface, x iface) string {
	_ = i
	if meth, _ := types.MissingMethod(x.t, itype, true); meth != nil {
		return fmt.Sprintf("interface conversion: %v is not %v: missing method %s",
			x.t, itype, meth.Name())
	}
	return "" // ok
}

func foldLeft(op func(value, value) value, args []value) value {
	x := args[0]
	for _, arg := range args[1:] {
		x = op(x, arg)
	}
	return x
}

func min(x, y value) value {
	switch x := x.(type) {
	case float32:
		return fmin(x, y.(float32))
	case float64:
		return fmin(x, y.(float64))
	}

	// return (y < x) ? y : x
	if binop(nil, nil, token.LSS, nil, y, x).(bool) {
		return y
	}
	return x
}

func max(x, y value) value {
	switch x := x.(type) {
	case float32:
		return fmax(x, y.(float32))
	case float64:
		return fmax(x, y.(float64))
	}

	// return (y > x) ? y : x
	if binop(nil, nil, token.GTR, nil, y, x).(bool) {
		return y
	}
	return x
}

// copied from $GOROOT/src/runtime/minmax.go

type floaty interface{ ~float32 | ~float64 }

func fmin[F floaty](x, y F) F {
	if y != y || y < x {
		return y
	}
	if x != x || x < y || x != 0 {
		return x
	}
	// x and y are both ±0
	// if either is -0, return -0; else return +0
	return forbits(x, y)
}

func fmax[F floaty](x, y F) F {
	if y != y || y > x {
		return y
	}
	if x != x || x > y || x != 0 {
		return x
	}
	// x and y are both ±0
	// if both are -0, return -0; else return +0
	return fandbits(x, y)
}

func forbits[F floaty](x, y F) F {
	switch unsafe.Sizeof(x) {
	case 4:
		*(*uint32)(unsafe.Pointer(&x)) |= *(*uint32)(unsafe.Pointer(&y))
	case 8:
		*(*uint64)(unsafe.Pointer(&x)) |= *(*uint64)(unsafe.Pointer(&y))
	}
	return x
}

func fandbits[F floaty](x, y F) F {
	switch unsafe.Sizeof(x) {
	case 4:
		*(*uint32)(unsafe.Pointer(&x)) &= *(*uint32)(unsafe.Pointer(&y))
	case 8:
		*(*uint64)(unsafe.Pointer(&x)) &= *(*uint64)(unsafe.Pointer(&y))
	}
	return x
}
