// Symbolic terms (SMT sorts Int and Bool) with constant folding and SMT-LIB2 printing.
package interp

import (
	"fmt"
	"math/big"
	"strings"
)

type Sort uint8

const (
	SInt Sort = iota
	SBool
)

// Term is an immutable expression DAG node.
type Term struct {
	Op   string // var int bool + - * tdiv tmod neg ite = < <= and or not
	Args []*Term
	I    *big.Int // Op=="int"
	B    bool     // Op=="bool"
	Name string   // Op=="var"
	S    Sort
}

var (
	tTrue  = &Term{Op: "bool", B: true, S: SBool}
	tFalse = &Term{Op: "bool", B: false, S: SBool}
)

func mkBool(b bool) *Term {
	if b {
		return tTrue
	}
	return tFalse
}
func mkInt(i int64) *Term     { return &Term{Op: "int", I: big.NewInt(i), S: SInt} }
func mkBig(i *big.Int) *Term  { return &Term{Op: "int", I: new(big.Int).Set(i), S: SInt} }
func mkUint(i uint64) *Term   { return &Term{Op: "int", I: new(big.Int).SetUint64(i), S: SInt} }
func mkVar(n string, s Sort) *Term { return &Term{Op: "var", Name: n, S: s} }

func (t *Term) isConst() bool { return t.Op == "int" || t.Op == "bool" }

func mkAdd(a, b *Term) *Term {
	if a.Op == "int" && b.Op == "int" {
		return mkBig(new(big.Int).Add(a.I, b.I))
	}
	if a.Op == "int" && a.I.Sign() == 0 {
		return b
	}
	if b.Op == "int" && b.I.Sign() == 0 {
		return a
	}
	// (x + c1) + c2 -> x + (c1+c2)
	if b.Op == "int" && a.Op == "+" && a.Args[1].Op == "int" {
		return mkAdd(a.Args[0], mkBig(new(big.Int).Add(a.Args[1].I, b.I)))
	}
	if a.Op == "int" && b.Op != "int" {
		a, b = b, a
	}
	return &Term{Op: "+", Args: []*Term{a, b}, S: SInt}
}

func mkSub(a, b *Term) *Term {
	if a.Op == "int" && b.Op == "int" {
		return mkBig(new(big.Int).Sub(a.I, b.I))
	}
	if b.Op == "int" {
		return mkAdd(a, mkBig(new(big.Int).Neg(b.I)))
	}
	if a == b {
		return mkInt(0)
	}
	// (x + c) - x  -> c ; (x + c1) - (x + c2) -> c1-c2
	ax, ac := splitConst(a)
	bx, bc := splitConst(b)
	if ax == bx {
		return mkBig(new(big.Int).Sub(ac, bc))
	}
	return &Term{Op: "-", Args: []*Term{a, b}, S: SInt}
}

var bigZero = big.NewInt(0)

func splitConst(a *Term) (*Term, *big.Int) {
	if a.Op == "+" && a.Args[1].Op == "int" {
		return a.Args[0], a.Args[1].I
	}
	return a, bigZero
}

func mkNeg(a *Term) *Term {
	if a.Op == "int" {
		return mkBig(new(big.Int).Neg(a.I))
	}
	return &Term{Op: "neg", Args: []*Term{a}, S: SInt}
}

func mkMul(a, b *Term) *Term {
	if a.Op == "int" && b.Op == "int" {
		return mkBig(new(big.Int).Mul(a.I, b.I))
	}
	for _, p := range [][2]*Term{{a, b}, {b, a}} {
		if p[0].Op == "int" {
			if p[0].I.Sign() == 0 {
				return mkInt(0)
			}
			if p[0].I.Cmp(big.NewInt(1)) == 0 {
				return p[1]
			}
		}
	}
	return &Term{Op: "*", Args: []*Term{a, b}, S: SInt}
}

// truncated (Go) division; b must be known non-zero on the path
func mkTDiv(a, b *Term) *Term {
	if a.Op == "int" && b.Op == "int" && b.I.Sign() != 0 {
		return mkBig(new(big.Int).Quo(a.I, b.I))
	}
	if b.Op == "int" && b.I.Cmp(big.NewInt(1)) == 0 {
		return a
	}
	return &Term{Op: "tdiv", Args: []*Term{a, b}, S: SInt}
}

func mkTMod(a, b *Term) *Term {
	if a.Op == "int" && b.Op == "int" && b.I.Sign() != 0 {
		return mkBig(new(big.Int).Rem(a.I, b.I))
	}
	return &Term{Op: "tmod", Args: []*Term{a, b}, S: SInt}
}

func mkIte(c, a, b *Term) *Term {
	if c.Op == "bool" {
		if c.B {
			return a
		}
		return b
	}
	if a == b {
		return a
	}
	if a.S == SBool {
		if a.Op == "bool" && b.Op == "bool" {
			if a.B && !b.B {
				return c
			}
			if !a.B && b.B {
				return mkNot(c)
			}
		}
	}
	if a.Op == "int" && b.Op == "int" && a.I.Cmp(b.I) == 0 {
		return a
	}
	return &Term{Op: "ite", Args: []*Term{c, a, b}, S: a.S}
}

func mkEq(a, b *Term) *Term {
	if a == b {
		return tTrue
	}
	if a.Op == "int" && b.Op == "int" {
		return mkBool(a.I.Cmp(b.I) == 0)
	}
	if a.Op == "bool" && b.Op == "bool" {
		return mkBool(a.B == b.B)
	}
	if a.S == SBool {
		if a.Op == "bool" {
			a, b = b, a
		}
		if b.Op == "bool" {
			if b.B {
				return a
			}
			return mkNot(a)
		}
	}
	// ite(c, k1, k2) == k  with constants
	if b.Op == "int" && a.Op == "ite" && a.Args[1].Op == "int" && a.Args[2].Op == "int" {
		return mkIte(a.Args[0], mkEq(a.Args[1], b), mkEq(a.Args[2], b))
	}
	if a.Op == "int" && b.Op == "ite" && b.Args[1].Op == "int" && b.Args[2].Op == "int" {
		return mkIte(b.Args[0], mkEq(b.Args[1], a), mkEq(b.Args[2], a))
	}
	ax, ac := splitConst(a)
	bx, bc := splitConst(b)
	if ax == bx && a.S == SInt {
		return mkBool(ac.Cmp(bc) == 0)
	}
	return &Term{Op: "=", Args: []*Term{a, b}, S: SBool}
}

func mkLt(a, b *Term) *Term {
	if a.Op == "int" && b.Op == "int" {
		return mkBool(a.I.Cmp(b.I) < 0)
	}
	if a == b {
		return tFalse
	}
	ax, ac := splitConst(a)
	bx, bc := splitConst(b)
	if ax == bx {
		return mkBool(ac.Cmp(bc) < 0)
	}
	return &Term{Op: "<", Args: []*Term{a, b}, S: SBool}
}

func mkLe(a, b *Term) *Term {
	if a.Op == "int" && b.Op == "int" {
		return mkBool(a.I.Cmp(b.I) <= 0)
	}
	if a == b {
		return tTrue
	}
	ax, ac := splitConst(a)
	bx, bc := splitConst(b)
	if ax == bx {
		return mkBool(ac.Cmp(bc) <= 0)
	}
	return &Term{Op: "<=", Args: []*Term{a, b}, S: SBool}
}

func mkNot(a *Term) *Term {
	if a.Op == "bool" {
		return mkBool(!a.B)
	}
	if a.Op == "not" {
		return a.Args[0]
	}
	return &Term{Op: "not", Args: []*Term{a}, S: SBool}
}

func mkAnd(ts ...*Term) *Term {
	var out []*Term
	for _, t := range ts {
		if t.Op == "bool" {
			if !t.B {
				return tFalse
			}
			continue
		}
		if t.Op == "and" {
			out = append(out, t.Args...)
			continue
		}
		out = append(out, t)
	}
	switch len(out) {
	case 0:
		return tTrue
	case 1:
		return out[0]
	}
	return &Term{Op: "and", Args: out, S: SBool}
}

func mkOr(ts ...*Term) *Term {
	var out []*Term
	for _, t := range ts {
		if t.Op == "bool" {
			if t.B {
				return tTrue
			}
			continue
		}
		if t.Op == "or" {
			out = append(out, t.Args...)
			continue
		}
		out = append(out, t)
	}
	switch len(out) {
	case 0:
		return tFalse
	case 1:
		return out[0]
	}
	return &Term{Op: "or", Args: out, S: SBool}
}

func mkImplies(a, b *Term) *Term { return mkOr(mkNot(a), b) }

func quoteSym(n string) string { return "|" + n + "|" }

func smtInt(i *big.Int) string {
	if i.Sign() < 0 {
		return "(- " + new(big.Int).Neg(i).String() + ")"
	}
	return i.String()
}

// smt prints the term as SMT-LIB2. Shared sub-DAGs are printed repeatedly;
// terms on the analysed paths are small (guarded by the size counter).
func (t *Term) smt(sb *strings.Builder, budget *int) {
	*budget--
	if *budget < 0 {
		panic(engineAbort{"UNSUPPORTED", "term too large to print"})
	}
	switch t.Op {
	case "var":
		sb.WriteString(quoteSym(t.Name))
	case "int":
		sb.WriteString(smtInt(t.I))
	case "bool":
		if t.B {
			sb.WriteString("true")
		} else {
			sb.WriteString("false")
		}
	case "neg":
		sb.WriteString("(- ")
		t.Args[0].smt(sb, budget)
		sb.WriteString(")")
	case "tdiv", "tmod":
		// Go: truncated toward zero.  SMT-LIB div/mod: floor for positive divisor,
		// remainder always non-negative.  q = sgn(a)*sgn(b)*(|a| div |b|)
		var a, b strings.Builder
		t.Args[0].smt(&a, budget)
		t.Args[1].smt(&b, budget)
		as, bs := a.String(), b.String()
		absA := "(ite (>= " + as + " 0) " + as + " (- " + as + "))"
		absB := "(ite (>= " + bs + " 0) " + bs + " (- " + bs + "))"
		if t.Args[1].Op == "int" {
			absB = smtInt(new(big.Int).Abs(t.Args[1].I))
		}
		if t.Op == "tdiv" {
			q := "(div " + absA + " " + absB + ")"
			sameSign := "(= (>= " + as + " 0) (>= " + bs + " 0))"
			if t.Args[1].Op == "int" {
				if t.Args[1].I.Sign() > 0 {
					sameSign = "(>= " + as + " 0)"
				} else {
					sameSign = "(< " + as + " 0)"
				}
			}
			sb.WriteString("(ite " + sameSign + " " + q + " (- " + q + "))")
		} else {
			r := "(mod " + absA + " " + absB + ")"
			sb.WriteString("(ite (>= " + as + " 0) " + r + " (- " + r + "))")
		}
	default:
		op := t.Op
		sb.WriteString("(" + op)
		for _, a := range t.Args {
			sb.WriteString(" ")
			a.smt(sb, budget)
		}
		sb.WriteString(")")
	}
}

func (t *Term) SMT() string {
	var sb strings.Builder
	budget := 200000
	t.smt(&sb, &budget)
	return sb.String()
}

func (t *Term) String() string { return t.SMT() }

// eval evaluates the term under a model (var name -> *big.Int or bool).
func (t *Term) eval(m map[string]interface{}) interface{} {
	switch t.Op {
	case "var":
		v, ok := m[t.Name]
		if !ok {
			if t.S == SBool {
				return false
			}
			return big.NewInt(0)
		}
		return v
	case "int":
		return t.I
	case "bool":
		return t.B
	}
	ev := func(i int) interface{} { return t.Args[i].eval(m) }
	bi := func(i int) *big.Int { return ev(i).(*big.Int) }
	bb := func(i int) bool { return ev(i).(bool) }
	switch t.Op {
	case "+":
		return new(big.Int).Add(bi(0), bi(1))
	case "-":
		return new(big.Int).Sub(bi(0), bi(1))
	case "*":
		return new(big.Int).Mul(bi(0), bi(1))
	case "neg":
		return new(big.Int).Neg(bi(0))
	case "tdiv":
		d := bi(1)
		if d.Sign() == 0 {
			return big.NewInt(0)
		}
		return new(big.Int).Quo(bi(0), d)
	case "tmod":
		d := bi(1)
		if d.Sign() == 0 {
			return big.NewInt(0)
		}
		return new(big.Int).Rem(bi(0), d)
	case "ite":
		if bb(0) {
			return ev(1)
		}
		return ev(2)
	case "=":
		a, b := ev(0), ev(1)
		if x, ok := a.(*big.Int); ok {
			return x.Cmp(b.(*big.Int)) == 0
		}
		return a.(bool) == b.(bool)
	case "<":
		return bi(0).Cmp(bi(1)) < 0
	case "<=":
		return bi(0).Cmp(bi(1)) <= 0
	case "not":
		return !bb(0)
	case "and":
		for i := range t.Args {
			if !bb(i) {
				return false
			}
		}
		return true
	case "or":
		for i := range t.Args {
			if bb(i) {
				return true
			}
		}
		return false
	}
	panic(fmt.Sprintf("eval: unknown op %s", t.Op))
}
