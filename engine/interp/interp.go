// Copyright 2013 The Go Authors. All rights reserved.
// Use of this source code is governed by a BSD-style
// license that can be found in the LICENSE file.

// Package interp is a symbolic interpreter for go/ssa, derived from
// golang.org/x/tools/go/ssa/interp (v0.29.0).  Differences from the original:
// symbolic scalars (*symv) with forking by re-execution, deterministic ordered
// maps, inline (run-to-completion) goroutines with unbounded channels, explicit
// target runtime panics, lazy per-path package initialisation, intrinsics for
// library boundaries.
package interp

import (
	"fmt"
	"go/token"
	"go/types"
	"os"
	"slices"
	"strings"

	"golang.org/x/tools/go/ssa"
)

type continuation int

const (
	kNext continuation = iota
	kReturn
	kJump
)

// State of one interpreted path.
type interpreter struct {
	prog               *ssa.Program
	globals            map[*ssa.Global]*value
	inited             map[*ssa.Package]bool
	initDepth          int // >0 while running a lazy package init
	initPkgStack       []*ssa.Package
	runtimeErrorString types.Type
	ctx                *pathCtx
	trace              bool
}

type deferred struct {
	fn    value
	args  []value
	instr *ssa.Defer
	tail  *deferred
}

type frame struct {
	i                *interpreter
	caller           *frame
	fn               *ssa.Function
	block, prevBlock *ssa.BasicBlock
	env              map[ssa.Value]value // dynamic values of SSA variables
	locals           []value
	defers           *deferred
	result           value
	panicking        bool
	panic            interface{}
	phitemps         []value // temporaries for parallel phi assignment
	steps            int64
}

func mustDeref(t types.Type) types.Type {
	if p, ok := t.Underlying().(*types.Pointer); ok {
		return p.Elem()
	}
	panic(engineAbort{"ENGINE", fmt.Sprintf("mustDeref: %v is not a pointer", t)})
}

func newInterpreter(prog *ssa.Program, ctx *pathCtx) *interpreter {
	i := &interpreter{
		prog:    prog,
		globals: make(map[*ssa.Global]*value),
		inited:  make(map[*ssa.Package]bool),
		ctx:     ctx,
		trace:   ctx.ex.Trace,
	}
	if rp := prog.ImportedPackage("runtime"); rp != nil {
		i.runtimeErrorString = rp.Type("errorString").Object().Type()
	}
	return i
}

// runtimePanic raises a target-level runtime error (nil dereference, index out of range ...).
func (fr *frame) runtimePanic(msg string) {
	if fr != nil {
		fr.i.ctx.lastPanicSite = fr.fn.String()
		fr.i.ctx.lastPanicStack = fr.stack()
	}
	panic(targetPanic{v: runtimeErr{msg}})
}

type runtimeErr struct{ msg string }

// global returns the cell of a package-level variable, initialising its package lazily.
func (i *interpreter) global(g *ssa.Global) *value {
	if r, ok := i.globals[g]; ok {
		return r
	}
	i.ensureInit(g.Pkg)
	if r, ok := i.globals[g]; ok {
		return r
	}
	panic(engineAbort{"ENGINE", "no storage for global " + g.String()})
}

// ensureInit allocates the globals of pkg and runs the synthesised package
// initialiser *shallowly*: calls to other packages' init and to user init()
// functions are skipped (see callSSA).  Packages are initialised on first use.
func (i *interpreter) ensureInit(pkg *ssa.Package) {
	if pkg == nil || i.inited[pkg] {
		return
	}
	i.inited[pkg] = true
	for _, m := range pkg.Members {
		if g, ok := m.(*ssa.Global); ok {
			cell := zero(mustDeref(g.Type()))
			i.globals[g] = &cell
		}
	}
	initFn := pkg.Func("init")
	if initFn == nil || initFn.Blocks == nil || noInitPkgs[pkg.Pkg.Path()] {
		return
	}
	i.initDepth++
	i.initPkgStack = append(i.initPkgStack, pkg)
	defer func() {
		i.initDepth--
		i.initPkgStack = i.initPkgStack[:len(i.initPkgStack)-1]
	}()
	i.ctx.w.intr["<pkginit> "+pkg.Pkg.Path()]++
	func() {
		defer func() {
			if r := recover(); r != nil {
				if tp, ok := r.(targetPanic); ok {
					panic(engineAbort{"UNSUPPORTED", "package initialiser of " + pkg.Pkg.Path() + " panicked under the engine: " + panicMessage(tp) + " | " + i.ctx.lastPanicStack})
				}
				panic(r)
			}
		}()
		callSSA(i, nil, token.NoPos, initFn, nil, nil)
	}()
}

// noInitPkgs: packages whose globals are only passed to intrinsics (their initialisers
// need package reflect); the globals stay zero-valued.
var noInitPkgs = map[string]bool{
	"k8s.io/apimachinery/pkg/api/equality": true, // Semantic: receiver of the DeepEqual intrinsic
}

func (fr *frame) get(key ssa.Value) value {
	switch key := key.(type) {
	case nil:
		// Hack; simplifies handling of optional attributes
		// such as ssa.Slice.{Low,High}.
		return nil
	case *ssa.Function, *ssa.Builtin:
		return key
	case *ssa.Const:
		return constValue(key)
	case *ssa.Global:
		return fr.i.global(key)
	}
	if r, ok := fr.env[key]; ok {
		return r
	}
	panic(engineAbort{"ENGINE", fmt.Sprintf("get: no value for %T: %v", key, key.Name())})
}

func isEnginePanic(p interface{}) bool {
	switch p.(type) {
	case pathEnd, engineAbort:
		return true
	}
	return false
}

// runDefer runs a deferred call d.
// It always returns normally, but may set or clear fr.panic.
func (fr *frame) runDefer(d *deferred) {
	var ok bool
	defer func() {
		if !ok {
			// Deferred call created a new state of panic.
			r := recover()
			if isEnginePanic(r) {
				panic(r)
			}
			fr.panicking = true
			fr.panic = r
		}
	}()
	call(fr.i, fr, d.instr.Pos(), d.fn, d.args)
	ok = true
}

// runDefers executes fr's deferred function calls in LIFO order.
func (fr *frame) runDefers() {
	for d := fr.defers; d != nil; d = d.tail {
		fr.runDefer(d)
	}
	fr.defers = nil
	if fr.panicking {
		panic(fr.panic) // new panic, or still panicking
	}
}

// lookupMethod returns the method set for type typ.
func lookupMethod(i *interpreter, typ types.Type, meth *types.Func) *ssa.Function {
	return i.prog.LookupMethod(typ, meth.Pkg(), meth.Name())
}

func (fr *frame) pos(instr ssa.Instruction) string {
	p := instr.Pos()
	if p == token.NoPos {
		return fr.fn.String()
	}
	ps := fr.i.prog.Fset.Position(p)
	return fmt.Sprintf("%s:%d", trimPath(ps.Filename), ps.Line)
}

func trimPath(f string) string {
	if k := strings.Index(f, "/repo/"); k >= 0 {
		return f[k+6:]
	}
	if k := strings.Index(f, "/pkg/mod/"); k >= 0 {
		return f[k+9:]
	}
	return f
}

func (fr *frame) conc(v value) value { return fr.i.ctx.conc(v) }

// concIndex concretises an index/bound that must lie in [0,hi]; out of range panics in the target.
func (fr *frame) concIndex(v value, hi int64, what string) int64 {
	if v == nil {
		panic(engineAbort{"ENGINE", "concIndex(nil)"})
	}
	n, ok := fr.i.ctx.concIntIn(v, 0, hi)
	if !ok {
		fr.runtimePanic("runtime error: " + what + " out of range")
	}
	return n
}

// visitInstr interprets a single ssa.Instruction within the activation
// record frame.  It returns a continuation value indicating where to
// read the next instruction from.
func visitInstr(fr *frame, instr ssa.Instruction) continuation {
	switch instr := instr.(type) {
	case *ssa.DebugRef:
		// no-op

	case *ssa.UnOp:
		fr.env[instr] = unop(fr, instr, fr.get(instr.X))

	case *ssa.BinOp:
		fr.env[instr] = binop(fr, instr, instr.Op, instr.X.Type(), fr.get(instr.X), fr.get(instr.Y))

	case *ssa.Call:
		fn, args := prepareCall(fr, &instr.Call)
		fr.env[instr] = call(fr.i, fr, instr.Pos(), fn, args)

	case *ssa.ChangeInterface:
		fr.env[instr] = fr.get(instr.X)

	case *ssa.ChangeType:
		fr.env[instr] = fr.get(instr.X) // (can't fail)

	case *ssa.Convert:
		fr.env[instr] = conv(fr, instr, instr.Type(), instr.X.Type(), fr.get(instr.X))

	case *ssa.SliceToArrayPointer:
		fr.env[instr] = sliceToArrayPointer(instr.Type(), instr.X.Type(), fr.get(instr.X))

	case *ssa.MakeInterface:
		fr.env[instr] = iface{t: instr.X.Type(), v: fr.get(instr.X)}

	case *ssa.Extract:
		fr.env[instr] = fr.get(instr.Tuple).(tuple)[instr.Index]

	case *ssa.Slice:
		fr.env[instr] = fr.slice(instr, fr.get(instr.X), fr.get(instr.Low), fr.get(instr.High), fr.get(instr.Max))

	case *ssa.Return:
		switch len(instr.Results) {
		case 0:
		case 1:
			fr.result = fr.get(instr.Results[0])
		default:
			var res []value
			for _, r := range instr.Results {
				res = append(res, fr.get(r))
			}
			fr.result = tuple(res)
		}
		fr.block = nil
		return kReturn

	case *ssa.RunDefers:
		fr.runDefers()

	case *ssa.Panic:
		fr.i.ctx.lastPanicSite = fr.fn.String()
		fr.i.ctx.lastPanicStack = fr.stack()
		panic(targetPanic{fr.get(instr.X)})

	case *ssa.Send:
		ch := fr.get(instr.Chan).(*chanObj)
		ch.send(fr, fr.get(instr.X))

	case *ssa.Store:
		addr := fr.get(instr.Addr).(*value)
		if addr == nil {
			fr.runtimePanic("runtime error: invalid memory address or nil pointer dereference")
		}
		fr.raceWrite(addr)
		store(mustDeref(instr.Addr.Type()), addr, fr.get(instr.Val))

	case *ssa.If:
		succ := 1
		if fr.i.ctx.concBool(fr.get(instr.Cond)) {
			succ = 0
		}
		fr.prevBlock, fr.block = fr.block, fr.block.Succs[succ]
		return kJump

	case *ssa.Jump:
		fr.prevBlock, fr.block = fr.block, fr.block.Succs[0]
		return kJump

	case *ssa.Defer:
		fn, args := prepareCall(fr, &instr.Call)
		defers := &fr.defers
		if into := fr.get(instr.DeferStack); into != nil {
			defers = into.(**deferred)
		}
		*defers = &deferred{
			fn:    fn,
			args:  args,
			instr: instr,
			tail:  *defers,
		}

	case *ssa.Go:
		// Deterministic schedule: the new goroutine runs to completion at once.
		fn, args := prepareCall(fr, &instr.Call)
		fr.i.ctx.w.intr["<go inline>"]++
		func() {
			c := fr.i.ctx
			c.goDepth++
			parent := 0
			if n := len(c.gidStack); n > 0 {
				parent = c.gidStack[n-1]
			}
			c.nextGid++
			if c.gidParent == nil {
				c.gidParent, c.gidSpawn, c.gidTop = map[int]int{}, map[int]int{}, map[int]int{}
			}
			c.raceSeq++
			c.gidParent[c.nextGid], c.gidSpawn[c.nextGid] = parent, c.raceSeq
			if name := fr.fn.Name(); strings.HasPrefix(name, "ZZ_") || strings.HasPrefix(name, "zz") {
				c.gidTop[c.nextGid] = c.nextGid
			} else {
				c.gidTop[c.nextGid] = c.gidTop[parent]
			}
			c.gidStack = append(c.gidStack, c.nextGid)
			defer func() { c.goDepth--; c.gidStack = c.gidStack[:len(c.gidStack)-1] }()
			call(fr.i, nil, instr.Pos(), fn, args)
		}()

	case *ssa.MakeChan:
		ch := &chanObj{cap: int(asInt64(fr.conc(fr.get(instr.Size))))}
		fr.i.ctx.chans = append(fr.i.ctx.chans, ch)
		fr.env[instr] = ch

	case *ssa.Alloc:
		var addr *value
		if instr.Heap {
			// new
			addr = new(value)
			fr.env[instr] = addr
		} else {
			// local
			addr = fr.env[instr].(*value)
		}
		*addr = zero(mustDeref(instr.Type()))

	case *ssa.MakeSlice:
		c := asInt64(fr.conc(fr.get(instr.Cap)))
		l := asInt64(fr.conc(fr.get(instr.Len)))
		if l < 0 || c < l || c > 1<<20 {
			fr.runtimePanic("runtime error: makeslice: len out of range")
		}
		slice := make([]value, c)
		tElt := instr.Type().Underlying().(*types.Slice).Elem()
		for i := range slice {
			slice[i] = zero(tElt)
		}
		fr.env[instr] = slice[:l]

	case *ssa.MakeMap:
		fr.env[instr] = makeMap(instr.Type().Underlying().(*types.Map).Key())

	case *ssa.Range:
		fr.env[instr] = rangeIter(fr, fr.get(instr.X), instr.X.Type())

	case *ssa.Next:
		fr.env[instr] = fr.get(instr.Iter).(iter).next()

	case *ssa.FieldAddr:
		p := fr.get(instr.X).(*value)
		if p == nil {
			fr.runtimePanic("runtime error: invalid memory address or nil pointer dereference")
		}
		fr.env[instr] = &(*p).(structure)[instr.Field]

	case *ssa.Field:
		fr.env[instr] = fr.get(instr.X).(structure)[instr.Field]

	case *ssa.IndexAddr:
		x := fr.get(instr.X)
		idx := fr.get(instr.Index)
		switch x := x.(type) {
		case []value:
			n := fr.concIndex(idx, int64(len(x))-1, "index")
			fr.env[instr] = &x[n]
		case *value: // *array
			if x == nil {
				fr.runtimePanic("runtime error: invalid memory address or nil pointer dereference")
			}
			a := (*x).(array)
			n := fr.concIndex(idx, int64(len(a))-1, "index")
			fr.env[instr] = &a[n]
		default:
			panic(engineAbort{"ENGINE", fmt.Sprintf("unexpected x type in IndexAddr: %T", x)})
		}

	case *ssa.Index:
		x := fr.get(instr.X)
		idx := fr.get(instr.Index)

		switch x := x.(type) {
		case array:
			n := fr.concIndex(idx, int64(len(x))-1, "index")
			fr.env[instr] = x[n]
		case string, *symv:
			s := fr.i.ctx.concStr(x)
			n := fr.concIndex(idx, int64(len(s))-1, "index")
			fr.env[instr] = s[n]
		default:
			panic(engineAbort{"ENGINE", fmt.Sprintf("unexpected x type in Index: %T", x)})
		}

	case *ssa.Lookup:
		if m, ok := fr.get(instr.X).(*omap); ok && m != nil {
			fr.raceRead(m)
		}
		fr.env[instr] = lookup(fr, instr, fr.get(instr.X), fr.get(instr.Index))

	case *ssa.MapUpdate:
		m := fr.get(instr.Map).(*omap)
		if m == nil {
			fr.runtimePanic("assignment to entry in nil map")
		}
		key := fr.mapKey(fr.get(instr.Key))
		fr.raceWrite(m)
		m.insert(key, fr.get(instr.Value))

	case *ssa.TypeAssert:
		fr.env[instr] = typeAssert(fr, instr, fr.get(instr.X).(iface))

	case *ssa.MakeClosure:
		var bindings []value
		for _, binding := range instr.Bindings {
			bindings = append(bindings, fr.get(binding))
		}
		fr.env[instr] = &closure{instr.Fn.(*ssa.Function), bindings}

	case *ssa.Phi:
		panic(engineAbort{"ENGINE", "phi reached in visitInstr"})

	case *ssa.Select:
		panic(engineAbort{"UNSUPPORTED", "select statement at " + fr.pos(instr)})

	default:
		panic(engineAbort{"ENGINE", fmt.Sprintf("unexpected instruction: %T", instr)})
	}

	return kNext
}

// mapKey concretises symbolic scalars used as map keys.
func (fr *frame) mapKey(k value) value {
	switch k := k.(type) {
	case *symv:
		return fr.conc(k)
	case iface:
		if sv, ok := k.v.(*symv); ok {
			return iface{k.t, fr.conc(sv)}
		}
	case structure:
		out := make(structure, len(k))
		for i := range k {
			out[i] = fr.mapKey(k[i])
		}
		return out
	}
	return k
}

// prepareCall determines the function value and argument values for a
// function call in a Call, Go or Defer instruction, performing
// interface method lookup if needed.
func prepareCall(fr *frame, call *ssa.CallCommon) (fn value, args []value) {
	v := fr.get(call.Value)
	if call.Method == nil {
		// Function call.
		fn = v
	} else {
		// Interface method invocation.
		recv := v.(iface)
		if recv.t == nil {
			fr.runtimePanic("runtime error: invalid memory address or nil pointer dereference (method " + call.Method.Name() + " invoked on nil interface)")
		}
		if f := lookupMethod(fr.i, recv.t, call.Method); f == nil {
			// Unreachable in well-typed programs.
			panic(engineAbort{"ENGINE", fmt.Sprintf("method set for dynamic type %v does not contain %s", recv.t, call.Method)})
		} else {
			fn = f
		}
		args = append(args, recv.v)
	}
	for _, arg := range call.Args {
		args = append(args, fr.get(arg))
	}
	return
}

// call interprets a call to a function (function, builtin or closure)
// fn with arguments args, returning its result.
// callpos is the position of the callsite.
func call(i *interpreter, caller *frame, callpos token.Pos, fn value, args []value) value {
	switch fn := fn.(type) {
	case *ssa.Function:
		if fn == nil {
			caller.runtimePanic("runtime error: invalid memory address or nil pointer dereference (call of nil function)")
		}
		return callSSA(i, caller, callpos, fn, args, nil)
	case *closure:
		return callSSA(i, caller, callpos, fn.Fn, args, fn.Env)
	case *ssa.Builtin:
		return callBuiltin(caller, callpos, fn, args)
	}
	panic(engineAbort{"ENGINE", fmt.Sprintf("cannot call %T", fn)})
}

// callSSA interprets a call to function fn with arguments args,
// and lexical environment env, returning its result.
// callpos is the position of the callsite.
func callSSA(i *interpreter, caller *frame, callpos token.Pos, fn *ssa.Function, args []value, env []value) value {
	fr := &frame{
		i:      i,
		caller: caller, // for panic/recover
		fn:     fn,
	}
	if fn.Parent() == nil {
		name := fn.String()
		// package initialisers: shallow
		if fn.Pkg != nil && fn.Signature.Recv() == nil {
			if fn.Name() == "init" && fn.Synthetic != "" {
				if i.initDepth > 0 && (len(i.initPkgStack) == 0 || fn.Pkg != i.initPkgStack[len(i.initPkgStack)-1]) {
					return nil // dependency init: done lazily on first use
				}
			} else if strings.HasPrefix(fn.Name(), "init#") {
				return nil // user init() functions (flag / metrics / scheme registration) are skipped
			}
		}
		if ext := intrinsics[name]; ext != nil {
			i.ctx.w.intr[name]++
			return ext(fr, args)
		}
		if fn.Pkg != nil {
			switch fn.Pkg.Pkg.Path() {
			case "reflect", "internal/reflectlite", "internal/abi", "unsafe", "runtime", "internal/unsafeheader":
				panic(engineAbort{"UNSUPPORTED", "reflection/runtime internals reached: " + name + " | " + caller.stack()})
			}
		}
		if fn.Blocks == nil {
			if ext := lateIntrinsic(name); ext != nil {
				i.ctx.w.intr[name]++
				return ext(fr, args)
			}
			panic(engineAbort{"UNSUPPORTED", "no code for function: " + name + callerDesc(caller)})
		}
	}
	if i.trace {
		fmt.Fprintf(os.Stderr, "%sEntering %s\n", strings.Repeat(" ", depthOf(caller)), fn)
	}

	// generic function body?
	if fn.TypeParams().Len() > 0 && len(fn.TypeArgs()) == 0 {
		panic(engineAbort{"ENGINE", "generic function body without instantiation: " + fn.String()})
	}

	fr.env = make(map[ssa.Value]value)
	fr.block = fn.Blocks[0]
	fr.locals = make([]value, len(fn.Locals))
	for i, l := range fn.Locals {
		fr.locals[i] = zero(mustDeref(l.Type()))
		fr.env[l] = &fr.locals[i]
	}
	for i, p := range fn.Params {
		fr.env[p] = args[i]
	}
	for i, fv := range fn.FreeVars {
		fr.env[fv] = env[i]
	}
	defer func() {
		i.ctx.w.funcs[fn] += fr.steps
		i.ctx.steps += fr.steps
	}()
	for fr.block != nil {
		runFrame(fr)
	}
	return fr.result
}

func (fr *frame) stack() string {
	var sb strings.Builder
	for f, n := fr, 0; f != nil && n < 25; f, n = f.caller, n+1 {
		sb.WriteString(f.fn.String())
		sb.WriteString(" <- ")
	}
	return sb.String()
}

func depthOf(fr *frame) int {
	n := 0
	for ; fr != nil; fr = fr.caller {
		n++
	}
	return n
}

func callerDesc(caller *frame) string {
	if caller == nil {
		return ""
	}
	s := " (called from " + caller.fn.String()
	if caller.caller != nil {
		s += " <- " + caller.caller.fn.String()
	}
	return s + ")"
}

// runFrame executes SSA instructions starting at fr.block and
// continuing until a return, a panic, or a recovered panic.
func runFrame(fr *frame) {
	defer func() {
		if fr.block == nil {
			return // normal return
		}
		r := recover()
		if isEnginePanic(r) {
			panic(r)
		}
		if _, ok := r.(targetPanic); !ok {
			// interpreter fault: do not let the target recover from it
			panic(r)
		}
		fr.panicking = true
		fr.panic = r
		fr.runDefers()
		fr.block = fr.fn.Recover
	}()

	for {
		nonPhis := executePhis(fr)
		for _, instr := range nonPhis {
			fr.steps++
			if fr.i.trace {
				if v, ok := instr.(ssa.Value); ok {
					fmt.Fprintln(os.Stderr, strings.Repeat(" ", depthOf(fr)), v.Name(), "=", instr)
				} else {
					fmt.Fprintln(os.Stderr, strings.Repeat(" ", depthOf(fr)), instr)
				}
			}
			if visitInstr(fr, instr) == kReturn {
				return
			}
			// Inv: kNext (continue) or kJump (last instr)
		}
		if fr.steps > 2_000_000 && fr.i.ctx.steps+fr.steps > fr.i.ctx.ex.MaxSteps {
			panic(engineAbort{"UNWIND", "step budget exceeded in " + fr.fn.String()})
		}
	}
}

// executePhis executes the phi-nodes at the start of the current
// block and returns the non-phi instructions.
func executePhis(fr *frame) []ssa.Instruction {
	firstNonPhi := -1
	for i, instr := range fr.block.Instrs {
		if _, ok := instr.(*ssa.Phi); !ok {
			firstNonPhi = i
			break
		}
	}
	// Inv: 0 <= firstNonPhi; every block contains a non-phi.

	nonPhis := fr.block.Instrs[firstNonPhi:]
	if firstNonPhi > 0 {
		phis := fr.block.Instrs[:firstNonPhi]
		// Execute parallel assignment of phis.
		predIndex := slices.Index(fr.block.Preds, fr.prevBlock)
		fr.phitemps = fr.phitemps[:0]
		for _, phi := range phis {
			phi := phi.(*ssa.Phi)
			fr.phitemps = append(fr.phitemps, fr.get(phi.Edges[predIndex]))
		}
		for i, phi := range phis {
			fr.env[phi.(*ssa.Phi)] = fr.phitemps[i]
		}
	}
	return nonPhis
}

// doRecover implements the recover() built-in.
func doRecover(caller *frame) value {
	// recover() must be exactly one level beneath the deferred
	// function (two levels beneath the panicking function) to
	// have any effect.
	if caller != nil && !caller.panicking &&
		caller.caller != nil && caller.caller.panicking {
		caller.caller.panicking = false
		p := caller.caller.panic
		caller.caller.panic = nil
		switch p := p.(type) {
		case targetPanic:
			if re, ok := p.v.(runtimeErr); ok {
				return iface{caller.i.runtimeErrorString, re.msg}
			}
			return p.v
		default:
			panic(engineAbort{"ENGINE", fmt.Sprintf("unexpected panic type %T in target call to recover()", p)})
		}
	}
	return iface{}
}

// ---- channels under the inline schedule ---------------------------------------

type chanObj struct {
	cap    int
	q      []value
	closed bool
}

func (c *chanObj) send(fr *frame, v value) {
	if c == nil {
		panic(engineAbort{"UNSUPPORTED", "send on nil channel (blocks forever)"})
	}
	if c.closed {
		fr.runtimePanic("send on closed channel")
	}
	// unbounded under the inline schedule: the receiver runs after all senders.
	c.q = append(c.q, v)
}

func (c *chanObj) recv(fr *frame, elem types.Type) (value, bool) {
	if c == nil {
		panic(engineAbort{"UNSUPPORTED", "receive on nil channel (blocks forever)"})
	}
	if len(c.q) > 0 {
		v := c.q[0]
		c.q = c.q[1:]
		return v, true
	}
	if c.closed {
		return zero(elem), false
	}
	panic(engineAbort{"UNSUPPORTED", "receive on empty open channel under the inline goroutine schedule (would block) in " + fr.fn.String()})
}

// raceWrite / raceRead are a lockset (Eraser-style) check for data races among the goroutines a
// piece of code spawns, under the inline schedule.  Every `go` body gets an id (the spawning code is
// id 0); accesses made by functions of the code under test and its libraries (not by the harness-side
// packages under zzverif/, whose fake API server serialises itself with a mutex) to a memory cell or a
// map are recorded per goroutine with the set of mutexes held.  Two accesses to the same cell by
// different goroutines, at least one of them a write, with no common mutex held, are a data race of
// the real program whatever order the scheduler picks: sibling goroutines are ordered by nothing, and
// the spawning code is ordered with a goroutine only before its `go` statement (such accesses are never
// compared: a goroutine body runs at its `go` statement, so only what the spawner does afterwards meets
// its records) and after the sync.WaitGroup.Wait that joins it (Wait drops all records).  Channel
// hand-overs are not modelled as ordering (the code under test does not use them to transfer
// ownership).  Reported as the panic-class violation RACE and confirmed by replaying the path natively
// under the race detector.
var raceDebug = os.Getenv("GOSYM_RACE_DEBUG") != ""

func (fr *frame) raceWrite(addr interface{}) { fr.raceAccess(addr, true) }
func (fr *frame) raceRead(addr interface{})  { fr.raceAccess(addr, false) }

func (fr *frame) raceAccess(addr interface{}, write bool) {
	c := fr.i.ctx
	if addr == nil || c.nextGid == 0 {
		return // no goroutine was spawned on this path yet
	}
	if fr.i.initDepth > 0 {
		// a package initialiser (run lazily by the engine, at the first use of the package): in the real
		// program it has completed before main starts, hence before any goroutine
		return
	}
	gid := 0
	if n := len(c.gidStack); n > 0 {
		gid = c.gidStack[n-1]
	} else if len(c.wrote) == 0 && len(c.readBy) == 0 {
		return // spawner, nothing recorded since the last join
	}
	if fr.fn.Pkg != nil && strings.Contains(fr.fn.Pkg.Pkg.Path(), "/zzverif/") {
		return
	}
	if raceDebug {
		if _, ok := addr.(*omap); ok {
			fmt.Fprintf(os.Stderr, "RACEDBG gid=%d write=%v fn=%s held=%d\n", gid, write, fr.fn.String(), len(c.held))
		}
	}
	var locks []*value
	for l, n := range c.held {
		if n > 0 {
			locks = append(locks, l)
		}
	}
	conflict := func(prev raceRec) bool {
		if prev.gid == gid {
			return false
		}
		// what a goroutine did before its `go` statement is ordered before everything the spawned goroutine
		// (and whatever that one spawns) does
		for g := gid; g != 0; g = c.gidParent[g] {
			if c.gidParent[g] == prev.gid && prev.seq < c.gidSpawn[g] {
				return false
			}
		}
		for _, a := range prev.locks {
			for _, b := range locks {
				if a == b {
					return false
				}
			}
		}
		return true
	}
	report := func(prev raceRec, prevKind string) {
		kind := "read"
		if write {
			kind = "written"
		}
		if raceDebug {
			fmt.Fprintf(os.Stderr, "RACEDBG report prev.gid=%d prev.seq=%d gid=%d stack=%v parent=%v spawn=%v\n", prev.gid, prev.seq, gid, c.gidStack, c.gidParent, c.gidSpawn)
		}
		c.lastPanicSite = "RACE:" + fr.fn.String()
		c.lastPanicStack = fr.stack()
		panic(targetPanic{"data race: a variable shared by the goroutines of one batch is " + prevKind + " in " + prev.site + " and " + kind + " in " + fr.fn.String() + " by another goroutine with no common lock held"})
	}
	if prev, ok := c.wrote[addr]; ok && conflict(prev) {
		report(prev, "written")
	}
	if write {
		for _, prev := range c.readBy[addr] {
			if conflict(prev) {
				report(prev, "read")
			}
		}
	}
	if gid == 0 {
		return // the spawner's accesses are compared, not recorded
	}
	c.raceSeq++
	rec := raceRec{gid: gid, locks: locks, site: fr.fn.String(), seq: c.raceSeq}
	if write {
		if c.wrote == nil {
			c.wrote = map[interface{}]raceRec{}
		}
		c.wrote[addr] = rec
		return
	}
	if c.readBy == nil {
		c.readBy = map[interface{}][]raceRec{}
	}
	rs := c.readBy[addr]
	for i := range rs {
		if rs[i].gid == gid {
			// keep the weakest lockset of this goroutine
			var keep []*value
			for _, a := range rs[i].locks {
				for _, b := range locks {
					if a == b {
						keep = append(keep, a)
					}
				}
			}
			rs[i].locks = keep
			rs[i].seq = c.raceSeq
			return
		}
	}
	c.readBy[addr] = append(rs, rec)
}

// raceJoin: a sync.WaitGroup.Wait orders everything the joined goroutines did before whatever follows.
// Which goroutines a Wait joins is approximated: all those of the run it belongs to (the code under test
// waits for the whole batch it spawned, possibly from a helper goroutine that then closes the channel the
// spawner drains).  A run is what the harness calls directly — then every record is dropped — or what it
// started in a goroutine of its own (two controllers reconciling concurrently): then the records of the
// goroutines spawned inside that run are dropped and those of the other runs stay.
func (c *pathCtx) raceJoin() {
	if raceDebug {
		fmt.Fprintf(os.Stderr, "RACEDBG join stack=%v wrote=%d\n", c.gidStack, len(c.wrote))
	}
	top := 0
	if n := len(c.gidStack); n > 0 {
		top = c.gidTop[c.gidStack[n-1]]
	}
	if top == 0 {
		c.wrote, c.readBy = nil, nil
		return
	}
	joined := func(g int) bool { return g != top && c.gidTop[g] == top }
	for a, r := range c.wrote {
		if joined(r.gid) {
			delete(c.wrote, a)
		}
	}
	for a, rs := range c.readBy {
		var keep []raceRec
		for _, r := range rs {
			if !joined(r.gid) {
				keep = append(keep, r)
			}
		}
		if len(keep) == 0 {
			delete(c.readBy, a)
		} else {
			c.readBy[a] = keep
		}
	}
}
