// Intrinsics: models of library boundaries (see DESIGN.md §2.4).
package interp

import (
	"crypto/md5"
	"encoding/hex"
	"fmt"
	"go/types"
	"hash"
	"math"
	"math/big"
	"regexp"
	"sort"
	"strconv"
	"strings"

	"golang.org/x/tools/go/ssa"
)

type intrinsicFn func(fr *frame, args []value) value

var intrinsics = map[string]intrinsicFn{}

const nondetPkg = "github.com/DataDog/extendeddaemonset/zzverif/nondet"

func init() {
	for k, v := range map[string]intrinsicFn{
		// ---- logging / events / metrics: no-ops --------------------------------
		"(github.com/go-logr/logr.Logger).Info":       nop,
		"(github.com/go-logr/logr.Logger).Error":      nop,
		"(github.com/go-logr/logr.Logger).V":          recvPass,
		"(github.com/go-logr/logr.Logger).WithValues": recvPass,
		"(github.com/go-logr/logr.Logger).WithName":   recvPass,
		"(github.com/go-logr/logr.Logger).Enabled":    func(fr *frame, a []value) value { return false },
		"github.com/DataDog/extendeddaemonset/pkg/controller/metrics.DeleteERSMetrics":            nop,
		"github.com/DataDog/extendeddaemonset/pkg/controller/metrics.SetRollingUpdateStuckMetric": nop,
		"k8s.io/klog/v2.Errorf":  nop,
		"k8s.io/klog/v2.Infof":   nop,
		"k8s.io/klog/v2.Warningf": nop,
		"math/rand.Uint32":       func(fr *frame, a []value) value { return uint32(0) },

		// ---- sync under the inline schedule ------------------------------------
		"(*sync.WaitGroup).Add":  nop,
		"(*sync.WaitGroup).Done": nop,
		"(*sync.WaitGroup).Wait": waitGroupWait,
		"(*sync.Mutex).Lock":     lockAcquire,
		"(*sync.Mutex).Unlock":   lockRelease,
		"(*sync.RWMutex).Lock":   lockAcquire,
		"(*sync.RWMutex).Unlock": lockRelease,
		"(*sync.RWMutex).RLock":  nop,
		"(*sync.RWMutex).RUnlock": nop,
		"(*sync.Once).Do":        syncOnceDo,
		"k8s.io/apimachinery/pkg/util/wait.ExponentialBackoff": waitExponentialBackoff,

		// ---- fmt / errors ------------------------------------------------------
		"fmt.Sprintf": fmtSprintf,
		"fmt.Errorf":  fmtErrorf,
		"fmt.Sprint":  fmtSprint,
		"fmt.Fprintf": func(fr *frame, a []value) value { return tuple{0, iface{}} },
		"fmt.Println": func(fr *frame, a []value) value { return tuple{0, iface{}} },
		"fmt.Printf":  func(fr *frame, a []value) value { return tuple{0, iface{}} },

		// ---- strings -----------------------------------------------------------
		"strings.HasPrefix":  str2(func(a, b string) value { return strings.HasPrefix(a, b) }),
		"strings.HasSuffix":  str2(func(a, b string) value { return strings.HasSuffix(a, b) }),
		"strings.Contains":   str2(func(a, b string) value { return strings.Contains(a, b) }),
		"strings.Index":      str2(func(a, b string) value { return strings.Index(a, b) }),
		"strings.LastIndex":  str2(func(a, b string) value { return strings.LastIndex(a, b) }),
		"strings.TrimSuffix": str2(func(a, b string) value { return strings.TrimSuffix(a, b) }),
		"strings.TrimPrefix": str2(func(a, b string) value { return strings.TrimPrefix(a, b) }),
		"strings.EqualFold":  str2(func(a, b string) value { return strings.EqualFold(a, b) }),
		"strings.Count":      str2(func(a, b string) value { return strings.Count(a, b) }),
		"strings.Trim":       str2(func(a, b string) value { return strings.Trim(a, b) }),
		"strings.ToLower":    str1(func(a string) value { return strings.ToLower(a) }),
		"strings.ToUpper":    str1(func(a string) value { return strings.ToUpper(a) }),
		"strings.TrimSpace":  str1(func(a string) value { return strings.TrimSpace(a) }),
		"strings.Split": func(fr *frame, a []value) value {
			return strSlice(strings.Split(fr.i.ctx.concStr(a[0]), fr.i.ctx.concStr(a[1])))
		},
		"strings.SplitN": func(fr *frame, a []value) value {
			return strSlice(strings.SplitN(fr.i.ctx.concStr(a[0]), fr.i.ctx.concStr(a[1]), int(asInt64(fr.conc(a[2])))))
		},
		"strings.Fields": func(fr *frame, a []value) value { return strSlice(strings.Fields(fr.i.ctx.concStr(a[0]))) },
		"strings.Join": func(fr *frame, a []value) value {
			return strings.Join(fr.concStrSlice(a[0]), fr.i.ctx.concStr(a[1]))
		},
		"strings.Replace": func(fr *frame, a []value) value {
			c := fr.i.ctx
			return strings.Replace(c.concStr(a[0]), c.concStr(a[1]), c.concStr(a[2]), int(asInt64(fr.conc(a[3]))))
		},
		"strings.ReplaceAll": func(fr *frame, a []value) value {
			c := fr.i.ctx
			return strings.ReplaceAll(c.concStr(a[0]), c.concStr(a[1]), c.concStr(a[2]))
		},
		"strings.IndexByte": func(fr *frame, a []value) value {
			return strings.IndexByte(fr.i.ctx.concStr(a[0]), a[1].(byte))
		},
		"strings.Repeat": func(fr *frame, a []value) value {
			return strings.Repeat(fr.i.ctx.concStr(a[0]), int(asInt64(fr.conc(a[1]))))
		},

		// ---- strconv -----------------------------------------------------------
		"strconv.Itoa":       func(fr *frame, a []value) value { return strconv.Itoa(int(asInt64(fr.conc(a[0])))) },
		"strconv.FormatBool": func(fr *frame, a []value) value { return strconv.FormatBool(fr.i.ctx.concBool(a[0])) },
		"strconv.FormatInt": func(fr *frame, a []value) value {
			return strconv.FormatInt(asInt64(fr.conc(a[0])), int(asInt64(a[1])))
		},
		"strconv.Quote": str1(func(a string) value { return strconv.Quote(a) }),
		"strconv.Atoi": func(fr *frame, a []value) value {
			n, err := strconv.Atoi(fr.i.ctx.concStr(a[0]))
			return tuple{n, fr.mkError(err)}
		},
		"strconv.ParseInt": func(fr *frame, a []value) value {
			n, err := strconv.ParseInt(fr.i.ctx.concStr(a[0]), int(asInt64(a[1])), int(asInt64(a[2])))
			return tuple{n, fr.mkError(err)}
		},
		"strconv.ParseFloat": func(fr *frame, a []value) value {
			f, err := strconv.ParseFloat(fr.i.ctx.concStr(a[0]), int(asInt64(a[1])))
			return tuple{f, fr.mkError(err)}
		},
		"strconv.ParseBool": func(fr *frame, a []value) value {
			b, err := strconv.ParseBool(fr.i.ctx.concStr(a[0]))
			return tuple{b, fr.mkError(err)}
		},

		// ---- math (concrete floats only) -----------------------------------------
		"math.Ceil":  func(fr *frame, a []value) value { return math.Ceil(a[0].(float64)) },
		"math.Floor": func(fr *frame, a []value) value { return math.Floor(a[0].(float64)) },
		"math.Abs":   func(fr *frame, a []value) value { return math.Abs(a[0].(float64)) },
		"math.Float64bits":     func(fr *frame, a []value) value { return math.Float64bits(a[0].(float64)) },
		"math.Float64frombits": func(fr *frame, a []value) value { return math.Float64frombits(a[0].(uint64)) },
		"math.Float32bits":     func(fr *frame, a []value) value { return math.Float32bits(a[0].(float32)) },
		"math.Float32frombits": func(fr *frame, a []value) value { return math.Float32frombits(a[0].(uint32)) },
		"math.IsNaN":           func(fr *frame, a []value) value { return math.IsNaN(a[0].(float64)) },
		"math.Inf":             func(fr *frame, a []value) value { return math.Inf(a[0].(int)) },

		// ---- sort ---------------------------------------------------------------
		"sort.Sort":    sortSort,
		"sort.Stable":  sortStable,
		"sort.Slice":   sortSlice,
		"sort.SliceStable": sortSliceStable,
		"sort.Strings": sortStrings,

		// ---- regexp (native, concrete) -------------------------------------------
		"regexp.MustCompile": func(fr *frame, a []value) value {
			return &native{regexp.MustCompile(fr.i.ctx.concStr(a[0]))}
		},
		"(*regexp.Regexp).ReplaceAllString": func(fr *frame, a []value) value {
			c := fr.i.ctx
			return a[0].(*native).v.(*regexp.Regexp).ReplaceAllString(c.concStr(a[1]), c.concStr(a[2]))
		},
		"(*regexp.Regexp).MatchString": func(fr *frame, a []value) value {
			return a[0].(*native).v.(*regexp.Regexp).MatchString(fr.i.ctx.concStr(a[1]))
		},

		// ---- hashing ---------------------------------------------------------------
		"crypto/md5.New": func(fr *frame, a []value) value {
			return iface{t: fr.i.namedPtr("crypto/md5", "digest"), v: &native{md5.New()}}
		},
		"(*crypto/md5.digest).Write": func(fr *frame, a []value) value {
			b := fr.bytesOf(a[1])
			a[0].(*native).v.(hash.Hash).Write(b)
			return tuple{len(b), iface{}}
		},
		"(*crypto/md5.digest).Sum": func(fr *frame, a []value) value {
			return bytesVal(a[0].(*native).v.(hash.Hash).Sum(fr.bytesOf(a[1])))
		},
		"encoding/hex.EncodeToString": func(fr *frame, a []value) value { return hex.EncodeToString(fr.bytesOf(a[0])) },
		"encoding/json.Marshal": func(fr *frame, a []value) value {
			// structural fingerprint (DESIGN §2.4): injective on the value, not real JSON
			var sb strings.Builder
			fr.fingerprint(&sb, a[0], 0)
			return tuple{bytesVal([]byte(sb.String())), iface{}}
		},
	} {
		intrinsics[k] = v
	}
	registerNondet()
	registerTime()
	registerK8s()
}

func nop(fr *frame, a []value) value      { return nil }
func recvPass(fr *frame, a []value) value { return a[0] }

func lateIntrinsic(name string) intrinsicFn { return nil }

func str1(f func(a string) value) intrinsicFn {
	return func(fr *frame, a []value) value { return f(fr.i.ctx.concStr(a[0])) }
}
func str2(f func(a, b string) value) intrinsicFn {
	return func(fr *frame, a []value) value { return f(fr.i.ctx.concStr(a[0]), fr.i.ctx.concStr(a[1])) }
}

func strSlice(ss []string) value {
	out := make([]value, len(ss))
	for i, s := range ss {
		out[i] = s
	}
	return out
}

func (fr *frame) concStrSlice(v value) []string {
	xs := v.([]value)
	out := make([]string, len(xs))
	for i, x := range xs {
		out[i] = fr.i.ctx.concStr(x)
	}
	return out
}

func (fr *frame) bytesOf(v value) []byte {
	switch v := v.(type) {
	case []value:
		b := make([]byte, len(v))
		for i, x := range v {
			b[i] = x.(byte)
		}
		return b
	case string:
		return []byte(v)
	case *symv:
		return []byte(fr.i.ctx.concStr(v))
	case nil:
		return nil
	}
	panic(engineAbort{"ENGINE", fmt.Sprintf("bytesOf %T", v)})
}

func bytesVal(b []byte) value {
	out := make([]value, len(b))
	for i, x := range b {
		out[i] = x
	}
	return out
}

// namedPtr returns the type *pkg.name from the loaded program.
func (i *interpreter) namedPtr(pkgPath, name string) types.Type {
	return types.NewPointer(i.named(pkgPath, name))
}

func (i *interpreter) named(pkgPath, name string) types.Type {
	p := i.prog.ImportedPackage(pkgPath)
	if p == nil {
		panic(engineAbort{"ENGINE", "package not loaded: " + pkgPath})
	}
	t := p.Type(name)
	if t == nil {
		panic(engineAbort{"ENGINE", "type not found: " + pkgPath + "." + name})
	}
	return t.Type()
}

// mkError converts a native error into an interpreter error value (*errors.errorString).
func (fr *frame) mkError(err error) value {
	if err == nil {
		return iface{}
	}
	return fr.i.errorString(err.Error())
}

func (i *interpreter) errorString(msg string) value {
	var cell value = structure{msg}
	return iface{t: i.namedPtr("errors", "errorString"), v: &cell}
}

func (i *interpreter) wrapError(msg string, inner value) value {
	var cell value = structure{msg, inner}
	return iface{t: i.namedPtr("fmt", "wrapError"), v: &cell}
}

// ---- sync.Once -----------------------------------------------------------------

func syncOnceDo(fr *frame, a []value) value {
	p := a[0].(*value)
	if _, done := fr.i.ctx.natives[p]; done {
		return nil
	}
	fr.i.ctx.natives[p] = true
	call(fr.i, fr, 0, a[1], nil)
	return nil
}

// ---- fmt -------------------------------------------------------------------------

type fmtText struct{ s string }

func (t fmtText) String() string { return t.s }
func (t fmtText) Error() string  { return t.s }

// fmtArg converts an interpreter value into something package fmt prints sensibly.
func (fr *frame) fmtArg(v value) (interface{}, value) {
	itf, ok := v.(iface)
	if !ok {
		return fr.fmtScalar(v), nil
	}
	if itf.t == nil {
		return nil, nil
	}
	// error / Stringer implemented by interpreted code
	for _, mname := range []string{"Error", "String"} {
		ms := fr.i.prog.MethodSets.MethodSet(itf.t)
		for k := 0; k < ms.Len(); k++ {
			sel := ms.At(k)
			if sel.Obj().Name() != mname {
				continue
			}
			sig := sel.Obj().Type().(*types.Signature)
			if sig.Params().Len() != 0 || sig.Results().Len() != 1 {
				continue
			}
			if b, ok := sig.Results().At(0).Type().(*types.Basic); !ok || b.Kind() != types.String {
				continue
			}
			fn := fr.i.prog.MethodValue(sel)
			if fn == nil {
				continue
			}
			// nil pointer receivers would panic inside; print <nil>
			if p, isPtr := itf.v.(*value); isPtr && p == nil {
				return "<nil>", nil
			}
			res := call(fr.i, fr, 0, fn, []value{itf.v})
			var errVal value
			if mname == "Error" {
				errVal = itf
			}
			return fmtText{fr.i.ctx.concStr(res)}, errVal
		}
	}
	return fr.fmtScalar(itf.v), nil
}

func (fr *frame) fmtScalar(v value) interface{} {
	switch x := v.(type) {
	case *symv:
		switch x.k {
		case types.String:
			return fr.i.ctx.concStr(x)
		case types.Bool:
			return fr.i.ctx.concBool(x)
		default:
			if lo, hi, ok := fr.i.ctx.termBounds(x.t); ok && hi-lo <= 8 {
				return asInt64(fr.conc(x))
			}
			return fmtText{"<sym>"}
		}
	case bool, string, int, int8, int16, int32, int64, uint, uint8, uint16, uint32, uint64, uintptr, float32, float64:
		return x
	case nil:
		return nil
	}
	return fmtText{toString(v)}
}

func (fr *frame) fmtArgs(vs value) ([]interface{}, value) {
	var out []interface{}
	var firstErr value
	for _, a := range vs.([]value) {
		n, e := fr.fmtArg(a)
		if e != nil && firstErr == nil {
			firstErr = e
		}
		out = append(out, n)
	}
	return out, firstErr
}

func fmtSprintf(fr *frame, a []value) value {
	args, _ := fr.fmtArgs(a[1])
	return fmt.Sprintf(fr.i.ctx.concStr(a[0]), args...)
}

func fmtSprint(fr *frame, a []value) value {
	args, _ := fr.fmtArgs(a[0])
	return fmt.Sprint(args...)
}

func fmtErrorf(fr *frame, a []value) value {
	format := fr.i.ctx.concStr(a[0])
	args, inner := fr.fmtArgs(a[1])
	msg := fmt.Sprintf(strings.ReplaceAll(format, "%w", "%v"), args...)
	if strings.Contains(format, "%w") && inner != nil {
		return fr.i.wrapError(msg, inner)
	}
	return fr.i.errorString(msg)
}

// ---- sort --------------------------------------------------------------------------

type sortAdapter struct {
	fr              *frame
	recv            value
	len_, less, swap *ssa.Function
}

func (s sortAdapter) Len() int {
	return int(asInt64(call(s.fr.i, s.fr, 0, s.len_, []value{s.recv})))
}
func (s sortAdapter) Less(i, j int) bool {
	return s.fr.i.ctx.concBool(call(s.fr.i, s.fr, 0, s.less, []value{s.recv, i, j}))
}
func (s sortAdapter) Swap(i, j int) {
	call(s.fr.i, s.fr, 0, s.swap, []value{s.recv, i, j})
}

func (fr *frame) sortAdapterOf(v value) sortAdapter {
	itf := v.(iface)
	get := func(name string) *ssa.Function {
		ms := fr.i.prog.MethodSets.MethodSet(itf.t)
		sel := ms.Lookup(nil, name)
		if sel == nil {
			panic(engineAbort{"ENGINE", "sort.Interface method missing: " + name})
		}
		return fr.i.prog.MethodValue(sel)
	}
	return sortAdapter{fr, itf.v, get("Len"), get("Less"), get("Swap")}
}

// The native sort implementation of the Go release the engine is built with is
// the same algorithm the native replay uses; comparisons with symbolic outcome fork.
func sortSort(fr *frame, a []value) value   { sort.Sort(fr.sortAdapterOf(a[0])); return nil }
func sortStable(fr *frame, a []value) value { sort.Stable(fr.sortAdapterOf(a[0])); return nil }

func sortSlice(fr *frame, a []value) value {
	xs := a[0].(iface).v.([]value)
	sort.Slice(xs, func(i, j int) bool {
		return fr.i.ctx.concBool(call(fr.i, fr, 0, a[1], []value{i, j}))
	})
	return nil
}

func sortSliceStable(fr *frame, a []value) value {
	xs := a[0].(iface).v.([]value)
	sort.SliceStable(xs, func(i, j int) bool {
		return fr.i.ctx.concBool(call(fr.i, fr, 0, a[1], []value{i, j}))
	})
	return nil
}

func sortStrings(fr *frame, a []value) value {
	xs := a[0].([]value)
	ss := make([]string, len(xs))
	for i := range xs {
		ss[i] = fr.i.ctx.concStr(xs[i])
	}
	sort.Strings(ss)
	for i := range xs {
		xs[i] = ss[i]
	}
	return nil
}

// ---- structural fingerprint (stand-in for json.Marshal) ----------------------------

func isZeroValue(v value) bool {
	switch x := v.(type) {
	case nil:
		return true
	case bool:
		return !x
	case string:
		return x == ""
	case int, int8, int16, int32, int64, uint, uint8, uint16, uint32, uint64, uintptr:
		t, _, _ := termOf(x)
		return t.I.Sign() == 0
	case float64:
		return x == 0
	case *value:
		return x == nil
	case []value:
		return len(x) == 0
	case *omap:
		return x.len() == 0
	case iface:
		return x.t == nil
	}
	return false
}

func (fr *frame) fingerprint(sb *strings.Builder, v value, depth int) {
	if depth > 60 {
		panic(engineAbort{"UNSUPPORTED", "fingerprint: value too deep"})
	}
	switch x := v.(type) {
	case *symv:
		fr.fingerprint(sb, fr.conc(x), depth)
	case iface:
		if x.t == nil {
			sb.WriteString("null")
			return
		}
		fr.fingerprint(sb, x.v, depth+1)
	case *value:
		if x == nil {
			sb.WriteString("null")
			return
		}
		fr.fingerprint(sb, *x, depth+1)
	case structure:
		sb.WriteString("{")
		for i, f := range x {
			if fs, ok := f.(structure); ok {
				// nested struct: always rendered unless entirely zero
				var inner strings.Builder
				fr.fingerprint(&inner, fs, depth+1)
				if inner.String() == "{}" {
					continue
				}
				fmt.Fprintf(sb, "%d:%s,", i, inner.String())
				continue
			}
			if sv, ok := f.(*symv); ok {
				f = fr.conc(sv)
			}
			if isZeroValue(f) {
				continue
			}
			fmt.Fprintf(sb, "%d:", i)
			fr.fingerprint(sb, f, depth+1)
			sb.WriteString(",")
		}
		sb.WriteString("}")
	case array:
		sb.WriteString("[")
		for _, e := range x {
			fr.fingerprint(sb, e, depth+1)
			sb.WriteString(",")
		}
		sb.WriteString("]")
	case []value:
		sb.WriteString("[")
		for _, e := range x {
			fr.fingerprint(sb, e, depth+1)
			sb.WriteString(",")
		}
		sb.WriteString("]")
	case *omap:
		// encoding/json sorts map keys
		type kv struct{ k, v string }
		var kvs []kv
		if x != nil {
			for _, e := range x.entries {
				if e.deleted {
					continue
				}
				var kb, vb strings.Builder
				fr.fingerprint(&kb, e.key, depth+1)
				fr.fingerprint(&vb, e.val, depth+1)
				kvs = append(kvs, kv{kb.String(), vb.String()})
			}
		}
		sort.Slice(kvs, func(i, j int) bool { return kvs[i].k < kvs[j].k })
		sb.WriteString("map{")
		for _, e := range kvs {
			sb.WriteString(e.k + "=" + e.v + ";")
		}
		sb.WriteString("}")
	case string:
		sb.WriteString(strconv.Quote(x))
	case *native:
		panic(engineAbort{"UNSUPPORTED", "fingerprint of native handle"})
	default:
		fmt.Fprintf(sb, "%v", x)
	}
}

var _ = big.NewInt

// waitGroupWait: under the inline schedule every goroutine has already run to completion, with its
// channel sends queued without bound.  When Wait is called by the code that is also the only possible
// receiver (not from inside a `go` body) and some open channel holds more values than its buffer can
// take, the goroutines that sent the surplus would still be blocked in their send, Wait would never
// return and nobody would ever receive: a deadlock of the real program, reported as a panic-class
// violation ("DEADLOCK") rather than silently explored past.
func waitGroupWait(fr *frame, a []value) value {
	c := fr.i.ctx
	if c.goDepth == 0 {
		for _, ch := range c.chans {
			if !ch.closed && len(ch.q) > ch.cap {
				c.lastPanicSite = "DEADLOCK:" + fr.fn.String()
				c.lastPanicStack = fr.stack()
				panic(targetPanic{fmt.Sprintf("deadlock: sync.WaitGroup.Wait while %d goroutine(s) are blocked sending on a channel of capacity %d that only the waiting goroutine could drain", len(ch.q)-ch.cap, ch.cap)})
			}
		}
	}
	c.raceJoin()
	return nil
}

func lockAcquire(fr *frame, a []value) value {
	c := fr.i.ctx
	if p, ok := a[0].(*value); ok && p != nil {
		if c.held == nil {
			c.held = map[*value]int{}
		}
		c.held[p]++
	}
	return nil
}

func lockRelease(fr *frame, a []value) value {
	c := fr.i.ctx
	if p, ok := a[0].(*value); ok && p != nil && c.held[p] > 0 {
		c.held[p]--
	}
	return nil
}
