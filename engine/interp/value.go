// Copyright 2013 The Go Authors. All rights reserved.
// Use of this source code is governed by a BSD-style
// license that can be found in the LICENSE file.

package interp

// Values
//
// All interpreter values are "boxed" in the empty interface, value.
// The range of possible dynamic types within value are:
//
// - bool
// - numbers (all built-in int/float/complex types are distinguished)
// - string
// - map[value]value --- maps for which  usesBuiltinMap(keyType)
//   *hashmap        --- maps for which !usesBuiltinMap(keyType)
// - chan value
// - []value --- slices
// - iface --- interfaces.
// - structure --- structs.  Fields are ordered and accessed by numeric indices.
// - array --- arrays.
// - *value --- pointers.  Careful: *value is a distinct type from *array etc.
// - *ssa.Function \
//   *ssa.Builtin   } --- functions.  A nil 'func' is always of type *ssa.Function.
//   *closure      /
// - tuple --- as returned by Return, Next, "value,ok" modes, etc.
// - iter --- iterators from 'range' over map or string.
// - bad --- a poison pill for locals that have gone out of scope.
// - rtype -- the interpreter's concrete implementation of reflect.Type
// - **deferred -- the address of a frame's defer stack for a Defer._Stack.
//
// Note that nil is not on this list.
//
// Pay close attention to whether or not the dynamic type is a pointer.
// The compiler cannot help you since value is an empty interface.

import (
	"bytes"
	"fmt"
	"go/types"
	"io"
	"strings"

	"golang.org/x/tools/go/ssa"
)

type value interface{}

type tuple []value

type array []value

type iface struct {
	t types.Type // never an "untyped" type
	v value
}

type structure []value

// For map, array, *array, slice, string or channel.
type iter interface {
	// next returns a Tuple (key, value, ok).
	// key and value are unaliased, e.g. copies of the sequence element.
	next() tuple
}

type closure struct {
	Fn  *ssa.Function
	Env []value
}

type bad struct{}

type rtype struct {
	t types.Type
}


func sameType(x, y types.Type) bool {
	if x == nil {
		return y == nil
	}
	return y != nil && types.Identical(x, y)
}

// equals is the concrete equivalence relation (map keys, concrete comparisons).
func equals(t types.Type, x, y value) bool {
	r := symEquals(t, x, y)
	if r.Op != "bool" {
		panic(engineAbort{"ENGINE", "symbolic value in concrete equality"})
	}
	return r.B
}

// symEquals returns x == y as a term; scalars may be symbolic.
func symEquals(t types.Type, x, y value) *Term {
	switch x := x.(type) {
	case *symv:
		ty, _, ok := termOf(y)
		if !ok {
			panic(engineAbort{"ENGINE", fmt.Sprintf("symEquals: %T vs symbolic", y)})
		}
		return mkEq(x.t, ty)
	case bool, int, int8, int16, int32, int64, uint, uint8, uint16, uint32, uint64, uintptr, string:
		if ys, ok := y.(*symv); ok {
			tx, _, _ := termOf(x)
			return mkEq(tx, ys.t)
		}
		return mkBool(x == y)
	case float32:
		return mkBool(x == y.(float32))
	case float64:
		if ys, ok := y.(*symv); ok {
			return symFloatEq(ys, x)
		}
		return mkBool(x == y.(float64))
	case complex64:
		return mkBool(x == y.(complex64))
	case complex128:
		return mkBool(x == y.(complex128))
	case *value:
		return mkBool(x == y.(*value))
	case *chanObj:
		return mkBool(x == y.(*chanObj))
	case structure:
		y := y.(structure)
		tStruct := t.Underlying().(*types.Struct)
		var cs []*Term
		for i, n := 0, tStruct.NumFields(); i < n; i++ {
			f := tStruct.Field(i)
			if f.Name() == "_" {
				continue
			}
			c := symEquals(f.Type(), x[i], y[i])
			if c.Op == "bool" && !c.B {
				return tFalse
			}
			cs = append(cs, c)
		}
		return mkAnd(cs...)
	case array:
		y := y.(array)
		tElt := t.Underlying().(*types.Array).Elem()
		var cs []*Term
		for i, xi := range x {
			cs = append(cs, symEquals(tElt, xi, y[i]))
		}
		return mkAnd(cs...)
	case iface:
		y := y.(iface)
		if !sameType(x.t, y.t) {
			return tFalse
		}
		if x.t == nil {
			return tTrue
		}
		return symEquals(x.t, x.v, y.v)
	case *native:
		return mkBool(x == y.(*native))
	}
	panic(engineAbort{"ENGINE", fmt.Sprintf("comparing uncomparable type %s (%T)", t, x)})
}

// load returns the value of type T in *addr.
func load(T types.Type, addr *value) value {
	switch T := T.Underlying().(type) {
	case *types.Struct:
		v := (*addr).(structure)
		a := make(structure, len(v))
		for i := range a {
			a[i] = load(T.Field(i).Type(), &v[i])
		}
		return a
	case *types.Array:
		v := (*addr).(array)
		a := make(array, len(v))
		for i := range a {
			a[i] = load(T.Elem(), &v[i])
		}
		return a
	default:
		return *addr
	}
}

// store stores value v of type T into *addr.
func store(T types.Type, addr *value, v value) {
	switch T := T.Underlying().(type) {
	case *types.Struct:
		lhs := (*addr).(structure)
		rhs := v.(structure)
		for i := range lhs {
			store(T.Field(i).Type(), &lhs[i], rhs[i])
		}
	case *types.Array:
		lhs := (*addr).(array)
		rhs := v.(array)
		for i := range lhs {
			store(T.Elem(), &lhs[i], rhs[i])
		}
	default:
		*addr = v
	}
}

// Prints in the style of built-in println.
// (More or less; in gc println is actually a compiler intrinsic and
// can distinguish println(1) from println(interface{}(1)).)
func writeValue(buf *bytes.Buffer, v value) {
	switch v := v.(type) {
	case nil, bool, int, int8, int16, int32, int64, uint, uint8, uint16, uint32, uint64, uintptr, float32, float64, complex64, complex128, string:
		fmt.Fprintf(buf, "%v", v)

	case *omap:
		buf.WriteString("map[")
		sep := ""
		if v != nil {
			for _, e := range v.entries {
				if e.deleted {
					continue
				}
				buf.WriteString(sep)
				sep = " "
				writeValue(buf, e.key)
				buf.WriteString(":")
				writeValue(buf, e.val)
			}
		}
		buf.WriteString("]")

	case *symv:
		buf.WriteString("<sym " + v.t.SMT() + ">")

	case runtimeErr:
		buf.WriteString(v.msg)

	case *chanObj:
		fmt.Fprintf(buf, "chan %p", v)



	case *value:
		if v == nil {
			buf.WriteString("<nil>")
		} else {
			fmt.Fprintf(buf, "%p", v)
		}

	case iface:
		fmt.Fprintf(buf, "(%s, ", v.t)
		writeValue(buf, v.v)
		buf.WriteString(")")

	case structure:
		buf.WriteString("{")
		for i, e := range v {
			if i > 0 {
				buf.WriteString(" ")
			}
			writeValue(buf, e)
		}
		buf.WriteString("}")

	case array:
		buf.WriteString("[")
		for i, e := range v {
			if i > 0 {
				buf.WriteString(" ")
			}
			writeValue(buf, e)
		}
		buf.WriteString("]")

	case []value:
		buf.WriteString("[")
		for i, e := range v {
			if i > 0 {
				buf.WriteString(" ")
			}
			writeValue(buf, e)
		}
		buf.WriteString("]")

	case *ssa.Function, *ssa.Builtin, *closure:
		fmt.Fprintf(buf, "%p", v) // (an address)

	case rtype:
		buf.WriteString(v.t.String())

	case tuple:
		// Unreachable in well-formed Go programs
		buf.WriteString("(")
		for i, e := range v {
			if i > 0 {
				buf.WriteString(", ")
			}
			writeValue(buf, e)
		}
		buf.WriteString(")")

	default:
		fmt.Fprintf(buf, "<%T>", v)
	}
}

// Implements printing of Go values in the style of built-in println.
func toString(v value) string {
	var b bytes.Buffer
	writeValue(&b, v)
	return b.String()
}

// ------------------------------------------------------------------------
// Iterators

type stringIter struct {
	*strings.Reader
	i int
}

func (it *stringIter) next() tuple {
	okv := make(tuple, 3)
	ch, n, err := it.ReadRune()
	ok := err != io.EOF
	okv[0] = ok
	if ok {
		okv[1] = it.i
		okv[2] = ch
	}
	it.i += n
	return okv
}

