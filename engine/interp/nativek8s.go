package interp

import (
	"regexp"
	"strings"
)

// Native copies of k8s.io/apimachinery/pkg/util/validation.IsQualifiedName and
// IsValidLabelValue (v0.31): pure string predicates built on package regexp, which the
// engine does not interpret.  They run on concrete strings only.

const qnameCharFmt = "[A-Za-z0-9]"
const qnameExtCharFmt = "[-A-Za-z0-9_.]"
const qualifiedNameFmt = "(" + qnameCharFmt + qnameExtCharFmt + "*)?" + qnameCharFmt
const qualifiedNameErrMsg = "must consist of alphanumeric characters, '-', '_' or '.', and must start and end with an alphanumeric character"
const qualifiedNameMaxLength = 63

var qualifiedNameRegexp = regexp.MustCompile("^" + qualifiedNameFmt + "$")

const dns1123LabelFmt = "[a-z0-9]([-a-z0-9]*[a-z0-9])?"
const dns1123SubdomainFmt = dns1123LabelFmt + "(\\." + dns1123LabelFmt + ")*"

var dns1123SubdomainRegexp = regexp.MustCompile("^" + dns1123SubdomainFmt + "$")

func nativeIsQualifiedName(value string) []string {
	var errs []string
	parts := strings.Split(value, "/")
	var name string
	switch len(parts) {
	case 1:
		name = parts[0]
	case 2:
		var prefix string
		prefix, name = parts[0], parts[1]
		if len(prefix) == 0 {
			errs = append(errs, "prefix part must be non-empty")
		} else {
			if len(prefix) > 253 {
				errs = append(errs, "prefix part must be no more than 253 characters")
			}
			if !dns1123SubdomainRegexp.MatchString(prefix) {
				errs = append(errs, "prefix part a lowercase RFC 1123 subdomain must consist of lower case alphanumeric characters, '-' or '.', and must start and end with an alphanumeric character")
			}
		}
	default:
		return append(errs, "a qualified name "+qualifiedNameErrMsg+" with an optional DNS subdomain prefix and '/' (e.g. 'example.com/MyName')")
	}
	if len(name) == 0 {
		errs = append(errs, "name part must be non-empty")
	} else if len(name) > qualifiedNameMaxLength {
		errs = append(errs, "name part must be no more than 63 characters")
	}
	if !qualifiedNameRegexp.MatchString(name) {
		errs = append(errs, "name part "+qualifiedNameErrMsg)
	}
	return errs
}

const labelValueFmt = "(" + qualifiedNameFmt + ")?"

var labelValueRegexp = regexp.MustCompile("^" + labelValueFmt + "$")

func nativeIsValidLabelValue(value string) []string {
	var errs []string
	if len(value) > 63 {
		errs = append(errs, "must be no more than 63 characters")
	}
	if !labelValueRegexp.MatchString(value) {
		errs = append(errs, "a valid label "+qualifiedNameErrMsg)
	}
	return errs
}
