// json.Unmarshal intrinsic: native parse of the concrete JSON text, then a type-directed
// construction of the interpreter value (struct fields by json tag, maps, slices, scalars,
// resource.Quantity through the interpreted resource.ParseQuantity).
package interp

import (
	"encoding/json"
	"fmt"
	"go/types"
	"reflect"
	"strings"
)

func init() {
	intrinsics["encoding/json.Unmarshal"] = jsonUnmarshal
	intrinsics["encoding/json.Valid"] = func(fr *frame, a []value) value { return json.Valid(fr.bytesOf(a[0])) }
}

func jsonUnmarshal(fr *frame, a []value) value {
	data := fr.bytesOf(a[0])
	target, ok := a[1].(iface)
	if !ok || target.t == nil {
		return fr.i.errorString("json: Unmarshal(nil)")
	}
	ptr, ok := target.v.(*value)
	if !ok || ptr == nil {
		return fr.i.errorString("json: Unmarshal(non-pointer " + target.t.String() + ")")
	}
	var generic interface{}
	dec := json.NewDecoder(strings.NewReader(string(data)))
	dec.UseNumber()
	if err := dec.Decode(&generic); err != nil {
		return fr.i.errorString(err.Error())
	}
	if dec.More() {
		return fr.i.errorString("invalid character after top-level value")
	}
	elemT := mustDeref(target.t)
	v, err := fr.jsonDecode(generic, elemT, *ptr)
	if err != nil {
		return fr.i.errorString(err.Error())
	}
	store(elemT, ptr, v)
	return iface{}
}

func jsonFieldName(s *types.Struct, i int) (name string, skip bool) {
	tag := reflect.StructTag(s.Tag(i)).Get("json")
	if tag == "-" {
		return "", true
	}
	name = strings.Split(tag, ",")[0]
	if name == "" {
		name = s.Field(i).Name()
	}
	return name, !s.Field(i).Exported()
}

func (fr *frame) jsonDecode(j interface{}, t types.Type, old value) (value, error) {
	if pkg, name := typeName(t); pkg == "k8s.io/apimachinery/pkg/api/resource" && name == "Quantity" {
		if _, isPtr := t.(*types.Pointer); !isPtr {
			var s string
			switch x := j.(type) {
			case nil:
				return old, nil
			case string:
				s = x
			case json.Number:
				s = x.String()
			default:
				return nil, fmt.Errorf("json: cannot unmarshal %T into Go value of type resource.Quantity", j)
			}
			p := fr.i.prog.ImportedPackage("k8s.io/apimachinery/pkg/api/resource")
			res := call(fr.i, fr, 0, p.Func("ParseQuantity"), []value{s}).(tuple)
			if e := res[1].(iface); e.t != nil {
				return nil, fmt.Errorf("quantities must match the regular expression (parse error for %q)", s)
			}
			return res[0], nil
		}
	}
	if j == nil {
		// JSON null: pointers/maps/slices/interfaces become nil, other values unchanged
		switch t.Underlying().(type) {
		case *types.Pointer, *types.Map, *types.Slice, *types.Interface:
			return zero(t), nil
		}
		return old, nil
	}
	switch u := t.Underlying().(type) {
	case *types.Struct:
		obj, ok := j.(map[string]interface{})
		if !ok {
			return nil, fmt.Errorf("json: cannot unmarshal %s into Go value of type %s", jsonKind(j), t)
		}
		out := load(t, &old).(structure)
		for i := 0; i < u.NumFields(); i++ {
			name, skip := jsonFieldName(u, i)
			if skip {
				continue
			}
			var fv interface{}
			found := false
			for k, v := range obj {
				if k == name {
					fv, found = v, true
					break
				}
			}
			if !found {
				for k, v := range obj {
					if strings.EqualFold(k, name) {
						fv, found = v, true
						break
					}
				}
			}
			if !found {
				continue
			}
			nv, err := fr.jsonDecode(fv, u.Field(i).Type(), out[i])
			if err != nil {
				return nil, err
			}
			out[i] = nv
		}
		return out, nil
	case *types.Map:
		obj, ok := j.(map[string]interface{})
		if !ok {
			return nil, fmt.Errorf("json: cannot unmarshal %s into Go value of type %s", jsonKind(j), t)
		}
		if b, ok := u.Key().Underlying().(*types.Basic); !ok || b.Kind() != types.String {
			panic(engineAbort{"UNSUPPORTED", "json.Unmarshal into map with non-string key"})
		}
		m, _ := old.(*omap)
		if m == nil {
			m = makeMap(u.Key())
		}
		keys := make([]string, 0, len(obj))
		for k := range obj {
			keys = append(keys, k)
		}
		sortStringsNative(keys)
		for _, k := range keys {
			ev, err := fr.jsonDecode(obj[k], u.Elem(), zero(u.Elem()))
			if err != nil {
				return nil, err
			}
			m.insert(k, ev)
		}
		return m, nil
	case *types.Slice:
		arr, ok := j.([]interface{})
		if !ok {
			return nil, fmt.Errorf("json: cannot unmarshal %s into Go value of type %s", jsonKind(j), t)
		}
		out := make([]value, len(arr))
		for i, e := range arr {
			ev, err := fr.jsonDecode(e, u.Elem(), zero(u.Elem()))
			if err != nil {
				return nil, err
			}
			out[i] = ev
		}
		return out, nil
	case *types.Pointer:
		var cell value = zero(u.Elem())
		if op, ok := old.(*value); ok && op != nil {
			cell = *op
		}
		ev, err := fr.jsonDecode(j, u.Elem(), cell)
		if err != nil {
			return nil, err
		}
		cell = ev
		return &cell, nil
	case *types.Basic:
		switch {
		case u.Kind() == types.String:
			s, ok := j.(string)
			if !ok {
				return nil, fmt.Errorf("json: cannot unmarshal %s into Go value of type %s", jsonKind(j), t)
			}
			return s, nil
		case u.Kind() == types.Bool:
			b, ok := j.(bool)
			if !ok {
				return nil, fmt.Errorf("json: cannot unmarshal %s into Go value of type %s", jsonKind(j), t)
			}
			return b, nil
		case isIntKind(u.Kind()):
			n, ok := j.(json.Number)
			if !ok {
				return nil, fmt.Errorf("json: cannot unmarshal %s into Go value of type %s", jsonKind(j), t)
			}
			i64, err := n.Int64()
			if err != nil {
				return nil, fmt.Errorf("json: cannot unmarshal number %s into Go value of type %s", n, t)
			}
			tm := mkInt(i64)
			lo, hi := kindRange(u.Kind())
			if tm.I.Cmp(lo) < 0 || tm.I.Cmp(hi) > 0 {
				return nil, fmt.Errorf("json: cannot unmarshal number %s into Go value of type %s", n, t)
			}
			return concreteInt(u.Kind(), tm.I), nil
		case u.Kind() == types.Float64:
			n, ok := j.(json.Number)
			if !ok {
				return nil, fmt.Errorf("json: cannot unmarshal %s into Go value of type %s", jsonKind(j), t)
			}
			f, err := n.Float64()
			if err != nil {
				return nil, err
			}
			return f, nil
		}
	}
	panic(engineAbort{"UNSUPPORTED", fmt.Sprintf("json.Unmarshal into %v", t)})
}

func jsonKind(j interface{}) string {
	switch j.(type) {
	case string:
		return "string"
	case json.Number:
		return "number"
	case bool:
		return "bool"
	case []interface{}:
		return "array"
	case map[string]interface{}:
		return "object"
	}
	return "value"
}

func sortStringsNative(s []string) {
	for i := 1; i < len(s); i++ {
		for j := i; j > 0 && s[j] < s[j-1]; j-- {
			s[j], s[j-1] = s[j-1], s[j]
		}
	}
}
