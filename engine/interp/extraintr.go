// Further library boundaries that realistic changes to the repository are likely to cross.
package interp

import (
	"fmt"
	"go/types"
	"math"
	"strings"
	"time"

	"golang.org/x/tools/go/ssa"
)

func init() {
	intrinsics["errors.Is"] = func(fr *frame, a []value) value { return fr.errorsIs(a[0], a[1], 0) }
	intrinsics["errors.As"] = errorsAs
	intrinsics["(*strings.Builder).copyCheck"] = nop
	intrinsics["(*strings.Builder).Grow"] = nop // capacity hint only (its body calls a runtime-internal allocator)
	intrinsics["(*strings.Builder).grow"] = nop
	intrinsics["(*strings.Builder).String"] = func(fr *frame, a []value) value {
		p := a[0].(*value)
		if p == nil {
			fr.runtimePanic("runtime error: invalid memory address or nil pointer dereference")
		}
		st := (*p).(structure)
		t := fr.i.named("strings", "Builder")
		buf, _ := st[fieldIndex(t, "buf")].([]value)
		return string(fr.bytesOf(buf))
	}
	intrinsics["reflect.DeepEqual"] = func(fr *frame, a []value) value {
		x, y := a[0].(iface), a[1].(iface)
		if x.t == nil || y.t == nil {
			return x.t == nil && y.t == nil
		}
		if !types.Identical(x.t, y.t) {
			return false
		}
		return mkSym(fr.strictDeepEq(x.t, x.v, y.v, 0), types.Bool)
	}
	// field.Error.ErrorBody formats the bad value through reflection; the text is only a message
	intrinsics["(*k8s.io/apimachinery/pkg/util/validation/field.Error).ErrorBody"] = func(fr *frame, a []value) value {
		p := a[0].(*value)
		if p == nil {
			fr.runtimePanic("runtime error: invalid memory address or nil pointer dereference")
		}
		st := (*p).(structure)
		t := fr.i.named("k8s.io/apimachinery/pkg/util/validation/field", "Error")
		typ := fr.i.ctx.concStr(st[fieldIndex(t, "Type")])
		detail := fr.i.ctx.concStr(st[fieldIndex(t, "Detail")])
		return typ + ": " + detail
	}
	intrinsics["math.Max"] = func(fr *frame, a []value) value { return math.Max(a[0].(float64), a[1].(float64)) }
	intrinsics["math.Min"] = func(fr *frame, a []value) value { return math.Min(a[0].(float64), a[1].(float64)) }
	intrinsics["math.Round"] = func(fr *frame, a []value) value { return math.Round(a[0].(float64)) }
	intrinsics["math.Trunc"] = func(fr *frame, a []value) value { return math.Trunc(a[0].(float64)) }
	intrinsics["(time.Duration).Round"] = func(fr *frame, a []value) value {
		d, ok1 := a[0].(int64)
		m, ok2 := a[1].(int64)
		if !ok1 || !ok2 {
			panic(engineAbort{"UNSUPPORTED", "Duration.Round on symbolic operands"})
		}
		return int64(time.Duration(d).Round(time.Duration(m)))
	}
	intrinsics["(time.Duration).Truncate"] = func(fr *frame, a []value) value {
		d, ok1 := a[0].(int64)
		m, ok2 := a[1].(int64)
		if !ok1 || !ok2 {
			panic(engineAbort{"UNSUPPORTED", "Duration.Truncate on symbolic operands"})
		}
		return int64(time.Duration(d).Truncate(time.Duration(m)))
	}
	intrinsics["(time.Duration).Hours"] = func(fr *frame, a []value) value {
		if d, ok := a[0].(int64); ok {
			return time.Duration(d).Hours()
		}
		panic(engineAbort{"UNSUPPORTED", "symbolic Duration.Hours"})
	}
	intrinsics["(time.Duration).Milliseconds"] = func(fr *frame, a []value) value {
		return mkSym(mkTDiv(durTerm(a[0]), mkInt(1_000_000)), types.Int64)
	}
	intrinsics["(time.Time).AddDate"] = func(fr *frame, a []value) value {
		panic(engineAbort{"UNSUPPORTED", "time.Time.AddDate"})
	}
	intrinsics["strings.Title"] = str1(func(s string) value { return strings.Title(s) })
	intrinsics["strings.TrimLeft"] = str2(func(a, b string) value { return strings.TrimLeft(a, b) })
	intrinsics["strings.TrimRight"] = str2(func(a, b string) value { return strings.TrimRight(a, b) })
	intrinsics["strings.ContainsAny"] = str2(func(a, b string) value { return strings.ContainsAny(a, b) })
	intrinsics["strings.Compare"] = str2(func(a, b string) value { return strings.Compare(a, b) })
	intrinsics["strings.Cut"] = func(fr *frame, a []value) value {
		b, af, ok := strings.Cut(fr.i.ctx.concStr(a[0]), fr.i.ctx.concStr(a[1]))
		return tuple{b, af, ok}
	}
	intrinsics["fmt.Sprintln"] = func(fr *frame, a []value) value {
		args, _ := fr.fmtArgs(a[0])
		return fmt.Sprintln(args...)
	}
}

// errorsIs: errors.Is over interpreter error values (identity / comparable equality along
// the Unwrap chain; an interpreted Is method is honoured).
func (fr *frame) errorsIs(err, target value, depth int) value {
	if depth > 20 {
		return false
	}
	e, ok := err.(iface)
	t, ok2 := target.(iface)
	if !ok || !ok2 {
		panic(engineAbort{"ENGINE", "errors.Is on non-interface values"})
	}
	if e.t == nil || t.t == nil {
		return e.t == nil && t.t == nil
	}
	if types.Identical(e.t, t.t) && types.Comparable(e.t) {
		if r := symEquals(e.t, e.v, t.v); r.Op == "bool" && r.B {
			return true
		}
	}
	// Unwrap() error
	ms := fr.i.prog.MethodSets.MethodSet(e.t)
	if sel := ms.Lookup(nil, "Unwrap"); sel != nil {
		if sig, ok := sel.Obj().Type().(*types.Signature); ok && sig.Params().Len() == 0 && sig.Results().Len() == 1 {
			if _, isSlice := sig.Results().At(0).Type().Underlying().(*types.Slice); !isSlice {
				if fn := fr.i.prog.MethodValue(sel); fn != nil {
					inner := call(fr.i, fr, 0, fn, []value{e.v})
					return fr.errorsIs(inner, target, depth+1)
				}
			}
		}
	}
	if p, isPtr := e.v.(*value); isPtr && p != nil && e.t.String() == "*fmt.wrapError" {
		return fr.errorsIs((*p).(structure)[1], target, depth+1)
	}
	return false
}

// errorsAs: errors.As for targets of pointer-to-concrete-type or pointer-to-interface.
func errorsAs(fr *frame, a []value) value {
	tgt, ok := a[1].(iface)
	if !ok || tgt.t == nil {
		fr.runtimePanic("errors: target cannot be nil")
	}
	pt, ok := tgt.t.Underlying().(*types.Pointer)
	if !ok {
		fr.runtimePanic("errors: target must be a non-nil pointer")
	}
	cell := tgt.v.(*value)
	want := pt.Elem()
	cur := a[0]
	for depth := 0; depth < 20; depth++ {
		e, ok := cur.(iface)
		if !ok || e.t == nil {
			return false
		}
		if _, isIface := want.Underlying().(*types.Interface); isIface {
			if types.AssignableTo(e.t, want) {
				*cell = e
				return true
			}
		} else if types.Identical(e.t, want) {
			*cell = e.v
			return true
		}
		ms := fr.i.prog.MethodSets.MethodSet(e.t)
		sel := ms.Lookup(nil, "Unwrap")
		if sel == nil {
			return false
		}
		fn := fr.i.prog.MethodValue(sel)
		if fn == nil {
			return false
		}
		cur = call(fr.i, fr, 0, fn, []value{e.v})
	}
	return false
}

// strictDeepEq: reflect.DeepEqual (nil and empty slices/maps differ).
func (fr *frame) strictDeepEq(t types.Type, a, b value, depth int) *Term {
	switch u := t.Underlying().(type) {
	case *types.Slice:
		xa, xb := a.([]value), b.([]value)
		if (xa == nil) != (xb == nil) || len(xa) != len(xb) {
			return tFalse
		}
		var cs []*Term
		for i := range xa {
			cs = append(cs, fr.strictDeepEq(u.Elem(), xa[i], xb[i], depth+1))
		}
		return mkAnd(cs...)
	case *types.Map:
		ma, mb := a.(*omap), b.(*omap)
		if (ma == nil) != (mb == nil) || ma.len() != mb.len() {
			return tFalse
		}
		var cs []*Term
		if ma != nil {
			for _, e := range ma.entries {
				if e.deleted {
					continue
				}
				v2, ok := mb.lookup(e.key)
				if !ok {
					return tFalse
				}
				cs = append(cs, fr.strictDeepEq(u.Elem(), e.val, v2, depth+1))
			}
		}
		return mkAnd(cs...)
	case *types.Struct:
		sa, sb := a.(structure), b.(structure)
		if pkg, name := typeName(t); pkg == "time" && name == "Time" {
			return timeEq(sa, sb)
		}
		var cs []*Term
		for i := 0; i < u.NumFields(); i++ {
			cs = append(cs, fr.strictDeepEq(u.Field(i).Type(), sa[i], sb[i], depth+1))
		}
		return mkAnd(cs...)
	case *types.Pointer:
		pa, pb := a.(*value), b.(*value)
		if pa == nil || pb == nil {
			return mkBool(pa == nil && pb == nil)
		}
		if pa == pb {
			return tTrue
		}
		return fr.strictDeepEq(u.Elem(), *pa, *pb, depth+1)
	case *types.Interface:
		ia, ib := a.(iface), b.(iface)
		if ia.t == nil || ib.t == nil {
			return mkBool(ia.t == nil && ib.t == nil)
		}
		if !types.Identical(ia.t, ib.t) {
			return tFalse
		}
		return fr.strictDeepEq(ia.t, ia.v, ib.v, depth+1)
	}
	return fr.deepEq(t, a, b, depth)
}

// ---- sync.Map ------------------------------------------------------------------------
// A sync.Map is modelled as an ordered map attached to the address of the receiver (per path).
// Keys are interface values compared with Go's == (concrete keys only).

func syncMapOf(fr *frame, recv value) *omap {
	p := recv.(*value)
	if m, ok := fr.i.ctx.natives[p].(*omap); ok {
		return m
	}
	m := makeMap(types.NewInterfaceType(nil, nil))
	fr.i.ctx.natives[p] = m
	return m
}

func init() {
	intrinsics["(*sync.Map).Load"] = func(fr *frame, a []value) value {
		v, ok := syncMapOf(fr, a[0]).lookup(a[1])
		if !ok {
			return tuple{iface{}, false}
		}
		return tuple{v, true}
	}
	intrinsics["(*sync.Map).Store"] = func(fr *frame, a []value) value {
		syncMapOf(fr, a[0]).insert(a[1], a[2])
		return nil
	}
	intrinsics["(*sync.Map).LoadOrStore"] = func(fr *frame, a []value) value {
		m := syncMapOf(fr, a[0])
		if v, ok := m.lookup(a[1]); ok {
			return tuple{v, true}
		}
		m.insert(a[1], a[2])
		return tuple{a[2], false}
	}
	intrinsics["(*sync.Map).LoadAndDelete"] = func(fr *frame, a []value) value {
		m := syncMapOf(fr, a[0])
		v, ok := m.lookup(a[1])
		if !ok {
			return tuple{iface{}, false}
		}
		m.delete(a[1])
		return tuple{v, true}
	}
	intrinsics["(*sync.Map).Delete"] = func(fr *frame, a []value) value {
		syncMapOf(fr, a[0]).delete(a[1])
		return nil
	}
	intrinsics["(*sync.Map).Swap"] = func(fr *frame, a []value) value {
		m := syncMapOf(fr, a[0])
		v, ok := m.lookup(a[1])
		m.insert(a[1], a[2])
		if !ok {
			return tuple{iface{}, false}
		}
		return tuple{v, true}
	}
	intrinsics["(*sync.Map).Range"] = func(fr *frame, a []value) value {
		m := syncMapOf(fr, a[0])
		it := &omapIter{m: m}
		for {
			t := it.next()
			if !t[0].(bool) {
				break
			}
			r := call(fr.i, fr, 0, a[1], []value{t[1], t[2]})
			if b, ok := r.(bool); ok && !b {
				break
			}
		}
		return nil
	}
	intrinsics["(*sync.Map).Clear"] = func(fr *frame, a []value) value {
		p := a[0].(*value)
		delete(fr.i.ctx.natives, p)
		return nil
	}
}

// waitExponentialBackoff stands in for k8s.io/apimachinery/pkg/util/wait.ExponentialBackoff:
// the condition is called up to backoff.Steps times, without sleeping and without jitter
// (the delays are not observable by a harness, whose clock is its own).
func waitExponentialBackoff(fr *frame, a []value) value {
	b := a[0].(structure)
	steps, ok := b[3].(int)
	if !ok {
		panic(engineAbort{"UNSUPPORTED", "wait.ExponentialBackoff with a symbolic number of steps"})
	}
	for n := steps; n > 0; n-- {
		r := call(fr.i, fr, 0, a[1], nil).(tuple)
		if e := r[1].(iface); e.t != nil {
			return e
		}
		if fr.i.ctx.concBool(r[0]) {
			return iface{}
		}
	}
	fn := fr.fn
	for _, p := range fn.Prog.AllPackages() {
		if p.Pkg.Path() == "k8s.io/apimachinery/pkg/util/wait" {
			if g, ok := p.Members["ErrWaitTimeout"].(*ssa.Global); ok {
				return *fr.i.global(g)
			}
		}
	}
	panic(engineAbort{"ENGINE", "wait.ErrWaitTimeout not found"})
}
