// Intrinsics for the harness-side package zzverif/nondet.
package interp

import (
	"fmt"
	"go/types"
	"math/big"
	"strings"
)

const baseSec = int64(2_000_000_000) // the run's base instant (whole second), ns = baseSec*1e9
const nsPerSec = int64(1_000_000_000)

func (c *pathCtx) noteSymbol(label, desc string) {
	c.ex.mu.Lock()
	if _, ok := c.ex.res.Symbols[label]; !ok {
		c.ex.res.Symbols[label] = desc
	}
	c.ex.mu.Unlock()
}

func (c *pathCtx) freshInt(label string, lo, hi *big.Int, k types.BasicKind) value {
	if lo.Cmp(hi) > 0 {
		panic(pathEnd{"empty-range"})
	}
	if lo.Cmp(hi) == 0 {
		// still declare, so that the tape has an entry
	}
	d := c.newSym(label, SInt, "int")
	d.Lo, d.Hi = lo, hi
	if c.model != nil {
		c.model[d.Name] = lo
	}
	c.addPC(mkAnd(mkLe(mkBig(lo), d.term), mkLe(d.term, mkBig(hi))))
	c.noteSymbol(label, fmt.Sprintf("int[%s,%s]", lo, hi))
	return &symv{t: d.term, k: k}
}

func bigOf(v value) *big.Int {
	t, _, ok := termOf(v)
	if !ok || t.Op != "int" {
		panic(engineAbort{"ENGINE", "nondet bound must be a concrete integer"})
	}
	return t.I
}

func registerNondet() {
	p := nondetPkg + "."
	intrinsics[p+"Bool"] = func(fr *frame, a []value) value {
		c := fr.i.ctx
		label := c.concStr(a[0])
		d := c.newSym(label, SBool, "bool")
		if c.model != nil {
			c.model[d.Name] = false
		}
		c.noteSymbol(label, "bool")
		return &symv{t: d.term, k: types.Bool}
	}
	intrinsics[p+"Int"] = func(fr *frame, a []value) value {
		return fr.i.ctx.freshInt(fr.i.ctx.concStr(a[0]), bigOf(a[1]), bigOf(a[2]), types.Int)
	}
	intrinsics[p+"Int32"] = func(fr *frame, a []value) value {
		return fr.i.ctx.freshInt(fr.i.ctx.concStr(a[0]), bigOf(a[1]), bigOf(a[2]), types.Int32)
	}
	intrinsics[p+"Int64"] = func(fr *frame, a []value) value {
		return fr.i.ctx.freshInt(fr.i.ctx.concStr(a[0]), bigOf(a[1]), bigOf(a[2]), types.Int64)
	}
	intrinsics[p+"Duration"] = intrinsics[p+"Int64"]
	intrinsics[p+"String"] = func(fr *frame, a []value) value {
		c := fr.i.ctx
		label := c.concStr(a[0])
		alpha := fr.concStrSlice(a[1])
		if len(alpha) == 0 {
			panic(engineAbort{"ENGINE", "nondet.String with empty alphabet"})
		}
		d := c.newSym(label, SInt, "string")
		d.Alphabet = alpha
		var alts []*Term
		for _, s := range alpha {
			alts = append(alts, mkEq(d.term, mkInt(internStr(s))))
		}
		if c.model != nil {
			c.model[d.Name] = big.NewInt(internStr(alpha[0]))
		}
		c.addPC(mkOr(alts...))
		c.noteSymbol(label, "string{"+strings.Join(alpha, "|")+"}")
		return &symv{t: d.term, k: types.String}
	}
	intrinsics[p+"Base"] = func(fr *frame, a []value) value {
		return mkTimeVal(mkInt(baseSec * nsPerSec))
	}
	intrinsics[p+"TimeSec"] = func(fr *frame, a []value) value {
		c := fr.i.ctx
		off := c.freshInt(c.concStr(a[0]), bigOf(a[1]), bigOf(a[2]), types.Int).(*symv)
		return mkTimeVal(mkAdd(mkMul(off.t, mkInt(nsPerSec)), mkInt(baseSec*nsPerSec)))
	}
	intrinsics[p+"TimeNs"] = func(fr *frame, a []value) value {
		c := fr.i.ctx
		off := c.freshInt(c.concStr(a[0]), bigOf(a[1]), bigOf(a[2]), types.Int64).(*symv)
		return mkTimeVal(mkAdd(off.t, mkInt(baseSec*nsPerSec)))
	}
	intrinsics[p+"Assume"] = func(fr *frame, a []value) value {
		t, _, _ := termOf(a[0])
		fr.i.ctx.assume(t)
		return nil
	}
	intrinsics[p+"Assert"] = func(fr *frame, a []value) value {
		c := fr.i.ctx
		id := c.concStr(a[0])
		t, _, _ := termOf(a[1])
		c.doAssert(id, t, fr)
		return nil
	}
	intrinsics[p+"Fact"] = func(fr *frame, a []value) value {
		c := fr.i.ctx
		t, _, _ := termOf(a[1])
		c.facts[c.concStr(a[0])] = t
		return nil
	}
	intrinsics[p+"Reach"] = func(fr *frame, a []value) value {
		c := fr.i.ctx
		id := c.concStr(a[0])
		t, _, _ := termOf(a[1])
		c.doReach(id, t)
		return nil
	}
	intrinsics[p+"Observe"] = func(fr *frame, a []value) value {
		c := fr.i.ctx
		v := a[1]
		if itf, ok := v.(iface); ok {
			v = itf.v
		}
		c.obs = append(c.obs, observation{c.concStr(a[0]), snapshotValue(v)})
		return nil
	}
	boolN := func(f func(ts ...*Term) *Term) intrinsicFn {
		return func(fr *frame, a []value) value {
			var ts []*Term
			for _, x := range a[0].([]value) {
				t, _, _ := termOf(x)
				ts = append(ts, t)
			}
			return mkSym(f(ts...), types.Bool)
		}
	}
	intrinsics[p+"And"] = boolN(mkAnd)
	intrinsics[p+"Or"] = boolN(mkOr)
	intrinsics[p+"Not"] = func(fr *frame, a []value) value {
		t, _, _ := termOf(a[0])
		return mkSym(mkNot(t), types.Bool)
	}
	intrinsics[p+"Implies"] = func(fr *frame, a []value) value {
		t, _, _ := termOf(a[0])
		u, _, _ := termOf(a[1])
		return mkSym(mkImplies(t, u), types.Bool)
	}
	intrinsics[p+"Iff"] = func(fr *frame, a []value) value {
		t, _, _ := termOf(a[0])
		u, _, _ := termOf(a[1])
		return mkSym(mkEq(t, u), types.Bool)
	}
	intrinsics[p+"IteInt"] = func(fr *frame, a []value) value {
		c, _, _ := termOf(a[0])
		t, k, _ := termOf(a[1])
		u, _, _ := termOf(a[2])
		return mkSym(mkIte(c, t, u), k)
	}
	intrinsics[p+"Thorough"] = func(fr *frame, a []value) value { return fr.i.ctx.ex.Tier == "thorough" }
	intrinsics[p+"Symbolic"] = func(fr *frame, a []value) value { return true }
}

func snapshotValue(v value) value {
	if xs, ok := v.([]value); ok {
		return append([]value(nil), xs...)
	}
	return v
}

func (c *pathCtx) doAssert(id string, cond *Term, fr *frame) {
	c.w.stats.Asserts++
	c.asserts++
	c.ex.mu.Lock()
	c.ex.res.AssertIDs[id]++
	c.ex.mu.Unlock()
	if cond.Op == "bool" && cond.B {
		return
	}
	c.w.stats.AssertsSymbolic++
	c.reportFailure(id, mkNot(cond), "violation", "")
	// continue under the assumption that the assertion held
	c.assume(cond)
}

func (c *pathCtx) doReach(id string, cond *Term) {
	ex := c.ex
	ex.mu.Lock()
	ex.res.ReachIDs[id] = true
	_, have := ex.res.Reach[id]
	ex.mu.Unlock()
	if have || (cond.Op == "bool" && !cond.B) {
		return
	}
	if m := c.modelWith(cond); m != nil {
		cex := c.mkCex(id, "witness", m)
		ex.mu.Lock()
		if _, dup := ex.res.Reach[id]; !dup {
			ex.res.Reach[id] = cex
		}
		ex.mu.Unlock()
	}
}
