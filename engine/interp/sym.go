// Symbolic values, path context, forking by re-execution.
package interp

import (
	"fmt"
	"go/types"
	"math/big"
	"sort"
	"strings"
	"sync"
)

// symv is a symbolic scalar: integer of Go kind k, bool, or interned string.
type symv struct {
	t *Term
	k types.BasicKind // types.Bool, types.String, or an integer kind
}

// engine control-flow panics (never visible to the target program)
type pathEnd struct{ reason string }             // path finished early (assume false, ...)
type engineAbort struct{ kind, msg string }      // path cannot be decided: UNSUPPORTED / UNWIND / SOLVER / ENGINE

func (e engineAbort) String() string { return e.kind + ": " + e.msg }

// ---- string interning -------------------------------------------------------

var strtab = struct {
	sync.Mutex
	ids  map[string]int64
	strs []string
}{ids: map[string]int64{}}

func internStr(s string) int64 {
	strtab.Lock()
	defer strtab.Unlock()
	if id, ok := strtab.ids[s]; ok {
		return id
	}
	id := int64(len(strtab.strs))
	strtab.ids[s] = id
	strtab.strs = append(strtab.strs, s)
	return id
}

func strOfID(id int64) (string, bool) {
	strtab.Lock()
	defer strtab.Unlock()
	if id < 0 || id >= int64(len(strtab.strs)) {
		return "", false
	}
	return strtab.strs[id], true
}

// ---- integer kinds ----------------------------------------------------------

func kindRange(k types.BasicKind) (lo, hi *big.Int) {
	bits, signed := 64, true
	switch k {
	case types.Int8:
		bits = 8
	case types.Int16:
		bits = 16
	case types.Int32:
		bits = 32
	case types.Int, types.Int64:
		bits = 64
	case types.Uint8:
		bits, signed = 8, false
	case types.Uint16:
		bits, signed = 16, false
	case types.Uint32:
		bits, signed = 32, false
	case types.Uint, types.Uint64, types.Uintptr:
		bits, signed = 64, false
	default:
		panic(engineAbort{"ENGINE", fmt.Sprintf("kindRange: kind %v", k)})
	}
	one := big.NewInt(1)
	if signed {
		hi = new(big.Int).Sub(new(big.Int).Lsh(one, uint(bits-1)), one)
		lo = new(big.Int).Neg(new(big.Int).Lsh(one, uint(bits-1)))
	} else {
		lo = big.NewInt(0)
		hi = new(big.Int).Sub(new(big.Int).Lsh(one, uint(bits)), one)
	}
	return
}

func inRangeTerm(t *Term, k types.BasicKind) *Term {
	lo, hi := kindRange(k)
	return mkAnd(mkLe(mkBig(lo), t), mkLe(t, mkBig(hi)))
}

func basicKindOf(t types.Type) (types.BasicKind, bool) {
	b, ok := t.Underlying().(*types.Basic)
	if !ok {
		return 0, false
	}
	k := b.Kind()
	switch k {
	case types.UntypedInt:
		k = types.Int
	case types.UntypedRune:
		k = types.Int32
	case types.UntypedBool:
		k = types.Bool
	case types.UntypedString:
		k = types.String
	}
	return k, true
}

func isIntKind(k types.BasicKind) bool {
	switch k {
	case types.Int, types.Int8, types.Int16, types.Int32, types.Int64,
		types.Uint, types.Uint8, types.Uint16, types.Uint32, types.Uint64, types.Uintptr:
		return true
	}
	return false
}

// concrete integer value of kind k from a big.Int (assumed in range)
func concreteInt(k types.BasicKind, v *big.Int) value {
	switch k {
	case types.Int:
		return int(v.Int64())
	case types.Int8:
		return int8(v.Int64())
	case types.Int16:
		return int16(v.Int64())
	case types.Int32:
		return int32(v.Int64())
	case types.Int64:
		return v.Int64()
	case types.Uint:
		return uint(v.Uint64())
	case types.Uint8:
		return uint8(v.Uint64())
	case types.Uint16:
		return uint16(v.Uint64())
	case types.Uint32:
		return uint32(v.Uint64())
	case types.Uint64:
		return v.Uint64()
	case types.Uintptr:
		return uintptr(v.Uint64())
	}
	panic(engineAbort{"ENGINE", fmt.Sprintf("concreteInt: kind %v", k)})
}

// termOf returns the term for a scalar value (concrete or symbolic).
func termOf(x value) (*Term, types.BasicKind, bool) {
	switch x := x.(type) {
	case *symv:
		return x.t, x.k, true
	case bool:
		return mkBool(x), types.Bool, true
	case string:
		return mkInt(internStr(x)), types.String, true
	case int:
		return mkInt(int64(x)), types.Int, true
	case int8:
		return mkInt(int64(x)), types.Int8, true
	case int16:
		return mkInt(int64(x)), types.Int16, true
	case int32:
		return mkInt(int64(x)), types.Int32, true
	case int64:
		return mkInt(x), types.Int64, true
	case uint:
		return mkUint(uint64(x)), types.Uint, true
	case uint8:
		return mkUint(uint64(x)), types.Uint8, true
	case uint16:
		return mkUint(uint64(x)), types.Uint16, true
	case uint32:
		return mkUint(uint64(x)), types.Uint32, true
	case uint64:
		return mkUint(x), types.Uint64, true
	case uintptr:
		return mkUint(uint64(x)), types.Uintptr, true
	}
	return nil, 0, false
}

// mkSym wraps a term into a value, folding constants back to concrete Go values.
func mkSym(t *Term, k types.BasicKind) value {
	switch t.Op {
	case "bool":
		if k == types.Bool {
			return t.B
		}
	case "int":
		if k == types.String {
			if s, ok := strOfID(t.I.Int64()); ok {
				return s
			}
		} else if isIntKind(k) {
			lo, hi := kindRange(k)
			if t.I.Cmp(lo) >= 0 && t.I.Cmp(hi) <= 0 {
				return concreteInt(k, t.I)
			}
			// out of range constant: keep symbolic so the overflow obligation reports it
		}
	}
	return &symv{t: t, k: k}
}

// ---- symbols & path context ---------------------------------------------------

type symDecl struct {
	Name     string
	Sort     Sort
	Kind     string // bool int string
	Alphabet []string
	Lo, Hi   *big.Int
	term     *Term
}

type oblig struct {
	t   *Term
	pos string
	why string
}

type observation struct {
	Name string
	v    value
}

type factRec struct {
	name string
	t    *Term
}

type assertHit struct {
	ID string
}

type pathCtx struct {
	ex        *Explorer
	w         *worker
	prefix    []uint8
	decisions []uint8
	pc        []*Term
	syms      []*symDecl
	symByName map[string]*symDecl
	labelN    map[string]int
	obligs    []oblig
	facts     map[string]*Term
	obs       []observation
	reachHit  map[string]bool
	nowCount  int
	lastNow   *Term
	asserts   int // assertion evaluations on this path
	steps     int64
	notes     []string
	lastPanicSite string
	// model is a satisfying assignment of the current pc (nil if unknown): lets branch()
	// decide one side of a condition by evaluation instead of a solver query.
	model map[string]interface{}
	lastPanicStack string
	// native handles (regexp etc.) keyed by identity of interpreter pointers
	natives map[*value]interface{}
	// inline goroutine schedule: nesting depth of `go` bodies being run, and the channels made on this path
	goDepth int
	chans   []*chanObj
	// lockset race check under the inline schedule (see raceWrite)
	gidStack []int
	nextGid  int
	// per goroutine id: the goroutine that spawned it and the value of raceSeq at its `go` statement
	gidParent map[int]int
	gidSpawn  map[int]int
	// gidTop: the enclosing goroutine started by harness code (a controller's reconcile run in its own
	// goroutine by a harness), 0 for goroutines of a run the harness makes directly
	gidTop map[int]int
	raceSeq   int
	held     map[*value]int
	wrote    map[interface{}]raceRec
	readBy   map[interface{}][]raceRec
}

type raceRec struct {
	gid   int
	locks []*value
	site  string
	seq   int // value of pathCtx.raceSeq when recorded (for reads: at the latest read)
}

func (c *pathCtx) solver() *Solver { return c.w.solver }

func (c *pathCtx) addPC(t *Term) {
	if t.Op == "bool" && t.B {
		return
	}
	c.pc = append(c.pc, t)
	c.solver().Assert(t)
	if c.model != nil {
		if b, ok := c.evalBool(t); !ok || !b {
			c.model = nil
		}
	}
}

func (c *pathCtx) evalBool(t *Term) (res bool, ok bool) {
	defer func() {
		if r := recover(); r != nil {
			ok = false
		}
	}()
	b, isb := t.eval(c.model).(bool)
	return b, isb
}

// fetchModel reads a model after a "sat" answer while the query's assertions are still pushed.
func (c *pathCtx) fetchModel() map[string]interface{} {
	names := make([]string, len(c.syms))
	sorts := make([]Sort, len(c.syms))
	for i, d := range c.syms {
		names[i] = d.Name
		sorts[i] = d.Sort
	}
	return c.solver().Model(names, sorts)
}

// checkSatModel: like checkSat, but on "sat" also returns a model.
func (c *pathCtx) checkSatModel(extra ...*Term) (string, map[string]interface{}) {
	s := c.solver()
	s.Push()
	defer s.Pop()
	for _, e := range extra {
		s.Assert(e)
	}
	r := s.Check()
	if r == "unknown" {
		msg := "solver answered unknown"
		if n := len(s.Errors); n > 0 {
			msg = "solver error: " + s.Errors[n-1]
		}
		panic(engineAbort{"SOLVER", msg})
	}
	if r == "sat" {
		return r, c.fetchModel()
	}
	return r, nil
}

func (c *pathCtx) newSym(label string, sort Sort, kind string) *symDecl {
	n := c.labelN[label]
	c.labelN[label] = n + 1
	name := fmt.Sprintf("%s#%d", label, n)
	if strings.ContainsAny(name, "|\\") {
		panic(engineAbort{"ENGINE", "bad symbol label " + name})
	}
	d := &symDecl{Name: name, Sort: sort, Kind: kind, term: mkVar(name, sort)}
	c.syms = append(c.syms, d)
	c.symByName[name] = d
	c.solver().Declare(name, sort)
	return d
}

// decision bookkeeping -------------------------------------------------------

func (c *pathCtx) inPrefix() bool { return len(c.decisions) < len(c.prefix) }

func (c *pathCtx) record(d uint8) {
	c.decisions = append(c.decisions, d)
	c.w.stats.Decisions++
	if len(c.decisions) > c.ex.MaxDecisions {
		panic(engineAbort{"UNWIND", fmt.Sprintf("more than %d symbolic decisions on one path", c.ex.MaxDecisions)})
	}
}

func (c *pathCtx) checkSat(extra ...*Term) string {
	r := c.solver().CheckWith(extra...)
	if r == "unknown" {
		msg := "solver answered unknown"
		if n := len(c.solver().Errors); n > 0 {
			msg = "solver error: " + c.solver().Errors[n-1]
		}
		panic(engineAbort{"SOLVER", msg})
	}
	return r
}

// branch decides a symbolic condition, forking if both sides are feasible.
func (c *pathCtx) branch(cond *Term) bool {
	if cond.Op == "bool" {
		return cond.B
	}
	if c.inPrefix() {
		d := c.prefix[len(c.decisions)]
		c.record(d)
		if d == 1 {
			c.addPC(cond)
			return true
		}
		c.addPC(mkNot(cond))
		return false
	}
	ncond := mkNot(cond)
	fork := func() {
		alt := make([]uint8, len(c.decisions)+1)
		copy(alt, c.decisions)
		alt[len(c.decisions)] = 0
		c.ex.push(alt)
		c.w.stats.Forks++
	}
	if c.model != nil {
		if b, ok := c.evalBool(cond); ok {
			if b {
				// true side is feasible by the cached model; ask only about the false side
				if c.checkSat(ncond) == "sat" {
					fork()
				}
				c.record(1)
				c.addPC(cond)
				return true
			}
			// false side feasible by the cached model
			r, m := c.checkSatModel(cond)
			if r == "sat" {
				fork()
				c.record(1)
				c.model = m
				c.addPC(cond)
				return true
			}
			c.record(0)
			c.addPC(ncond)
			return false
		}
	}
	r, m := c.checkSatModel(cond)
	if r == "sat" {
		if c.checkSat(ncond) == "sat" {
			fork()
		}
		c.record(1)
		c.model = m
		c.addPC(cond)
		return true
	}
	// pc is satisfiable (invariant), so ¬cond must be
	c.record(0)
	c.addPC(ncond)
	return false
}

// assume restricts the path; ends it if infeasible.
func (c *pathCtx) assume(cond *Term) {
	if cond.Op == "bool" {
		if !cond.B {
			panic(pathEnd{"assume-false"})
		}
		return
	}
	if c.inPrefix() {
		d := c.prefix[len(c.decisions)]
		c.record(d)
		if d == 0 {
			panic(pathEnd{"assume-infeasible"})
		}
		c.addPC(cond)
		return
	}
	if c.model != nil {
		if b, ok := c.evalBool(cond); ok && b {
			c.record(1)
			c.addPC(cond)
			return
		}
	}
	if r, m := c.checkSatModel(cond); r == "sat" {
		c.record(1)
		c.model = m
		c.addPC(cond)
		return
	}
	c.record(0)
	panic(pathEnd{"assume-infeasible"})
}

// choose picks one of mutually exclusive, jointly exhaustive conditions, forking over the feasible ones.
func (c *pathCtx) choose(conds []*Term) int {
	for i, cd := range conds {
		if i == len(conds)-1 {
			// exhaustive: the last one must hold; still add it to the pc
			c.assume(cd)
			return i
		}
		if c.branch(cd) {
			return i
		}
	}
	panic(engineAbort{"ENGINE", "choose: no candidates"})
}

// string candidates of an Int term standing for a string id
func (c *pathCtx) strCands(t *Term, out map[int64]bool) {
	switch t.Op {
	case "int":
		out[t.I.Int64()] = true
	case "var":
		d := c.symByName[t.Name]
		if d == nil || d.Kind != "string" {
			panic(engineAbort{"ENGINE", "string candidates of non-string var " + t.Name})
		}
		for _, s := range d.Alphabet {
			out[internStr(s)] = true
		}
	case "ite":
		c.strCands(t.Args[1], out)
		c.strCands(t.Args[2], out)
	default:
		panic(engineAbort{"UNSUPPORTED", "string term " + t.Op})
	}
}

func (c *pathCtx) concStr(x value) string {
	switch x := x.(type) {
	case string:
		return x
	case *symv:
		if x.k != types.String {
			panic(engineAbort{"ENGINE", "concStr of non-string"})
		}
		cm := map[int64]bool{}
		c.strCands(x.t, cm)
		ids := make([]int64, 0, len(cm))
		for id := range cm {
			ids = append(ids, id)
		}
		// deterministic order: by string
		sort.Slice(ids, func(i, j int) bool {
			a, _ := strOfID(ids[i])
			b, _ := strOfID(ids[j])
			return a < b
		})
		conds := make([]*Term, len(ids))
		for i, id := range ids {
			conds[i] = mkEq(x.t, mkInt(id))
		}
		c.w.stats.Concretizations++
		k := c.choose(conds)
		s, _ := strOfID(ids[k])
		return s
	}
	panic(engineAbort{"ENGINE", fmt.Sprintf("concStr of %T", x)})
}

func (c *pathCtx) concBool(x value) bool {
	switch x := x.(type) {
	case bool:
		return x
	case *symv:
		return c.branch(x.t)
	}
	panic(engineAbort{"ENGINE", fmt.Sprintf("concBool of %T", x)})
}

// concInt concretises a symbolic integer known to lie in [lo,hi] (inclusive) by forking;
// values outside are left to the caller (returns ok=false on that fork).
func (c *pathCtx) concIntIn(x value, lo, hi int64) (int64, bool) {
	sv, ok := x.(*symv)
	if !ok {
		v := asInt64(x)
		return v, v >= lo && v <= hi
	}
	if hi-lo > int64(c.ex.MaxConcRange) {
		panic(engineAbort{"UNSUPPORTED", fmt.Sprintf("concretisation range [%d,%d] too large", lo, hi)})
	}
	c.w.stats.Concretizations++
	inr := mkAnd(mkLe(mkInt(lo), sv.t), mkLe(sv.t, mkInt(hi)))
	if !c.branch(inr) {
		return 0, false
	}
	for v := lo; v < hi; v++ {
		if c.branch(mkEq(sv.t, mkInt(v))) {
			return v, true
		}
	}
	c.assume(mkEq(sv.t, mkInt(hi)))
	return hi, true
}

// conc turns any scalar into a concrete Go value (forking as needed). Integers must be
// declared with a small range.
func (c *pathCtx) conc(x value) value {
	sv, ok := x.(*symv)
	if !ok {
		return x
	}
	switch {
	case sv.k == types.Bool:
		return c.concBool(sv)
	case sv.k == types.String:
		return c.concStr(sv)
	default:
		lo, hi, ok := c.termBounds(sv.t)
		if !ok {
			panic(engineAbort{"UNSUPPORTED", "cannot concretise unbounded symbolic integer " + sv.t.SMT()})
		}
		v, in := c.concIntIn(sv, lo, hi)
		if !in {
			panic(engineAbort{"ENGINE", "concretisation outside computed bounds"})
		}
		return concreteInt(sv.k, big.NewInt(v))
	}
}

// termBounds: cheap syntactic interval for var / const / +,- of those.
func (c *pathCtx) termBounds(t *Term) (lo, hi int64, ok bool) {
	switch t.Op {
	case "int":
		if t.I.IsInt64() {
			return t.I.Int64(), t.I.Int64(), true
		}
	case "var":
		d := c.symByName[t.Name]
		if d != nil && d.Lo != nil && d.Hi != nil && d.Lo.IsInt64() && d.Hi.IsInt64() {
			return d.Lo.Int64(), d.Hi.Int64(), true
		}
	case "+":
		l1, h1, ok1 := c.termBounds(t.Args[0])
		l2, h2, ok2 := c.termBounds(t.Args[1])
		if ok1 && ok2 {
			return l1 + l2, h1 + h2, true
		}
	case "-":
		l1, h1, ok1 := c.termBounds(t.Args[0])
		l2, h2, ok2 := c.termBounds(t.Args[1])
		if ok1 && ok2 {
			return l1 - h2, h1 - l2, true
		}
	case "ite":
		l1, h1, ok1 := c.termBounds(t.Args[1])
		l2, h2, ok2 := c.termBounds(t.Args[2])
		if ok1 && ok2 {
			if l2 < l1 {
				l1 = l2
			}
			if h2 > h1 {
				h1 = h2
			}
			return l1, h1, true
		}
	}
	return 0, 0, false
}

func (c *pathCtx) addOblig(t *Term, pos, why string) {
	if t.Op == "bool" && t.B {
		return
	}
	c.obligs = append(c.obligs, oblig{t, pos, why})
}

// model query for the current pc (plus extras); returns nil if unsat
func (c *pathCtx) modelWith(extra ...*Term) map[string]interface{} {
	s := c.solver()
	s.Push()
	defer s.Pop()
	for _, e := range extra {
		s.Assert(e)
	}
	r := s.Check()
	if r == "unknown" {
		panic(engineAbort{"SOLVER", "solver answered unknown"})
	}
	if r != "sat" {
		return nil
	}
	names := make([]string, len(c.syms))
	sorts := make([]Sort, len(c.syms))
	for i, d := range c.syms {
		names[i] = d.Name
		sorts[i] = d.Sort
	}
	m := s.Model(names, sorts)
	if m == nil {
		panic(engineAbort{"SOLVER", "get-value failed"})
	}
	return m
}

// Tape is the list of concrete inputs for a native replay of one path.
type TapeEntry struct {
	N string `json:"n"`
	K string `json:"k"`
	V string `json:"v"`
}

func (c *pathCtx) tapeFrom(m map[string]interface{}) []TapeEntry {
	var tape []TapeEntry
	for _, d := range c.syms {
		e := TapeEntry{N: d.Name, K: d.Kind}
		v, ok := m[d.Name]
		switch d.Kind {
		case "bool":
			b, _ := v.(bool)
			e.V = fmt.Sprint(ok && b)
		case "int":
			if bi, isb := v.(*big.Int); ok && isb {
				e.V = bi.String()
			} else if d.Lo != nil {
				e.V = d.Lo.String()
			} else {
				e.V = "0"
			}
		case "string":
			if bi, isb := v.(*big.Int); ok && isb {
				s, _ := strOfID(bi.Int64())
				e.V = s
			} else if len(d.Alphabet) > 0 {
				e.V = d.Alphabet[0]
			}
		}
		tape = append(tape, e)
	}
	return tape
}

// render a value under a model, for observations
func renderValue(v value, m map[string]interface{}) string {
	switch x := v.(type) {
	case *symv:
		r := x.t.eval(m)
		switch x.k {
		case types.Bool:
			return fmt.Sprint(r.(bool))
		case types.String:
			s, _ := strOfID(r.(*big.Int).Int64())
			return fmt.Sprintf("%q", s)
		default:
			return r.(*big.Int).String()
		}
	case string:
		return fmt.Sprintf("%q", x)
	case []value:
		parts := make([]string, len(x))
		for i, e := range x {
			parts[i] = renderValue(e, m)
		}
		return "[" + strings.Join(parts, " ") + "]"
	case iface:
		return renderValue(x.v, m)
	case nil:
		return "nil"
	default:
		return fmt.Sprint(x)
	}
}
