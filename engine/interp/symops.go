// Symbolic cases of BinOp / Convert.
package interp

import (
	"fmt"
	"go/token"
	"go/types"
	"math/big"

	"golang.org/x/tools/go/ssa"
)

// native wraps a Go value owned by an intrinsic (compiled regexp, hash state ...).
type native struct {
	v interface{}
}

func asInt64orU(x value) int64 {
	switch x := x.(type) {
	case uint64:
		if x == 0 {
			return 0
		}
		return 1
	case float32, float64, complex64, complex128:
		return 1
	}
	return asInt64(x)
}

func isSym(x value) bool { _, ok := x.(*symv); return ok }

// symBinop handles binary operators when at least one operand is symbolic.
func symBinop(fr *frame, instr ssa.Instruction, op token.Token, t types.Type, x, y value) (value, bool) {
	xs, xok := x.(*symv)
	ys, yok := y.(*symv)
	if !xok && !yok {
		return nil, false
	}
	ctx := fr.i.ctx
	// kind of the operation = kind of whichever operand is symbolic
	var k types.BasicKind
	if xok {
		k = xs.k
	} else {
		k = ys.k
	}
	if k == types.Float64 {
		return symFloatBinop(fr, instr, op, x, y), true
	}
	// shifts: the shift count may have a different type
	if op == token.SHL || op == token.SHR {
		panic(engineAbort{"UNSUPPORTED", "shift with symbolic operand at " + fr.pos(instr)})
	}
	tx, _, ok1 := termOf(x)
	ty, _, ok2 := termOf(y)
	if !ok1 || !ok2 {
		panic(engineAbort{"ENGINE", fmt.Sprintf("symBinop: operands %T %s %T", x, op, y)})
	}
	switch k {
	case types.Bool:
		switch op {
		case token.EQL:
			return mkSym(mkEq(tx, ty), types.Bool), true
		case token.NEQ:
			return mkSym(mkNot(mkEq(tx, ty)), types.Bool), true
		case token.AND, token.LAND:
			return mkSym(mkAnd(tx, ty), types.Bool), true
		case token.OR, token.LOR:
			return mkSym(mkOr(tx, ty), types.Bool), true
		}
	case types.String:
		switch op {
		case token.EQL:
			return mkSym(mkEq(tx, ty), types.Bool), true
		case token.NEQ:
			return mkSym(mkNot(mkEq(tx, ty)), types.Bool), true
		case token.ADD, token.LSS, token.LEQ, token.GTR, token.GEQ:
			// concretise both sides and redo concretely
			cx := ctx.concStr(x)
			cy := ctx.concStr(y)
			return binop(fr, instr, op, t, cx, cy), true
		}
	default:
		if !isIntKind(k) {
			break
		}
		switch op {
		case token.ADD, token.SUB, token.MUL:
			var r *Term
			switch op {
			case token.ADD:
				r = mkAdd(tx, ty)
			case token.SUB:
				r = mkSub(tx, ty)
			case token.MUL:
				r = mkMul(tx, ty)
			}
			ctx.addOblig(inRangeTerm(r, k), fr.pos(instr), "integer overflow in "+op.String())
			return mkSym(r, k), true
		case token.QUO, token.REM:
			if ctx.branch(mkEq(ty, mkInt(0))) {
				fr.runtimePanic("runtime error: integer divide by zero")
			}
			var r *Term
			if op == token.QUO {
				r = mkTDiv(tx, ty)
				// MinInt / -1 overflows
				ctx.addOblig(inRangeTerm(r, k), fr.pos(instr), "integer overflow in /")
			} else {
				r = mkTMod(tx, ty)
			}
			return mkSym(r, k), true
		case token.EQL:
			return mkSym(mkEq(tx, ty), types.Bool), true
		case token.NEQ:
			return mkSym(mkNot(mkEq(tx, ty)), types.Bool), true
		case token.LSS:
			return mkSym(mkLt(tx, ty), types.Bool), true
		case token.LEQ:
			return mkSym(mkLe(tx, ty), types.Bool), true
		case token.GTR:
			return mkSym(mkLt(ty, tx), types.Bool), true
		case token.GEQ:
			return mkSym(mkLe(ty, tx), types.Bool), true
		}
	}
	panic(engineAbort{"UNSUPPORTED", fmt.Sprintf("binary %s on symbolic %v at %s", op, k, fr.pos(instr))})
}

// Symbolic float64: only values that are exact integers (converted from int32/int64 counters);
// the term is the integer value.
func symFloatTerm(x value) (*Term, bool) {
	switch x := x.(type) {
	case *symv:
		if x.k == types.Float64 {
			return x.t, true
		}
	case float64:
		if x == float64(int64(x)) && x < 1e15 && x > -1e15 {
			return mkInt(int64(x)), true
		}
	}
	return nil, false
}

func symFloatEq(ys *symv, x float64) *Term {
	tx, ok := symFloatTerm(x)
	if !ok {
		return tFalse // a non-integral constant never equals an integral value
	}
	return mkEq(ys.t, tx)
}

func symFloatBinop(fr *frame, instr ssa.Instruction, op token.Token, x, y value) value {
	tx, ok1 := symFloatTerm(x)
	ty, ok2 := symFloatTerm(y)
	if !ok1 || !ok2 {
		panic(engineAbort{"UNSUPPORTED", "symbolic float mixed with non-integral float at " + fr.pos(instr)})
	}
	switch op {
	case token.EQL:
		return mkSym(mkEq(tx, ty), types.Bool)
	case token.NEQ:
		return mkSym(mkNot(mkEq(tx, ty)), types.Bool)
	case token.LSS:
		return mkSym(mkLt(tx, ty), types.Bool)
	case token.LEQ:
		return mkSym(mkLe(tx, ty), types.Bool)
	case token.GTR:
		return mkSym(mkLt(ty, tx), types.Bool)
	case token.GEQ:
		return mkSym(mkLe(ty, tx), types.Bool)
	}
	panic(engineAbort{"UNSUPPORTED", fmt.Sprintf("float %s on symbolic operand at %s", op, fr.pos(instr))})
}

// symConv: conversions of a symbolic scalar.
func symConv(fr *frame, instr ssa.Instruction, ut_dst, ut_src types.Type, sv *symv) value {
	ctx := fr.i.ctx
	switch dst := ut_dst.(type) {
	case *types.Basic:
		dk := dst.Kind()
		switch {
		case sv.k == types.String && dk == types.String:
			return sv
		case sv.k == types.Bool && dk == types.Bool:
			return sv
		case isIntKind(sv.k) && isIntKind(dk):
			// Go wraps silently; the engine uses mathematical integers and records
			// "value fits the destination type" as an obligation.
			slo, shi := kindRange(sv.k)
			dlo, dhi := kindRange(dk)
			if slo.Cmp(dlo) < 0 || shi.Cmp(dhi) > 0 {
				ctx.addOblig(inRangeTerm(sv.t, dk), fr.pos(instr), fmt.Sprintf("integer conversion %v->%v loses value", ut_src, ut_dst))
			}
			return mkSym(sv.t, dk)
		case isIntKind(sv.k) && dk == types.Float64:
			// exact for |v| < 2^53; recorded as obligation
			lim := new(big.Int).Lsh(big.NewInt(1), 53)
			ctx.addOblig(mkAnd(mkLe(mkBig(new(big.Int).Neg(lim)), sv.t), mkLe(sv.t, mkBig(lim))), fr.pos(instr), "int->float64 exactness")
			return &symv{t: sv.t, k: types.Float64}
		case sv.k == types.Float64 && dk == types.Float64:
			return sv
		case sv.k == types.Float64 && isIntKind(dk):
			ctx.addOblig(inRangeTerm(sv.t, dk), fr.pos(instr), "float->int conversion range")
			return mkSym(sv.t, dk)
		case isIntKind(sv.k) && dk == types.String:
			c := ctx.conc(sv)
			return fmt.Sprintf("%c", widen(c))
		}
	case *types.Slice:
		if sv.k == types.String {
			s := ctx.concStr(sv)
			return conv(fr, instr, ut_dst, ut_src, s)
		}
	}
	panic(engineAbort{"UNSUPPORTED", fmt.Sprintf("conversion of symbolic %v: %v -> %v at %s", sv.k, ut_src, ut_dst, fr.pos(instr))})
}
