// gosym: bounded symbolic checking of DataDog/extendeddaemonset (see /verif/DESIGN.md).
//
//	gosym check <PROP> [--tier quick|thorough] [--seed N] [--jobs N] [--only harness] [--no-replay]
//	gosym replay <counterexample.json>
//	gosym selftest
package main

import (
	"flag"
	"fmt"
	"os"
	"strings"

	"verif/engine/driver"
)

func main() {
	if len(os.Args) < 2 {
		usage()
	}
	switch os.Args[1] {
	case "check":
		fs := flag.NewFlagSet("check", flag.ExitOnError)
		tier := fs.String("tier", envOr("VERIF_TIER", "quick"), "quick|thorough")
		seed := fs.Int64("seed", envInt("VERIF_SEED", 1), "seed for path sampling")
		jobs := fs.Int("jobs", 0, "workers (default: all cores)")
		only := fs.String("only", "", "run only harnesses whose name contains this")
		noReplay := fs.Bool("no-replay", false, "skip native replays (development only; exit code 2)")
		trace := fs.Bool("trace", false, "trace interpreted instructions (jobs=1)")
		solver := fs.String("solver", "z3", "z3|z3-new|cvc5")
		verbose := fs.Bool("v", false, "verbose")
		if len(os.Args) < 3 {
			usage()
		}
		prop := os.Args[2]
		fs.Parse(os.Args[3:])
		os.Exit(driver.Check(driver.Options{
			Property: prop, Tier: *tier, Seed: *seed, Jobs: *jobs, Only: *only,
			NoReplay: *noReplay, Trace: *trace, Solver: *solver, Verbose: *verbose,
		}))
	case "replay":
		if len(os.Args) < 3 {
			usage()
		}
		os.Exit(driver.Replay(os.Args[2]))
	case "selftest":
		os.Exit(driver.Selftest())
	default:
		usage()
	}
}

func envOr(k, d string) string {
	if v := os.Getenv(k); v != "" {
		return v
	}
	return d
}

func envInt(k string, d int64) int64 {
	var n int64
	if _, err := fmt.Sscan(os.Getenv(k), &n); err == nil {
		return n
	}
	return d
}

func usage() {
	fmt.Fprintln(os.Stderr, strings.TrimSpace(`
usage: gosym check <PROP> [--tier quick|thorough] [--seed N] [--jobs N]
       gosym replay <counterexample.json>
       gosym selftest`))
	os.Exit(2)
}
