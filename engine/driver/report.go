package driver

import (
	"encoding/json"
	"fmt"
	"os"
	"os/exec"
	"path/filepath"
	"sort"
	"strings"
	"time"

	"verif/engine/interp"
)

type report struct {
	opts       Options
	hs         []harnessRef
	allHarness []harnessRef
	results    []*interp.HarnessResult
	regions    []interp.Region
	outDir     string
	overlay    map[string]string
	loadTime   time.Duration

	replayed       int
	replayAgreed   int
	replayProblems []string
	nativeTime     time.Duration
}

type replayCase struct {
	ID      string             `json:"id"`
	Harness string             `json:"harness"`
	Tier    string             `json:"tier"`
	Tape    []interp.TapeEntry `json:"tape"`
	Repeat  int                `json:"repeat"`
	// what the engine saw on the path (witnesses and samples; see zzverif/nondet)
	WantReach    string            `json:"want_reach,omitempty"`
	WantObserved map[string]string `json:"want_observed,omitempty"`
}

type replayResult struct {
	ID          string            `json:"id"`
	Harness     string            `json:"harness"`
	Failed      []string          `json:"failed_asserts"`
	Passed      []string          `json:"passed_asserts"`
	Reached     []string          `json:"reached"`
	Observed    map[string]string `json:"observed"`
	Facts       map[string]bool   `json:"facts"`
	Panic       string            `json:"panic"`
	PanicStack  string            `json:"panic_stack"`
	AssumeFail  bool              `json:"assume_failed"`
	TapeMisses  []string          `json:"tape_misses"`
	WallClockOK bool              `json:"wall_clock_ok"`
	Hung        bool              `json:"hung,omitempty"`
	Raced       bool              `json:"raced,omitempty"`
}

func shortName(full string) string {
	if k := strings.LastIndex(full, "."); k >= 0 {
		return full[k+1:]
	}
	return full
}

func contains(xs []string, s string) bool {
	for _, x := range xs {
		if x == s {
			return true
		}
	}
	return false
}

type caseRef struct {
	cex  *interp.Cex
	rel  string
	id   string
	kind string
}

// runNative replays cases for one package and returns results by id.
func runNative(overlay map[string]string, all []harnessRef, rel string, cases []replayCase, dir string) (map[string]*replayResult, string, error) {
	os.MkdirAll(dir, 0o755)
	// generated in-package dispatcher
	var names []string
	pkgName := ""
	for _, h := range all {
		if h.Rel == rel {
			names = append(names, h.Name)
			if pkgName == "" {
				data, _ := os.ReadFile(h.File)
				for _, ln := range strings.Split(string(data), "\n") {
					if strings.HasPrefix(ln, "package ") {
						pkgName = strings.TrimSpace(strings.TrimPrefix(ln, "package "))
						break
					}
				}
			}
		}
	}
	var sb strings.Builder
	sb.WriteString("//go:build verif\n\npackage " + pkgName + "\n\nimport (\n\t\"testing\"\n\n\t\"" + modPath + "/zzverif/nondet\"\n)\n\n")
	sb.WriteString("func TestZZReplay(t *testing.T) {\n\tnondet.RunReplay(t, map[string]func(){\n")
	for _, n := range names {
		fmt.Fprintf(&sb, "\t\t%q: %s,\n", n, n)
	}
	sb.WriteString("\t})\n}\n")
	gen := filepath.Join(dir, "zz_verif_replay_test.go")
	if err := os.WriteFile(gen, []byte(sb.String()), 0o644); err != nil {
		return nil, "", err
	}
	ov := map[string]map[string]string{"Replace": {}}
	for v, r := range overlay {
		ov["Replace"][v] = r
	}
	ov["Replace"][filepath.Join(repoRoot(), rel, "zz_verif_replay_test.go")] = gen
	ovData, _ := json.Marshal(ov)
	ovFile := filepath.Join(dir, "overlay.json")
	os.WriteFile(ovFile, ovData, 0o644)
	tapes := filepath.Join(dir, "tapes.json")
	cd, _ := json.MarshalIndent(cases, "", " ")
	os.WriteFile(tapes, cd, 0o644)
	outFile := filepath.Join(dir, "native.json")
	os.Remove(outFile)
	args := []string{"test", "-tags", "verif", "-overlay", ovFile, "-vet=off", "-count=1", "-timeout", "20m"}
	if nativeRace {
		args = append(args, "-race")
	}
	args = append(args, "-run", "^TestZZReplay$", "./"+rel+"/")
	var outb []byte
	var err error
	// Whether the race detector sees a race depends on the interleaving the Go scheduler happens to pick (the
	// mutex of the fake API server orders some of them): a replay under -race that stays silent is repeated
	// a few times before the counterexample is declared not reproduced.
	for attempt := 0; attempt < 5; attempt++ {
		cmd := exec.Command("go", args...)
		cmd.Dir = repoRoot()
		cmd.Env = append(goEnv(), "VERIF_TAPES="+tapes, "VERIF_OUT="+outFile)
		outb, err = cmd.CombinedOutput()
		if !nativeRace || strings.Contains(string(outb), "WARNING: DATA RACE") {
			break
		}
	}
	os.WriteFile(filepath.Join(dir, "gotest.log"), outb, 0o644)
	data, rerr := os.ReadFile(outFile)
	if rerr != nil {
		return nil, string(outb), fmt.Errorf("native replay produced no result (go test: %v)", err)
	}
	var rs []*replayResult
	if jerr := json.Unmarshal(data, &rs); jerr != nil {
		return nil, string(outb), jerr
	}
	m := map[string]*replayResult{}
	for _, r := range rs {
		if nativeRace && strings.Contains(string(outb), "WARNING: DATA RACE") {
			// the race detector's verdict is per process: the cases of this run are the RACE counterexamples
			r.Raced = true
			if r.Panic == "" {
				r.Panic = "DATA RACE reported by the Go race detector"
			}
		}
		m[r.ID] = r
	}
	return m, string(outb), nil
}

// nativeRace: the next runNative call builds and runs the replay with -race (used for the counterexamples
// of the engine's lockset check).
var nativeRace bool

func (rp *report) nativeReplay() {
	t0 := time.Now()
	defer func() { rp.nativeTime = time.Since(t0) }()
	byRel := map[string][]caseRef{}
	relOf := map[string]string{}
	for _, h := range rp.hs {
		relOf[h.Name] = h.Rel
	}
	n := 0
	add := func(c *interp.Cex, kind string) {
		n++
		id := fmt.Sprintf("%s-%d", kind, n)
		rel := relOf[shortName(c.Harness)]
		byRel[rel] = append(byRel[rel], caseRef{cex: c, rel: rel, id: id, kind: kind})
	}
	for _, r := range rp.results {
		for _, c := range r.Violations {
			add(c, "violation")
		}
		var ks []int
		for k := range r.Known {
			ks = append(ks, k)
		}
		sort.Ints(ks)
		for _, k := range ks {
			add(r.Known[k], "known")
		}
		var ids []string
		for id := range r.Reach {
			ids = append(ids, id)
		}
		sort.Strings(ids)
		for _, id := range ids {
			add(r.Reach[id], "witness")
		}
		for _, c := range r.Samples {
			add(c, "sample")
		}
	}
	var rels []string
	for rel := range byRel {
		rels = append(rels, rel)
	}
	sort.Strings(rels)
	for _, rel := range rels {
		refs := byRel[rel]
		var cases []replayCase
		for _, cr := range refs {
			rc := replayCase{ID: cr.id, Harness: shortName(cr.cex.Harness), Tier: rp.opts.Tier, Tape: cr.cex.Tape}
			if cr.kind == "violation" || cr.kind == "known" {
				rc.Repeat = 32 // outcomes may depend on Go's randomised map iteration order
			} else {
				// witnesses and samples: repeated until the native run agrees with what the engine saw on
				// the path (which node a rate-limited plan picks follows the randomised map order); a
				// native assertion failure or panic ends the repetition at once and is reported
				rc.Repeat = 16
				rc.WantObserved = cr.cex.Observed
				if rc.WantObserved == nil {
					rc.WantObserved = map[string]string{}
				}
				if cr.kind == "witness" {
					rc.WantReach = cr.cex.Assertion
				}
			}
			cases = append(cases, rc)
		}
		dir := filepath.Join(rp.outDir, "native", strings.ReplaceAll(rel, "/", "_"))
		var raceCases, plain []replayCase
		for i, cr := range refs {
			if strings.Contains(cr.cex.Assertion, "RACE") && (cr.kind == "violation" || cr.kind == "known") {
				rc := cases[i]
				rc.Repeat = 4
				raceCases = append(raceCases, rc)
			} else {
				plain = append(plain, cases[i])
			}
		}
		cases = plain
		var raceRes map[string]*replayResult
		if len(raceCases) > 0 {
			nativeRace = true
			raceRes, _, _ = runNative(rp.overlay, rp.allHarness, rel, raceCases, dir+"_race")
			nativeRace = false
		}
		res, log, err := runNative(rp.overlay, rp.allHarness, rel, cases, dir)
		if err == nil {
			for id, r := range raceRes {
				res[id] = r
			}
		}
		if err != nil {
			rp.replayProblems = append(rp.replayProblems, fmt.Sprintf("native replay of %s failed: %v\n%s", rel, err, tail(log, 30)))
			continue
		}
		// retry cases whose wall-clock window was missed
		var retry []replayCase
		for _, c := range cases {
			if r := res[c.ID]; r != nil && !r.WallClockOK && !r.Hung {
				retry = append(retry, c)
			}
		}
		if len(retry) > 0 {
			res2, _, err2 := runNative(rp.overlay, rp.allHarness, rel, retry, dir+"_retry")
			if err2 == nil {
				for id, r := range res2 {
					res[id] = r
				}
			}
		}
		for _, cr := range refs {
			rp.judge(cr, res[cr.id])
		}
	}
}

func tail(s string, n int) string {
	ls := strings.Split(strings.TrimSpace(s), "\n")
	if len(ls) > n {
		ls = ls[len(ls)-n:]
	}
	return strings.Join(ls, "\n")
}

func (rp *report) judge(cr caseRef, r *replayResult) {
	rp.replayed++
	c := cr.cex
	yes, no := true, false
	fail := func(msg string) {
		c.NativeOK = &no
		c.NativeNote = msg
		rp.replayProblems = append(rp.replayProblems, fmt.Sprintf("%s %s (%s %s): %s", cr.kind, cr.id, shortName(c.Harness), c.Assertion, msg))
	}
	if r == nil {
		fail("no native result")
		return
	}
	isViol := cr.kind == "violation" || cr.kind == "known"
	reproduced := false
	if isViol {
		if strings.HasPrefix(c.Assertion, "PANIC") {
			reproduced = r.Panic != ""
		} else {
			reproduced = contains(r.Failed, c.Assertion)
		}
	}
	// the engine ends a path at a failed assertion; natively the harness runs on and may ask for
	// inputs the engine never created: such misses are irrelevant once the failure reproduced
	if len(r.TapeMisses) > 0 && !reproduced {
		fail("native run asked for inputs not on the tape (path divergence): " + strings.Join(r.TapeMisses, ","))
		return
	}
	// a hang that reproduces a reported deadlock cannot, by nature, finish inside the wall-clock window
	hungAsPredicted := reproduced && r.Hung && strings.Contains(c.Assertion, "DEADLOCK")
	if strings.Contains(c.Assertion, "RACE") {
		// decided by the race detector alone (a race-instrumented binary is slow: no wall-clock window)
		if !r.Raced {
			fail("the race detector did not report the race natively")
			return
		}
		hungAsPredicted = true
	}
	if !r.WallClockOK && !hungAsPredicted {
		fail("native run exceeded the 1s wall-clock window")
		return
	}
	if r.AssumeFail {
		fail("native run violated an Assume (path divergence)")
		return
	}
	switch cr.kind {
	case "violation", "known":
		if strings.HasPrefix(c.Assertion, "PANIC") {
			if r.Panic == "" {
				fail("panic did not reproduce natively")
				return
			}
		} else if !contains(r.Failed, c.Assertion) {
			fail("assertion did not fail natively")
			return
		}
	case "witness":
		if !contains(r.Reached, c.Assertion) {
			fail("reach witness not reached natively")
			return
		}
		if r.Panic != "" {
			fail("native panic on witness path: " + r.Panic)
			return
		}
	case "sample":
		if r.Panic != "" {
			fail("native panic on a path the engine completed: " + r.Panic)
			return
		}
	}
	if cr.kind != "violation" && cr.kind != "known" {
		// on paths the engine saw as passing, no assertion may fail natively
		if len(r.Failed) > 0 {
			// unless the path carries a known finding for that assertion
			for _, f := range r.Failed {
				known := false
				for _, reg := range rp.regions {
					if reg.Assertion == f {
						known = true
					}
				}
				if !known {
					fail("assertion " + f + " failed natively on a path the engine discharged")
					return
				}
			}
		}
	}
	// observations must agree (up to the first failing assertion on violation paths all are recorded before it)
	if cr.kind == "sample" || cr.kind == "witness" {
		for name, sv := range c.Observed {
			nv, ok := r.Observed[name]
			if !ok {
				fail("observation " + name + " missing natively")
				return
			}
			if nv != sv {
				fail(fmt.Sprintf("observation %s: engine %s, native %s", name, sv, nv))
				return
			}
		}
	}
	c.NativeOK = &yes
	rp.replayAgreed++
}

// ---- evidence & verdict -------------------------------------------------------------

type evidence struct {
	PropertyID  string                 `json:"property_id"`
	Tier        string                 `json:"tier"`
	Seed        int64                  `json:"seed"`
	Level       string                 `json:"level"`
	Coverage    map[string]interface{} `json:"coverage"`
	Assumptions []string               `json:"assumptions"`
	WallS       float64                `json:"wall_s"`
	Violations  int                    `json:"violations"`
}

func (rp *report) finish(wall time.Duration) int {
	o := rp.opts
	var lines []string
	exit := 0
	inconclusive := []string{}
	states, transitions, queries := 0, 0, 0
	var solverTime, solverMax time.Duration
	oblig, discharged := 0, 0
	asserts, assertsSym := 0, 0
	funcs := map[string]int64{}
	intr := map[string]int{}
	bounds := map[string]string{}
	reachTotal, reachWitnessed := 0, 0
	assertIDs := map[string]int{}
	var samples []interface{}
	ends := map[string]int{}
	perHarness := []map[string]interface{}{}
	nViol := 0
	cexN := 0
	crossChecked := 0
	crossSolver := ""
	writeCex := func(c *interp.Cex) string {
		cexN++
		p := filepath.Join(rp.outDir, fmt.Sprintf("cex-%d.json", cexN))
		data, _ := json.MarshalIndent(struct {
			*interp.Cex
			Tier     string `json:"tier"`
			RepoHead string `json:"repo_head"`
		}{c, o.Tier, repoHead()}, "", " ")
		os.WriteFile(p, data, 0o644)
		return p
	}
	for _, r := range rp.results {
		states += r.Stats.Paths
		transitions += r.Stats.Decisions
		queries += r.Queries
		solverTime += r.SolverTime
		if r.SolverMax > solverMax {
			solverMax = r.SolverMax
		}
		oblig += r.Stats.Obligations
		discharged += r.Stats.ObligDischarged
		asserts += r.Stats.Asserts
		assertsSym += r.Stats.AssertsSymbolic
		for f, n := range r.Funcs {
			funcs[f] += n
		}
		for f, n := range r.Intrinsics {
			intr[f] += n
		}
		for k, v := range r.Symbols {
			bounds[shortName(r.Harness)+":"+k] = v
		}
		for k, v := range r.Stats.PathsByEnd {
			ends[k] += v
		}
		for id, n := range r.AssertIDs {
			assertIDs[id] += n
		}
		ph := map[string]interface{}{
			"harness": shortName(r.Harness), "paths": r.Stats.Paths, "decisions": r.Stats.Decisions,
			"forks": r.Stats.Forks, "concretisations": r.Stats.Concretizations, "queries": r.Queries,
			"solver_s": round(r.SolverTime.Seconds()), "wall_s": round(r.Wall.Seconds()),
			"ssa_instructions": r.Stats.Steps, "path_ends": r.Stats.PathsByEnd,
		}
		perHarness = append(perHarness, ph)
		for _, ic := range r.Inconclusive {
			inconclusive = append(inconclusive, fmt.Sprintf("%s: %s: %s", shortName(r.Harness), ic.Kind, firstLines(ic.Msg, 6)))
		}
		crossChecked += r.CrossChecked
		crossSolver = r.CrossSolver
		for _, d := range r.CrossDisagree {
			inconclusive = append(inconclusive, fmt.Sprintf("%s: SOLVER-DISAGREEMENT: %s", shortName(r.Harness), firstLines(d, 30)))
		}
		// reach
		var rids []string
		for id := range r.ReachIDs {
			rids = append(rids, id)
		}
		sort.Strings(rids)
		for _, id := range rids {
			reachTotal++
			if _, ok := r.Reach[id]; ok {
				reachWitnessed++
			} else {
				inconclusive = append(inconclusive, fmt.Sprintf("%s: VACUOUS: reachability twin %s has no witness", shortName(r.Harness), id))
			}
		}
		if r.Stats.Asserts == 0 {
			inconclusive = append(inconclusive, fmt.Sprintf("%s: VACUOUS: no assertion was ever evaluated", shortName(r.Harness)))
		}
		// violations
		for _, c := range r.Violations {
			p := writeCex(c)
			if c.NativeOK != nil && *c.NativeOK {
				nViol++
				lines = append(lines, fmt.Sprintf("VIOLATION property=%s replay=%s", o.Property, p))
				lines = append(lines, fmt.Sprintf("  assertion=%s harness=%s %s", c.Assertion, shortName(c.Harness), c.Detail))
				lines = append(lines, fmt.Sprintf("  facts=%v", c.Facts))
				lines = append(lines, fmt.Sprintf("  inputs=%s", tapeString(c.Tape)))
			} else if o.NoReplay {
				lines = append(lines, fmt.Sprintf("UNREPLAYED-VIOLATION property=%s assertion=%s file=%s facts=%v inputs=%s", o.Property, c.Assertion, p, c.Facts, tapeString(c.Tape)))
				inconclusive = append(inconclusive, "violation candidate not replayed (--no-replay)")
			} else {
				inconclusive = append(inconclusive, fmt.Sprintf("%s: counterexample for %s did not reproduce natively (%s) — encoding or stub wrong; file %s", shortName(r.Harness), c.Assertion, c.NativeNote, p))
			}
		}
		var ks []int
		for k := range r.Known {
			ks = append(ks, k)
		}
		sort.Ints(ks)
		for _, k := range ks {
			c := r.Known[k]
			p := writeCex(c)
			reg := rp.regions[k]
			if (c.NativeOK != nil && *c.NativeOK) || o.NoReplay {
				lines = append(lines, fmt.Sprintf("KNOWN-FINDING: property=%s %s [assertion %s, region %v, %d paths, sample %s]", o.Property, reg.What, reg.Assertion, reg.Facts, r.KnownCount[k], p))
			} else {
				inconclusive = append(inconclusive, fmt.Sprintf("%s: known finding %q did not reproduce natively (%s)", shortName(r.Harness), reg.What, c.NativeNote))
			}
		}
		for i, c := range r.Samples {
			if i < 3 {
				samples = append(samples, map[string]interface{}{"harness": shortName(c.Harness), "kind": "path", "inputs": tapeMap(c.Tape), "outputs": c.Observed, "decisions": len(c.Decisions)})
			}
		}
		for id, c := range r.Reach {
			if len(samples) < 12 {
				samples = append(samples, map[string]interface{}{"harness": shortName(c.Harness), "kind": "reach-witness", "id": id, "inputs": tapeMap(c.Tape), "outputs": c.Observed})
			}
		}
	}
	for _, p := range rp.replayProblems {
		if !strings.Contains(p, "violation") && !strings.Contains(p, "known") {
			inconclusive = append(inconclusive, "native cross-check: "+p)
		} else if strings.HasPrefix(p, "native replay of") {
			inconclusive = append(inconclusive, p)
		}
	}
	if o.NoReplay {
		inconclusive = append(inconclusive, "native replay skipped (--no-replay): development run, not a verdict")
	}
	if len(samples) == 0 {
		samples = append(samples, map[string]interface{}{"note": "no complete path sampled"})
	}
	// functions encoded: repo functions first
	type fe struct {
		Name  string `json:"fn"`
		Instr int64  `json:"ssa_instructions_executed"`
	}
	var repoFns, libFns []fe
	for f, n := range funcs {
		if strings.Contains(f, modPath) && !strings.Contains(f, "/zzverif/") && !strings.Contains(f, "ZZ_") {
			repoFns = append(repoFns, fe{strings.ReplaceAll(f, modPath+"/", ""), n})
		} else {
			libFns = append(libFns, fe{f, n})
		}
	}
	sort.Slice(repoFns, func(i, j int) bool { return repoFns[i].Name < repoFns[j].Name })
	sort.Slice(libFns, func(i, j int) bool { return libFns[i].Instr > libFns[j].Instr })
	libCount := len(libFns)
	if len(libFns) > 25 {
		libFns = libFns[:25]
	}
	if nViol > 0 {
		exit = 1
	} else if len(inconclusive) > 0 {
		exit = 2
	}
	ev := evidence{
		PropertyID: o.Property, Tier: o.Tier, Seed: o.Seed, Level: "model_checking", WallS: round(wall.Seconds()), Violations: nViol,
		Coverage: map[string]interface{}{
			"states":                        states,
			"transitions":                   transitions,
			"traces_validated_against_impl": rp.replayAgreed,
			"samples":                       samples,
			"explanation": "bounded symbolic execution of the repository's go/ssa: states = complete symbolic paths explored (each stands for every input satisfying its path condition), " +
				"transitions = solver-decided branch decisions, traces_validated = native go test replays of solver models whose assertion outcome and observed outputs agreed with the engine",
			"exhaustive":                    len(inconclusive) == 0,
			"exhaustive_note":               "all feasible paths of the harnesses within the stated input bounds were explored; nothing is claimed outside the bounds",
			"functions_encoded":             repoFns,
			"library_functions_interpreted": libCount,
			"library_functions_top":         libFns,
			"bounds":                        bounds,
			"assertions":                    assertIDs,
			"assertion_evaluations":         asserts,
			"assertion_solver_checks":       assertsSym,
			"obligations":                   oblig + assertsSym,
			"discharged":                    discharged + assertsSym - nViol,
			"arith_obligations":             oblig,
			"arith_discharged":              discharged,
			"reach_twins":                   reachTotal,
			"reach_witnessed":               reachWitnessed,
			"intrinsics":                    intr,
			"path_ends":                     ends,
			"harnesses":                     perHarness,
			"solver": map[string]interface{}{
				"name": o.Solver, "queries": queries, "total_s": round(solverTime.Seconds()), "max_query_s": round(solverMax.Seconds()),
				"second_solver": crossSolver, "discharged_queries_rechecked_by_second_solver": crossChecked,
			},
			"native_replays":      rp.replayed,
			"native_replay_s":     round(rp.nativeTime.Seconds()),
			"load_s":              round(rp.loadTime.Seconds()),
			"inconclusive":        inconclusive,
			"known_findings_seen": knownSeen(rp),
			"repo_head":           repoHead(),
			"regenerated_from":    repoRoot() + " working tree (go/packages + go/ssa on every run)",
		},
		Assumptions: assumptionsFor(o.Property),
	}
	// development runs (a subset of the harnesses, or without native replays) do not replace the
	// evidence of the registered check: theirs goes next to the counterexamples
	evDir := filepath.Join(verifRoot(), "evidence")
	if o.Only != "" || o.NoReplay || o.Trace {
		evDir = rp.outDir
	}
	os.MkdirAll(evDir, 0o755)
	data, _ := json.MarshalIndent(ev, "", " ")
	os.WriteFile(filepath.Join(evDir, o.Property+".json"), data, 0o644)

	for _, l := range lines {
		fmt.Println(l)
	}
	seenIC := map[string]bool{}
	for _, ic := range inconclusive {
		if seenIC[ic] {
			continue
		}
		seenIC[ic] = true
		fmt.Printf("INCONCLUSIVE property=%s %s\n", o.Property, ic)
	}
	verdict := map[int]string{0: "HOLDS-WITHIN-BOUNDS", 1: "VIOLATED", 2: "INCONCLUSIVE"}[exit]
	if exit == 0 && len(knownSeen(rp)) > 0 {
		verdict = "HOLDS-WITHIN-BOUNDS-EXCEPT-KNOWN-FINDINGS"
	}
	fmt.Printf("%s property=%s tier=%s paths=%d decisions=%d queries=%d solver=%.1fs replays=%d/%d wall=%.1fs\n",
		verdict, o.Property, o.Tier, states, transitions, queries, solverTime.Seconds(), rp.replayAgreed, rp.replayed, wall.Seconds())
	return exit
}

func knownSeen(rp *report) []string {
	var out []string
	for _, r := range rp.results {
		for k := range r.Known {
			out = append(out, rp.regions[k].What)
		}
	}
	sort.Strings(out)
	return out
}

func round(f float64) float64 { return float64(int(f*1000)) / 1000 }

func tapeString(t []interp.TapeEntry) string {
	var parts []string
	for _, e := range t {
		if strings.HasPrefix(e.N, "now#") {
			continue
		}
		parts = append(parts, e.N+"="+e.V)
	}
	return strings.Join(parts, " ")
}

func tapeMap(t []interp.TapeEntry) map[string]string {
	m := map[string]string{}
	for _, e := range t {
		m[e.N] = e.V
	}
	return m
}

// Replay re-runs one counterexample file natively and prints the outcome.
func Replay(path string) int {
	data, err := os.ReadFile(path)
	if err != nil {
		fmt.Fprintln(os.Stderr, err)
		return 2
	}
	var c struct {
		interp.Cex
		Tier string `json:"tier"`
	}
	if err := json.Unmarshal(data, &c); err != nil {
		fmt.Fprintln(os.Stderr, err)
		return 2
	}
	overlay, all, err := discover()
	if err != nil {
		fmt.Fprintln(os.Stderr, err)
		return 2
	}
	overlay = restrictOverlay(overlay, all, propOf(shortName(c.Harness)))
	rel := ""
	for _, h := range all {
		if h.Name == shortName(c.Harness) {
			rel = h.Rel
		}
	}
	if rel == "" {
		fmt.Fprintln(os.Stderr, "harness not found:", c.Harness)
		return 2
	}
	dir, _ := os.MkdirTemp("", "gosym-replay")
	defer os.RemoveAll(dir)
	res, log, err := runNative(overlay, all, rel, []replayCase{{ID: "r", Harness: shortName(c.Harness), Tier: c.Tier, Tape: c.Tape, Repeat: 32}}, dir)
	if err != nil {
		fmt.Fprintln(os.Stderr, err)
		fmt.Fprintln(os.Stderr, tail(log, 40))
		return 2
	}
	r := res["r"]
	out, _ := json.MarshalIndent(r, "", " ")
	fmt.Println(string(out))
	reproduced := contains(r.Failed, c.Assertion) || (strings.HasPrefix(c.Assertion, "PANIC") && r.Panic != "")
	fmt.Printf("assertion %s reproduced natively: %v\n", c.Assertion, reproduced)
	if reproduced {
		return 1
	}
	return 0
}
