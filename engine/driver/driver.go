// Package driver loads /repo with the harness overlay, runs the symbolic explorer on
// every harness of a property, replays counterexamples / witnesses / sampled paths
// natively, writes the evidence file and decides the exit code.
package driver

import (
	"bytes"
	"encoding/json"
	"fmt"
	"os"
	"os/exec"
	"path/filepath"
	"regexp"
	"sort"
	"strings"
	"time"

	"golang.org/x/tools/go/packages"
	"golang.org/x/tools/go/ssa"
	"golang.org/x/tools/go/ssa/ssautil"

	"verif/engine/interp"
)

type Options struct {
	Property string
	Tier     string
	Seed     int64
	Jobs     int
	Only     string
	NoReplay bool
	Trace    bool
	Solver   string
	Verbose  bool
}

const modPath = "github.com/DataDog/extendeddaemonset"

func verifRoot() string {
	if v := os.Getenv("VERIF_ROOT"); v != "" {
		return v
	}
	return "/verif"
}

func repoRoot() string {
	if v := os.Getenv("VERIF_REPO"); v != "" {
		return v
	}
	return "/repo"
}

type harnessRef struct {
	Rel  string // package dir relative to the repo root
	Name string // function name
	File string
}

var harnessRe = regexp.MustCompile(`(?m)^func (ZZ_(C[0-9]+|IV|SELF)_[A-Za-z0-9_]+)\(\)`)

// discover walks /verif/harness and returns the overlay and all harness functions.
func discover() (overlay map[string]string, hs []harnessRef, err error) {
	root := filepath.Join(verifRoot(), "harness")
	overlay = map[string]string{}
	err = filepath.Walk(root, func(p string, info os.FileInfo, err error) error {
		if err != nil {
			return err
		}
		if info.IsDir() || !strings.HasSuffix(p, ".go") {
			return nil
		}
		rel, _ := filepath.Rel(root, p)
		overlay[filepath.Join(repoRoot(), rel)] = p
		data, err := os.ReadFile(p)
		if err != nil {
			return err
		}
		for _, m := range harnessRe.FindAllStringSubmatch(string(data), -1) {
			hs = append(hs, harnessRef{Rel: filepath.Dir(rel), Name: m[1], File: p})
		}
		return nil
	})
	sort.Slice(hs, func(i, j int) bool {
		if hs[i].Rel != hs[j].Rel {
			return hs[i].Rel < hs[j].Rel
		}
		return hs[i].Name < hs[j].Name
	})
	return
}

// restrictOverlay keeps, besides the zzverif support packages, only the harness files of the
// packages that hold a harness of the property being checked: a harness of another property in a
// package this run merely depends on must not be able to break the build (it may refer to
// identifiers a change under test renamed).
func restrictOverlay(overlay map[string]string, all []harnessRef, prop string) map[string]string {
	keep := map[string]bool{}
	for _, h := range all {
		if propOf(h.Name) == prop {
			keep[h.Rel] = true
		}
	}
	out := map[string]string{}
	root := filepath.Join(verifRoot(), "harness")
	for virt, real := range overlay {
		rel, _ := filepath.Rel(root, real)
		dir := filepath.Dir(rel)
		if strings.HasPrefix(dir, "zzverif") || keep[dir] {
			out[virt] = real
		}
	}
	return out
}

func propOf(name string) string {
	return strings.Split(name, "_")[1]
}

func goEnv() []string {
	env := []string{}
	for _, e := range os.Environ() {
		if strings.HasPrefix(e, "GOFLAGS=") || strings.HasPrefix(e, "GOPROXY=") || strings.HasPrefix(e, "GOWORK=") || strings.HasPrefix(e, "GOTOOLCHAIN=") {
			continue
		}
		env = append(env, e)
	}
	return append(env, "GOFLAGS=", "GOPROXY=off", "GOSUMDB=off", "GOTOOLCHAIN=local")
}

type loaded struct {
	prog *ssa.Program
	pkgs map[string]*ssa.Package // by import path
}

func load(overlay map[string]string, rels []string) (*loaded, error) {
	ov := map[string][]byte{}
	for virt, real := range overlay {
		b, err := os.ReadFile(real)
		if err != nil {
			return nil, err
		}
		ov[virt] = b
	}
	cfg := &packages.Config{
		Mode: packages.NeedName | packages.NeedFiles | packages.NeedCompiledGoFiles | packages.NeedImports |
			packages.NeedDeps | packages.NeedTypes | packages.NeedSyntax | packages.NeedTypesInfo | packages.NeedTypesSizes | packages.NeedModule,
		Dir:        repoRoot(),
		Env:        goEnv(),
		BuildFlags: []string{"-tags=verif"},
		Overlay:    ov,
	}
	var patterns []string
	for _, r := range rels {
		patterns = append(patterns, "./"+r)
	}
	pkgs, err := packages.Load(cfg, patterns...)
	if err != nil {
		return nil, err
	}
	var errs []string
	packages.Visit(pkgs, nil, func(p *packages.Package) {
		for _, e := range p.Errors {
			errs = append(errs, e.Error())
		}
	})
	if len(errs) > 0 {
		if len(errs) > 15 {
			errs = errs[:15]
		}
		return nil, fmt.Errorf("harness does not build against the current /repo:\n  %s", strings.Join(errs, "\n  "))
	}
	prog, _ := ssautil.AllPackages(pkgs, ssa.InstantiateGenerics)
	prog.Build()
	l := &loaded{prog: prog, pkgs: map[string]*ssa.Package{}}
	for _, p := range prog.AllPackages() {
		l.pkgs[p.Pkg.Path()] = p
	}
	return l, nil
}

type knownFile struct {
	Findings []interp.Region `json:"findings"`
	Fixed    []string        `json:"fixed"`
}

func loadKnown() (*knownFile, error) {
	kf := &knownFile{}
	data, err := os.ReadFile(filepath.Join(verifRoot(), "known_findings.json"))
	if err != nil {
		if os.IsNotExist(err) {
			return kf, nil
		}
		return nil, err
	}
	if err := json.Unmarshal(data, kf); err != nil {
		return nil, fmt.Errorf("known_findings.json: %v", err)
	}
	return kf, nil
}

func repoHead() string {
	out, _ := exec.Command("git", "-C", repoRoot(), "rev-parse", "--short", "HEAD").Output()
	st, _ := exec.Command("git", "-C", repoRoot(), "status", "--porcelain").Output()
	s := strings.TrimSpace(string(out))
	if len(bytes.TrimSpace(st)) > 0 {
		s += "+dirty"
	}
	return s
}

// Check runs all harnesses of a property.  Exit codes: 0 held, 1 violation, 2 inconclusive.
func Check(o Options) int {
	t0 := time.Now()
	if o.Tier != "quick" && o.Tier != "thorough" {
		fmt.Fprintln(os.Stderr, "tier must be quick or thorough")
		return 2
	}
	overlay, all, err := discover()
	if err != nil {
		fmt.Fprintln(os.Stderr, "discover:", err)
		return 2
	}
	overlay = restrictOverlay(overlay, all, o.Property)
	var hs []harnessRef
	relSet := map[string]bool{"zzverif/nondet": true}
	for _, h := range all {
		if propOf(h.Name) != o.Property {
			continue
		}
		if strings.HasSuffix(h.Name, "_thorough") && o.Tier != "thorough" {
			continue
		}
		// --only: a full harness name (ZZ_...) selects exactly that harness, anything else is a substring
		if o.Only != "" {
			if strings.HasPrefix(o.Only, "ZZ_") {
				if h.Name != o.Only {
					continue
				}
			} else if !strings.Contains(h.Name, o.Only) {
				continue
			}
		}
		hs = append(hs, h)
		relSet[h.Rel] = true
	}
	if len(hs) == 0 {
		fmt.Fprintf(os.Stderr, "no harness for property %s\n", o.Property)
		return 2
	}
	var rels []string
	for r := range relSet {
		rels = append(rels, r)
	}
	sort.Strings(rels)
	kf, err := loadKnown()
	if err != nil {
		fmt.Fprintln(os.Stderr, err)
		return 2
	}
	var regions []interp.Region
	for _, r := range kf.Findings {
		if r.Property == o.Property {
			regions = append(regions, r)
		}
	}
	tl := time.Now()
	ld, err := load(overlay, rels)
	if err != nil {
		fmt.Fprintln(os.Stderr, err)
		fmt.Printf("INCONCLUSIVE property=%s reason=harness-build\n", o.Property)
		return 2
	}
	loadTime := time.Since(tl)
	if o.Verbose {
		fmt.Fprintf(os.Stderr, "loaded %d packages in %.1fs\n", len(ld.pkgs), loadTime.Seconds())
	}

	outDir := filepath.Join(verifRoot(), "out", o.Property)
	os.RemoveAll(outDir)
	os.MkdirAll(outDir, 0o755)

	var results []*interp.HarnessResult
	for _, h := range hs {
		pkg := ld.pkgs[modPath+"/"+h.Rel]
		if pkg == nil {
			fmt.Fprintf(os.Stderr, "package %s not loaded\n", h.Rel)
			return 2
		}
		fn := pkg.Func(h.Name)
		if fn == nil {
			fmt.Fprintf(os.Stderr, "harness %s not found in %s\n", h.Name, h.Rel)
			return 2
		}
		ex := &interp.Explorer{
			Prog: ld.prog, Fn: fn, Property: o.Property, Regions: regions,
			Jobs: o.Jobs, Seed: o.Seed, SolverKind: o.Solver, Trace: o.Trace, Tier: o.Tier,
			SampleEvery: 1, MaxSamples: 8, TimeoutMs: 10000, MaxSeconds: 900, Progress: o.Verbose,
			CrossCheckMax: 40,
		}
		if o.Tier == "thorough" {
			ex.MaxSamples = 48
			ex.TimeoutMs = 60000
			ex.MaxSeconds = 1800 // a thorough harness that does not finish in 30 minutes is reported inconclusive (its bounds are to be reduced)
			ex.CrossCheckMax = 2000
		}
		if o.Trace {
			ex.Jobs = 1
		}
		r := ex.Run()
		// sample rate: keep sampling sparse on big trees (decided after the fact by hash) — the
		// explorer already capped the number of stored samples.
		results = append(results, r)
		if o.Verbose {
			fmt.Fprintf(os.Stderr, "%s: paths=%d decisions=%d queries=%d solver=%.1fs wall=%.1fs viol=%d known=%d inconclusive=%d ends=%v\n",
				h.Name, r.Stats.Paths, r.Stats.Decisions, r.Queries, r.SolverTime.Seconds(), r.Wall.Seconds(),
				len(r.Violations), len(r.Known), len(r.Inconclusive), r.Stats.PathsByEnd)
			seenMsg := map[string]bool{}
			for _, ic := range r.Inconclusive {
				m := ic.Kind + ": " + firstLines(ic.Msg, 12)
				if !seenMsg[m] {
					seenMsg[m] = true
					fmt.Fprintf(os.Stderr, "   INCONCLUSIVE %s\n", m)
				}
			}
		}
	}

	rep := &report{opts: o, hs: hs, results: results, regions: regions, outDir: outDir, overlay: overlay, allHarness: all}
	rep.loadTime = loadTime
	if !o.NoReplay {
		rep.nativeReplay()
	}
	code := rep.finish(time.Since(t0))
	return code
}

func firstLines(s string, n int) string {
	ls := strings.Split(s, "\n")
	if len(ls) > n {
		ls = ls[:n]
	}
	return strings.Join(ls, "\n      ")
}
