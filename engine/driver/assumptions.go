package driver

import "fmt"

var generalAssumptions = []string{
	"engine: integers are mathematical Ints with a no-overflow / in-range obligation per arithmetic node (a reachable overflow makes the run INCONCLUSIVE, never a pass)",
	"engine: heap shape (pointers, slices, maps) is concrete; symbolic conditions fork by re-execution; one deterministic schedule for goroutines (run to completion at `go`), channels unbounded",
	"engine: maps iterate in insertion order; harnesses make order irrelevant by symmetric symbolic attributes or fork over permutations",
	"engine: time.Time/Duration are Int nanoseconds; time.Now() = base + delta, 0 < delta < 1s, non-decreasing; instants within int64 ns of 1970 (obligation), no Sub saturation",
	"stubs: logr.Logger, metrics, klog, rand.Uint32 are no-ops; fmt/strings/strconv/regexp/md5/hex run natively on concrete arguments; json.Marshal is a structural fingerprint (equal values <=> equal bytes)",
	"package initialisers: global variable initialisers run lazily per package; user init() functions (flag/metrics/scheme registration) are skipped",
	"verdicts: exit 0 only if every path was explored, every assertion and arithmetic obligation discharged by z3 (unsat), every reachability twin witnessed and every native replay agreed",
}

var propertyAssumptions = map[string][]string{}

func assumptionsFor(p string) []string {
	out := append([]string{}, generalAssumptions...)
	return append(out, propertyAssumptions[p]...)
}

// Selftest checks solver availability and the engine on a tiny self-test harness.
func Selftest() int {
	code := Check(Options{Property: "SELF", Tier: "quick", Seed: 1, Solver: "z3"})
	if code != 0 {
		fmt.Println("selftest failed")
		return 2
	}
	fmt.Println("selftest ok")
	return 0
}
