//go:build verif

package canary

import (
	"context"
	"io"
	"time"

	"github.com/go-logr/logr"
	corev1 "k8s.io/api/core/v1"
	metav1 "k8s.io/apimachinery/pkg/apis/meta/v1"
	"k8s.io/apimachinery/pkg/types"
	"k8s.io/cli-runtime/pkg/genericclioptions"
	"sigs.k8s.io/controller-runtime/pkg/reconcile"

	"github.com/DataDog/extendeddaemonset/api/v1alpha1"
	edsctrl "github.com/DataDog/extendeddaemonset/controllers/extendeddaemonset"
	erscontroller "github.com/DataDog/extendeddaemonset/controllers/extendeddaemonsetreplicaset"
	"github.com/DataDog/extendeddaemonset/pkg/controller/utils/comparison"
	"github.com/DataDog/extendeddaemonset/zzverif/fakeapi"
	"github.com/DataDog/extendeddaemonset/zzverif/nondet"
)

func zzTpl(id string) corev1.PodTemplateSpec {
	return corev1.PodTemplateSpec{
		// (the versions differ in the pod template's own metadata as well as in the image)
		ObjectMeta: metav1.ObjectMeta{Labels: map[string]string{"app": "agent", "version": id}},
		Spec:       corev1.PodSpec{Containers: []corev1.Container{{Name: "agent", Image: "agent:" + id}}},
	}
}

func zzRSFor(ds *v1alpha1.ExtendedDaemonSet, id, name string) *v1alpha1.ExtendedDaemonSetReplicaSet {
	t := zzTpl(id)
	h, _ := comparison.GenerateMD5PodTemplateSpec(&t)
	ctrl := true
	return &v1alpha1.ExtendedDaemonSetReplicaSet{
		ObjectMeta: metav1.ObjectMeta{Name: name, Namespace: ds.Namespace, UID: types.UID("uid-" + name),
			CreationTimestamp: metav1.NewTime(nondet.Base().Add(-time.Minute)),
			Labels:            map[string]string{v1alpha1.ExtendedDaemonSetNameLabelKey: ds.Name},
			Annotations:       map[string]string{v1alpha1.MD5ExtendedDaemonSetAnnotationKey: h},
			OwnerReferences:   []metav1.OwnerReference{{APIVersion: "datadoghq.com/v1alpha1", Kind: "ExtendedDaemonSet", Name: ds.Name, UID: ds.UID, Controller: &ctrl}}},
		Spec: v1alpha1.ExtendedDaemonSetReplicaSetSpec{Template: t, TemplateGeneration: h},
	}
}

var zzIO = genericclioptions.IOStreams{Out: io.Discard, ErrOut: io.Discard}

// zzScenario builds the store for one of the ExtendedDaemonSet states of property C19.
//
//	state: no-strategy | idle | canary | auto-paused | user-paused | failed
func zzScenario(state string) (*fakeapi.Client, *v1alpha1.ExtendedDaemonSet) {
	ds := &v1alpha1.ExtendedDaemonSet{ObjectMeta: metav1.ObjectMeta{Name: "foo", Namespace: "ns", UID: "uid-foo", Annotations: map[string]string{"user/keep": "x"}}}
	if state != "no-strategy" {
		ds.Spec.Strategy.Canary = &v1alpha1.ExtendedDaemonSetSpecStrategyCanary{Duration: &metav1.Duration{Duration: time.Hour}}
	}
	ds.Spec.Template = zzTpl("A")
	c := fakeapi.New()
	rsA := zzRSFor(ds, "A", "foo-a")
	rsA.Status.Desired, rsA.Status.Current, rsA.Status.Ready, rsA.Status.Available = 2, 2, 2, 2
	c.ERS = append(c.ERS, rsA)
	ds.Status.ActiveReplicaSet = "foo-a"
	ds.Status.State = v1alpha1.ExtendedDaemonSetStatusStateRunning
	ds.Status.Desired = 2
	if state == "canary" || state == "auto-paused" || state == "user-paused" || state == "failed" || state == "resumed" {
		ds.Spec.Template = zzTpl("B")
		rsB := zzRSFor(ds, "B", "foo-b")
		ds.Status.Canary = &v1alpha1.ExtendedDaemonSetStatusCanary{ReplicaSet: "foo-b", Nodes: []string{"node0"}}
		ds.Status.State = v1alpha1.ExtendedDaemonSetStatusStateCanary
		at := metav1.NewTime(nondet.Base().Add(-30 * time.Second))
		switch state {
		case "auto-paused":
			rsB.Status.Conditions = append(rsB.Status.Conditions, v1alpha1.ExtendedDaemonSetReplicaSetCondition{Type: v1alpha1.ConditionTypeCanaryPaused, Status: corev1.ConditionTrue, Reason: "CrashLoopBackOff", LastTransitionTime: at, LastUpdateTime: at})
			ds.Status.State = v1alpha1.ExtendedDaemonSetStatusStateCanaryPaused
		case "user-paused":
			ds.Annotations[v1alpha1.ExtendedDaemonSetCanaryPausedAnnotationKey] = "true"
			ds.Annotations[v1alpha1.ExtendedDaemonSetCanaryUnpausedAnnotationKey] = "false"
			ds.Status.State = v1alpha1.ExtendedDaemonSetStatusStateCanaryPaused
		case "resumed":
			// paused and unpaused earlier: the replica set keeps a Canary-Paused=False condition and the
			// annotations written by the unpause command
			rsB.Status.Conditions = append(rsB.Status.Conditions, v1alpha1.ExtendedDaemonSetReplicaSetCondition{Type: v1alpha1.ConditionTypeCanaryPaused, Status: corev1.ConditionFalse, LastTransitionTime: at, LastUpdateTime: at})
			ds.Annotations[v1alpha1.ExtendedDaemonSetCanaryPausedAnnotationKey] = "false"
			ds.Annotations[v1alpha1.ExtendedDaemonSetCanaryUnpausedAnnotationKey] = "true"
		case "failed":
			// failed by the replica-set controller; the ExtendedDaemonSet has not reacted yet
			rsB.Status.Conditions = append(rsB.Status.Conditions, v1alpha1.ExtendedDaemonSetReplicaSetCondition{Type: v1alpha1.ConditionTypeCanaryFailed, Status: corev1.ConditionTrue, LastTransitionTime: at, LastUpdateTime: at})
		}
		c.ERS = append(c.ERS, rsB)
	}
	// the rollout may have been frozen before the template was edited (freeze-rollout is only accepted
	// without a canary; the canary starts all the same): the canary commands work as usual
	if ds.Status.Canary != nil && nondet.Bool("rolloutFrozenBeforeTheCanary") {
		ds.Annotations[v1alpha1.ExtendedDaemonSetRolloutFrozenAnnotationKey] = "true"
	}
	// the user may have switched automatic failing off: a manual `canary fail` still counts
	if ds.Spec.Strategy.Canary != nil && nondet.Bool("autoFailDisabled") {
		off := false
		ds.Spec.Strategy.Canary.AutoFail = &v1alpha1.ExtendedDaemonSetSpecStrategyCanaryAutoFail{Enabled: &off}
	}
	v1alpha1.DefaultExtendedDaemonSetSpec(&ds.Spec, v1alpha1.ExtendedDaemonSetSpecStrategyCanaryValidationModeAuto)
	c.Nodes = append(c.Nodes, &corev1.Node{ObjectMeta: metav1.ObjectMeta{Name: "node0"}}, &corev1.Node{ObjectMeta: metav1.ObjectMeta{Name: "node1"}})
	c.EDS = append(c.EDS, ds)
	return c, ds
}

func zzPickState() string {
	switch nondet.String("state", "no-strategy", "idle", "canary", "auto-paused", "user-paused", "failed", "resumed") {
	case "no-strategy":
		return "no-strategy"
	case "idle":
		return "idle"
	case "canary":
		return "canary"
	case "auto-paused":
		return "auto-paused"
	case "user-paused":
		return "user-paused"
	case "resumed":
		return "resumed"
	}
	return "failed"
}

func zzStored(c *fakeapi.Client) *v1alpha1.ExtendedDaemonSet { return c.EDS[0] }

func zzReconcileEDS(c *fakeapi.Client) error {
	r, _ := edsctrl.NewReconciler(edsctrl.ReconcilerOptions{DefaultValidationMode: v1alpha1.ExtendedDaemonSetSpecStrategyCanaryValidationModeAuto}, c, c.Scheme(), logr.Logger{}, &fakeapi.Recorder{})
	_, err := r.Reconcile(context.TODO(), reconcile.Request{NamespacedName: types.NamespacedName{Namespace: "ns", Name: "foo"}})
	return err
}

// zzOnlyAnnotationsChanged: the object differs from `before` at most in the given annotation keys.
func zzOnlyAnnotationsChanged(before, after *v1alpha1.ExtendedDaemonSet, keys ...string) bool {
	if after.Spec.Template.Spec.Containers[0].Image != before.Spec.Template.Spec.Containers[0].Image ||
		after.Status.ActiveReplicaSet != before.Status.ActiveReplicaSet || after.Status.State != before.Status.State ||
		(after.Status.Canary == nil) != (before.Status.Canary == nil) || (after.Spec.Strategy.Canary == nil) != (before.Spec.Strategy.Canary == nil) {
		return false
	}
	allowed := map[string]bool{}
	for _, k := range keys {
		allowed[k] = true
	}
	for k, v := range before.Annotations {
		if allowed[k] {
			continue
		}
		if w, ok := after.Annotations[k]; !ok || w != v {
			return false
		}
	}
	for k := range after.Annotations {
		if _, ok := before.Annotations[k]; !ok && !allowed[k] {
			return false
		}
	}
	return true
}

// ZZ_C19_canaryCmds: canary pause / unpause / validate / fail change only what they document,
// refuse to act without an active canary, and the next reconcile interprets them as documented.
func ZZ_C19_canaryCmds() {
	state := zzPickState()
	c, _ := zzScenario(state)
	if state == "canary" && nondet.Bool("staleFailedFalseCondition") {
		// the canary replica set was active earlier: it still carries Canary-Failed=False
		at := metav1.NewTime(nondet.Base().Add(-time.Hour))
		c.ERS[1].Status.Conditions = append(c.ERS[1].Status.Conditions, v1alpha1.ExtendedDaemonSetReplicaSetCondition{Type: v1alpha1.ConditionTypeCanaryFailed, Status: corev1.ConditionFalse, LastTransitionTime: at, LastUpdateTime: at})
	}
	// the canary replica set may be a re-used one: it was a canary before, lost that role (it still carries
	// Canary=False from then) and became the canary again when its template was applied again; the replica-set
	// controller has not synced it in its new role yet
	if (state == "canary" || state == "user-paused") && nondet.Bool("canaryReplicaSetDemotedEarlier") {
		at := metav1.NewTime(nondet.Base().Add(-time.Hour))
		c.ERS[1].Status.Conditions = append(c.ERS[1].Status.Conditions, v1alpha1.ExtendedDaemonSetReplicaSetCondition{Type: v1alpha1.ConditionTypeCanary, Status: corev1.ConditionFalse, LastTransitionTime: at, LastUpdateTime: at})
	}
	// an earlier canary was validated: the annotation still names the replica set promoted then (the
	// controller does not remove it); it says nothing about the current canary
	if (state == "canary" || state == "user-paused") && nondet.Bool("validAnnotationOfAnEarlierCanary") {
		zzStored(c).Annotations[v1alpha1.ExtendedDaemonSetCanaryValidAnnotationKey] = "foo-a"
	}
	before := zzStored(c).DeepCopy()
	var rsBefore *v1alpha1.ExtendedDaemonSetReplicaSet
	if len(c.ERS) > 1 {
		rsBefore = c.ERS[1].DeepCopy()
	}
	hasCanary := before.Status.Canary != nil
	hasStrategy := before.Spec.Strategy.Canary != nil
	cmd := nondet.String("cmd", "pause", "unpause", "validate", "fail")
	// the command may race with the end of the canary duration: the canary replica set is already older
	// than the duration but no reconcile has promoted it yet (pause and fail must still win)
	if (cmd == "pause" || cmd == "fail") && state == "canary" && nondet.Bool("canaryDurationAlreadyElapsed") {
		c.ERS[1].CreationTimestamp = metav1.NewTime(nondet.Base().Add(-2 * time.Hour))
		rsBefore = c.ERS[1].DeepCopy()
	}
	var err error
	switch cmd {
	case "pause":
		err = (&pauseOptions{client: c, IOStreams: zzIO, userNamespace: "ns", userExtendedDaemonSetName: "foo", pauseStatus: cmdPause}).run()
	case "unpause":
		err = (&pauseOptions{client: c, IOStreams: zzIO, userNamespace: "ns", userExtendedDaemonSetName: "foo", pauseStatus: cmdUnpause}).run()
	case "validate":
		err = (&validateOptions{client: c, IOStreams: zzIO, userNamespace: "ns", userExtendedDaemonSetName: "foo"}).run()
	default:
		err = (&failOptions{client: c, IOStreams: zzIO, userNamespace: "ns", userExtendedDaemonSetName: "foo", failStatus: true}).run()
	}
	writes := len(c.Writes())
	after := zzStored(c)
	nondet.Fact("cmd.fail", cmd == "fail")
	nondet.Fact("state.canary", state == "canary")

	// "refuse to act when their precondition does not hold (an active canary for the canary commands)"
	pre := hasCanary
	if cmd != "validate" {
		pre = hasCanary && hasStrategy
	}
	if !pre {
		nondet.Assert("C19.canary.refuses", err != nil && writes == 0)
		nondet.Reach("C19.canary.refused", true)
		return
	}
	if err != nil {
		// a refusal writes nothing ...
		nondet.Assert("C19.canary.error-writes-nothing", writes == 0)
		// ... and with the precondition satisfied the only acceptable refusal is that the very
		// annotation the command would write already says so (pause: canary-paused=true;
		// unpause: canary-paused=false; validate: canary-valid already names the canary).
		// An auto-paused canary (paused by the replica set's condition) must be unpausable.
		alreadyDone := false
		switch cmd {
		case "pause":
			alreadyDone = before.Annotations[v1alpha1.ExtendedDaemonSetCanaryPausedAnnotationKey] == "true"
		case "unpause":
			alreadyDone = before.Annotations[v1alpha1.ExtendedDaemonSetCanaryPausedAnnotationKey] == "false"
		case "validate":
			alreadyDone = before.Annotations[v1alpha1.ExtendedDaemonSetCanaryValidAnnotationKey] == "foo-b"
		}
		nondet.Assert("C19.canary.acts-when-precondition-holds", alreadyDone)
		return
	}
	// "modify only the documented annotation or condition of the targeted object"
	nondet.Assert("C19.canary.one-write", writes == 1)
	switch cmd {
	case "pause", "unpause":
		nondet.Assert("C19.pause.only-annotations", zzOnlyAnnotationsChanged(before, after, v1alpha1.ExtendedDaemonSetCanaryPausedAnnotationKey, v1alpha1.ExtendedDaemonSetCanaryUnpausedAnnotationKey))
	case "validate":
		nondet.Assert("C19.validate.only-annotation", zzOnlyAnnotationsChanged(before, after, v1alpha1.ExtendedDaemonSetCanaryValidAnnotationKey))
		nondet.Assert("C19.validate.names-canary", after.Annotations[v1alpha1.ExtendedDaemonSetCanaryValidAnnotationKey] == "foo-b")
	default:
		nondet.Assert("C19.fail.eds-untouched", zzOnlyAnnotationsChanged(before, after))
		rs := c.ERS[1]
		nondet.Assert("C19.fail.only-condition", rs.Spec.TemplateGeneration == rsBefore.Spec.TemplateGeneration && len(rs.Status.Conditions) <= len(rsBefore.Status.Conditions)+1 &&
			rs.Status.Desired == rsBefore.Status.Desired && len(rs.Annotations) == len(rsBefore.Annotations))
	}
	// an edit of spec.template between `validate` and the reconcile must not promote the newer replica set
	edited := false
	if cmd == "validate" && nondet.Bool("templateEditedAfterCommand") {
		edited = true
		after.Spec.Template = zzTpl("C")
	}
	// ---- the controller's interpretation ----
	// the command's write wakes up both controllers: the replica-set controller may sync the canary
	// replica set before the ExtendedDaemonSet controller reacts
	if cmd == "fail" && nondet.Bool("replicaSetControllerSyncsFirst") {
		rsRec, _ := erscontroller.NewReconciler(erscontroller.ReconcilerOptions{}, c, c.Scheme(), logr.Logger{}, &fakeapi.Recorder{})
		_, _ = rsRec.Reconcile(context.TODO(), reconcile.Request{NamespacedName: types.NamespacedName{Namespace: "ns", Name: "foo-b"}})
	}
	rerr := zzReconcileEDS(c)
	if edited {
		// the reconcile creates the replica set for C; reconcile again to let it decide
		rerr = zzReconcileEDS(c)
	}
	final := zzStored(c)
	wasFailed := state == "failed"
	wasPausedByRS := state == "auto-paused"
	switch cmd {
	case "pause":
		if !wasFailed {
			nondet.Assert("C19.pause.state", rerr == nil && final.Status.State == v1alpha1.ExtendedDaemonSetStatusStateCanaryPaused)
		}
	case "unpause":
		// an auto-paused canary stays paused at the ExtendedDaemonSet level until the replica-set sync
		// (which honours the unpause annotation, C06) clears its condition
		if !wasFailed && !wasPausedByRS {
			nondet.Assert("C19.unpause.state", rerr == nil && final.Status.State == v1alpha1.ExtendedDaemonSetStatusStateCanary)
		}
	case "validate":
		if !edited {
			// "validate promotes exactly the replica set that was the canary when the command ran"
			nondet.Assert("C19.validate.promotes", rerr == nil && final.Status.ActiveReplicaSet == "foo-b" && final.Status.Canary == nil)
		} else {
			// "... and not a later one"
			nondet.Assert("C19.validate.not-a-later-one", final.Status.ActiveReplicaSet == "foo-a" || final.Status.ActiveReplicaSet == "foo-b")
		}
	default:
		// "fail leads to the rollback"
		nondet.Assert("C19.fail.rollback", rerr == nil && final.Status.State == v1alpha1.ExtendedDaemonSetStatusStateCanaryFailed && final.Status.Canary == nil &&
			final.Status.ActiveReplicaSet == "foo-a" && final.Spec.Template.Spec.Containers[0].Image == "agent:A")
		// the whole template of the active replica set is restored, its own labels included
		nondet.Assert("C19.fail.rollback-restores-the-whole-template", final.Spec.Template.Labels["version"] == "A")
	}
	nondet.Observe("state", string(final.Status.State))
	nondet.Observe("active", final.Status.ActiveReplicaSet)
	nondet.Reach("C19.pause", cmd == "pause" && state == "canary")
	nondet.Reach("C19.unpause", cmd == "unpause" && state == "user-paused")
	nondet.Reach("C19.validate", cmd == "validate" && !edited && state == "canary")
	nondet.Reach("C19.validate-edited", cmd == "validate" && edited)
	nondet.Reach("C19.fail", cmd == "fail" && state == "canary")
}

// ZZ_C19_unpauseOutlivesTheCause: "unpause [leads] back to Canary" — and the canary stays there.  The
// canary was paused automatically because its pod keeps restarting; the cause has not gone away
// when the user runs `canary unpause` (that is what the command is for: "I have seen it, go on").
// After the command both controllers run for three rounds (canary replica-set sync, then
// ExtendedDaemonSet reconcile, one minute apart): from the first round on the state is Canary, the
// replica set is not paused again, and the annotations the command wrote are still there.
func ZZ_C19_unpauseOutlivesTheCause() {
	c, _ := zzScenario("auto-paused")
	rsB := c.ERS[1]
	// the crash-looping canary pod on node0, and the active pods
	mk := func(name, node, rs, hash string, restarts int32) *corev1.Pod {
		p := &corev1.Pod{ObjectMeta: metav1.ObjectMeta{Name: name, Namespace: "ns", CreationTimestamp: metav1.NewTime(nondet.Base().Add(-10 * time.Minute)),
			Labels:      map[string]string{"app": "agent", v1alpha1.ExtendedDaemonSetNameLabelKey: "foo", v1alpha1.ExtendedDaemonSetReplicaSetNameLabelKey: rs},
			Annotations: map[string]string{v1alpha1.MD5ExtendedDaemonSetAnnotationKey: hash}},
			Spec:   corev1.PodSpec{NodeName: node},
			Status: corev1.PodStatus{Phase: corev1.PodRunning, Conditions: []corev1.PodCondition{{Type: corev1.PodReady, Status: corev1.ConditionTrue}}}}
		st := metav1.NewTime(nondet.Base().Add(-10 * time.Minute))
		p.Status.StartTime = &st
		cs := corev1.ContainerStatus{Name: "agent", RestartCount: restarts}
		if restarts > 0 {
			cs.LastTerminationState.Terminated = &corev1.ContainerStateTerminated{Reason: "Error", ExitCode: 1, FinishedAt: metav1.NewTime(nondet.Base().Add(-2 * time.Minute))}
		}
		p.Status.ContainerStatuses = []corev1.ContainerStatus{cs}
		return p
	}
	restarts := nondet.Int32("canaryPod.restarts", 3, 4) // autoPause.maxRestarts defaults to 2, autoFail.maxRestarts to 5
	c.Pods = append(c.Pods, mk("foo-b-x", "node0", "foo-b", rsB.Spec.TemplateGeneration, restarts), mk("foo-a-y", "node1", "foo-a", c.ERS[0].Spec.TemplateGeneration, 0))

	err := (&pauseOptions{client: c, IOStreams: zzIO, userNamespace: "ns", userExtendedDaemonSetName: "foo", pauseStatus: cmdUnpause}).run()
	nondet.Assert("C19.unpause-sticks.command-accepted", err == nil)
	if err != nil {
		return
	}
	written := zzStored(c).DeepCopy()
	rsRec, _ := erscontroller.NewReconciler(erscontroller.ReconcilerOptions{}, c, c.Scheme(), logr.Logger{}, &fakeapi.Recorder{})
	for round := 0; round < 3; round++ {
		_, rsErr := rsRec.Reconcile(context.TODO(), reconcile.Request{NamespacedName: types.NamespacedName{Namespace: "ns", Name: "foo-b"}})
		edsErr := zzReconcileEDS(c)
		nondet.Assert("C19.unpause-sticks.noerror", rsErr == nil && edsErr == nil)
		final := zzStored(c)
		nondet.Assert("C19.unpause-sticks.state-canary", final.Status.State == v1alpha1.ExtendedDaemonSetStatusStateCanary)
		pausedAgain := false
		for _, cd := range c.ERS[1].Status.Conditions {
			if cd.Type == v1alpha1.ConditionTypeCanaryPaused && cd.Status == corev1.ConditionTrue {
				pausedAgain = true
			}
		}
		nondet.Assert("C19.unpause-sticks.replicaset-not-paused-again", !pausedAgain)
		nondet.Assert("C19.unpause-sticks.annotations-kept",
			final.Annotations[v1alpha1.ExtendedDaemonSetCanaryUnpausedAnnotationKey] == written.Annotations[v1alpha1.ExtendedDaemonSetCanaryUnpausedAnnotationKey] &&
				final.Annotations[v1alpha1.ExtendedDaemonSetCanaryPausedAnnotationKey] == written.Annotations[v1alpha1.ExtendedDaemonSetCanaryPausedAnnotationKey])
		// one minute passes
		for _, rs := range c.ERS {
			for i := range rs.Status.Conditions {
				cd := &rs.Status.Conditions[i]
				cd.LastUpdateTime = metav1.NewTime(cd.LastUpdateTime.Add(-time.Minute))
				cd.LastTransitionTime = metav1.NewTime(cd.LastTransitionTime.Add(-time.Minute))
			}
		}
	}
	nondet.Observe("state", string(zzStored(c).Status.State))
	nondet.Reach("C19.unpause-sticks.done", zzStored(c).Status.State == v1alpha1.ExtendedDaemonSetStatusStateCanary)
}

// ZZ_C19_failSurvivesAFailedRollbackWrite: "fail leads to the rollback" — also when the rollback does
// not go through at the first attempt.  `canary fail` marks the canary replica set; the
// ExtendedDaemonSet reconcile writes the status (status.canary cleared) and its second write, the
// restored spec.template, is rejected (or the first one is, or none); the replica-set controller
// then syncs the former canary replica set — no longer the canary according to the status — once
// or not at all; the ExtendedDaemonSet reconcile is retried.  The command's effect is not lost:
// the final state is the rollback.
func ZZ_C19_failSurvivesAFailedRollbackWrite() {
	c, _ := zzScenario("canary")
	err := (&failOptions{client: c, IOStreams: zzIO, userNamespace: "ns", userExtendedDaemonSetName: "foo", failStatus: true}).run()
	nondet.Assert("C19.fail-retry.command-accepted", err == nil)
	if err != nil {
		return
	}
	rejected := nondet.String("rejectedWrite", "none", "status", "spec")
	c.InjectFaults = rejected != "none"
	c.FaultForce = 1
	c.FaultOnly = func(verb, kind, name, node string) bool {
		if kind != "ExtendedDaemonSet" {
			return false
		}
		return (rejected == "status" && verb == "status-update") || (rejected == "spec" && verb == "update")
	}
	_ = zzReconcileEDS(c)
	c.InjectFaults = false
	if nondet.Bool("replicaSetControllerSyncsInBetween") {
		rsRec, _ := erscontroller.NewReconciler(erscontroller.ReconcilerOptions{}, c, c.Scheme(), logr.Logger{}, &fakeapi.Recorder{})
		_, _ = rsRec.Reconcile(context.TODO(), reconcile.Request{NamespacedName: types.NamespacedName{Namespace: "ns", Name: "foo-b"}})
	}
	rerr := zzReconcileEDS(c)
	if rerr == nil {
		rerr = zzReconcileEDS(c)
	}
	final := zzStored(c)
	nondet.Assert("C19.fail-retry.rollback", rerr == nil && final.Status.Canary == nil && final.Status.ActiveReplicaSet == "foo-a" &&
		final.Spec.Template.Spec.Containers[0].Image == "agent:A")
	nondet.Observe("state", string(final.Status.State))
	nondet.Reach("C19.fail-retry.spec-write-rejected-then-replicaset-sync", rejected == "spec" && final.Spec.Template.Spec.Containers[0].Image == "agent:A")
}

// ZZ_C19_commandsAfterTheCanaryWasSuperseded: "validate promotes exactly the replica set that was the
// canary when the command ran", "fail leads to the rollback" — when the template was edited again
// during the canary: A is active, B was the canary, the template is now C (its replica set exists)
// and the status, written before the edit, still names B.  The ExtendedDaemonSet reconciles, the user
// runs `canary validate` or `canary fail`, the controller reconciles again (twice): validate promotes
// C — the canary at the time of the command — and fail rolls back to A; in neither case does the
// ExtendedDaemonSet stay in state Canary with a replica set nobody is looking at.
func ZZ_C19_commandsAfterTheCanaryWasSuperseded() {
	c, ds := zzScenario("canary")
	ds.Spec.Template = zzTpl("C")
	rsC := zzRSFor(ds, "C", "foo-c")
	c.ERS = append(c.ERS, rsC)
	nondet.Assert("C19.superseded.reconcile-ok", zzReconcileEDS(c) == nil)
	current := ""
	if zzStored(c).Status.Canary != nil {
		current = zzStored(c).Status.Canary.ReplicaSet
	}
	nondet.Assert("C19.superseded.status-names-the-current-canary", current == "foo-c")
	cmd := nondet.String("cmd", "validate", "fail")
	var err error
	if cmd == "validate" {
		err = (&validateOptions{client: c, IOStreams: zzIO, userNamespace: "ns", userExtendedDaemonSetName: "foo"}).run()
	} else {
		err = (&failOptions{client: c, IOStreams: zzIO, userNamespace: "ns", userExtendedDaemonSetName: "foo", failStatus: true}).run()
	}
	nondet.Assert("C19.superseded.command-accepted", err == nil)
	r1 := zzReconcileEDS(c)
	r2 := zzReconcileEDS(c)
	final := zzStored(c)
	if cmd == "validate" {
		nondet.Assert("C19.superseded.validate-promotes-the-current-canary", r1 == nil && r2 == nil && final.Status.ActiveReplicaSet == "foo-c" && final.Status.Canary == nil)
	} else {
		nondet.Assert("C19.superseded.fail-rolls-back", r1 == nil && r2 == nil && final.Status.ActiveReplicaSet == "foo-a" && final.Status.Canary == nil &&
			final.Spec.Template.Spec.Containers[0].Image == "agent:A")
	}
	nondet.Observe("state", string(final.Status.State))
	nondet.Reach("C19.superseded.validated", cmd == "validate" && final.Status.ActiveReplicaSet == "foo-c")
}

func zzRunCanaryCmd(c *fakeapi.Client, cmd string) error {
	switch cmd {
	case "pause":
		return (&pauseOptions{client: c, IOStreams: zzIO, userNamespace: "ns", userExtendedDaemonSetName: "foo", pauseStatus: cmdPause}).run()
	case "unpause":
		return (&pauseOptions{client: c, IOStreams: zzIO, userNamespace: "ns", userExtendedDaemonSetName: "foo", pauseStatus: cmdUnpause}).run()
	case "validate":
		return (&validateOptions{client: c, IOStreams: zzIO, userNamespace: "ns", userExtendedDaemonSetName: "foo"}).run()
	}
	return (&failOptions{client: c, IOStreams: zzIO, userNamespace: "ns", userExtendedDaemonSetName: "foo", failStatus: true}).run()
}

// ZZ_C19_canaryCommandSequences: "every sequence of up to three commands, followed by reconciles": from
// a running canary (or one the user paused), two (thorough: three) of pause / unpause / validate / fail are run one after the
// other, with an ExtendedDaemonSet reconcile after each command or only at the end.  Every command
// either refuses and writes nothing, or makes exactly one write that changes only its documented
// annotation or condition; a command run after the canary has ended (rolled back or promoted by the
// reconcile in between) refuses.  After two final reconciles the outcome is the documented one wherever
// the sequence leaves no doubt: fail (without validate) ends in the rollback whatever was paused or
// unpaused, validate (without fail) promotes the canary replica set even while paused, otherwise the
// last of pause / unpause decides between Canary Paused and Canary, and the active replica set stays.
func ZZ_C19_canaryCommandSequences() {
	start := "canary"
	if nondet.Bool("startsPausedByTheUser") {
		start = "user-paused"
	}
	c, _ := zzScenario(start)
	k := 2
	if nondet.Thorough() {
		k = 3
	}
	reconcileBetween := nondet.Bool("reconcileAfterEachCommand")
	failed, validated, paused, ended := false, false, start == "user-paused", false
	for i := 0; i < k; i++ {
		cmd := nondet.String("cmd"+string(rune('0'+i)), "pause", "unpause", "validate", "fail")
		before := zzStored(c).DeepCopy()
		rsBefore := c.ERS[1].DeepCopy()
		w0 := len(c.Writes())
		err := zzRunCanaryCmd(c, cmd)
		writes := len(c.Writes()) - w0
		after := zzStored(c)
		if ended {
			nondet.Assert("C19.seq.refuses-once-the-canary-has-ended", err != nil && writes == 0)
		}
		if err != nil {
			nondet.Assert("C19.seq.refusal-writes-nothing", writes == 0)
		} else {
			nondet.Assert("C19.seq.one-write", writes == 1)
			switch cmd {
			case "pause", "unpause":
				nondet.Assert("C19.seq.pause-only-annotations", zzOnlyAnnotationsChanged(before, after, v1alpha1.ExtendedDaemonSetCanaryPausedAnnotationKey, v1alpha1.ExtendedDaemonSetCanaryUnpausedAnnotationKey))
				paused = cmd == "pause"
			case "validate":
				nondet.Assert("C19.seq.validate-only-annotation", zzOnlyAnnotationsChanged(before, after, v1alpha1.ExtendedDaemonSetCanaryValidAnnotationKey))
				validated = true
			default:
				rs := c.ERS[1]
				nondet.Assert("C19.seq.fail-only-condition", zzOnlyAnnotationsChanged(before, after) && rs.Spec.TemplateGeneration == rsBefore.Spec.TemplateGeneration &&
					len(rs.Status.Conditions) <= len(rsBefore.Status.Conditions)+1 && len(rs.Annotations) == len(rsBefore.Annotations))
				failed = true
			}
		}
		if reconcileBetween {
			_ = zzReconcileEDS(c)
			if zzStored(c).Status.Canary == nil {
				ended = true
			}
		}
	}
	_ = zzReconcileEDS(c)
	rerr := zzReconcileEDS(c)
	final := zzStored(c)
	nondet.Observe("state", string(final.Status.State))
	nondet.Observe("active", final.Status.ActiveReplicaSet)
	switch {
	case failed && validated:
		// (fail and validate both accepted before any reconcile: the property does not say which one wins)
	case failed:
		nondet.Assert("C19.seq.fail-ends-in-the-rollback", final.Status.Canary == nil && final.Status.ActiveReplicaSet == "foo-a" && final.Spec.Template.Spec.Containers[0].Image == "agent:A" &&
			final.Spec.Template.Labels["version"] == "A")
	case validated:
		nondet.Assert("C19.seq.validate-promotes", rerr == nil && final.Status.ActiveReplicaSet == "foo-b" && final.Status.Canary == nil)
	case paused:
		nondet.Assert("C19.seq.paused", rerr == nil && final.Status.State == v1alpha1.ExtendedDaemonSetStatusStateCanaryPaused && final.Status.ActiveReplicaSet == "foo-a")
	default:
		nondet.Assert("C19.seq.running", rerr == nil && final.Status.State == v1alpha1.ExtendedDaemonSetStatusStateCanary && final.Status.ActiveReplicaSet == "foo-a")
	}
	nondet.Reach("C19.seq.pause-then-fail", paused && failed && !validated)
	nondet.Reach("C19.seq.command-after-the-end", ended && !reconcileBetween == false)
	nondet.Reach("C19.seq.validate-while-paused", paused && validated && !failed)
}

// ZZ_C19_pauseDoesNotOutliveItsCanary: "pause leads to state Canary Paused" — of the canary the command
// was run on, not of the next one.  A canary the user paused (or paused and resumed) is ended by
// `validate` or `fail`; the reconcile that ends it may stop half-way (its write of the object's
// metadata/spec is rejected once, after the status was written), and fault-free reconciles follow.
// Then the template is edited again: the new canary starts in state Canary, not Canary Paused, and
// becomes the canary named in the status.
func ZZ_C19_pauseDoesNotOutliveItsCanary() {
	start := nondet.String("start", "user-paused", "resumed")
	c, _ := zzScenario(start)
	cmd := nondet.String("endedBy", "validate", "fail")
	nondet.Assert("C19.outlive.command-accepted", zzRunCanaryCmd(c, cmd) == nil)
	// the reconcile that ends the canary: its Update of the object may be rejected once
	c.InjectFaults = true
	c.FaultForce = 1
	rejectedOnce := false
	rejectUpdate := nondet.Bool("updateRejectedOnce")
	c.FaultOnly = func(verb, kind, name, node string) bool {
		if rejectUpdate && !rejectedOnce && verb == "update" && kind == "ExtendedDaemonSet" {
			rejectedOnce = true
			return true
		}
		return false
	}
	_ = zzReconcileEDS(c)
	c.InjectFaults = false
	_ = zzReconcileEDS(c)
	_ = zzReconcileEDS(c)
	ended := zzStored(c)
	nondet.Assert("C19.outlive.canary-ended", ended.Status.Canary == nil)
	// a new template: the next canary
	ended.Spec.Template = zzTpl("C")
	_ = zzReconcileEDS(c) // creates the replica set of C
	var rsC string
	for _, rs := range c.ERS {
		if rs.Name != "foo-a" && rs.Name != "foo-b" {
			rsC = rs.Name
		}
	}
	nondet.Assert("C19.outlive.next-replicaset-created", rsC != "")
	r1 := zzReconcileEDS(c)
	r2 := zzReconcileEDS(c)
	final := zzStored(c)
	nondet.Observe("state", string(final.Status.State))
	nondet.Assert("C19.outlive.next-canary-runs", r1 == nil && r2 == nil && final.Status.Canary != nil && final.Status.Canary.ReplicaSet == rsC)
	nondet.Assert("C19.outlive.next-canary-not-paused", final.Status.State == v1alpha1.ExtendedDaemonSetStatusStateCanary)
	nondet.Reach("C19.outlive.half-way", rejectedOnce)
}

// ZZ_C08_unpauseDoesNotOutliveItsCanary: "while a canary is paused, by annotation ..., no additional canary pod
// is created and elapsed time does not promote it ... the paused situation is reflected in status.state" — for
// the canary that is paused now, whatever was said about an earlier one: the previous canary was paused and
// resumed with `canary unpause` (its annotations say unpaused) and then validated; the reconcile that ended it
// may have stopped after its status write (its update of the object rejected once).  A new template starts the
// next canary and the user pauses it by setting the canary-paused annotation (kubectl annotate): it is paused.
func ZZ_C08_unpauseDoesNotOutliveItsCanary() {
	c, _ := zzScenario("resumed")
	nondet.Assert("C08.outlive.validate-accepted", zzRunCanaryCmd(c, "validate") == nil)
	c.InjectFaults = true
	c.FaultForce = 1
	rejectedOnce := false
	rejectUpdate := nondet.Bool("updateRejectedOnce")
	c.FaultOnly = func(verb, kind, name, node string) bool {
		if rejectUpdate && !rejectedOnce && verb == "update" && kind == "ExtendedDaemonSet" {
			rejectedOnce = true
			return true
		}
		return false
	}
	_ = zzReconcileEDS(c)
	c.InjectFaults = false
	_ = zzReconcileEDS(c)
	_ = zzReconcileEDS(c)
	ended := zzStored(c)
	nondet.Assert("C08.outlive.canary-ended", ended.Status.Canary == nil && ended.Status.ActiveReplicaSet == "foo-b")
	ended.Spec.Template = zzTpl("C")
	_ = zzReconcileEDS(c) // creates the replica set of C
	_ = zzReconcileEDS(c) // the next canary starts
	running := zzStored(c)
	nondet.Assert("C08.outlive.next-canary-started", running.Status.Canary != nil && running.Status.Canary.ReplicaSet != "foo-b")
	if running.Annotations == nil {
		running.Annotations = map[string]string{}
	}
	running.Annotations[v1alpha1.ExtendedDaemonSetCanaryPausedAnnotationKey] = "true"
	r1 := zzReconcileEDS(c)
	final := zzStored(c)
	nondet.Observe("state", string(final.Status.State))
	nondet.Assert("C08.outlive.paused-by-annotation-is-paused", r1 == nil && final.Status.State == v1alpha1.ExtendedDaemonSetStatusStateCanaryPaused && final.Status.ActiveReplicaSet == "foo-b")
	// ... and the replica-set controller agrees: the paused canary replica set creates no pod on its canary node
	before := c.Count("create", "Pod")
	rsRec, _ := erscontroller.NewReconciler(erscontroller.ReconcilerOptions{}, c, c.Scheme(), logr.Logger{}, &fakeapi.Recorder{})
	_, rerr := rsRec.Reconcile(context.TODO(), reconcile.Request{NamespacedName: types.NamespacedName{Namespace: "ns", Name: final.Status.Canary.ReplicaSet}})
	nondet.Assert("C08.outlive.paused-canary-creates-no-pod", rerr == nil && c.Count("create", "Pod") == before)
	nondet.Reach("C08.outlive.half-way", rejectedOnce)
}

// ZZ_C07_userFailOnAReusedReplicaSet: "when the canary replica set is marked failed ... by the user, the
// controller restores spec.template ..., clears status.canary, leaves status.activeReplicaSet unchanged" — the
// replica set the user fails may be a re-used one that still carries the conditions of an earlier life:
// Canary-Failed=False (it was active once) and / or Canary=False (it lost the canary role once and got it
// back).  `kubectl-eds canary fail` is accepted and the next two reconciles roll back.
func ZZ_C07_userFailOnAReusedReplicaSet() {
	c, _ := zzScenario("canary")
	at := metav1.NewTime(nondet.Base().Add(-time.Hour))
	if nondet.Bool("staleFailedFalse") {
		c.ERS[1].Status.Conditions = append(c.ERS[1].Status.Conditions, v1alpha1.ExtendedDaemonSetReplicaSetCondition{Type: v1alpha1.ConditionTypeCanaryFailed, Status: corev1.ConditionFalse, LastTransitionTime: at, LastUpdateTime: at})
	}
	if nondet.Bool("staleCanaryFalse") {
		c.ERS[1].Status.Conditions = append(c.ERS[1].Status.Conditions, v1alpha1.ExtendedDaemonSetReplicaSetCondition{Type: v1alpha1.ConditionTypeCanary, Status: corev1.ConditionFalse, LastTransitionTime: at, LastUpdateTime: at})
	}
	nondet.Assert("C07.user-fail.accepted", zzRunCanaryCmd(c, "fail") == nil)
	r1 := zzReconcileEDS(c)
	r2 := zzReconcileEDS(c)
	final := zzStored(c)
	nondet.Assert("C07.user-fail.rolled-back", r1 == nil && r2 == nil && final.Status.Canary == nil && final.Status.ActiveReplicaSet == "foo-a" &&
		final.Spec.Template.Spec.Containers[0].Image == "agent:A" && final.Spec.Template.Labels["version"] == "A")
	nondet.Observe("state", string(final.Status.State))
}

// ZZ_C19_pauseThenUnpauseThroughBothControllers: "pause leads to state Canary Paused, unpause back to Canary"
// with both controllers running between and after the commands: the replica-set controller mirrors the
// user's pause into the canary replica set's own Canary-Paused condition, which the ExtendedDaemonSet
// controller reads — `canary unpause` has to undo that too, whether automatic pausing is enabled or the
// user switched it off (autoPause.enabled: false), and whether the canary pod exists or still has to be
// created.  One round = sync of the canary replica set, then ExtendedDaemonSet reconcile.
func ZZ_C19_pauseThenUnpauseThroughBothControllers() {
	c, ds := zzScenario("canary")
	if nondet.Bool("autoPauseDisabled") {
		off := false
		ds.Spec.Strategy.Canary.AutoPause.Enabled = &off
	}
	rsB := c.ERS[1]
	podThere := nondet.Bool("canaryPodExists")
	mk := func(name, node, rs, hash string) *corev1.Pod {
		p := &corev1.Pod{ObjectMeta: metav1.ObjectMeta{Name: name, Namespace: "ns", CreationTimestamp: metav1.NewTime(nondet.Base().Add(-10 * time.Minute)),
			Labels:      map[string]string{"app": "agent", v1alpha1.ExtendedDaemonSetNameLabelKey: "foo", v1alpha1.ExtendedDaemonSetReplicaSetNameLabelKey: rs},
			Annotations: map[string]string{v1alpha1.MD5ExtendedDaemonSetAnnotationKey: hash}},
			Spec:   corev1.PodSpec{NodeName: node},
			Status: corev1.PodStatus{Phase: corev1.PodRunning, Conditions: []corev1.PodCondition{{Type: corev1.PodReady, Status: corev1.ConditionTrue}}}}
		st := metav1.NewTime(nondet.Base().Add(-10 * time.Minute))
		p.Status.StartTime = &st
		p.Status.ContainerStatuses = []corev1.ContainerStatus{{Name: "agent"}}
		return p
	}
	if podThere {
		c.Pods = append(c.Pods, mk("foo-b-x", "node0", "foo-b", rsB.Spec.TemplateGeneration))
	}
	c.Pods = append(c.Pods, mk("foo-a-y", "node1", "foo-a", c.ERS[0].Spec.TemplateGeneration))
	rsRec, _ := erscontroller.NewReconciler(erscontroller.ReconcilerOptions{}, c, c.Scheme(), logr.Logger{}, &fakeapi.Recorder{})
	round := func() bool {
		_, rsErr := rsRec.Reconcile(context.TODO(), reconcile.Request{NamespacedName: types.NamespacedName{Namespace: "ns", Name: "foo-b"}})
		edsErr := zzReconcileEDS(c)
		// one minute passes (the replica-set controller does not sync a replica set twice within its reconcile frequency)
		for _, rs := range c.ERS {
			for i := range rs.Status.Conditions {
				cd := &rs.Status.Conditions[i]
				cd.LastUpdateTime = metav1.NewTime(cd.LastUpdateTime.Add(-time.Minute))
				cd.LastTransitionTime = metav1.NewTime(cd.LastTransitionTime.Add(-time.Minute))
			}
		}
		return rsErr == nil && edsErr == nil
	}
	rsPaused := func() bool {
		for _, cd := range c.ERS[1].Status.Conditions {
			if cd.Type == v1alpha1.ConditionTypeCanaryPaused && cd.Status == corev1.ConditionTrue {
				return true
			}
		}
		return false
	}
	nondet.Assert("C19.both.pause-accepted", zzRunCanaryCmd(c, "pause") == nil)
	created0 := c.Count("create", "Pod")
	nondet.Assert("C19.both.round-ok", round())
	nondet.Assert("C19.both.paused-after-pause", zzStored(c).Status.State == v1alpha1.ExtendedDaemonSetStatusStateCanaryPaused && zzStored(c).Status.ActiveReplicaSet == "foo-a")
	nondet.Assert("C19.both.paused-canary-creates-no-pod", c.Count("create", "Pod") == created0)
	nondet.Assert("C19.both.unpause-accepted", zzRunCanaryCmd(c, "unpause") == nil)
	for i := 0; i < 2; i++ {
		nondet.Assert("C19.both.round-ok", round())
	}
	final := zzStored(c)
	nondet.Observe("state", string(final.Status.State))
	nondet.Assert("C19.both.back-to-canary-after-unpause", final.Status.State == v1alpha1.ExtendedDaemonSetStatusStateCanary && final.Status.ActiveReplicaSet == "foo-a" && final.Status.Canary != nil)
	nondet.Assert("C19.both.replica-set-no-longer-paused", !rsPaused())
	if !podThere {
		nondet.Assert("C19.both.canary-pod-created-after-unpause", c.Count("create", "Pod") == created0+1)
	}
	nondet.Reach("C19.both.auto-pause-off-with-pod", podThere && !*ds.Spec.Strategy.Canary.AutoPause.Enabled)
}
