//go:build verif

package pause

import (
	"context"
	"io"
	"time"

	"github.com/go-logr/logr"
	corev1 "k8s.io/api/core/v1"
	metav1 "k8s.io/apimachinery/pkg/apis/meta/v1"
	"k8s.io/apimachinery/pkg/types"
	"k8s.io/cli-runtime/pkg/genericclioptions"
	"sigs.k8s.io/controller-runtime/pkg/reconcile"

	"github.com/DataDog/extendeddaemonset/api/v1alpha1"
	edsctrl "github.com/DataDog/extendeddaemonset/controllers/extendeddaemonset"
	"github.com/DataDog/extendeddaemonset/pkg/controller/utils/comparison"
	"github.com/DataDog/extendeddaemonset/zzverif/fakeapi"
	"github.com/DataDog/extendeddaemonset/zzverif/nondet"
)

// ZZ_C19_ruCmds: the command changes only its annotation, refuses to act during a canary or when
// there is nothing to do, and the next reconcile reflects it in status.state.
func ZZ_C19_ruCmds() {
	ds := &v1alpha1.ExtendedDaemonSet{ObjectMeta: metav1.ObjectMeta{Name: "foo", Namespace: "ns", UID: "uid-foo", Annotations: map[string]string{"user/keep": "x"}}}
	ds.Spec.Template = corev1.PodTemplateSpec{Spec: corev1.PodSpec{Containers: []corev1.Container{{Name: "agent", Image: "agent:A"}}}}
	v1alpha1.DefaultExtendedDaemonSetSpec(&ds.Spec, v1alpha1.ExtendedDaemonSetSpecStrategyCanaryValidationModeAuto)
	h, _ := comparison.GenerateMD5PodTemplateSpec(&ds.Spec.Template)
	ctrl := true
	rs := &v1alpha1.ExtendedDaemonSetReplicaSet{
		ObjectMeta: metav1.ObjectMeta{Name: "foo-a", Namespace: "ns", UID: "uid-foo-a", CreationTimestamp: metav1.NewTime(nondet.Base().Add(-time.Hour)),
			Labels: map[string]string{v1alpha1.ExtendedDaemonSetNameLabelKey: "foo"}, Annotations: map[string]string{v1alpha1.MD5ExtendedDaemonSetAnnotationKey: h},
			OwnerReferences: []metav1.OwnerReference{{APIVersion: "datadoghq.com/v1alpha1", Kind: "ExtendedDaemonSet", Name: "foo", UID: "uid-foo", Controller: &ctrl}}},
		Spec: v1alpha1.ExtendedDaemonSetReplicaSetSpec{Template: ds.Spec.Template, TemplateGeneration: h},
	}
	ds.Status.ActiveReplicaSet = "foo-a"
	ds.Status.State = v1alpha1.ExtendedDaemonSetStatusStateRunning
	inCanary := nondet.Bool("canaryActive")
	if inCanary {
		ds.Status.Canary = &v1alpha1.ExtendedDaemonSetStatusCanary{ReplicaSet: "foo-b", Nodes: []string{"node0"}}
	}
	present := nondet.Bool("annotation.present")
	prev := ""
	if present {
		prev = nondet.String("annotation", "true", "false")
		ds.Annotations[v1alpha1.ExtendedDaemonSetRollingUpdatePausedAnnotationKey] = prev
	}
	c := fakeapi.New()
	c.EDS = append(c.EDS, ds)
	c.ERS = append(c.ERS, rs)
	before := ds.DeepCopy()
	wantOn := nondet.Bool("cmd.on")
	want := unpaused
	if wantOn {
		want = paused
	}
	err := (&pauseOptions{client: c, IOStreams: genericclioptions.IOStreams{Out: io.Discard, ErrOut: io.Discard}, userNamespace: "ns", userExtendedDaemonSetName: "foo", want: want}).run()
	writes := len(c.Writes())
	after := c.EDS[0]

	// "refuse to act when their precondition does not hold (... none for rolling-update pause and freeze)"
	if inCanary {
		nondet.Assert("C19.pause.refuses-during-canary", err != nil && writes == 0)
		nondet.Reach("C19.pause.refused", true)
		return
	}
	nothingToDo := (wantOn && prev == "true") || (!wantOn && prev != "true")
	if nothingToDo {
		nondet.Assert("C19.pause.refuses-noop", err != nil && writes == 0)
		return
	}
	nondet.Assert("C19.pause.acts", err == nil && writes == 1)
	// "modify only the documented annotation"
	same := after.Spec.Template.Spec.Containers[0].Image == before.Spec.Template.Spec.Containers[0].Image && after.Status.ActiveReplicaSet == before.Status.ActiveReplicaSet &&
		after.Annotations["user/keep"] == "x" && len(after.Annotations) == 2
	wantVal := "false"
	if wantOn {
		wantVal = "true"
	}
	nondet.Assert("C19.pause.only-annotation", same && after.Annotations[v1alpha1.ExtendedDaemonSetRollingUpdatePausedAnnotationKey] == wantVal)
	// the controller's interpretation
	r, _ := edsctrl.NewReconciler(edsctrl.ReconcilerOptions{DefaultValidationMode: v1alpha1.ExtendedDaemonSetSpecStrategyCanaryValidationModeAuto}, c, c.Scheme(), logr.Logger{}, &fakeapi.Recorder{})
	_, rerr := r.Reconcile(context.TODO(), reconcile.Request{NamespacedName: types.NamespacedName{Namespace: "ns", Name: "foo"}})
	final := c.EDS[0]
	if wantOn {
		nondet.Assert("C19.pause.state-on", rerr == nil && final.Status.State == v1alpha1.ExtendedDaemonSetStatusStateRollingUpdatePaused)
	} else {
		nondet.Assert("C19.pause.state-off", rerr == nil && final.Status.State == v1alpha1.ExtendedDaemonSetStatusStateRunning)
	}
	nondet.Observe("state", string(final.Status.State))
	nondet.Reach("C19.pause.on", wantOn)
	nondet.Reach("C19.pause.off", !wantOn)
}
