//go:build verif

package utils

import (
	"strconv"

	metav1 "k8s.io/apimachinery/pkg/apis/meta/v1"

	"github.com/DataDog/extendeddaemonset/zzverif/nondet"
)

// zzSanitize: reference written from the statement ("sanitising it to a legal Prometheus name").
func zzSanitize(k string) string {
	b := []byte(k)
	for i, c := range b {
		ok := (c >= 'a' && c <= 'z') || (c >= 'A' && c <= 'Z') || (c >= '0' && c <= '9') || c == '_'
		if !ok {
			b[i] = '_'
		}
	}
	return string(b)
}

// ZZ_C20_labels: the label-info series pairs every sanitised key with the value of that
// same label, also for dotted/slashed/dashed keys, keys that collide after sanitising and keys
// whose relative order changes once sanitised ("a.c" < "a1" but "a1" < "a_c").
func ZZ_C20_labels() {
	n := nondet.Int("nLabels", 0, 3)
	labels := map[string]string{}
	var keys []string
	for i := 0; i < 3; i++ {
		if i >= n {
			break
		}
		k := nondet.String("key"+strconv.Itoa(i), "foo", "tic", "a.b/c", "a_b_c", "extendeddaemonset.datadoghq.com/name", "app-x", "a1", "a.c", "name", "namespace")
		if _, dup := labels[k]; dup {
			nondet.Assume(false)
		}
		labels[k] = nondet.String("val"+strconv.Itoa(i), "v1", "v2", "")
		keys = append(keys, k)
	}
	obj := &metav1.ObjectMeta{Name: "foo", Namespace: "ns", Labels: labels}

	outKeys, outVals := BuildInfoLabels(obj)

	nondet.Assert("C20.labels.len", len(outKeys) == len(keys) && len(outVals) == len(keys))
	if len(outKeys) != len(keys) || len(outVals) != len(keys) {
		return
	}
	// some bijection between the original labels and the output pairs preserves key and value
	m := len(keys)
	perms := zzPerms(m)
	matched := m == 0
	for _, p := range perms {
		ok := true
		for i := 0; i < m; i++ {
			ok = nondet.And(ok, outKeys[i] == zzSanitize(keys[p[i]]), outVals[i] == labels[keys[p[i]]])
		}
		matched = nondet.Or(matched, ok)
	}
	hasSpecial := false
	for _, k := range keys {
		if zzSanitize(k) != k {
			hasSpecial = true
		}
	}
	nondet.Fact("specialKey", hasSpecial)
	nondet.Assert("C20.labels.value-of-same-label", matched)
	for i := 1; i < m; i++ {
		nondet.Assert("C20.labels.sorted", outKeys[i-1] <= outKeys[i])
	}
	nondet.Observe("keys", outKeys)
	nondet.Reach("C20.labels.dotted", hasSpecial && m >= 1)
	nondet.Reach("C20.labels.collision", m >= 2 && outKeys[0] == outKeys[1])
	nondet.Reach("C20.labels.empty", m == 0)
}

func zzPerms(n int) [][]int {
	if n == 0 {
		return [][]int{{}}
	}
	var out [][]int
	for _, p := range zzPerms(n - 1) {
		for pos := 0; pos <= len(p); pos++ {
			q := append([]int{}, p[:pos]...)
			q = append(q, n-1)
			q = append(q, p[pos:]...)
			out = append(out, q)
		}
	}
	return out
}

// ZZ_C20_everyCharacter: "sanitising it to a legal Prometheus name" character by character: a key
// holding any one printable ASCII character between two letters (the solver picks the character,
// one path per value) comes out with exactly the characters outside [a-zA-Z0-9_] replaced by '_',
// paired with its own value; a second key differing only in that position keeps its own value too.
func ZZ_C20_everyCharacter() {
	ch := nondet.Int("character", 32, 126)
	key := ""
	for v := 32; v <= 126; v++ {
		if ch == v {
			key = "p" + string(rune(v)) + "q"
		}
	}
	labels := map[string]string{key: "v-" + key}
	if nondet.Bool("withNeighbour") && key != "p9q" {
		labels["p9q"] = "nine"
	}
	outKeys, outVals := BuildInfoLabels(&metav1.ObjectMeta{Name: "foo", Namespace: "ns", Labels: labels})
	nondet.Assert("C20.char.len", len(outKeys) == len(labels) && len(outVals) == len(labels))
	if len(outKeys) != len(labels) || len(outVals) != len(labels) {
		return
	}
	found := false
	for i := range outKeys {
		if outVals[i] == "v-"+key {
			found = true
			nondet.Assert("C20.char.sanitised-exactly", outKeys[i] == zzSanitize(key))
		}
		if outVals[i] == "nine" {
			nondet.Assert("C20.char.neighbour-kept", outKeys[i] == "p9q")
		}
	}
	nondet.Assert("C20.char.value-present", found)
	nondet.Observe("keys", outKeys)
	nondet.Reach("C20.char.digit-zero", key == "p0q" && found)
	nondet.Reach("C20.char.replaced", key == "p/q" && found)
}

// ZZ_C20_labelsFollowEdits: the label-info series is a function of the object as it is NOW: the
// same object (same UID, same metadata.generation — label edits do not bump it — and, for good
// measure, same resourceVersion) is exported, its labels are edited (a key added, removed or
// re-valued), and it is exported again: the second series pairs exactly the current keys with their
// current values.
func ZZ_C20_labelsFollowEdits() {
	obj := &metav1.ObjectMeta{Name: "foo", Namespace: "ns", UID: "uid-foo", Generation: 3, ResourceVersion: "41", Labels: map[string]string{"app": "agent", "team.owner/id": "a"}}
	k1, v1 := BuildInfoLabels(obj)
	nondet.Assert("C20.edits.first", len(k1) == 2 && len(v1) == 2)
	switch nondet.String("edit", "add-key", "remove-key", "change-value", "replace-key") {
	case "add-key":
		obj.Labels["zone-1"] = "z"
	case "remove-key":
		delete(obj.Labels, "app")
	case "change-value":
		obj.Labels["app"] = "agent2"
	default:
		delete(obj.Labels, "team.owner/id")
		obj.Labels["team_owner-id"] = "b"
	}
	if nondet.Bool("resourceVersionBumped") {
		obj.ResourceVersion = "42"
	}
	k2, v2 := BuildInfoLabels(obj)
	nondet.Assert("C20.edits.len", len(k2) == len(obj.Labels) && len(v2) == len(obj.Labels))
	if len(k2) != len(obj.Labels) || len(v2) != len(obj.Labels) {
		return
	}
	for key, val := range obj.Labels {
		found := false
		for i := range k2 {
			if k2[i] == zzSanitize(key) && v2[i] == val {
				found = true
			}
		}
		nondet.Assert("C20.edits.current-label-exported", found)
	}
	nondet.Observe("keys", k2)
	nondet.Reach("C20.edits.key-added", len(k2) == 3)
}
