//go:build verif

// Package fakeapi is the harness-side API server: a typed in-memory store that
// implements controller-runtime's client.Client with an append-only call log and
// optional fault injection.  It is plain Go: the engine interprets it like any other
// code and native replays compile it.
package fakeapi

import (
	"context"
	"errors"
	"k8s.io/apimachinery/pkg/api/resource"
	"strconv"
	"sync"

	appsv1 "k8s.io/api/apps/v1"
	corev1 "k8s.io/api/core/v1"
	apierrors "k8s.io/apimachinery/pkg/api/errors"
	"k8s.io/apimachinery/pkg/api/meta"
	metav1 "k8s.io/apimachinery/pkg/apis/meta/v1"
	"k8s.io/apimachinery/pkg/labels"
	"k8s.io/apimachinery/pkg/runtime"
	"k8s.io/apimachinery/pkg/runtime/schema"
	"k8s.io/apimachinery/pkg/types"
	"sigs.k8s.io/controller-runtime/pkg/client"

	v1alpha1 "github.com/DataDog/extendeddaemonset/api/v1alpha1"
	"github.com/DataDog/extendeddaemonset/zzverif/nondet"
)

// Call is one entry of the call log.
type Call struct {
	Verb      string // get list create update patch delete status-update
	Kind      string
	Namespace string
	Name      string
	Node      string        // pods: node the pod is bound to (nodeName or node-name affinity)
	Obj       client.Object // deep copy of the object as passed to a write
	Failed    bool          // an error was returned (injected)
	Applied   bool          // the store was changed
}

// ErrInjected is returned by calls that fail by fault injection.
var ErrInjected = errors.New("injected API failure")

// Client is the fake API.
type Client struct {
	EDS          []*v1alpha1.ExtendedDaemonSet
	ERS          []*v1alpha1.ExtendedDaemonSetReplicaSet
	Settings     []*v1alpha1.ExtendedDaemonsetSetting
	Pods         []*corev1.Pod
	Nodes        []*corev1.Node
	PodTemplates []*corev1.PodTemplate
	DaemonSets   []*appsv1.DaemonSet

	Log []Call

	// InjectFaults: every write (and, with InjectReadFaults, every read) asks the
	// engine for an arbitrary fault: rejected, or applied-but-answer-lost.
	InjectFaults     bool
	InjectReadFaults bool
	// InjectConflicts: a rejected status write is, arbitrarily, a plain error or an optimistic-locking
	// Conflict (somebody else modified the object since it was read).
	InjectConflicts bool
	// OnStatusUpdate, when set, runs before every status write (see statusWriter.Update).
	OnStatusUpdate func(kind, name string) error
	// CanonicalQuantities: stored pods hold their resource quantities in canonical form, as after a round
	// trip through the API server.
	CanonicalQuantities bool
	// InjectNotFound: a rejected Delete is, arbitrarily, a plain error or a NotFound answer, and a rejected
	// Create a plain error or an AlreadyExists answer.
	InjectNotFound bool
	// InjectTransient: an injected failure of a write is, arbitrarily, the plain error or a typed
	// transient API error (ServerTimeout) — the kind of error client code is tempted to retry at once.
	InjectTransient bool
	// FaultOnly, when set, restricts InjectFaults to the writes it accepts (verb, kind, name);
	// every other write succeeds.  Used to afford large batches: one symbolic failing position.
	FaultOnly func(verb, kind, name, node string) bool
	// FaultForce, when non-zero, is the fate (1 rejected, 2 applied-but-lost) of every write
	// FaultOnly accepts, instead of an arbitrary one.
	FaultForce int
	// GracefulPodDelete: deleting a pod sets deletionTimestamp instead of removing it.
	GracefulPodDelete bool

	gen    int
	scheme *runtime.Scheme
	// mu makes every client call atomic: natively the controllers call the client from parallel
	// goroutines (createPods / deletePods / deletePodSlice); the engine runs them one after the
	// other and treats the mutex as a no-op.
	mu sync.Mutex
}

var _ client.Client = &Client{}

// NewScheme returns a scheme knowing the types the controllers set owner references on.
func NewScheme() *runtime.Scheme {
	s := runtime.NewScheme()
	_ = corev1.AddToScheme(s)
	_ = appsv1.AddToScheme(s)
	_ = v1alpha1.AddToScheme(s)
	return s
}

func New() *Client { return &Client{scheme: NewScheme()} }

// Writes returns the log entries of mutating calls.
func (c *Client) Writes() []Call {
	var out []Call
	for _, e := range c.Log {
		if e.Verb != "get" && e.Verb != "list" {
			out = append(out, e)
		}
	}
	return out
}

// Count returns the number of log entries with the verb and kind ("" = any).
func (c *Client) Count(verb, kind string) int {
	n := 0
	for _, e := range c.Log {
		if (verb == "" || e.Verb == verb) && (kind == "" || e.Kind == kind) {
			n++
		}
	}
	return n
}

func kindOf(obj runtime.Object) string {
	switch obj.(type) {
	case *corev1.Pod, *corev1.PodList:
		return "Pod"
	case *corev1.Node, *corev1.NodeList:
		return "Node"
	case *corev1.PodTemplate, *corev1.PodTemplateList:
		return "PodTemplate"
	case *appsv1.DaemonSet, *appsv1.DaemonSetList:
		return "DaemonSet"
	case *v1alpha1.ExtendedDaemonSet, *v1alpha1.ExtendedDaemonSetList:
		return "ExtendedDaemonSet"
	case *v1alpha1.ExtendedDaemonSetReplicaSet, *v1alpha1.ExtendedDaemonSetReplicaSetList:
		return "ExtendedDaemonSetReplicaSet"
	case *v1alpha1.ExtendedDaemonsetSetting, *v1alpha1.ExtendedDaemonsetSettingList:
		return "ExtendedDaemonsetSetting"
	}
	return "Unknown"
}

// PodNode returns the node a pod is bound to: spec.nodeName or the metadata.name field
// of its required node affinity.
func PodNode(p *corev1.Pod) string {
	if p.Spec.NodeName != "" {
		return p.Spec.NodeName
	}
	if a := p.Spec.Affinity; a != nil && a.NodeAffinity != nil && a.NodeAffinity.RequiredDuringSchedulingIgnoredDuringExecution != nil {
		for _, t := range a.NodeAffinity.RequiredDuringSchedulingIgnoredDuringExecution.NodeSelectorTerms {
			for _, f := range t.MatchFields {
				if f.Key == "metadata.name" && len(f.Values) > 0 {
					return f.Values[0]
				}
			}
		}
	}
	return ""
}

func (c *Client) logCall(verb string, obj client.Object) *Call {
	e := Call{Verb: verb, Kind: kindOf(obj), Namespace: obj.GetNamespace(), Name: obj.GetName()}
	if verb != "get" {
		if cp, ok := obj.DeepCopyObject().(client.Object); ok {
			e.Obj = cp
		}
	}
	if p, ok := obj.(*corev1.Pod); ok {
		e.Node = PodNode(p)
	}
	c.Log = append(c.Log, e)
	return &c.Log[len(c.Log)-1]
}

// fault decides the fate of a write: 0 = ok, 1 = rejected, 2 = applied but answer lost.
func (c *Client) fault() int {
	if !c.InjectFaults {
		return 0
	}
	if c.FaultOnly != nil && len(c.Log) > 0 {
		last := c.Log[len(c.Log)-1]
		if !c.FaultOnly(last.Verb, last.Kind, last.Name, last.Node) {
			return 0
		}
		if c.FaultForce != 0 {
			return c.FaultForce
		}
	}
	if !nondet.Bool("api.fail") {
		return 0
	}
	if nondet.Bool("api.lost") {
		return 2
	}
	return 1
}

// injected returns the error of an injected write failure.
func (c *Client) injected(kind, verb string) error {
	if c.InjectTransient && nondet.Bool("api.transient") {
		return apierrors.NewServerTimeout(schema.GroupResource{Resource: kind}, verb, 1)
	}
	return ErrInjected
}

func notFound(kind, name string) error {
	return apierrors.NewNotFound(schema.GroupResource{Resource: kind}, name)
}

// ---- Reader -----------------------------------------------------------------------

func (c *Client) Get(ctx context.Context, key client.ObjectKey, obj client.Object, opts ...client.GetOption) error {
	c.mu.Lock()
	defer c.mu.Unlock()
	e := Call{Verb: "get", Kind: kindOf(obj), Namespace: key.Namespace, Name: key.Name}
	if c.InjectReadFaults && nondet.Bool("api.readfail") {
		e.Failed = true
		c.Log = append(c.Log, e)
		return ErrInjected
	}
	c.Log = append(c.Log, e)
	switch o := obj.(type) {
	case *v1alpha1.ExtendedDaemonSet:
		for _, s := range c.EDS {
			if s.Namespace == key.Namespace && s.Name == key.Name {
				s.DeepCopyInto(o)
				return nil
			}
		}
	case *v1alpha1.ExtendedDaemonSetReplicaSet:
		for _, s := range c.ERS {
			if s.Namespace == key.Namespace && s.Name == key.Name {
				s.DeepCopyInto(o)
				return nil
			}
		}
	case *v1alpha1.ExtendedDaemonsetSetting:
		for _, s := range c.Settings {
			if s.Namespace == key.Namespace && s.Name == key.Name {
				s.DeepCopyInto(o)
				return nil
			}
		}
	case *corev1.Pod:
		for _, s := range c.Pods {
			if s.Namespace == key.Namespace && s.Name == key.Name {
				s.DeepCopyInto(o)
				return nil
			}
		}
	case *corev1.Node:
		for _, s := range c.Nodes {
			if s.Name == key.Name {
				s.DeepCopyInto(o)
				return nil
			}
		}
	case *corev1.PodTemplate:
		for _, s := range c.PodTemplates {
			if s.Namespace == key.Namespace && s.Name == key.Name {
				s.DeepCopyInto(o)
				return nil
			}
		}
	case *appsv1.DaemonSet:
		for _, s := range c.DaemonSets {
			if s.Namespace == key.Namespace && s.Name == key.Name {
				s.DeepCopyInto(o)
				return nil
			}
		}
	default:
		return errors.New("fakeapi: unsupported type in Get")
	}
	return notFound(kindOf(obj), key.Name)
}

func selected(lo *client.ListOptions, namespaced bool, ns string, lbls map[string]string) bool {
	if namespaced && lo.Namespace != "" && lo.Namespace != ns {
		return false
	}
	if lo.LabelSelector != nil && !lo.LabelSelector.Matches(labels.Set(lbls)) {
		return false
	}
	return true
}

func (c *Client) List(ctx context.Context, list client.ObjectList, opts ...client.ListOption) error {
	c.mu.Lock()
	defer c.mu.Unlock()
	e := Call{Verb: "list", Kind: kindOf(list)}
	lo := &client.ListOptions{}
	for _, o := range opts {
		o.ApplyToList(lo)
	}
	e.Namespace = lo.Namespace
	if c.InjectReadFaults && nondet.Bool("api.readfail") {
		e.Failed = true
		c.Log = append(c.Log, e)
		return ErrInjected
	}
	c.Log = append(c.Log, e)
	switch l := list.(type) {
	case *v1alpha1.ExtendedDaemonSetReplicaSetList:
		l.Items = nil
		for _, s := range c.ERS {
			if selected(lo, true, s.Namespace, s.Labels) {
				l.Items = append(l.Items, *s.DeepCopy())
			}
		}
	case *v1alpha1.ExtendedDaemonSetList:
		l.Items = nil
		for _, s := range c.EDS {
			if selected(lo, true, s.Namespace, s.Labels) {
				l.Items = append(l.Items, *s.DeepCopy())
			}
		}
	case *v1alpha1.ExtendedDaemonsetSettingList:
		l.Items = nil
		for _, s := range c.Settings {
			if selected(lo, true, s.Namespace, s.Labels) {
				l.Items = append(l.Items, *s.DeepCopy())
			}
		}
	case *corev1.PodList:
		l.Items = nil
		for _, s := range c.Pods {
			if selected(lo, true, s.Namespace, s.Labels) {
				l.Items = append(l.Items, *s.DeepCopy())
			}
		}
	case *corev1.NodeList:
		l.Items = nil
		for _, s := range c.Nodes {
			if selected(lo, false, "", s.Labels) {
				l.Items = append(l.Items, *s.DeepCopy())
			}
		}
	default:
		return errors.New("fakeapi: unsupported type in List")
	}
	return nil
}

// ---- Writer -----------------------------------------------------------------------

func (c *Client) nextName(generate string) string {
	c.gen++
	return generate + "g" + strconv.Itoa(c.gen)
}

func (c *Client) Create(ctx context.Context, obj client.Object, opts ...client.CreateOption) error {
	c.mu.Lock()
	defer c.mu.Unlock()
	e := c.logCall("create", obj)
	f := c.fault()
	if f == 1 {
		e.Failed = true
		// InjectNotFound also lets a rejected Create be answered AlreadyExists (a name collision): for an
		// object created from a generated name that is a failed creation like any other
		if c.InjectNotFound && nondet.Bool("api.alreadyexists") {
			return apierrors.NewAlreadyExists(schema.GroupResource{Resource: e.Kind}, obj.GetGenerateName()+obj.GetName())
		}
		return c.injected(e.Kind, "create")
	}
	if obj.GetName() == "" && obj.GetGenerateName() != "" {
		obj.SetName(c.nextName(obj.GetGenerateName()))
		e.Name = obj.GetName()
	}
	if obj.GetUID() == "" {
		obj.SetUID(types.UID("uid-" + obj.GetName()))
	}
	obj.SetCreationTimestamp(metav1.NewTime(nondet.Base()))
	switch o := obj.(type) {
	case *v1alpha1.ExtendedDaemonSetReplicaSet:
		for _, s := range c.ERS {
			if s.Namespace == o.Namespace && s.Name == o.Name {
				return apierrors.NewAlreadyExists(schema.GroupResource{Resource: "ExtendedDaemonSetReplicaSet"}, o.Name)
			}
		}
		c.ERS = append(c.ERS, o.DeepCopy())
	case *corev1.Pod:
		for _, s := range c.Pods {
			if s.Namespace == o.Namespace && s.Name == o.Name {
				return apierrors.NewAlreadyExists(schema.GroupResource{Resource: "Pod"}, o.Name)
			}
		}
		stored := o.DeepCopy()
		if c.CanonicalQuantities {
			// what the API server stores and returns: every quantity re-serialised in its canonical form
			// ("0.5" -> "500m", "1024Mi" -> "1Gi")
			for i := range stored.Spec.Containers {
				for _, list := range []corev1.ResourceList{stored.Spec.Containers[i].Resources.Requests, stored.Spec.Containers[i].Resources.Limits} {
					for name, q := range list {
						list[name] = resource.MustParse(q.String())
					}
				}
			}
		}
		c.Pods = append(c.Pods, stored)
	case *corev1.PodTemplate:
		for _, s := range c.PodTemplates {
			if s.Namespace == o.Namespace && s.Name == o.Name {
				return apierrors.NewAlreadyExists(schema.GroupResource{Resource: "PodTemplate"}, o.Name)
			}
		}
		c.PodTemplates = append(c.PodTemplates, o.DeepCopy())
	case *v1alpha1.ExtendedDaemonSet:
		c.EDS = append(c.EDS, o.DeepCopy())
	default:
		return errors.New("fakeapi: unsupported type in Create")
	}
	e.Applied = true
	if f == 2 {
		e.Failed = true
		return c.injected(e.Kind, "create")
	}
	return nil
}

func (c *Client) Delete(ctx context.Context, obj client.Object, opts ...client.DeleteOption) error {
	c.mu.Lock()
	defer c.mu.Unlock()
	e := c.logCall("delete", obj)
	f := c.fault()
	if f == 1 {
		e.Failed = true
		// InjectNotFound: the rejected delete may be answered NotFound (the object the caller listed a
		// moment ago is reported gone) instead of a plain error
		if c.InjectNotFound && nondet.Bool("api.notfound") {
			return notFound(kindOf(obj), obj.GetName())
		}
		return ErrInjected
	}
	found := false
	switch o := obj.(type) {
	case *corev1.Pod:
		for i, s := range c.Pods {
			if s.Namespace == o.Namespace && s.Name == o.Name {
				found = true
				if c.GracefulPodDelete {
					if s.DeletionTimestamp == nil {
						t := metav1.NewTime(nondet.Base())
						s.DeletionTimestamp = &t
					}
				} else {
					c.Pods = append(append([]*corev1.Pod{}, c.Pods[:i]...), c.Pods[i+1:]...)
				}
				break
			}
		}
	case *v1alpha1.ExtendedDaemonSetReplicaSet:
		for i, s := range c.ERS {
			if s.Namespace == o.Namespace && s.Name == o.Name {
				found = true
				c.ERS = append(append([]*v1alpha1.ExtendedDaemonSetReplicaSet{}, c.ERS[:i]...), c.ERS[i+1:]...)
				break
			}
		}
	default:
		return errors.New("fakeapi: unsupported type in Delete")
	}
	if !found {
		return notFound(kindOf(obj), obj.GetName())
	}
	e.Applied = true
	if f == 2 {
		e.Failed = true
		return ErrInjected
	}
	return nil
}

// Update replaces metadata and spec and keeps the stored status (the status
// subresource is enabled on the CRDs).
func (c *Client) Update(ctx context.Context, obj client.Object, opts ...client.UpdateOption) error {
	c.mu.Lock()
	defer c.mu.Unlock()
	e := c.logCall("update", obj)
	f := c.fault()
	if f == 1 {
		e.Failed = true
		return ErrInjected
	}
	if err := c.replace(obj, false); err != nil {
		return err
	}
	e.Applied = true
	if f == 2 {
		e.Failed = true
		return ErrInjected
	}
	return nil
}

func (c *Client) replace(obj client.Object, statusOnly bool) error {
	switch o := obj.(type) {
	case *v1alpha1.ExtendedDaemonSet:
		for i, s := range c.EDS {
			if s.Namespace == o.Namespace && s.Name == o.Name {
				n := o.DeepCopy()
				if statusOnly {
					n = s.DeepCopy()
					n.Status = *o.Status.DeepCopy()
				} else {
					n.Status = *s.Status.DeepCopy()
				}
				c.EDS[i] = n
				return nil
			}
		}
	case *v1alpha1.ExtendedDaemonSetReplicaSet:
		for i, s := range c.ERS {
			if s.Namespace == o.Namespace && s.Name == o.Name {
				n := o.DeepCopy()
				if statusOnly {
					n = s.DeepCopy()
					n.Status = *o.Status.DeepCopy()
				} else {
					n.Status = *s.Status.DeepCopy()
				}
				c.ERS[i] = n
				return nil
			}
		}
	case *v1alpha1.ExtendedDaemonsetSetting:
		for i, s := range c.Settings {
			if s.Namespace == o.Namespace && s.Name == o.Name {
				n := o.DeepCopy()
				if statusOnly {
					n = s.DeepCopy()
					n.Status = *o.Status.DeepCopy()
				} else {
					n.Status = *s.Status.DeepCopy()
				}
				c.Settings[i] = n
				return nil
			}
		}
	case *corev1.Pod:
		for i, s := range c.Pods {
			if s.Namespace == o.Namespace && s.Name == o.Name {
				n := o.DeepCopy()
				if statusOnly {
					n = s.DeepCopy()
					n.Status = *o.Status.DeepCopy()
				} else {
					n.Status = *s.Status.DeepCopy()
				}
				c.Pods[i] = n
				return nil
			}
		}
	case *corev1.PodTemplate:
		for i, s := range c.PodTemplates {
			if s.Namespace == o.Namespace && s.Name == o.Name {
				c.PodTemplates[i] = o.DeepCopy()
				return nil
			}
		}
	default:
		return errors.New("fakeapi: unsupported type in Update")
	}
	return notFound(kindOf(obj), obj.GetName())
}

// Patch: the controllers only send merge patches computed against the object they
// just read, so "replace metadata and spec, keep status" equals applying the patch.
func (c *Client) Patch(ctx context.Context, obj client.Object, patch client.Patch, opts ...client.PatchOption) error {
	c.mu.Lock()
	defer c.mu.Unlock()
	e := c.logCall("patch", obj)
	f := c.fault()
	if f == 1 {
		e.Failed = true
		return ErrInjected
	}
	if err := c.replace(obj, false); err != nil {
		return err
	}
	e.Applied = true
	if f == 2 {
		e.Failed = true
		return ErrInjected
	}
	return nil
}

func (c *Client) DeleteAllOf(ctx context.Context, obj client.Object, opts ...client.DeleteAllOfOption) error {
	return errors.New("fakeapi: DeleteAllOf not supported")
}

// ---- status subresource ---------------------------------------------------------------

type statusWriter struct{ c *Client }

func (c *Client) Status() client.SubResourceWriter { return &statusWriter{c} }

func (s *statusWriter) Create(ctx context.Context, obj client.Object, sub client.Object, opts ...client.SubResourceCreateOption) error {
	return errors.New("fakeapi: status create not supported")
}

func (s *statusWriter) Update(ctx context.Context, obj client.Object, opts ...client.SubResourceUpdateOption) error {
	s.c.mu.Lock()
	defer s.c.mu.Unlock()
	e := s.c.logCall("status-update", obj)
	// OnStatusUpdate: a hook run before a status write is applied (e.g. to play another writer that got
	// in first); the error it returns is the answer of the call, which is then not applied
	if s.c.OnStatusUpdate != nil {
		if err := s.c.OnStatusUpdate(e.Kind, obj.GetName()); err != nil {
			e.Failed = true
			return err
		}
	}
	f := s.c.fault()
	if f == 1 {
		e.Failed = true
		if s.c.InjectConflicts && nondet.Bool("api.conflict") {
			return apierrors.NewConflict(schema.GroupResource{Resource: e.Kind}, obj.GetName(), errors.New("the object has been modified"))
		}
		return ErrInjected
	}
	if err := s.c.replace(obj, true); err != nil {
		return err
	}
	e.Applied = true
	if f == 2 {
		e.Failed = true
		return ErrInjected
	}
	return nil
}

func (s *statusWriter) Patch(ctx context.Context, obj client.Object, patch client.Patch, opts ...client.SubResourcePatchOption) error {
	return s.Update(ctx, obj)
}

func (c *Client) SubResource(subResource string) client.SubResourceClient { return nil }
func (c *Client) Scheme() *runtime.Scheme                                 { return c.scheme }
func (c *Client) RESTMapper() meta.RESTMapper                             { return nil }
func (c *Client) GroupVersionKindFor(obj runtime.Object) (schema.GroupVersionKind, error) {
	return schema.GroupVersionKind{}, errors.New("fakeapi: GroupVersionKindFor not supported")
}
func (c *Client) IsObjectNamespaced(obj runtime.Object) (bool, error) {
	_, isNode := obj.(*corev1.Node)
	return !isNode, nil
}

// ---- event recorder -----------------------------------------------------------------

// Recorder is a no-op record.EventRecorder.
type Recorder struct{ Events int }

func (r *Recorder) Event(object runtime.Object, eventtype, reason, message string) { r.Events++ }
func (r *Recorder) Eventf(object runtime.Object, eventtype, reason, messageFmt string, args ...interface{}) {
	r.Events++
}
func (r *Recorder) AnnotatedEventf(object runtime.Object, annotations map[string]string, eventtype, reason, messageFmt string, args ...interface{}) {
	r.Events++
}
