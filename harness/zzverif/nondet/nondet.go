//go:build verif

// Package nondet is the harness-side interface to the symbolic engine (gosym).
//
// Under the engine every function of this package is intercepted: Bool/Int/String/...
// introduce symbolic inputs, Assume/Assert/Fact/Reach/Observe talk to the explorer.
// Compiled natively (go test -overlay) the same functions read a *tape* of concrete
// values produced from a solver model, which is how counterexamples, witnesses and
// sampled paths are replayed against the real build.
package nondet

import (
	"encoding/json"
	"fmt"
	"os"
	"reflect"
	"runtime/debug"
	"strconv"
	"strings"
	"sync"
	"testing"
	"time"
)

type tapeEntry struct {
	N string `json:"n"`
	K string `json:"k"`
	V string `json:"v"`
}

type replayCase struct {
	ID      string      `json:"id"`
	Harness string      `json:"harness"`
	Tier    string      `json:"tier"`
	Tape    []tapeEntry `json:"tape"`
	// Repeat > 1: run until an assertion fails or the harness panics (outcomes that
	// depend on Go's randomised map iteration order), at most Repeat times.
	Repeat int `json:"repeat"`
	// WantReach / WantObserved (witnesses and sampled paths): what the engine saw on this path.
	// Which of several equally admissible nodes a rate-limited plan picks follows Go's randomised
	// map iteration, so the run is repeated (at most Repeat times) until it agrees; a run in
	// which an assertion fails or the harness panics always ends the repetition and is reported.
	WantReach    string            `json:"want_reach,omitempty"`
	WantObserved map[string]string `json:"want_observed,omitempty"`
}

type replayResult struct {
	ID          string            `json:"id"`
	Harness     string            `json:"harness"`
	Failed      []string          `json:"failed_asserts"`
	Passed      []string          `json:"passed_asserts"`
	Reached     []string          `json:"reached"`
	Observed    map[string]string `json:"observed"`
	Facts       map[string]bool   `json:"facts"`
	Panic       string            `json:"panic,omitempty"`
	PanicStack  string            `json:"panic_stack,omitempty"`
	AssumeFail  bool              `json:"assume_failed"`
	TapeMisses  []string          `json:"tape_misses,omitempty"`
	WallClockOK bool              `json:"wall_clock_ok"`
	Attempts    int               `json:"attempts,omitempty"`
	Hung        bool              `json:"hung,omitempty"`
}

type state struct {
	tape   map[string]tapeEntry
	labelN map[string]int
	res    *replayResult
	base   time.Time
	tier   string
}

var cur *state

// tapeMu serialises tape reads: the code under test calls the fake API from several goroutines.
var tapeMu sync.Mutex

type assumeFailed struct{}

func next(label, kind string) (string, bool) {
	if cur == nil {
		panic("nondet used outside RunReplay")
	}
	tapeMu.Lock()
	defer tapeMu.Unlock()
	n := cur.labelN[label]
	cur.labelN[label] = n + 1
	name := label + "#" + strconv.Itoa(n)
	e, ok := cur.tape[name]
	if !ok || e.K != kind {
		cur.res.TapeMisses = append(cur.res.TapeMisses, name)
		return "", false
	}
	return e.V, true
}

// Bool introduces an arbitrary boolean.
func Bool(label string) bool {
	v, ok := next(label, "bool")
	return ok && v == "true"
}

func intIn(label string, lo, hi int64) int64 {
	v, ok := next(label, "int")
	if !ok {
		return lo
	}
	n, err := strconv.ParseInt(v, 10, 64)
	if err != nil {
		cur.res.TapeMisses = append(cur.res.TapeMisses, label+":"+v)
		return lo
	}
	return n
}

// Int introduces an arbitrary int in [lo,hi].
func Int(label string, lo, hi int) int { return int(intIn(label, int64(lo), int64(hi))) }

// Int32 introduces an arbitrary int32 in [lo,hi].
func Int32(label string, lo, hi int32) int32 { return int32(intIn(label, int64(lo), int64(hi))) }

// Int64 introduces an arbitrary int64 in [lo,hi].
func Int64(label string, lo, hi int64) int64 { return intIn(label, lo, hi) }

// Duration introduces an arbitrary duration in [lo,hi] (nanosecond resolution).
func Duration(label string, lo, hi time.Duration) time.Duration {
	return time.Duration(intIn(label, int64(lo), int64(hi)))
}

// String introduces an arbitrary string drawn from the alphabet.
func String(label string, alphabet ...string) string {
	v, ok := next(label, "string")
	if !ok {
		return alphabet[0]
	}
	return v
}

// Base is the base instant of the run (a whole second).  time.Now() stays inside
// (Base, Base+1s) while a harness runs.
func Base() time.Time { return cur.base }

// TimeSec introduces an instant Base + k seconds, k in [loSec,hiSec].
func TimeSec(label string, loSec, hiSec int) time.Time {
	return cur.base.Add(time.Duration(intIn(label, int64(loSec), int64(hiSec))) * time.Second)
}

// TimeNs introduces an instant Base + d, d in [lo,hi] at nanosecond resolution.
func TimeNs(label string, lo, hi time.Duration) time.Time {
	return cur.base.Add(time.Duration(intIn(label, int64(lo), int64(hi))))
}

// Thorough reports whether the thorough tier is running (bounds may depend on it).
func Thorough() bool { return cur != nil && cur.tier == "thorough" }

// Symbolic is true under the engine and false in native replays.
func Symbolic() bool { return false }

// Assume restricts the inputs; placed before the code it constrains.
func Assume(c bool) {
	if !c {
		panic(assumeFailed{})
	}
}

// Assert states an obligation with a stable id.
func Assert(id string, c bool) {
	if c {
		cur.res.Passed = append(cur.res.Passed, id)
	} else {
		cur.res.Failed = append(cur.res.Failed, id)
	}
}

// Fact names a boolean of the scenario (used to describe known-finding regions).
func Fact(name string, c bool) { cur.res.Facts[name] = c }

// Reach is a reachability twin: some explored path must make c true.
func Reach(id string, c bool) {
	if c {
		cur.res.Reached = append(cur.res.Reached, id)
	}
}

// Observe records an output for the concolic cross-check.
func Observe(name string, v any) { cur.res.Observed[name] = render(reflect.ValueOf(v)) }

func render(v reflect.Value) string {
	if !v.IsValid() {
		return "nil"
	}
	switch v.Kind() {
	case reflect.String:
		return strconv.Quote(v.String())
	case reflect.Bool:
		return strconv.FormatBool(v.Bool())
	case reflect.Int, reflect.Int8, reflect.Int16, reflect.Int32, reflect.Int64:
		return strconv.FormatInt(v.Int(), 10)
	case reflect.Uint, reflect.Uint8, reflect.Uint16, reflect.Uint32, reflect.Uint64:
		return strconv.FormatUint(v.Uint(), 10)
	case reflect.Slice, reflect.Array:
		parts := make([]string, v.Len())
		for i := range parts {
			parts[i] = render(v.Index(i))
		}
		return "[" + strings.Join(parts, " ") + "]"
	case reflect.Interface, reflect.Pointer:
		if v.IsNil() {
			return "nil"
		}
		return render(v.Elem())
	}
	return fmt.Sprint(v.Interface())
}

// And, Or, Not, Implies, Iff combine conditions without forking under the engine.
func And(a ...bool) bool {
	for _, x := range a {
		if !x {
			return false
		}
	}
	return true
}

func Or(a ...bool) bool {
	for _, x := range a {
		if x {
			return true
		}
	}
	return false
}

func Not(a bool) bool        { return !a }
func Implies(a, b bool) bool { return !a || b }
func Iff(a, b bool) bool     { return a == b }

// IteInt is a non-forking conditional.
func IteInt(c bool, a, b int) int {
	if c {
		return a
	}
	return b
}

// RunReplay replays the cases of $VERIF_TAPES against the natively compiled harnesses
// and writes the outcomes to $VERIF_OUT.
func RunReplay(t *testing.T, harnesses map[string]func()) {
	in := os.Getenv("VERIF_TAPES")
	out := os.Getenv("VERIF_OUT")
	if in == "" || out == "" {
		t.Skip("VERIF_TAPES / VERIF_OUT not set")
	}
	data, err := os.ReadFile(in)
	if err != nil {
		t.Fatal(err)
	}
	var cases []replayCase
	if err := json.Unmarshal(data, &cases); err != nil {
		t.Fatal(err)
	}
	var results []*replayResult
	for _, c := range cases {
		h, ok := harnesses[c.Harness]
		if !ok {
			continue
		}
		r := runOne(c, h)
		agrees := func(r *replayResult) bool {
			if c.WantReach == "" && c.WantObserved == nil {
				return false // violation / known-finding case: repeat until it fails
			}
			if c.WantReach != "" {
				found := false
				for _, x := range r.Reached {
					if x == c.WantReach {
						found = true
					}
				}
				if !found {
					return false
				}
			}
			for k, v := range c.WantObserved {
				if r.Observed[k] != v {
					return false
				}
			}
			return r.WallClockOK && !r.AssumeFail && len(r.TapeMisses) == 0
		}
		for k := 1; k < c.Repeat && len(r.Failed) == 0 && r.Panic == "" && !agrees(r); k++ {
			r = runOne(c, h)
			r.Attempts = k + 1
		}
		results = append(results, r)
	}
	enc, _ := json.MarshalIndent(results, "", " ")
	if err := os.WriteFile(out, enc, 0o644); err != nil {
		t.Fatal(err)
	}
}

// runOne runs one case under a watchdog: a harness that does not return (goroutines of the code under
// test blocked for ever) is reported as a panic-class failure "DEADLOCK" instead of hanging the replay.
func runOne(c replayCase, h func()) *replayResult {
	done := make(chan *replayResult, 1)
	go func() { done <- runOneInline(c, h) }()
	select {
	case r := <-done:
		return r
	case <-time.After(20 * time.Second):
		return &replayResult{ID: c.ID, Harness: c.Harness, Observed: map[string]string{}, Facts: map[string]bool{},
			Panic: "DEADLOCK: the harness did not return within 20s (goroutines of the code under test are blocked)", Hung: true}
	}
}

func runOneInline(c replayCase, h func()) (res *replayResult) {
	res = &replayResult{ID: c.ID, Harness: c.Harness, Observed: map[string]string{}, Facts: map[string]bool{}}
	st := &state{tape: map[string]tapeEntry{}, labelN: map[string]int{}, res: res, tier: c.Tier}
	for _, e := range c.Tape {
		st.tape[e.N] = e
	}
	// choose the base so that the wall clock stays inside (base, base+1s)
	now := time.Now()
	if now.Nanosecond() > 300_000_000 {
		time.Sleep(time.Duration(1_000_000_000-now.Nanosecond()) + 2*time.Millisecond)
		now = time.Now()
	}
	st.base = now.Truncate(time.Second)
	cur = st
	defer func() {
		cur = nil
		if r := recover(); r != nil {
			if _, ok := r.(assumeFailed); ok {
				res.AssumeFail = true
			} else {
				res.Panic = fmt.Sprint(r)
				res.PanicStack = string(debug.Stack())
			}
		}
		res.WallClockOK = time.Since(st.base) < time.Second
	}()
	h()
	return res
}
