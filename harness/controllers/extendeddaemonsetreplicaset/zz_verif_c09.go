//go:build verif

package extendeddaemonsetreplicaset

import (
	"time"

	corev1 "k8s.io/api/core/v1"
	metav1 "k8s.io/apimachinery/pkg/apis/meta/v1"
	"k8s.io/apimachinery/pkg/util/intstr"

	datadoghqv1alpha1 "github.com/DataDog/extendeddaemonset/api/v1alpha1"
	"github.com/DataDog/extendeddaemonset/zzverif/nondet"
)

func zzAgeCond(rs *datadoghqv1alpha1.ExtendedDaemonSetReplicaSet, label string, t datadoghqv1alpha1.ExtendedDaemonSetReplicaSetConditionType) (present bool, ageSec int) {
	if !nondet.Bool(label + ".present") {
		return false, 0
	}
	ageSec = nondet.Int(label+".ageSec", 0, 120)
	at := metav1.NewTime(nondet.Base().Add(-time.Duration(ageSec) * time.Second))
	rs.Status.Conditions = append(rs.Status.Conditions, datadoghqv1alpha1.ExtendedDaemonSetReplicaSetCondition{
		Type: t, Status: corev1.ConditionTrue, LastTransitionTime: at, LastUpdateTime: at,
	})
	return true, ageSec
}

// ZZ_C09_gate: two syncs of one replica set that write are at least reconcileFrequency apart:
// while the previous full sync is younger than reconcileFrequency the reconcile writes
// nothing and asks to be woken up in time; a sync that writes records its own instant.
func ZZ_C09_gate() {
	c, ds, rsNew, _ := zzStore(2)
	ds.Status.ActiveReplicaSet = rsNew.Name
	freq := nondet.Int("reconcileFrequencySec", 1, 60)
	ds.Spec.Strategy.ReconcileFrequency = &metav1.Duration{Duration: time.Duration(freq) * time.Second}
	two := intstr.FromInt(2) // one node lacks a pod; a budget of two still allows one update deletion
	ds.Spec.Strategy.RollingUpdate.MaxUnavailable = &two
	// timestamps persisted by previous syncs (whole seconds, as the API stores them)
	fullPresent, fullAge := zzAgeCond(rsNew, "lastFullSync", datadoghqv1alpha1.ConditionTypeLastFullSync)
	createPresent, createAge := zzAgeCond(rsNew, "podCreation", datadoghqv1alpha1.ConditionTypePodCreation)
	deletePresent, deleteAge := zzAgeCond(rsNew, "podDeletion", datadoghqv1alpha1.ConditionTypePodDeletion)
	// one outdated available pod on node0 (to delete), node1 lacks a pod (to create)
	c.Pods = append(c.Pods, zzPod("pod0", zzNodeName(0), zzOldRS, zzHashOld, 0, corev1.PodRunning, true, nondet.Base().Add(-time.Hour)))

	res, err := zzReconcile(zzReconciler(c, false), zzNS, rsNew.Name)
	nondet.Assert("C09.gate.noerror", err == nil)

	writes := len(c.Writes())
	gated := fullPresent && fullAge < freq
	nondet.Fact("gated", gated)
	if gated {
		// (c) no API write, wake-up no later than the end of the window and not immediately
		nondet.Assert("C09.gate.no-write", writes == 0)
		remaining := time.Duration(freq-fullAge) * time.Second
		nondet.Assert("C09.gate.requeue", res.RequeueAfter > 0 && res.RequeueAfter <= remaining && res.RequeueAfter > remaining-time.Second)
	} else {
		// (d) the sync runs and stamps LastFullSync with its own instant
		nondet.Assert("C09.gate.status-written", c.Count("status-update", "ExtendedDaemonSetReplicaSet") == 1)
		var stamp *metav1.Time
		for _, s := range c.ERS {
			if s.Name == rsNew.Name {
				for i := range s.Status.Conditions {
					if s.Status.Conditions[i].Type == datadoghqv1alpha1.ConditionTypeLastFullSync {
						stamp = &s.Status.Conditions[i].LastUpdateTime
					}
				}
			}
		}
		nondet.Assert("C09.gate.stamped", stamp != nil)
		if stamp != nil {
			nondet.Assert("C09.gate.stamp-is-now", stamp.Time.After(nondet.Base()) && stamp.Time.Before(nondet.Base().Add(time.Second)))
		}
		// pod creations / deletions are themselves spaced by reconcileFrequency
		if createPresent && createAge < freq {
			nondet.Assert("C09.gate.create-spaced", c.Count("create", "Pod") == 0)
		} else {
			nondet.Assert("C09.gate.creates", c.Count("create", "Pod") == 1)
		}
		if deletePresent && deleteAge < freq {
			nondet.Assert("C09.gate.delete-spaced", c.Count("delete", "Pod") == 0)
		} else {
			nondet.Assert("C09.gate.deletes", c.Count("delete", "Pod") == 1)
		}
		nondet.Assert("C09.gate.status-last", c.Writes()[writes-1].Verb == "status-update")
	}
	nondet.Observe("writes", writes)
	nondet.Reach("C09.gate.closed", gated)
	nondet.Reach("C09.gate.boundary-open", fullPresent && fullAge == freq)
	nondet.Reach("C09.gate.create-delayed", !gated && createPresent && createAge < freq)
}
