//go:build verif

package extendeddaemonsetreplicaset

import (
	"github.com/DataDog/extendeddaemonset/zzverif/fakeapi"
	"strconv"
	"time"

	corev1 "k8s.io/api/core/v1"
	metav1 "k8s.io/apimachinery/pkg/apis/meta/v1"
	"k8s.io/apimachinery/pkg/util/intstr"

	datadoghqv1alpha1 "github.com/DataDog/extendeddaemonset/api/v1alpha1"
	"github.com/DataDog/extendeddaemonset/zzverif/nondet"
)

func zzAgeCond(rs *datadoghqv1alpha1.ExtendedDaemonSetReplicaSet, label string, t datadoghqv1alpha1.ExtendedDaemonSetReplicaSetConditionType) (present bool, ageSec int) {
	if !nondet.Bool(label + ".present") {
		return false, 0
	}
	ageSec = nondet.Int(label+".ageSec", 0, 120)
	at := metav1.NewTime(nondet.Base().Add(-time.Duration(ageSec) * time.Second))
	rs.Status.Conditions = append(rs.Status.Conditions, datadoghqv1alpha1.ExtendedDaemonSetReplicaSetCondition{
		Type: t, Status: corev1.ConditionTrue, LastTransitionTime: at, LastUpdateTime: at,
	})
	return true, ageSec
}

// ZZ_C09_gate: two syncs of one replica set that write are at least reconcileFrequency apart:
// while the previous full sync is younger than reconcileFrequency the reconcile writes
// nothing and asks to be woken up in time; a sync that writes records its own instant.
func ZZ_C09_gate() {
	c, ds, rsNew, _ := zzStore(2)
	ds.Status.ActiveReplicaSet = rsNew.Name
	freq := nondet.Int("reconcileFrequencySec", 1, 60)
	ds.Spec.Strategy.ReconcileFrequency = &metav1.Duration{Duration: time.Duration(freq) * time.Second}
	two := intstr.FromInt(2) // one node lacks a pod; a budget of two still allows one update deletion
	ds.Spec.Strategy.RollingUpdate.MaxUnavailable = &two
	// timestamps persisted by previous syncs (whole seconds, as the API stores them)
	fullPresent, fullAge := zzAgeCond(rsNew, "lastFullSync", datadoghqv1alpha1.ConditionTypeLastFullSync)
	createPresent, createAge := zzAgeCond(rsNew, "podCreation", datadoghqv1alpha1.ConditionTypePodCreation)
	deletePresent, deleteAge := zzAgeCond(rsNew, "podDeletion", datadoghqv1alpha1.ConditionTypePodDeletion)
	// one outdated available pod on node0 (to delete), node1 lacks a pod (to create)
	c.Pods = append(c.Pods, zzPod("pod0", zzNodeName(0), zzOldRS, zzHashOld, 0, corev1.PodRunning, true, nondet.Base().Add(-time.Hour)))
	// the user may just have paused or frozen the roll-out (annotation on the ExtendedDaemonSet the
	// replica set's conditions do not reflect yet): the spacing of syncs does not depend on it
	paused, frozen := false, false
	switch nondet.String("justAnnotated", "none", "rolling-update-paused", "rollout-frozen") {
	case "rolling-update-paused":
		ds.Annotations[datadoghqv1alpha1.ExtendedDaemonSetRollingUpdatePausedAnnotationKey] = "true"
		paused = true
	case "rollout-frozen":
		ds.Annotations[datadoghqv1alpha1.ExtendedDaemonSetRolloutFrozenAnnotationKey] = "true"
		frozen = true
	}

	res, err := zzReconcile(zzReconciler(c, false), zzNS, rsNew.Name)
	nondet.Assert("C09.gate.noerror", err == nil)

	writes := len(c.Writes())
	gated := fullPresent && fullAge < freq
	nondet.Fact("gated", gated)
	if gated {
		// (c) no API write, wake-up no later than the end of the window and not immediately
		nondet.Assert("C09.gate.no-write", writes == 0)
		remaining := time.Duration(freq-fullAge) * time.Second
		nondet.Assert("C09.gate.requeue", res.RequeueAfter > 0 && res.RequeueAfter <= remaining && res.RequeueAfter > remaining-time.Second)
	} else {
		// (d) the sync runs and stamps LastFullSync with its own instant
		nondet.Assert("C09.gate.status-written", c.Count("status-update", "ExtendedDaemonSetReplicaSet") == 1)
		var stamp *metav1.Time
		for _, s := range c.ERS {
			if s.Name == rsNew.Name {
				for i := range s.Status.Conditions {
					if s.Status.Conditions[i].Type == datadoghqv1alpha1.ConditionTypeLastFullSync {
						stamp = &s.Status.Conditions[i].LastUpdateTime
					}
				}
			}
		}
		nondet.Assert("C09.gate.stamped", stamp != nil)
		if stamp != nil {
			nondet.Assert("C09.gate.stamp-is-now", stamp.Time.After(nondet.Base()) && stamp.Time.Before(nondet.Base().Add(time.Second)))
		}
		// pod creations / deletions are themselves spaced by reconcileFrequency
		if createPresent && createAge < freq {
			nondet.Assert("C09.gate.create-spaced", c.Count("create", "Pod") == 0)
		} else if !frozen {
			nondet.Assert("C09.gate.creates", c.Count("create", "Pod") == 1)
		}
		if deletePresent && deleteAge < freq {
			nondet.Assert("C09.gate.delete-spaced", c.Count("delete", "Pod") == 0)
		} else if !frozen && !paused {
			nondet.Assert("C09.gate.deletes", c.Count("delete", "Pod") == 1)
		}
		nondet.Assert("C09.gate.status-last", c.Writes()[writes-1].Verb == "status-update")
	}
	// the statement itself: a sync that created or deleted pods (it stamped PodCreation / PodDeletion,
	// and LastFullSync no earlier) is younger than reconcileFrequency => this sync touches no pod
	recent := (createPresent && createAge < freq) || (deletePresent && deleteAge < freq)
	consistent := fullPresent && (!createPresent || fullAge <= createAge) && (!deletePresent || fullAge <= deleteAge)
	if recent && consistent {
		nondet.Assert("C09.gate.pod-syncs-spaced", c.Count("create", "Pod") == 0 && c.Count("delete", "Pod") == 0)
	}
	nondet.Observe("writes", writes)
	nondet.Reach("C09.gate.closed", gated)
	nondet.Reach("C09.gate.boundary-open", fullPresent && fullAge == freq)
	nondet.Reach("C09.gate.create-delayed", !gated && createPresent && createAge < freq)
}

// ZZ_C09_gateAfterFaults: "as long as its status writes succeed, two syncs of the same replica
// set that create or delete pods are at least reconcileFrequency apart" — also when some pod
// operation of the first sync fails: a sync whose status write succeeded stamps its own
// instant, and a second sync arriving right after it touches no pod.
func ZZ_C09_gateAfterFaults() {
	c, ds, rsNew, _ := zzStore(3)
	ds.Status.ActiveReplicaSet = rsNew.Name
	two := intstr.FromInt(2)
	ds.Spec.Strategy.RollingUpdate.MaxUnavailable = &two
	// node0 and node1 run outdated available pods, node2 an up-to-date one
	c.Pods = append(c.Pods,
		zzPod("old0", zzNodeName(0), zzOldRS, zzHashOld, 0, corev1.PodRunning, true, nondet.Base().Add(-time.Hour)),
		zzPod("old1", zzNodeName(1), zzOldRS, zzHashOld, 0, corev1.PodRunning, true, nondet.Base().Add(-time.Hour)),
		zzPod("new2", zzNodeName(2), zzRSName, zzHashNew, 0, corev1.PodRunning, true, nondet.Base().Add(-time.Hour)))
	c.InjectFaults = true
	_, _ = zzReconcile(zzReconciler(c, false), zzNS, rsNew.Name)
	c.InjectFaults = false
	n1 := len(c.Log)
	podOps1, statusOK := 0, false
	for _, e := range c.Log {
		if e.Kind == "Pod" && (e.Verb == "create" || e.Verb == "delete") && e.Applied {
			podOps1++
		}
		if e.Verb == "status-update" && !e.Failed {
			statusOK = true
		}
	}
	// a request for the same replica set arrives right away (same wall-clock second)
	res2, err2 := zzReconcile(zzReconciler(c, false), zzNS, rsNew.Name)
	podOps2 := 0
	for _, e := range c.Log[n1:] {
		if e.Kind == "Pod" && (e.Verb == "create" || e.Verb == "delete") {
			podOps2++
		}
	}
	if statusOK {
		var stamp *metav1.Time
		for _, s := range c.ERS {
			if s.Name == rsNew.Name {
				for i := range s.Status.Conditions {
					if s.Status.Conditions[i].Type == datadoghqv1alpha1.ConditionTypeLastFullSync {
						stamp = &s.Status.Conditions[i].LastUpdateTime
					}
				}
			}
		}
		nondet.Assert("C09.faults.stamped", stamp != nil)
		nondet.Assert("C09.faults.second-sync-spaced", err2 == nil && podOps2 == 0 && res2.RequeueAfter > 0)
	}
	nondet.Observe("podOps2", podOps2)
	nondet.Reach("C09.faults.partial-failure", statusOK && podOps1 >= 1 && len(c.Writes()) > podOps1+1)
	nondet.Reach("C09.faults.status-failed", !statusOK)
}

// ZZ_C09_requestsAtArbitraryTimes: "every sequence of reconcile requests arriving at arbitrary
// times" — three (thorough: four) requests for the active replica set, the time between two
// consecutive ones an arbitrary whole number of seconds in [0, 90], reconcileFrequency arbitrary in
// [1, 60] s.  Three nodes run outdated available pods, a fourth has none; between requests the
// kubelet catches up without time passing (deleted pods vanish, created pods become Ready), so every
// sync has something to do.  Any two syncs that created or deleted pods are at least
// reconcileFrequency apart (the stamps are written with the sync's own instant, so no resolution
// slack is needed here), and in one sync at most maxUnavailable (1) pod is deleted for updating.
func ZZ_C09_requestsAtArbitraryTimes() {
	nReq := 3
	if nondet.Thorough() {
		nReq = 4
	}
	c, ds, rsNew, _ := zzStore(4)
	ds.Status.ActiveReplicaSet = rsNew.Name
	freq := nondet.Int("reconcileFrequencySec", 1, 60)
	ds.Spec.Strategy.ReconcileFrequency = &metav1.Duration{Duration: time.Duration(freq) * time.Second}
	// the slow-start interval is a different knob (how fast the creation bound grows): shorter or longer
	// than reconcileFrequency, it does not change the spacing
	ds.Spec.Strategy.RollingUpdate.SlowStartIntervalDuration = &metav1.Duration{Duration: time.Duration(nondet.Int("slowStartIntervalSec", 1, 120)) * time.Second}
	for i := 0; i < 3; i++ {
		c.Pods = append(c.Pods, zzPod("old-"+zzNodeName(i), zzNodeName(i), zzOldRS, zzHashOld, 0, corev1.PodRunning, true, nondet.Base().Add(-time.Hour)))
	}
	r := zzReconciler(c, false)
	var at []int       // arrival time of each request, in seconds after the first
	var touched []bool // did it create or delete a pod
	now := 0
	for q := 0; q < nReq; q++ {
		if q > 0 {
			gap := nondet.Int("gap"+strconv.Itoa(q), 0, 90)
			now += gap
			// `gap` seconds pass: everything stored gets older
			for _, rs := range c.ERS {
				for i := range rs.Status.Conditions {
					cd := &rs.Status.Conditions[i]
					cd.LastUpdateTime = metav1.NewTime(cd.LastUpdateTime.Add(-time.Duration(gap) * time.Second))
					cd.LastTransitionTime = metav1.NewTime(cd.LastTransitionTime.Add(-time.Duration(gap) * time.Second))
				}
			}
		}
		from := len(c.Log)
		_, err := zzReconcile(r, zzNS, rsNew.Name)
		nondet.Assert("C09.requests.noerror", err == nil)
		creates, deletes := 0, 0
		for _, e := range c.Log[from:] {
			if e.Kind == "Pod" && e.Verb == "create" {
				creates++
			}
			if e.Kind == "Pod" && e.Verb == "delete" {
				deletes++
			}
		}
		nondet.Assert("C09.requests.at-most-maxUnavailable-deleted", deletes <= 1)
		at = append(at, now)
		touched = append(touched, creates+deletes > 0)
		// the kubelet catches up, no time passes — or the pods this sync created are lost again right
		// away (evicted, node rebooted), so that the next sync observes the very counters this one stored
		lost := map[string]bool{}
		if nondet.Bool("createdPodsLost" + strconv.Itoa(q)) {
			for _, e := range c.Log[from:] {
				if e.Kind == "Pod" && e.Verb == "create" {
					lost[e.Name] = true
				}
			}
		}
		var kept []*corev1.Pod
		for _, p := range c.Pods {
			if p.DeletionTimestamp != nil || lost[p.Name] {
				continue
			}
			if p.Spec.NodeName == "" {
				p.Spec.NodeName = fakeapi.PodNode(p)
			}
			p.Status.Phase = corev1.PodRunning
			if len(p.Status.Conditions) == 0 {
				p.Status.Conditions = []corev1.PodCondition{{Type: corev1.PodReady, Status: corev1.ConditionTrue}}
			}
			kept = append(kept, p)
		}
		c.Pods = kept
	}
	for i := 0; i < nReq; i++ {
		for j := i + 1; j < nReq; j++ {
			if touched[i] && touched[j] {
				nondet.Assert("C09.requests.pod-syncs-spaced", at[j]-at[i] >= freq)
			}
		}
	}
	nTouched := 0
	for _, t := range touched {
		if t {
			nTouched++
		}
	}
	nondet.Observe("touchingSyncs", nTouched)
	nondet.Reach("C09.requests.two-touching-syncs", nTouched >= 2)
	nondet.Reach("C09.requests.a-request-was-postponed", nTouched < nReq)
}

// ZZ_C09_largeCreationStep: "in one sync the active replica set creates at most min(maxParallelPodCreation,
// (1 + floor(t / slowStartIntervalDuration)) * slowStartAdditiveIncrease) pods" counted where it matters — the
// Create calls of the whole sync, not the list the strategy computes — and for steps larger than any batching
// inside the controller: 21, 30 or 40 nodes without pod, the replica set active for 2m30s, increase 8 per
// minute, maxParallelPodCreation 22 or 30: the sync issues exactly min(cap, 24, nodes) creations, one per node.
func ZZ_C09_largeCreationStep() {
	n := 21
	switch nondet.String("nodes", "21", "30", "40") {
	case "30":
		n = 30
	case "40":
		n = 40
	}
	c, ds, rsNew, _ := zzStore(n)
	ds.Status.ActiveReplicaSet = rsNew.Name
	eight := intstr.FromInt(8)
	ds.Spec.Strategy.RollingUpdate.SlowStartAdditiveIncrease = &eight
	ds.Spec.Strategy.RollingUpdate.SlowStartIntervalDuration = &metav1.Duration{Duration: time.Minute}
	maxParallel := int32(22)
	if nondet.Bool("maxParallel30") {
		maxParallel = 30
	}
	ds.Spec.Strategy.RollingUpdate.MaxParallelPodCreation = &maxParallel
	since := metav1.NewTime(nondet.Base().Add(-150 * time.Second))
	rsNew.Status.Conditions = append(rsNew.Status.Conditions, datadoghqv1alpha1.ExtendedDaemonSetReplicaSetCondition{Type: datadoghqv1alpha1.ConditionTypeActive, Status: corev1.ConditionTrue, LastTransitionTime: since, LastUpdateTime: since})
	_, err := zzReconcile(zzReconciler(c, false), zzNS, rsNew.Name)
	nondet.Assert("C09.large-step.noerror", err == nil)
	perNode := map[string]int{}
	creates := 0
	for _, e := range c.Log {
		if e.Kind == "Pod" && e.Verb == "create" {
			creates++
			perNode[e.Node]++
		}
	}
	bound := 24 // (1 + floor(150s / 60s)) * 8
	if int(maxParallel) < bound {
		bound = int(maxParallel)
	}
	if n < bound {
		bound = n
	}
	nondet.Assert("C09.large-step.creates-exactly-the-bound", creates == bound)
	for _, k := range perNode {
		nondet.Assert("C09.large-step.one-creation-per-node", k == 1)
	}
	nondet.Observe("creates", creates)
}
