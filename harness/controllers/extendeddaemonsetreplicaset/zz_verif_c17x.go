//go:build verif

package extendeddaemonsetreplicaset

import (
	"context"
	"sync"
	"time"

	metav1 "k8s.io/apimachinery/pkg/apis/meta/v1"
	"k8s.io/apimachinery/pkg/types"
	"k8s.io/apimachinery/pkg/util/intstr"
	"sigs.k8s.io/controller-runtime/pkg/reconcile"

	datadoghqv1alpha1 "github.com/DataDog/extendeddaemonset/api/v1alpha1"
	"github.com/DataDog/extendeddaemonset/zzverif/nondet"
)

// ZZ_C17_controllersReconcileConcurrently: "the ... controllers may reconcile concurrently ...; there is no
// data race" between a reconcile of the ExtendedDaemonSet controller and a sync of the replica-set
// controller that run at the same time, each in its own goroutine as the controller manager runs them,
// against one API.  The objects carry the optional parts that make both go through the shared helper
// packages: a spec.selector (copied to the replica sets), a canary given as a percentage with a node
// selector, or none of them.  The engine's lockset check reports any memory cell — a package-level table
// or cache in particular — that one goroutine writes and the other reads or writes without a common lock;
// a reported pair is replayed natively under the race detector.  (One schedule of the two goroutines is
// explored; the lockset check does not depend on the schedule for the accesses that schedule performs.)
func ZZ_C17_controllersReconcileConcurrently() {
	var canary *datadoghqv1alpha1.ExtendedDaemonSetSpecStrategyCanary
	if nondet.Bool("canaryAsPercentageWithNodeSelector") {
		half := intstr.FromString("50%")
		canary = &datadoghqv1alpha1.ExtendedDaemonSetSpecStrategyCanary{Replicas: &half, Duration: &metav1.Duration{Duration: time.Hour},
			NodeSelector: &metav1.LabelSelector{MatchLabels: map[string]string{"pool": "agents"}}}
	}
	w, ds := zzNewWorld(2, canary)
	for _, n := range w.c.Nodes {
		n.Labels["pool"] = "agents"
	}
	if nondet.Bool("specSelector") {
		ds.Spec.Selector = &metav1.LabelSelector{MatchLabels: map[string]string{"pool": "agents"}}
		w.c.ERS[0].Spec.Selector = ds.Spec.Selector.DeepCopy()
	}
	ers := zzReconciler(w.c, nondet.Bool("nodeAffinitySupported"))
	req := reconcile.Request{NamespacedName: types.NamespacedName{Namespace: zzNS, Name: zzEDSName}}
	// a first reconcile creates the replica set of the new template; the next one (the one that runs
	// concurrently with the replica-set sync) starts the canary, or promotes when there is no canary strategy
	_, err0 := w.eds.Reconcile(context.TODO(), req)
	nondet.Assert("C17.concurrent.first-reconcile-ok", err0 == nil && len(w.c.ERS) == 2)
	var wg sync.WaitGroup
	var errEDS, errERS error
	wg.Add(2)
	go func() {
		defer wg.Done()
		_, errEDS = w.eds.Reconcile(context.TODO(), req)
	}()
	go func() {
		defer wg.Done()
		_, errERS = zzReconcile(ers, zzNS, "foo-a")
	}()
	wg.Wait()
	nondet.Assert("C17.concurrent.noerror", errEDS == nil && errERS == nil)
	st := w.c.EDS[0].Status
	if canary != nil {
		// the canary started on one node (50% of two); the old active replica set, whichever way its sync was
		// ordered with that, had nothing to do
		nondet.Assert("C17.concurrent.canary-started", st.Canary != nil && len(st.Canary.Nodes) == 1 && st.ActiveReplicaSet == "foo-a")
		nondet.Assert("C17.concurrent.no-pod-write", w.c.Count("create", "Pod") == 0 && w.c.Count("delete", "Pod") == 0)
	} else {
		nondet.Assert("C17.concurrent.promoted", st.Canary == nil && st.ActiveReplicaSet != "foo-a" && st.ActiveReplicaSet != "")
	}
	nondet.Reach("C17.concurrent.with-selector-and-canary", canary != nil && ds.Spec.Selector != nil)
}
