//go:build verif

package extendeddaemonsetreplicaset

import (
	"context"
	"time"

	"github.com/go-logr/logr"
	corev1 "k8s.io/api/core/v1"
	metav1 "k8s.io/apimachinery/pkg/apis/meta/v1"
	"k8s.io/apimachinery/pkg/types"
	"sigs.k8s.io/controller-runtime/pkg/reconcile"

	datadoghqv1alpha1 "github.com/DataDog/extendeddaemonset/api/v1alpha1"
	edsctrl "github.com/DataDog/extendeddaemonset/controllers/extendeddaemonset"
	"github.com/DataDog/extendeddaemonset/pkg/controller/utils/comparison"
	"github.com/DataDog/extendeddaemonset/zzverif/fakeapi"
	"github.com/DataDog/extendeddaemonset/zzverif/nondet"
)

// ZZ_C02_roundsWithNodeChurn: "this holds from every reachable intermediate state, including after
// node addition, removal or tainting": a rolling update from template A to B on a two-node cluster
// (every node holds a Ready pod of A; no canary strategy) is interrupted after 0..3 rounds of
// {ExtendedDaemonSet reconcile, every replica-set reconcile, kubelet step} by one event — a node joins,
// node1 leaves (its pod stays behind), node1 (or every node) gets a NoSchedule taint the pod does not tolerate, or node1
// loses a taint it had from the start.  Further rounds reach, within the bound, exactly one Ready pod
// of B on every node that is eligible in the end and no other daemon pod; one more round creates or
// deletes nothing and the status counts the eligible nodes.
func ZZ_C02_roundsWithNodeChurn() {
	c := fakeapi.New()
	ds := &datadoghqv1alpha1.ExtendedDaemonSet{ObjectMeta: metav1.ObjectMeta{Name: zzEDSName, Namespace: zzNS, UID: "uid-foo", Annotations: map[string]string{}}}
	tpl := func(id string) corev1.PodTemplateSpec {
		return corev1.PodTemplateSpec{ObjectMeta: metav1.ObjectMeta{Labels: map[string]string{"app": "agent"}},
			Spec: corev1.PodSpec{Containers: []corev1.Container{{Name: "agent", Image: "agent:" + id}}}}
	}
	hash := func(id string) string {
		t := tpl(id)
		h, _ := comparison.GenerateMD5PodTemplateSpec(&t)
		return h
	}
	ds.Spec.Template = tpl("B")
	datadoghqv1alpha1.DefaultExtendedDaemonSetSpec(&ds.Spec, datadoghqv1alpha1.ExtendedDaemonSetSpecStrategyCanaryValidationModeAuto)
	// a migration finished long ago may have left its annotation behind, naming a DaemonSet that no longer exists
	// ... or the object carries a template-hash annotation of its own, stale (a manifest written from an export)
	switch nondet.String("edsAnnotationLeftBehind", "none", "old-daemonset", "stale-template-hash") {
	case "old-daemonset":
		ds.Annotations[datadoghqv1alpha1.ExtendedDaemonSetOldDaemonsetAnnotationKey] = "long-gone"
	case "stale-template-hash":
		ds.Annotations[datadoghqv1alpha1.MD5ExtendedDaemonSetAnnotationKey] = "0123456789abcdef0123456789abcdef"
	}
	rsOld := zzRS("foo-a", hash("A"))
	rsOld.Spec.Template = tpl("A")
	rsOld.Annotations = map[string]string{datadoghqv1alpha1.MD5ExtendedDaemonSetAnnotationKey: hash("A")}
	rsOld.CreationTimestamp = metav1.NewTime(nondet.Base().Add(-time.Hour))
	c.ERS = append(c.ERS, rsOld)
	ds.Status.ActiveReplicaSet = "foo-a"
	event := nondet.String("event", "node-joins", "node-leaves", "node-gets-tainted", "node-loses-its-taint", "every-node-gets-tainted")
	taint := []corev1.Taint{{Key: "dedicated", Value: "db", Effect: corev1.TaintEffectNoSchedule}}
	for i := 0; i < 2; i++ {
		node := &corev1.Node{ObjectMeta: metav1.ObjectMeta{Name: zzNodeName(i), Labels: map[string]string{}, Annotations: map[string]string{}}}
		if i == 1 && event == "node-loses-its-taint" {
			node.Spec.Taints = taint
		} else {
			c.Pods = append(c.Pods, zzPod("old-"+zzNodeName(i), zzNodeName(i), "foo-a", hash("A"), 0, corev1.PodRunning, true, nondet.Base().Add(-time.Hour)))
		}
		c.Nodes = append(c.Nodes, node)
	}
	c.EDS = append(c.EDS, ds)
	edsRec, _ := edsctrl.NewReconciler(edsctrl.ReconcilerOptions{DefaultValidationMode: datadoghqv1alpha1.ExtendedDaemonSetSpecStrategyCanaryValidationModeAuto}, c, c.Scheme(), logr.Logger{}, &fakeapi.Recorder{})
	round := func() (podWrites int) {
		from := len(c.Log)
		_, err := edsRec.Reconcile(context.TODO(), reconcile.Request{NamespacedName: types.NamespacedName{Namespace: zzNS, Name: zzEDSName}})
		nondet.Assert("C02.churn.eds-ok", err == nil)
		names := []string{}
		for _, rs := range c.ERS {
			names = append(names, rs.Name)
		}
		for _, name := range names {
			_, err := zzReconcile(zzReconciler(c, false), zzNS, name)
			nondet.Assert("C02.churn.ers-ok", err == nil)
		}
		for _, e := range c.Log[from:] {
			if e.Kind == "Pod" && (e.Verb == "create" || e.Verb == "delete") {
				podWrites++
			}
		}
		zzKubelet(c)
		return podWrites
	}
	at := nondet.Int("eventAfterRounds", 0, 3)
	for r := 0; r < 4; r++ {
		if r == at {
			break
		}
		round()
	}
	switch event {
	case "node-joins":
		c.Nodes = append(c.Nodes, &corev1.Node{ObjectMeta: metav1.ObjectMeta{Name: "late", Labels: map[string]string{}, Annotations: map[string]string{}}})
	case "node-leaves":
		c.Nodes = c.Nodes[:1]
	case "node-gets-tainted":
		c.Nodes[1].Spec.Taints = taint
	case "every-node-gets-tainted":
		// no eligible node is left: every daemon pod has to go
		c.Nodes[0].Spec.Taints = taint
		c.Nodes[1].Spec.Taints = taint
	default:
		c.Nodes[1].Spec.Taints = nil
	}
	eligible := map[string]bool{}
	for _, n := range c.Nodes {
		if len(n.Spec.Taints) == 0 {
			eligible[n.Name] = true
		}
	}
	converged := func() bool {
		if len(c.Pods) != len(eligible) {
			return false
		}
		seen := map[string]bool{}
		for _, p := range c.Pods {
			if p.Annotations[datadoghqv1alpha1.MD5ExtendedDaemonSetAnnotationKey] != hash("B") || seen[p.Spec.NodeName] || !eligible[p.Spec.NodeName] {
				return false
			}
			seen[p.Spec.NodeName] = true
		}
		return true
	}
	bound := 2*3 + 4
	rounds := 0
	for rounds < bound && !converged() {
		round()
		rounds++
	}
	nondet.Assert("C02.churn.converges", converged())
	w := round()
	nondet.Assert("C02.churn.quiescent", w == 0 && converged())
	w2 := round()
	nondet.Assert("C02.churn.still-quiescent", w2 == 0 && converged())
	final := c.EDS[0]
	nondet.Observe("rounds", rounds)
	nondet.Observe("desired", final.Status.Desired)
	nondet.Assert("C02.churn.status", final.Status.ActiveReplicaSet != "foo-a" && int(final.Status.Desired) == len(eligible) && int(final.Status.Ready) == len(eligible) && int(final.Status.UpToDate) == len(eligible))
	nondet.Reach("C02.churn.joined-mid-rollout", event == "node-joins" && at >= 2)
	nondet.Reach("C02.churn.left-mid-rollout", event == "node-leaves" && at >= 2)
}
