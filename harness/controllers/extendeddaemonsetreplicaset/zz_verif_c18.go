//go:build verif

package extendeddaemonsetreplicaset

import (
	"k8s.io/apimachinery/pkg/util/intstr"
	"strconv"

	autoscalingv1 "k8s.io/api/autoscaling/v1"
	corev1 "k8s.io/api/core/v1"
	"k8s.io/apimachinery/pkg/api/resource"
	metav1 "k8s.io/apimachinery/pkg/apis/meta/v1"

	datadoghqv1alpha1 "github.com/DataDog/extendeddaemonset/api/v1alpha1"
	"github.com/DataDog/extendeddaemonset/zzverif/nondet"
)

// ZZ_C18_ersSide: "Only valid settings influence pods and every node is affected by at most one
// setting."  A whole real replica-set sync that creates the pod of node0 (labels pool=a) with up
// to three ExtendedDaemonsetSettings in the store, each with an arbitrary status (valid / error /
// unset), reference (foo / another ExtendedDaemonSet / none), namespace (ns / ns2) and selector
// (pool=a / pool=b / everything / unusable, the latter never with status valid): the container resources of the created pod are those of the
// first listed setting that is valid, references foo, lives in ns and selects node0 — and the
// template's when there is none.
func ZZ_C18_ersSide() {
	n := 2
	if nondet.Thorough() {
		n = 3
	}
	zzErsSide("C18.ers", n)
}

// ZZ_C10_settingResolved: the same sync seen from C10: "container resources resolved as ... else the
// valid ExtendedDaemonsetSetting selecting the node, else the template" — which setting that is
// is decided by the replica-set controller's node list, for every population of two settings
// (status, reference, namespace, selector) in either listing order.
func ZZ_C10_settingResolved() { zzErsSide("C10.resolved", 2) }

func zzErsSide(prop string, n int) {
	c, ds, rsNew, _ := zzStore(2)
	ds.Status.ActiveReplicaSet = rsNew.Name
	five := intstr.FromInt(5) // both pods are created in the same sync
	ds.Spec.Strategy.RollingUpdate.SlowStartAdditiveIncrease = &five
	// node0 carries pool=a; node1, listed after it, carries no pool label: only a catch-all selector
	// reaches it, and what applies to node0 must not rub off on it
	c.Nodes[0].Labels = map[string]string{"pool": "a"}
	rsNew.Spec.Template.Spec.Containers[0].Resources = corev1.ResourceRequirements{Requests: corev1.ResourceList{corev1.ResourceCPU: resource.MustParse("100m")}}
	wantCPU := []int64{100, 100}
	wantSetting := []string{"", ""}
	for i := 0; i < n; i++ {
		l := "s" + strconv.Itoa(i)
		if !nondet.Bool(l + ".exists") {
			continue
		}
		cpu := int64(500 + 100*i)
		s := &datadoghqv1alpha1.ExtendedDaemonsetSetting{ObjectMeta: metav1.ObjectMeta{Name: l, Namespace: zzNS}}
		s.Spec.Containers = []datadoghqv1alpha1.ExtendedDaemonsetSettingContainerSpec{{Name: "agent",
			Resources: corev1.ResourceRequirements{Requests: corev1.ResourceList{corev1.ResourceCPU: *resource.NewMilliQuantity(cpu, resource.DecimalSI)}}}}
		applies := []bool{true, true}
		none := func() { applies[0], applies[1] = false, false }
		switch nondet.String(l+".status", "valid", "error", "") {
		case "valid":
			s.Status.Status = datadoghqv1alpha1.ExtendedDaemonsetSettingStatusValid
		case "error":
			s.Status.Status = datadoghqv1alpha1.ExtendedDaemonsetSettingStatusError
			none()
		default:
			none()
		}
		switch nondet.String(l+".reference", "foo", "bar", "none") {
		case "foo":
			s.Spec.Reference = &autoscalingv1.CrossVersionObjectReference{Kind: "ExtendedDaemonSet", Name: zzEDSName}
		case "bar":
			s.Spec.Reference = &autoscalingv1.CrossVersionObjectReference{Kind: "ExtendedDaemonSet", Name: "bar"}
			none()
		default:
			none()
		}
		if nondet.Bool(l + ".otherNamespace") {
			s.Namespace = "ns2"
			none()
		}
		switch nondet.String(l+".selector", "pool=a", "pool=b", "all", "unusable") {
		case "pool=a":
			s.Spec.NodeSelector = metav1.LabelSelector{MatchLabels: map[string]string{"pool": "a"}}
			applies[1] = false
		case "pool=b":
			s.Spec.NodeSelector = metav1.LabelSelector{MatchLabels: map[string]string{"pool": "b"}}
			none()
		case "unusable":
			// "a setting ... with an unusable selector is in error" (never valid): it must not influence
			// anything, not even by making the sync fail
			s.Spec.NodeSelector = metav1.LabelSelector{MatchExpressions: []metav1.LabelSelectorRequirement{{Key: "pool", Operator: metav1.LabelSelectorOpIn}}}
			nondet.Assume(s.Status.Status != datadoghqv1alpha1.ExtendedDaemonsetSettingStatusValid)
			none()
		}
		c.Settings = append(c.Settings, s)
		for k := 0; k < 2; k++ {
			if applies[k] && wantSetting[k] == "" {
				wantCPU[k], wantSetting[k] = cpu, l
			}
		}
	}
	_, err := zzReconcile(zzReconciler(c, false), zzNS, rsNew.Name)
	nondet.Assert(prop+".noerror", err == nil)
	created := map[string]*corev1.Pod{}
	for _, e := range c.Log {
		if e.Kind == "Pod" && e.Verb == "create" {
			created[e.Node] = e.Obj.(*corev1.Pod)
		}
		if e.Kind == "ExtendedDaemonsetSetting" {
			nondet.Assert(prop+".settings-read-only", e.Verb == "list" || e.Verb == "get")
		}
	}
	nondet.Assert(prop+".pod-created", created[zzNodeName(0)] != nil && created[zzNodeName(1)] != nil)
	if created[zzNodeName(0)] == nil || created[zzNodeName(1)] == nil {
		return
	}
	for k := 0; k < 2; k++ {
		q := created[zzNodeName(k)].Spec.Containers[0].Resources.Requests[corev1.ResourceCPU]
		nondet.Assert(prop+".resources-from-the-one-applicable-setting", q.MilliValue() == wantCPU[k])
		nondet.Assert(prop+".setting-label-of-the-applicable-setting", created[zzNodeName(k)].Labels[datadoghqv1alpha1.ExtendedDaemonSetSettingNameLabelKey] == wantSetting[k])
	}
	q0 := created[zzNodeName(0)].Spec.Containers[0].Resources.Requests[corev1.ResourceCPU]
	nondet.Observe("cpu", q0.MilliValue())
	nondet.Reach(prop+".second-setting-applies", wantSetting[0] == "s1")
	nondet.Reach(prop+".template-applies", wantSetting[0] == "" && len(c.Settings) == 2)
	nondet.Reach(prop+".setting-for-node0-only", wantSetting[0] != "" && wantSetting[1] == "")
}
