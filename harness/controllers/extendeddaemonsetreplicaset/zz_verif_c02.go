//go:build verif

package extendeddaemonsetreplicaset

import (
	"context"
	autoscalingv1 "k8s.io/api/autoscaling/v1"
	"k8s.io/apimachinery/pkg/api/resource"
	"strconv"
	"time"

	"github.com/go-logr/logr"
	corev1 "k8s.io/api/core/v1"
	metav1 "k8s.io/apimachinery/pkg/apis/meta/v1"
	"k8s.io/apimachinery/pkg/types"
	"k8s.io/apimachinery/pkg/util/intstr"
	"sigs.k8s.io/controller-runtime/pkg/reconcile"

	datadoghqv1alpha1 "github.com/DataDog/extendeddaemonset/api/v1alpha1"
	edsctrl "github.com/DataDog/extendeddaemonset/controllers/extendeddaemonset"
	"github.com/DataDog/extendeddaemonset/pkg/controller/utils/comparison"
	"github.com/DataDog/extendeddaemonset/zzverif/fakeapi"
	"github.com/DataDog/extendeddaemonset/zzverif/nondet"
)

// zzKubelet: created pods get scheduled and become Ready, terminating pods disappear, and
// one minute passes (all stored condition timestamps age by 60s, which opens the sync gates).
func zzKubelet(c *fakeapi.Client) {
	var kept []*corev1.Pod
	for _, p := range c.Pods {
		if p.DeletionTimestamp != nil {
			continue
		}
		if p.Spec.NodeName == "" {
			p.Spec.NodeName = fakeapi.PodNode(p)
		}
		p.Status.Phase = corev1.PodRunning
		ready := false
		for i := range p.Status.Conditions {
			if p.Status.Conditions[i].Type == corev1.PodReady {
				p.Status.Conditions[i].Status = corev1.ConditionTrue
				ready = true
			}
		}
		if !ready {
			p.Status.Conditions = append(p.Status.Conditions, corev1.PodCondition{Type: corev1.PodReady, Status: corev1.ConditionTrue})
		}
		kept = append(kept, p)
	}
	c.Pods = kept
	for _, rs := range c.ERS {
		for i := range rs.Status.Conditions {
			cd := &rs.Status.Conditions[i]
			cd.LastUpdateTime = metav1.NewTime(cd.LastUpdateTime.Add(-time.Minute))
			cd.LastTransitionTime = metav1.NewTime(cd.LastTransitionTime.Add(-time.Minute))
		}
		rs.CreationTimestamp = metav1.NewTime(rs.CreationTimestamp.Add(-time.Minute))
	}
}

// ZZ_C02_rounds: bounded multi-round, two-controller convergence (an extension beyond the
// one-step lemmas): from every initial layout of a 2-node (thorough 3-node) cluster — each
// node without pod, with a Ready pod of the old template or of the live template — and an
// ExtendedDaemonSet without canary strategy whose template was just changed (the matching
// replica set may not exist yet), repeated rounds of {ExtendedDaemonSet reconcile, every
// replica-set reconcile, kubelet step} reach within the bound a state with exactly one Ready
// live-template pod per node and nothing else, after which a further round creates or deletes
// nothing.
func ZZ_C02_rounds() {
	nNodes := 2
	if nondet.Thorough() {
		nNodes = 3
	}
	c := fakeapi.New()
	ds := &datadoghqv1alpha1.ExtendedDaemonSet{ObjectMeta: metav1.ObjectMeta{Name: zzEDSName, Namespace: zzNS, UID: "uid-foo", Annotations: map[string]string{}}}
	smallPct := nondet.Bool("limitsAsSmallPercentages")
	// the new template may have been copied from a running pod of a node with a resources override and
	// still carry that pod's node-hash annotation: pods created from it on nodes without an override
	// must be recognised as up to date all the same, or they are replaced for ever
	staleNodeHash := !smallPct && nondet.Bool("newTemplateCarriesStaleNodeHash")
	tpl := func(id string) corev1.PodTemplateSpec {
		t := corev1.PodTemplateSpec{ObjectMeta: metav1.ObjectMeta{Labels: map[string]string{"app": "agent"}},
			Spec: corev1.PodSpec{Containers: []corev1.Container{{Name: "agent", Image: "agent:" + id}}}}
		if staleNodeHash && id == "B" {
			t.Annotations = map[string]string{datadoghqv1alpha1.MD5NodeExtendedDaemonSetAnnotationKey: "0123456789abcdef0123456789abcdef"}
		}
		return t
	}
	ds.Spec.Template = tpl("B")
	datadoghqv1alpha1.DefaultExtendedDaemonSetSpec(&ds.Spec, datadoghqv1alpha1.ExtendedDaemonSetSpecStrategyCanaryValidationModeAuto)
	// the rolling-update limits may be percentages that come to less than one node on a small cluster:
	// they round up ("at least one"), so the roll-out still makes progress
	if smallPct {
		ten := intstr.FromString("10%")
		ds.Spec.Strategy.RollingUpdate.SlowStartAdditiveIncrease = &ten
		ds.Spec.Strategy.RollingUpdate.MaxUnavailable = &ten
		ds.Spec.Strategy.RollingUpdate.MaxParallelPodCreation = nil
		datadoghqv1alpha1.DefaultExtendedDaemonSetSpec(&ds.Spec, datadoghqv1alpha1.ExtendedDaemonSetSpecStrategyCanaryValidationModeAuto)
	}
	hash := func(id string) string {
		t := tpl(id)
		h, _ := comparison.GenerateMD5PodTemplateSpec(&t)
		return h
	}
	mkRS := func(id, name string) *datadoghqv1alpha1.ExtendedDaemonSetReplicaSet {
		rs := zzRS(name, hash(id))
		rs.Spec.Template = tpl(id)
		rs.Annotations = map[string]string{datadoghqv1alpha1.MD5ExtendedDaemonSetAnnotationKey: hash(id)}
		rs.CreationTimestamp = metav1.NewTime(nondet.Base().Add(-time.Hour))
		return rs
	}
	// the old replica set exists and is the recorded active one; the new one may already exist
	rsOld := mkRS("A", "foo-a")
	c.ERS = append(c.ERS, rsOld)
	ds.Status.ActiveReplicaSet = "foo-a"
	newExists := nondet.Bool("newReplicaSetExists")
	if newExists {
		rsB := mkRS("B", "foo-b")
		// the replica set may have been created while the rollout was paused / frozen (a replica set is
		// born with a copy of the ExtendedDaemonSet's annotations); the switches have been removed from
		// the ExtendedDaemonSet since, so nothing is paused any more
		if nondet.Bool("newReplicaSetBornWhilePaused") {
			rsB.Annotations[datadoghqv1alpha1.ExtendedDaemonSetRollingUpdatePausedAnnotationKey] = "true"
			rsB.Annotations[datadoghqv1alpha1.ExtendedDaemonSetRolloutFrozenAnnotationKey] = "true"
		}
		c.ERS = append(c.ERS, rsB)
	}
	// node0 may carry a resources override annotation that changes nothing for the pod (it names a
	// container the template does not have, or is not decodable): the pod created there must still be
	// recognised as up to date, or the node flaps for ever
	node0Ann := nondet.String("node0.overrideAnnotation", "none", "other-container", "malformed")
	for i := 0; i < nNodes; i++ {
		node := &corev1.Node{ObjectMeta: metav1.ObjectMeta{Name: zzNodeName(i), Labels: map[string]string{}, Annotations: map[string]string{}}}
		if i == 0 {
			prefix := "resources.extendeddaemonset.datadoghq.com/" + zzNS + "." + zzEDSName + "."
			switch node0Ann {
			case "other-container":
				node.Annotations[prefix+"sidecar"] = `{"requests":{"cpu":"200m"}}`
			case "malformed":
				node.Annotations[prefix+"agent"] = `{"requests":`
			}
		}
		// a soft taint (PreferNoSchedule) does not make a node ineligible
		if i == 1 && nondet.Bool("node1.preferNoScheduleTaint") {
			node.Spec.Taints = []corev1.Taint{{Key: "maintenance", Value: "soon", Effect: corev1.TaintEffectPreferNoSchedule}}
		}
		c.Nodes = append(c.Nodes, node)
		switch nondet.String("node"+strconv.Itoa(i)+".pod", "none", "old", "new") {
		case "old":
			c.Pods = append(c.Pods, zzPod("old-"+zzNodeName(i), zzNodeName(i), "foo-a", hash("A"), 0, corev1.PodRunning, true, nondet.Base().Add(-time.Hour)))
		case "new":
			if newExists {
				p := zzPod("new-"+zzNodeName(i), zzNodeName(i), "foo-b", hash("B"), 0, corev1.PodRunning, true, nondet.Base().Add(-time.Hour))
				// as stamped by the controller when it created the pod on a node carrying override annotations
				if h := comparison.GenerateHashFromEDSResourceNodeAnnotation(zzNS, zzEDSName, node.Annotations); h != "" {
					p.Annotations[datadoghqv1alpha1.MD5NodeExtendedDaemonSetAnnotationKey] = h
				}
				c.Pods = append(c.Pods, p)
			}
		}
	}
	// "including after node ... tainting": one more node carries a NoSchedule taint the pod does not
	// tolerate; a daemon pod may still sit on it (created before the taint, by either replica set)
	// and must be gone in the end
	c.Nodes = append(c.Nodes, &corev1.Node{ObjectMeta: metav1.ObjectMeta{Name: "tainted", Labels: map[string]string{}},
		Spec: corev1.NodeSpec{Taints: []corev1.Taint{{Key: "dedicated", Value: "db", Effect: corev1.TaintEffectNoSchedule}}}})
	switch nondet.String("taintedNode.pod", "none", "old", "new") {
	case "old":
		c.Pods = append(c.Pods, zzPod("old-tainted", "tainted", "foo-a", hash("A"), 0, corev1.PodRunning, true, nondet.Base().Add(-time.Hour)))
	case "new":
		if newExists {
			c.Pods = append(c.Pods, zzPod("new-tainted", "tainted", "foo-b", hash("B"), 0, corev1.PodRunning, true, nondet.Base().Add(-time.Hour)))
		}
	}
	c.EDS = append(c.EDS, ds)

	edsRec, _ := edsctrl.NewReconciler(edsctrl.ReconcilerOptions{DefaultValidationMode: datadoghqv1alpha1.ExtendedDaemonSetSpecStrategyCanaryValidationModeAuto}, c, c.Scheme(), logr.Logger{}, &fakeapi.Recorder{})
	round := func() (podWrites int) {
		from := len(c.Log)
		_, err := edsRec.Reconcile(context.TODO(), reconcile.Request{NamespacedName: types.NamespacedName{Namespace: zzNS, Name: zzEDSName}})
		nondet.Assert("C02.rounds.eds-ok", err == nil)
		names := []string{}
		for _, rs := range c.ERS {
			names = append(names, rs.Name)
		}
		for _, name := range names {
			_, err := zzReconcile(zzReconciler(c, false), zzNS, name)
			nondet.Assert("C02.rounds.ers-ok", err == nil)
		}
		for _, e := range c.Log[from:] {
			if e.Kind == "Pod" && (e.Verb == "create" || e.Verb == "delete") {
				podWrites++
			}
		}
		zzKubelet(c)
		return podWrites
	}
	converged := func() bool {
		if len(c.Pods) != nNodes {
			return false
		}
		seen := map[string]bool{}
		for _, p := range c.Pods {
			if p.Annotations[datadoghqv1alpha1.MD5ExtendedDaemonSetAnnotationKey] != hash("B") || seen[p.Spec.NodeName] || p.Spec.NodeName == "tainted" {
				return false
			}
			seen[p.Spec.NodeName] = true
		}
		return true
	}
	// bound "given by the rolling-update limits": defaults maxUnavailable=1, slow start 1 then 2 ...:
	// per node at most a delete round and a create round, plus replica-set creation and promotion
	bound := 2*nNodes + 4
	rounds := 0
	for rounds < bound && !converged() {
		round()
		rounds++
	}
	nondet.Assert("C02.rounds.converges", converged())
	// "further reconciles create or delete nothing" and the status tells the truth
	w := round()
	nondet.Assert("C02.rounds.quiescent", w == 0 && converged())
	// the ExtendedDaemonSet status aggregates the replica-set statuses of the previous reconcile: one more round
	w2 := round()
	nondet.Assert("C02.rounds.still-quiescent", w2 == 0 && converged())
	final := c.EDS[0]
	nondet.Observe("active", final.Status.ActiveReplicaSet)
	nondet.Observe("desired", final.Status.Desired)
	nondet.Observe("ready", final.Status.Ready)
	nondet.Observe("upToDate", final.Status.UpToDate)
	nondet.Assert("C02.rounds.status", final.Status.ActiveReplicaSet != "foo-a" && int(final.Status.Desired) == nNodes && int(final.Status.Ready) == nNodes && int(final.Status.UpToDate) == nNodes)
	// the old replica set is eventually collected
	left := 0
	for _, rs := range c.ERS {
		if rs.Name == "foo-a" {
			left++
		}
	}
	nondet.Observe("rounds", rounds)
	nondet.Reach("C02.rounds.full-rollout", rounds >= 4)
	nondet.Reach("C02.rounds.old-replicaset-collected", left == 0)
}

// ZZ_C02_roundsCanary: the same bounded multi-round run from a canary in progress.  "The live
// template is spec.template ... once the canary is promoted, and the previously active template
// after a canary failure".  Start: active replica set foo-a (template A) serving every node,
// spec.template = B with replica set foo-b as canary on node0 (its pod may or may not exist yet),
// then one of: the user validates the canary (canary-valid annotation), the canary is marked
// failed (Canary-Failed condition on foo-b, as auto-fail or kubectl-eds leave it), or the canary
// duration simply elapsed.  Rounds of {ExtendedDaemonSet reconcile, every replica-set reconcile,
// kubelet} must reach one Ready pod of the live template per node, nothing else, and then stay
// quiet; a failed canary ends with spec.template restored to A.
func ZZ_C02_roundsCanary() {
	nNodes := 2
	if nondet.Thorough() {
		nNodes = 3
	}
	c := fakeapi.New()
	ds := &datadoghqv1alpha1.ExtendedDaemonSet{ObjectMeta: metav1.ObjectMeta{Name: zzEDSName, Namespace: zzNS, UID: "uid-foo", Annotations: map[string]string{}}}
	tpl := func(id string) corev1.PodTemplateSpec {
		return corev1.PodTemplateSpec{ObjectMeta: metav1.ObjectMeta{Labels: map[string]string{"app": "agent"}},
			Spec: corev1.PodSpec{Containers: []corev1.Container{{Name: "agent", Image: "agent:" + id}}}}
	}
	end := nondet.String("canaryEnds", "validated", "failed", "elapsed", "superseded")
	specTpl := "B"
	if end == "superseded" {
		// "several template changes in a row": spec.template moves on to C while B is still the canary
		specTpl = "C"
	}
	ds.Spec.Template = tpl(specTpl)
	one := intstr.FromInt(1)
	ds.Spec.Strategy.Canary = &datadoghqv1alpha1.ExtendedDaemonSetSpecStrategyCanary{Replicas: &one, Duration: &metav1.Duration{Duration: 3 * time.Minute},
		NoRestartsDuration: &metav1.Duration{Duration: time.Minute}}
	datadoghqv1alpha1.DefaultExtendedDaemonSetSpec(&ds.Spec, datadoghqv1alpha1.ExtendedDaemonSetSpecStrategyCanaryValidationModeAuto)
	hash := func(id string) string {
		t := tpl(id)
		h, _ := comparison.GenerateMD5PodTemplateSpec(&t)
		return h
	}
	mkRS := func(id, name string, age time.Duration) *datadoghqv1alpha1.ExtendedDaemonSetReplicaSet {
		rs := zzRS(name, hash(id))
		rs.Spec.Template = tpl(id)
		rs.Annotations = map[string]string{datadoghqv1alpha1.MD5ExtendedDaemonSetAnnotationKey: hash(id)}
		rs.CreationTimestamp = metav1.NewTime(nondet.Base().Add(-age))
		return rs
	}
	canaryAge := time.Minute
	if end == "elapsed" {
		canaryAge = 4 * time.Minute
	}
	rsA, rsB := mkRS("A", "foo-a", 24*time.Hour), mkRS("B", "foo-b", canaryAge)
	c.ERS = append(c.ERS, rsA, rsB)
	ds.Status.ActiveReplicaSet = "foo-a"
	ds.Status.Canary = &datadoghqv1alpha1.ExtendedDaemonSetStatusCanary{ReplicaSet: "foo-b", Nodes: []string{zzNodeName(0)}}
	ds.Status.State = datadoghqv1alpha1.ExtendedDaemonSetStatusStateCanary
	ds.Status.Desired = int32(nNodes)
	switch end {
	case "validated":
		ds.Annotations[datadoghqv1alpha1.ExtendedDaemonSetCanaryValidAnnotationKey] = "foo-b"
	case "failed":
		at := metav1.NewTime(nondet.Base().Add(-5 * time.Second))
		rsB.Status.Conditions = append(rsB.Status.Conditions, datadoghqv1alpha1.ExtendedDaemonSetReplicaSetCondition{Type: datadoghqv1alpha1.ConditionTypeCanaryFailed, Status: corev1.ConditionTrue, LastTransitionTime: at, LastUpdateTime: at})
	}
	for i := 0; i < nNodes; i++ {
		c.Nodes = append(c.Nodes, &corev1.Node{ObjectMeta: metav1.ObjectMeta{Name: zzNodeName(i), Labels: map[string]string{}}})
		if i == 0 {
			// the canary node: its canary pod exists already, or the old pod is still there, or nothing
			switch nondet.String("canaryNode.pod", "canary", "old", "none") {
			case "canary":
				p := zzPod("canary-pod", zzNodeName(0), "foo-b", hash("B"), 0, corev1.PodRunning, true, nondet.Base().Add(-time.Minute))
				p.Labels[datadoghqv1alpha1.ExtendedDaemonSetReplicaSetCanaryLabelKey] = datadoghqv1alpha1.ExtendedDaemonSetReplicaSetCanaryLabelValue
				c.Pods = append(c.Pods, p)
			case "old":
				c.Pods = append(c.Pods, zzPod("old-"+zzNodeName(0), zzNodeName(0), "foo-a", hash("A"), 0, corev1.PodRunning, true, nondet.Base().Add(-time.Hour)))
			}
			continue
		}
		c.Pods = append(c.Pods, zzPod("old-"+zzNodeName(i), zzNodeName(i), "foo-a", hash("A"), 0, corev1.PodRunning, true, nondet.Base().Add(-time.Hour)))
	}
	c.EDS = append(c.EDS, ds)

	edsRec, _ := edsctrl.NewReconciler(edsctrl.ReconcilerOptions{DefaultValidationMode: datadoghqv1alpha1.ExtendedDaemonSetSpecStrategyCanaryValidationModeAuto}, c, c.Scheme(), logr.Logger{}, &fakeapi.Recorder{})
	round := func() (podWrites int) {
		from := len(c.Log)
		_, err := edsRec.Reconcile(context.TODO(), reconcile.Request{NamespacedName: types.NamespacedName{Namespace: zzNS, Name: zzEDSName}})
		nondet.Assert("C02.canary.eds-ok", err == nil)
		names := []string{}
		for _, rs := range c.ERS {
			names = append(names, rs.Name)
		}
		for _, name := range names {
			_, err := zzReconcile(zzReconciler(c, false), zzNS, name)
			nondet.Assert("C02.canary.ers-ok", err == nil)
		}
		for _, e := range c.Log[from:] {
			if e.Kind == "Pod" && (e.Verb == "create" || e.Verb == "delete") {
				podWrites++
			}
		}
		zzKubelet(c)
		return podWrites
	}
	live := specTpl
	if end == "failed" {
		live = "A"
	}
	converged := func() bool {
		if len(c.Pods) != nNodes {
			return false
		}
		seen := map[string]bool{}
		for _, p := range c.Pods {
			if p.Annotations[datadoghqv1alpha1.MD5ExtendedDaemonSetAnnotationKey] != hash(live) || seen[p.Spec.NodeName] {
				return false
			}
			seen[p.Spec.NodeName] = true
		}
		return true
	}
	// the canary of C lasts three minutes (three rounds) before the rolling update starts
	bound := 2*nNodes + 10
	rounds := 0
	for rounds < bound && !converged() {
		round()
		rounds++
	}
	nondet.Assert("C02.canary.converges", converged())
	w := round()
	nondet.Assert("C02.canary.quiescent", w == 0 && converged())
	w2 := round()
	nondet.Assert("C02.canary.still-quiescent", w2 == 0 && converged())
	final := c.EDS[0]
	wantActive := "foo-b"
	if end == "superseded" {
		wantActive = ""
		for _, rs := range c.ERS {
			if rs.Spec.TemplateGeneration == hash("C") {
				wantActive = rs.Name
			}
		}
	}
	if end == "failed" {
		wantActive = "foo-a"
		// "restores spec.template to the active replica set's template"
		nondet.Assert("C02.canary.template-restored", len(final.Spec.Template.Spec.Containers) == 1 && final.Spec.Template.Spec.Containers[0].Image == "agent:A")
	} else {
		nondet.Assert("C02.canary.template-kept", final.Spec.Template.Spec.Containers[0].Image == "agent:"+specTpl)
	}
	nondet.Assert("C02.canary.status", final.Status.ActiveReplicaSet == wantActive && final.Status.Canary == nil &&
		int(final.Status.Desired) == nNodes && int(final.Status.Ready) == nNodes && int(final.Status.UpToDate) == nNodes)
	// no pod keeps the canary label in the end
	for _, p := range c.Pods {
		_, has := p.Labels[datadoghqv1alpha1.ExtendedDaemonSetReplicaSetCanaryLabelKey]
		nondet.Assert("C02.canary.no-canary-label-left", !has)
	}
	nondet.Observe("active", final.Status.ActiveReplicaSet)
	nondet.Observe("state", string(final.Status.State))
	nondet.Observe("rounds", rounds)
	nondet.Reach("C02.canary.rollback", end == "failed" && rounds >= 1)
	nondet.Reach("C02.canary.promotion", end == "validated" && rounds >= 2)
	nondet.Reach("C02.canary.second-canary-then-rollout", end == "superseded" && rounds >= 5)
}

// ZZ_C02_brokenSettingDoesNotBlock: an ExtendedDaemonsetSetting that is NOT valid (in error, or not
// yet examined by its controller) is no input of the replica-set sync: whatever is wrong with it —
// here a node selector that cannot be converted — the nodes still converge to one Ready
// live-template pod each.  Two (thorough: three) free nodes, the active replica set, a broken
// setting in status error / unset, optionally a second, valid one for node0; repeated rounds of
// {replica-set sync, kubelet step}.
func ZZ_C02_brokenSettingDoesNotBlock() {
	nNodes := 2
	if nondet.Thorough() {
		nNodes = 3
	}
	c, ds, rsNew, _ := zzStore(nNodes)
	ds.Status.ActiveReplicaSet = rsNew.Name
	broken := &datadoghqv1alpha1.ExtendedDaemonsetSetting{ObjectMeta: metav1.ObjectMeta{Name: "broken", Namespace: zzNS}}
	broken.Spec.Reference = &autoscalingv1.CrossVersionObjectReference{Kind: "ExtendedDaemonSet", Name: zzEDSName}
	broken.Spec.NodeSelector = metav1.LabelSelector{MatchExpressions: []metav1.LabelSelectorRequirement{{Key: "pool", Operator: metav1.LabelSelectorOpIn}}}
	if nondet.Bool("broken.statusError") {
		broken.Status.Status = datadoghqv1alpha1.ExtendedDaemonsetSettingStatusError
		broken.Status.Error = "invalid selector"
	}
	c.Settings = append(c.Settings, broken)
	if nondet.Bool("validSettingForNode0") {
		c.Nodes[0].Labels = map[string]string{"pool": "a"}
		ok := &datadoghqv1alpha1.ExtendedDaemonsetSetting{ObjectMeta: metav1.ObjectMeta{Name: "pool-a", Namespace: zzNS}}
		ok.Spec.Reference = &autoscalingv1.CrossVersionObjectReference{Kind: "ExtendedDaemonSet", Name: zzEDSName}
		ok.Spec.NodeSelector = metav1.LabelSelector{MatchLabels: map[string]string{"pool": "a"}}
		ok.Status.Status = datadoghqv1alpha1.ExtendedDaemonsetSettingStatusValid
		// the setting overrides the resources of the container with quantities written the way users write
		// them (not canonical); the pod comes back from the API server with canonical ones
		ok.Spec.Containers = []datadoghqv1alpha1.ExtendedDaemonsetSettingContainerSpec{{Name: "agent", Resources: corev1.ResourceRequirements{
			Requests: corev1.ResourceList{corev1.ResourceCPU: resource.MustParse("0.5"), corev1.ResourceMemory: resource.MustParse("1024Mi")}}}}
		c.CanonicalQuantities = true
		if nondet.Bool("validSettingListedFirst") {
			c.Settings = []*datadoghqv1alpha1.ExtendedDaemonsetSetting{ok, broken}
		} else {
			c.Settings = append(c.Settings, ok)
		}
	}
	r := zzReconciler(c, false)
	converged := func() bool {
		if len(c.Pods) != nNodes {
			return false
		}
		seen := map[string]bool{}
		for _, p := range c.Pods {
			if p.Annotations[datadoghqv1alpha1.MD5ExtendedDaemonSetAnnotationKey] != rsNew.Spec.TemplateGeneration || seen[p.Spec.NodeName] || p.Spec.NodeName == "" {
				return false
			}
			seen[p.Spec.NodeName] = true
		}
		return true
	}
	for round := 0; round < nNodes+2 && !converged(); round++ {
		_, err := zzReconcile(r, zzNS, rsNew.Name)
		nondet.Assert("C02.broken-setting.sync-succeeds", err == nil)
		zzKubelet(c)
	}
	nondet.Assert("C02.broken-setting.converges", converged())
	// "further reconciles create or delete nothing"
	before := len(c.Writes())
	_, _ = zzReconcile(r, zzNS, rsNew.Name)
	for _, e := range c.Writes()[before:] {
		nondet.Assert("C02.broken-setting.quiescent", e.Kind != "Pod")
	}
	nondet.Observe("pods", len(c.Pods))
	nondet.Reach("C02.broken-setting.done", converged())
}
