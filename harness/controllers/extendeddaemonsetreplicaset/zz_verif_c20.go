//go:build verif

package extendeddaemonsetreplicaset

import (
	corev1 "k8s.io/api/core/v1"
	metav1 "k8s.io/apimachinery/pkg/apis/meta/v1"
	ksmetric "k8s.io/kube-state-metrics/v2/pkg/metric"

	datadoghqv1alpha1 "github.com/DataDog/extendeddaemonset/api/v1alpha1"
	"github.com/DataDog/extendeddaemonset/zzverif/nondet"
)

// ZZ_C20_ersFamilies: every replica-set series reports the number found in the object's status.
func ZZ_C20_ersFamilies() {
	rs := &datadoghqv1alpha1.ExtendedDaemonSetReplicaSet{ObjectMeta: metav1.ObjectMeta{
		Name: "foo-a", Namespace: "ns", Labels: map[string]string{"extendeddaemonset.datadoghq.com/name": nondet.String("label", "foo", "bar")},
		CreationTimestamp: metav1.NewTime(nondet.TimeSec("created", -86400, 0)),
	}}
	st := &rs.Status
	st.Desired = nondet.Int32("desired", 0, 1<<31-1)
	st.Current = nondet.Int32("current", 0, 1<<31-1)
	st.Ready = nondet.Int32("ready", 0, 1<<31-1)
	st.Available = nondet.Int32("available", 0, 1<<31-1)
	st.IgnoredUnresponsiveNodes = nondet.Int32("ignored", 0, 1<<31-1)
	failed := false
	if nondet.Bool("failedCond.present") {
		failed = nondet.Bool("failedCond.true")
		s := corev1.ConditionFalse
		if failed {
			s = corev1.ConditionTrue
		}
		st.Conditions = append(st.Conditions, datadoghqv1alpha1.ExtendedDaemonSetReplicaSetCondition{Type: datadoghqv1alpha1.ConditionTypeCanaryFailed, Status: s})
	}
	b2f := func(b bool) float64 {
		if b {
			return 1
		}
		return 0
	}
	want := map[string]float64{
		ersLabels:                         1,
		ersCreated:                        float64(rs.CreationTimestamp.Unix()),
		ersStatusDesired:                  float64(st.Desired),
		ersStatusCurrent:                  float64(st.Current),
		ersStatusReady:                    float64(st.Ready),
		ersStatusAvailable:                float64(st.Available),
		ersStatusIgnoredUnresponsiveNodes: float64(st.IgnoredUnresponsiveNodes),
		ersStatusCanaryFailed:             b2f(failed),
	}
	// every family of the object is generated first, the series are read afterwards (as the store does)
	gens := generateMetricFamilies()
	fams := make([]*ksmetric.Family, len(gens))
	for i, f := range gens {
		fams[i] = f.GenerateFunc(rs)
	}
	seen := 0
	for i, f := range gens {
		fam := fams[i]
		w, known := want[f.Name]
		nondet.Assert("C20.ers.known-family", known)
		if !known {
			continue
		}
		seen++
		nondet.Assert("C20.ers.one-sample", len(fam.Metrics) == 1)
		m := fam.Metrics[0]
		nondet.Assert("C20.ers.value", m.Value == w)
		nondet.Assert("C20.ers.labels-paired", len(m.LabelKeys) == len(m.LabelValues) && len(m.LabelKeys) >= 2 &&
			m.LabelKeys[0] == "namespace" && m.LabelValues[0] == "ns" && m.LabelKeys[1] == "name" && m.LabelValues[1] == "foo-a")
		if f.Name == ersLabels {
			nondet.Assert("C20.ers.label-info", len(m.LabelKeys) == 3 && m.LabelKeys[2] == "extendeddaemonset_datadoghq_com_name" &&
				m.LabelValues[2] == rs.Labels["extendeddaemonset.datadoghq.com/name"])
		}
	}
	nondet.Assert("C20.ers.all-families", seen == len(want))
	nondet.Reach("C20.ers.failed", failed)
}
