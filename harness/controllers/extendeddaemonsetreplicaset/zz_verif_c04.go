//go:build verif

package extendeddaemonsetreplicaset

import (
	"context"
	"strconv"
	"time"

	"github.com/go-logr/logr"
	"k8s.io/apimachinery/pkg/types"
	"k8s.io/apimachinery/pkg/util/intstr"
	"sigs.k8s.io/controller-runtime/pkg/reconcile"

	edsctrl "github.com/DataDog/extendeddaemonset/controllers/extendeddaemonset"
	"github.com/DataDog/extendeddaemonset/pkg/controller/utils/comparison"

	corev1 "k8s.io/api/core/v1"
	metav1 "k8s.io/apimachinery/pkg/apis/meta/v1"

	datadoghqv1alpha1 "github.com/DataDog/extendeddaemonset/api/v1alpha1"
	"github.com/DataDog/extendeddaemonset/zzverif/fakeapi"
	"github.com/DataDog/extendeddaemonset/zzverif/nondet"
)

func zzInList(l []string, s string) bool {
	for _, x := range l {
		if x == s {
			return true
		}
	}
	return false
}

// ZZ_C04_roles: whatever the ExtendedDaemonSet status says about roles, a sync of replica set
// foo-new creates canary pods only on status.canary.nodes, as active replica set leaves
// the canary nodes alone and serves the others, and as leftover creates and deletes nothing;
// the canary label is put on its own pods on canary nodes and removed once it is active.
func ZZ_C04_roles() {
	nNodes, maxPods := 2, 2
	if nondet.Thorough() {
		// (three pods over three nodes do not finish in 25 minutes: three pods over two nodes)
		nNodes, maxPods = 2, 3
	}
	c, ds, _, _ := zzStore(nNodes)
	ds.Spec.Strategy.Canary = &datadoghqv1alpha1.ExtendedDaemonSetSpecStrategyCanary{}
	datadoghqv1alpha1.DefaultExtendedDaemonSetSpec(&ds.Spec, datadoghqv1alpha1.ExtendedDaemonSetSpecStrategyCanaryValidationModeAuto)
	switch nondet.String("status.active", "", "new", "old") {
	case "new":
		ds.Status.ActiveReplicaSet = zzRSName
	case "old":
		ds.Status.ActiveReplicaSet = zzOldRS
	}
	var canaryNodes []string
	canaryRS := ""
	if nondet.Bool("status.canary.set") {
		switch nondet.String("status.canary.rs", "new", "old", "other") {
		case "new":
			canaryRS = zzRSName
		case "old":
			canaryRS = zzOldRS
		default:
			canaryRS = "foo-other"
		}
		for i := 0; i < nNodes; i++ {
			if nondet.Bool("status.canary.node" + strconv.Itoa(i)) {
				canaryNodes = append(canaryNodes, zzNodeName(i))
			}
		}
		if nondet.Bool("status.canary.ghost") {
			canaryNodes = append(canaryNodes, "ghost")
		}
		ds.Status.Canary = &datadoghqv1alpha1.ExtendedDaemonSetStatusCanary{ReplicaSet: canaryRS, Nodes: canaryNodes}
	}
	// pods: running pods of foo-new or foo-old, possibly already carrying the canary label
	nPods := nondet.Int("nPods", 0, maxPods)
	for j := 0; j < maxPods; j++ {
		if j >= nPods {
			break
		}
		l := "pod" + strconv.Itoa(j)
		target := nondet.Int(l+".node", 0, nNodes-1)
		nodeName := zzNodeName(0)
		for i := 0; i < nNodes; i++ {
			if target == i {
				nodeName = zzNodeName(i)
			}
		}
		rsName, hash := zzRSName, zzHashNew
		if nondet.Bool(l + ".old") {
			rsName, hash = zzOldRS, zzHashOld
		}
		// bound by spec.nodeName, or created in node-affinity mode and not yet bound by the scheduler
		binding, phase := 0, corev1.PodRunning
		if nondet.Bool(l + ".boundByAffinityOnly") {
			binding, phase = 1, corev1.PodPending
		}
		p := zzPod(l, nodeName, rsName, hash, binding, phase, binding == 0, nondet.Base().Add(-60*1e9))
		if nondet.Bool(l + ".canaryLabel") {
			p.Labels[datadoghqv1alpha1.ExtendedDaemonSetReplicaSetCanaryLabelKey] = datadoghqv1alpha1.ExtendedDaemonSetReplicaSetCanaryLabelValue
		}
		c.Pods = append(c.Pods, p)
	}
	before := make([]*corev1.Pod, len(c.Pods))
	for i, p := range c.Pods {
		before[i] = p.DeepCopy()
	}
	role := "unknown"
	if ds.Status.ActiveReplicaSet == zzRSName {
		role = "active"
	} else if ds.Status.ActiveReplicaSet != "" && canaryRS == zzRSName {
		role = "canary"
	}

	_, err := zzReconcile(zzReconciler(c, nondet.Bool("nodeAffinityMode")), zzNS, zzRSName)
	nondet.Observe("error", err != nil)

	podByName := func(name string) *corev1.Pod {
		for _, q := range before {
			if q.Name == name {
				return q
			}
		}
		return nil
	}
	creates, deletes := 0, 0
	for _, e := range c.Log {
		if e.Kind != "Pod" {
			continue
		}
		switch e.Verb {
		case "create":
			creates++
			switch role {
			case "canary":
				// "pods built from the new template are created only on the nodes listed in status.canary.nodes"
				nondet.Assert("C04.canary.create-on-canary-node", zzInList(canaryNodes, e.Node))
			case "active":
				// "the active replica set neither creates nor deletes pods on those nodes"
				nondet.Assert("C04.active.no-create-on-canary-node", !zzInList(canaryNodes, e.Node))
			default:
				nondet.Assert("C04.unknown.no-create", false)
			}
		case "delete":
			deletes++
			q := podByName(e.Name)
			switch role {
			case "active":
				nondet.Assert("C04.active.no-delete-on-canary-node", q != nil && !zzInList(canaryNodes, fakeapi.PodNode(q)))
			case "unknown":
				nondet.Assert("C04.unknown.no-delete", false)
			}
		case "patch":
			q := podByName(e.Name)
			np := e.Obj.(*corev1.Pod)
			_, had := q.Labels[datadoghqv1alpha1.ExtendedDaemonSetReplicaSetCanaryLabelKey]
			_, has := np.Labels[datadoghqv1alpha1.ExtendedDaemonSetReplicaSetCanaryLabelKey]
			own := q.Labels[datadoghqv1alpha1.ExtendedDaemonSetReplicaSetNameLabelKey] == zzRSName
			// only the canary label of the replica set's own pods is ever patched
			nondet.Assert("C04.label.only-own-pods", own && had != has)
			if has {
				nondet.Assert("C04.label.added-by-canary-on-canary-node", role == "canary" && zzInList(canaryNodes, fakeapi.PodNode(q)))
			} else {
				nondet.Assert("C04.label.removed-by-active", role == "active")
			}
		}
	}
	// active role: every eligible non-canary node without pod is served (slow start allows one creation now)
	if role == "active" {
		free := 0
		for i := 0; i < nNodes; i++ {
			if zzInList(canaryNodes, zzNodeName(i)) {
				continue
			}
			has := false
			for _, q := range before {
				if fakeapi.PodNode(q) == zzNodeName(i) {
					has = true
				}
			}
			if !has {
				free++
			}
		}
		want := 0
		if free > 0 {
			want = 1
		}
		nondet.Assert("C04.active.serves-other-nodes", creates == want)
		// label clean-up: every own pod carrying the canary label loses it
		for _, q := range before {
			_, had := q.Labels[datadoghqv1alpha1.ExtendedDaemonSetReplicaSetCanaryLabelKey]
			if had && q.Labels[datadoghqv1alpha1.ExtendedDaemonSetReplicaSetNameLabelKey] == zzRSName {
				patched := false
				for _, e := range c.Log {
					// (a pod deleted by this very sync needs no relabelling)
					if (e.Verb == "patch" || e.Verb == "delete") && e.Name == q.Name {
						patched = true
					}
				}
				nondet.Assert("C04.label.cleaned-when-active", patched)
			}
		}
	}
	if role == "canary" {
		// every own up-to-date pod mapped on a canary node carries the label after the sync
		for _, q := range before {
			if q.Labels[datadoghqv1alpha1.ExtendedDaemonSetReplicaSetNameLabelKey] != zzRSName || !zzInList(canaryNodes, fakeapi.PodNode(q)) {
				continue
			}
			dup := false
			for _, o := range before {
				if o.Name != q.Name && fakeapi.PodNode(o) == fakeapi.PodNode(q) {
					dup = true
				}
			}
			if dup {
				continue // duplicates are resolved first; the kept pod is labelled in this or the next sync
			}
			_, had := q.Labels[datadoghqv1alpha1.ExtendedDaemonSetReplicaSetCanaryLabelKey]
			patched := false
			for _, e := range c.Log {
				if e.Verb == "patch" && e.Name == q.Name {
					patched = true
				}
			}
			nondet.Assert("C04.label.canary-pod-labelled", had || patched)
		}
	}
	nondet.Fact("role.active", role == "active")
	nondet.Fact("role.canary", role == "canary")
	nondet.Observe("creates", creates)
	nondet.Observe("deletes", deletes)
	nondet.Reach("C04.canary.creates", role == "canary" && creates == 1)
	nondet.Reach("C04.active.skips-canary-node", role == "active" && len(canaryNodes) >= 1 && creates == 1)
	nondet.Reach("C04.active.removes-label", role == "active" && c.Count("patch", "Pod") >= 1)
	nondet.Reach("C04.canary.adds-label", role == "canary" && c.Count("patch", "Pod") >= 1)
	nondet.Reach("C04.unknown", role == "unknown" && nPods >= 1)
}

// ZZ_C04_labelAfterPromotion: "Pods of the canary replica set ... lose [the canary label] once
// the replica set has become active" — also when the promotion happens while the rolling update
// is paused or the rollout frozen, and whether or not the Active condition was recorded before.
func ZZ_C04_labelAfterPromotion() {
	c, ds, rsNew, _ := zzStore(2)
	ds.Spec.Strategy.Canary = &datadoghqv1alpha1.ExtendedDaemonSetSpecStrategyCanary{}
	datadoghqv1alpha1.DefaultExtendedDaemonSetSpec(&ds.Spec, datadoghqv1alpha1.ExtendedDaemonSetSpecStrategyCanaryValidationModeAuto)
	ds.Status.ActiveReplicaSet = rsNew.Name // just promoted
	ds.Status.Canary = nil
	// the template may already have changed again: a NEW canary (a third replica set) was started before the
	// promoted replica set synced as active for the first time, and it picked the same node (the selection is
	// deterministic).  The former canary pod there is now a pod of the active replica set: no canary label.
	if nondet.Bool("nextCanaryAlreadyStartedOnTheSameNode") {
		ds.Status.Canary = &datadoghqv1alpha1.ExtendedDaemonSetStatusCanary{ReplicaSet: "foo-next", Nodes: []string{zzNodeName(0)}}
		ds.Status.State = datadoghqv1alpha1.ExtendedDaemonSetStatusStateCanary
	}
	ann := nondet.String("annotation", "none", "rolling-update-paused", "rollout-frozen", "both")
	if ann == "rolling-update-paused" || ann == "both" {
		ds.Annotations[datadoghqv1alpha1.ExtendedDaemonSetRollingUpdatePausedAnnotationKey] = "true"
	}
	if ann == "rollout-frozen" || ann == "both" {
		ds.Annotations[datadoghqv1alpha1.ExtendedDaemonSetRolloutFrozenAnnotationKey] = "true"
	}
	// the former canary pod on node0 still carries the label; node1 runs the old template
	p := zzPod("canary-pod", zzNodeName(0), zzRSName, zzHashNew, 0, corev1.PodRunning, true, nondet.Base().Add(-600*1e9))
	p.Labels[datadoghqv1alpha1.ExtendedDaemonSetReplicaSetCanaryLabelKey] = datadoghqv1alpha1.ExtendedDaemonSetReplicaSetCanaryLabelValue
	c.Pods = append(c.Pods, p)
	c.Pods = append(c.Pods, zzPod("old-pod", zzNodeName(1), zzOldRS, zzHashOld, 0, corev1.PodRunning, true, nondet.Base().Add(-3600*1e9)))
	// conditions left by the syncs of the canary phase
	if nondet.Bool("canaryConditionsRecorded") {
		at := metav1.NewTime(nondet.Base().Add(-600 * 1e9))
		rsNew.Status.Conditions = append(rsNew.Status.Conditions,
			datadoghqv1alpha1.ExtendedDaemonSetReplicaSetCondition{Type: datadoghqv1alpha1.ConditionTypeCanary, Status: corev1.ConditionTrue, LastTransitionTime: at, LastUpdateTime: at},
			datadoghqv1alpha1.ExtendedDaemonSetReplicaSetCondition{Type: datadoghqv1alpha1.ConditionTypeActive, Status: corev1.ConditionFalse, LastTransitionTime: at, LastUpdateTime: at})
	}
	_, err := zzReconcile(zzReconciler(c, false), zzNS, zzRSName)
	nondet.Assert("C04.promoted.noerror", err == nil)
	labelled := false
	for _, q := range c.Pods {
		if q.Name == "canary-pod" {
			_, labelled = q.Labels[datadoghqv1alpha1.ExtendedDaemonSetReplicaSetCanaryLabelKey]
		}
	}
	nondet.Assert("C04.promoted.label-removed", !labelled)
	nondet.Observe("labelled", labelled)
	nondet.Reach("C04.promoted.while-frozen", ann == "rollout-frozen")
}

// ZZ_C04_listUnderSchedules: "the controller never adds nodes to that list beyond the resolved
// spec.strategy.canary.replicas" under every interleaving of the controllers.  Four eligible
// nodes served by the active replica set foo-old, spec.template just changed, canary replicas
// 50% (= 2 of the 4 targeted nodes) or the integer 2.  Then a symbolic schedule of k steps, each
// running one real reconcile — the ExtendedDaemonSet, the active replica set, or the canary
// replica set (once it exists) — or a kubelet step (created pods become Ready, one minute passes);
// without kubelet steps the clock stands still (so a replica set that synced is
// gated by reconcileFrequency, as in a burst of events).  After every step the list holds at most
// two distinct nodes, and once selected its length never exceeds two.
func ZZ_C04_listUnderSchedules() {
	const nNodes = 4
	steps := 5
	if nondet.Thorough() {
		steps = 7
	}
	c := fakeapi.New()
	ds := &datadoghqv1alpha1.ExtendedDaemonSet{ObjectMeta: metav1.ObjectMeta{Name: zzEDSName, Namespace: zzNS, UID: "uid-foo", Annotations: map[string]string{}}}
	tpl := func(id string) corev1.PodTemplateSpec {
		return corev1.PodTemplateSpec{ObjectMeta: metav1.ObjectMeta{Labels: map[string]string{"app": "agent"}},
			Spec: corev1.PodSpec{Containers: []corev1.Container{{Name: "agent", Image: "agent:" + id}}}}
	}
	ds.Spec.Template = tpl("B")
	replicas := intstr.FromString("50%")
	if nondet.Bool("replicasAsInteger") {
		replicas = intstr.FromInt(2)
	}
	ds.Spec.Strategy.Canary = &datadoghqv1alpha1.ExtendedDaemonSetSpecStrategyCanary{Replicas: &replicas, Duration: &metav1.Duration{Duration: time.Hour}}
	datadoghqv1alpha1.DefaultExtendedDaemonSetSpec(&ds.Spec, datadoghqv1alpha1.ExtendedDaemonSetSpecStrategyCanaryValidationModeAuto)
	tA := tpl("A")
	hashA, _ := comparison.GenerateMD5PodTemplateSpec(&tA)
	rsA := zzRS("foo-a", hashA)
	rsA.Spec.Template = tA
	rsA.Annotations = map[string]string{datadoghqv1alpha1.MD5ExtendedDaemonSetAnnotationKey: hashA}
	rsA.CreationTimestamp = metav1.NewTime(nondet.Base().Add(-24 * time.Hour))
	rsA.Status.Status = "active"
	rsA.Status.Desired, rsA.Status.Current, rsA.Status.Ready, rsA.Status.Available = nNodes, nNodes, nNodes, nNodes
	c.ERS = append(c.ERS, rsA)
	ds.Status.ActiveReplicaSet = "foo-a"
	ds.Status.State = datadoghqv1alpha1.ExtendedDaemonSetStatusStateRunning
	ds.Status.Desired, ds.Status.Current, ds.Status.Ready, ds.Status.Available, ds.Status.UpToDate = nNodes, nNodes, nNodes, nNodes, nNodes
	for i := 0; i < nNodes; i++ {
		c.Nodes = append(c.Nodes, &corev1.Node{ObjectMeta: metav1.ObjectMeta{Name: zzNodeName(i), Labels: map[string]string{}}})
		c.Pods = append(c.Pods, zzPod("a-"+zzNodeName(i), zzNodeName(i), "foo-a", hashA, 0, corev1.PodRunning, true, nondet.Base().Add(-time.Hour)))
	}
	// nodes that exist but that the ExtendedDaemonSet does not target (untolerated taint): a percentage
	// does not resolve against them
	if nondet.Bool("twoUntargetedNodes") {
		for _, name := range []string{"infra0", "infra1"} {
			c.Nodes = append(c.Nodes, &corev1.Node{ObjectMeta: metav1.ObjectMeta{Name: name, Labels: map[string]string{}},
				Spec: corev1.NodeSpec{Taints: []corev1.Taint{{Key: "dedicated", Value: "infra", Effect: corev1.TaintEffectNoSchedule}}}})
		}
	}
	c.EDS = append(c.EDS, ds)
	edsRec, _ := edsctrl.NewReconciler(edsctrl.ReconcilerOptions{DefaultValidationMode: datadoghqv1alpha1.ExtendedDaemonSetSpecStrategyCanaryValidationModeAuto}, c, c.Scheme(), logr.Logger{}, &fakeapi.Recorder{})

	tB := tpl("B")
	hashB, _ := comparison.GenerateMD5PodTemplateSpec(&tB)
	maxSeen := 0
	seenLog := 0
	for s := 0; s < steps; s++ {
		// the canary list the controllers can see while this step runs
		var listBefore []string
		if c.EDS[0].Status.Canary != nil {
			listBefore = append(listBefore, c.EDS[0].Status.Canary.Nodes...)
		}
		switch nondet.String("step"+strconv.Itoa(s), "eds", "active-rs", "canary-rs", "kubelet") {
		case "kubelet":
			zzKubelet(c)
		case "eds":
			_, _ = edsRec.Reconcile(context.TODO(), reconcile.Request{NamespacedName: types.NamespacedName{Namespace: zzNS, Name: zzEDSName}})
		case "active-rs":
			_, _ = zzReconcile(zzReconciler(c, false), zzNS, "foo-a")
		default:
			name := ""
			for _, rs := range c.ERS {
				if rs.Name != "foo-a" {
					name = rs.Name
				}
			}
			if name == "" {
				nondet.Assume(false) // no canary replica set yet: not a step
			}
			_, _ = zzReconcile(zzReconciler(c, false), zzNS, name)
		}
		cur := c.EDS[0]
		// "pods built from the new template are created only on the nodes listed in status.canary.nodes";
		// no node ever holds two daemon pods; the active replica set stays active (one-hour canary, no validation)
		for _, e := range c.Log[seenLog:] {
			if e.Kind == "Pod" && e.Verb == "create" {
				p := e.Obj.(*corev1.Pod)
				if p.Annotations[datadoghqv1alpha1.MD5ExtendedDaemonSetAnnotationKey] == hashB {
					nondet.Assert("C04.sched.new-template-only-on-canary-nodes", zzInList(listBefore, e.Node))
				}
			}
		}
		seenLog = len(c.Log)
		perNode := map[string]int{}
		for _, p := range c.Pods {
			perNode[fakeapi.PodNode(p)]++
			nondet.Assert("C04.sched.one-pod-per-node", perNode[fakeapi.PodNode(p)] <= 1)
		}
		nondet.Assert("C04.sched.not-promoted", cur.Status.ActiveReplicaSet == "foo-a")
		if cur.Status.Canary != nil {
			n := len(cur.Status.Canary.Nodes)
			if n > maxSeen {
				maxSeen = n
			}
			// "never adds nodes to that list beyond the resolved spec.strategy.canary.replicas"
			// (50% of the four nodes the ExtendedDaemonSet targets, rounded up, or the integer 2)
			nondet.Assert("C04.sched.list-within-replicas", n <= 2)
			for i := 0; i < n; i++ {
				for j := i + 1; j < n; j++ {
					nondet.Assert("C04.sched.distinct", cur.Status.Canary.Nodes[i] != cur.Status.Canary.Nodes[j])
				}
			}
		}
	}
	nondet.Observe("maxListLength", maxSeen)
	nondet.Reach("C04.sched.canary-selected", maxSeen == 2)
}

// ZZ_C04_canaryLeavesOtherNodesAlone: "while every other eligible node keeps being served with
// the active template": the canary replica set's sync touches pods on the canary nodes only — also
// when the new template narrows the set of eligible nodes (node selector pool=new) so that a node
// served by the active replica set is not eligible for the new template.
func ZZ_C04_canaryLeavesOtherNodesAlone() {
	c, ds, rsNew, rsOld := zzStore(2)
	ds.Spec.Strategy.Canary = &datadoghqv1alpha1.ExtendedDaemonSetSpecStrategyCanary{}
	datadoghqv1alpha1.DefaultExtendedDaemonSetSpec(&ds.Spec, datadoghqv1alpha1.ExtendedDaemonSetSpecStrategyCanaryValidationModeAuto)
	ds.Status.ActiveReplicaSet = rsOld.Name
	ds.Status.Canary = &datadoghqv1alpha1.ExtendedDaemonSetStatusCanary{ReplicaSet: rsNew.Name, Nodes: []string{zzNodeName(0)}}
	// (a canary whose replicas resolve to zero has an empty list: then it touches nothing at all)
	emptyList := nondet.Bool("canaryListEmpty")
	if emptyList {
		ds.Status.Canary.Nodes = nil
	}
	c.Nodes[0].Labels = map[string]string{"pool": "new"}
	if nondet.Bool("newTemplateNarrowsEligibility") {
		rsNew.Spec.Template.Spec.NodeSelector = map[string]string{"pool": "new"}
	}
	if nondet.Bool("node1.tainted") {
		// ... or the new template drops a toleration the active template has
		c.Nodes[1].Spec.Taints = []corev1.Taint{{Key: "dedicated", Effect: corev1.TaintEffectNoSchedule}}
		rsOld.Spec.Template.Spec.Tolerations = []corev1.Toleration{{Key: "dedicated", Operator: corev1.TolerationOpExists}}
	}
	c.Pods = append(c.Pods, zzPod("active-pod-node1", zzNodeName(1), rsOld.Name, zzHashOld, 0, corev1.PodRunning, true, nondet.Base().Add(-3600*1e9)))
	if nondet.Bool("canaryPodExists") {
		c.Pods = append(c.Pods, zzPod("canary-pod", zzNodeName(0), rsNew.Name, zzHashNew, 0, corev1.PodRunning, true, nondet.Base().Add(-60*1e9)))
	}
	_, err := zzReconcile(zzReconciler(c, false), zzNS, rsNew.Name)
	nondet.Assert("C04.others.noerror", err == nil)
	for _, e := range c.Log {
		if e.Kind == "Pod" && e.Verb == "delete" {
			nondet.Assert("C04.others.canary-deletes-only-on-canary-nodes", e.Name != "active-pod-node1")
		}
		if e.Kind == "Pod" && e.Verb == "create" {
			nondet.Assert("C04.others.canary-creates-only-on-canary-nodes", e.Node == zzNodeName(0) && !emptyList)
		}
	}
	alive := false
	for _, p := range c.Pods {
		if p.Name == "active-pod-node1" {
			alive = true
		}
	}
	nondet.Assert("C04.others.active-pod-kept", alive)
	nondet.Observe("alive", alive)
}

// ZZ_C04_labelAfterRoleHistory: "lose it once the replica set has become active" for a replica set
// with a past: the same replica set may have been active before (template B), become a leftover
// when another template was promoted, be reused as the canary when the user went back to B, and be
// promoted again.  The stored conditions of each role are what the next sync reads, so the steps
// are real syncs of the replica-set controller with the ExtendedDaemonSet status set for the role,
// and an arbitrary 1 or 10 minutes pass between them.  After the history {active?, leftover?,
// canary, active, active} the pod on the canary node carries no canary label.
func ZZ_C04_labelAfterRoleHistory() {
	c, ds, rsNew, _ := zzStore(2)
	ds.Spec.Strategy.Canary = &datadoghqv1alpha1.ExtendedDaemonSetSpecStrategyCanary{}
	datadoghqv1alpha1.DefaultExtendedDaemonSetSpec(&ds.Spec, datadoghqv1alpha1.ExtendedDaemonSetSpecStrategyCanaryValidationModeAuto)
	c.Pods = append(c.Pods, zzPod("pod-node0", zzNodeName(0), zzRSName, zzHashNew, 0, corev1.PodRunning, true, nondet.Base().Add(-7200*1e9)))
	c.Pods = append(c.Pods, zzPod("pod-node1", zzNodeName(1), zzRSName, zzHashNew, 0, corev1.PodRunning, true, nondet.Base().Add(-7200*1e9)))
	r := zzReconciler(c, false)
	pass := func(label string) {
		minutes := 1
		if nondet.Bool(label + ".tenMinutesLater") {
			minutes = 10
		}
		for i := 0; i < minutes; i++ {
			zzKubelet(c)
		}
	}
	sync := func(role string) {
		switch role {
		case "active":
			ds.Status.ActiveReplicaSet = rsNew.Name
			ds.Status.Canary = nil
		case "leftover":
			ds.Status.ActiveReplicaSet = "foo-c"
			ds.Status.Canary = nil
		case "canary":
			ds.Status.ActiveReplicaSet = "foo-c"
			ds.Status.Canary = &datadoghqv1alpha1.ExtendedDaemonSetStatusCanary{ReplicaSet: rsNew.Name, Nodes: []string{zzNodeName(0)}}
		}
		_, err := zzReconcile(r, zzNS, rsNew.Name)
		nondet.Assert("C04.history.noerror", err == nil)
	}
	labelled := func() bool {
		for _, q := range c.Pods {
			if q.Name == "pod-node0" {
				_, l := q.Labels[datadoghqv1alpha1.ExtendedDaemonSetReplicaSetCanaryLabelKey]
				return l
			}
		}
		return false
	}
	wasActive := nondet.Bool("wasActiveBefore")
	if wasActive {
		sync("active")
		pass("afterFirstActive")
	}
	wasLeftover := nondet.Bool("wasLeftover")
	if wasLeftover {
		sync("leftover")
		pass("afterLeftover")
	}
	sync("canary")
	nondet.Assert("C04.history.labelled-during-canary", labelled())
	pass("canary")
	sync("active")
	pass("afterPromotion")
	sync("active")
	nondet.Assert("C04.history.label-removed", !labelled())
	nondet.Observe("labelled", labelled())
	nondet.Reach("C04.history.rollback-to-former-active", wasActive && wasLeftover && !labelled())
}

// ZZ_C04_labelsDespiteStaleCanaryNode: "Pods of the canary replica set on canary nodes carry the
// canary label during the canary" — on every canary node, also when another entry of
// status.canary.nodes is stale (the node was deleted, or got a taint the template does not
// tolerate, after it was selected; the list is only re-selected when its length changes) and
// whatever the order of the list.  Three nodes, canary nodes {stale one, node1, node2} in an
// arbitrary rotation; node1 and node2 run canary pods that are not labelled yet (just created).
// After one sync of the canary replica set both carry the label.
func ZZ_C04_labelsDespiteStaleCanaryNode() {
	c, ds, rsNew, rsOld := zzStore(3)
	ds.Spec.Strategy.Canary = &datadoghqv1alpha1.ExtendedDaemonSetSpecStrategyCanary{}
	datadoghqv1alpha1.DefaultExtendedDaemonSetSpec(&ds.Spec, datadoghqv1alpha1.ExtendedDaemonSetSpecStrategyCanaryValidationModeAuto)
	ds.Status.ActiveReplicaSet = rsOld.Name
	stale := zzNodeName(0)
	switch nondet.String("staleEntry", "tainted", "deleted", "none") {
	case "tainted":
		c.Nodes[0].Spec.Taints = []corev1.Taint{{Key: "dedicated", Value: "db", Effect: corev1.TaintEffectNoSchedule}}
	case "deleted":
		stale = "node-gone"
	}
	list := []string{stale, zzNodeName(1), zzNodeName(2)}
	switch nondet.Int("rotation", 0, 2) {
	case 1:
		list = []string{zzNodeName(1), stale, zzNodeName(2)}
	case 2:
		list = []string{zzNodeName(1), zzNodeName(2), stale}
	}
	ds.Status.Canary = &datadoghqv1alpha1.ExtendedDaemonSetStatusCanary{ReplicaSet: rsNew.Name, Nodes: list}
	ds.Status.State = datadoghqv1alpha1.ExtendedDaemonSetStatusStateCanary
	// the canary may have been paused right after these pods were created (by the user, or by the replica
	// set's own condition): it is still the canary, its pods are still labelled
	// ... or marked failed a moment ago (kubectl-eds canary fail, or an earlier sync): until the ExtendedDaemonSet
	// controller rolls back it is still the canary
	switch nondet.String("canaryPaused", "no", "by-annotation", "by-condition", "just-failed") {
	case "just-failed":
		at := metav1.NewTime(nondet.Base().Add(-10 * time.Second))
		rsNew.Status.Conditions = append(rsNew.Status.Conditions, datadoghqv1alpha1.ExtendedDaemonSetReplicaSetCondition{Type: datadoghqv1alpha1.ConditionTypeCanaryFailed, Status: corev1.ConditionTrue, Reason: "ManuallyFailed", LastTransitionTime: at, LastUpdateTime: at})
	case "by-annotation":
		ds.Annotations[datadoghqv1alpha1.ExtendedDaemonSetCanaryPausedAnnotationKey] = "true"
		ds.Status.State = datadoghqv1alpha1.ExtendedDaemonSetStatusStateCanaryPaused
	case "by-condition":
		at := metav1.NewTime(nondet.Base().Add(-time.Minute))
		rsNew.Status.Conditions = append(rsNew.Status.Conditions, datadoghqv1alpha1.ExtendedDaemonSetReplicaSetCondition{Type: datadoghqv1alpha1.ConditionTypeCanaryPaused, Status: corev1.ConditionTrue, Reason: "ImagePullBackOff", LastTransitionTime: at, LastUpdateTime: at})
		ds.Status.State = datadoghqv1alpha1.ExtendedDaemonSetStatusStateCanaryPaused
	}
	c.Pods = append(c.Pods,
		zzPod("canary-1", zzNodeName(1), zzRSName, zzHashNew, 0, corev1.PodRunning, true, nondet.Base().Add(-time.Minute)),
		zzPod("canary-2", zzNodeName(2), zzRSName, zzHashNew, 0, corev1.PodRunning, true, nondet.Base().Add(-time.Minute)))
	_, _ = zzReconcile(zzReconciler(c, false), zzNS, rsNew.Name)
	for _, p := range c.Pods {
		if p.Name == "canary-1" || p.Name == "canary-2" {
			nondet.Assert("C04.stale.every-canary-pod-labelled", p.Labels[datadoghqv1alpha1.ExtendedDaemonSetReplicaSetCanaryLabelKey] == datadoghqv1alpha1.ExtendedDaemonSetReplicaSetCanaryLabelValue)
		}
	}
	nondet.Assert("C04.stale.no-pod-on-stale-node", c.Count("create", "Pod") == 0 || stale == zzNodeName(0) && len(c.Nodes[0].Spec.Taints) == 0)
	nondet.Reach("C04.stale.stale-entry-first", list[0] == "node-gone")
}

// ZZ_C04_failedPodOnCanaryNode: "the active replica set neither creates nor deletes pods on those
// nodes" — whatever state the canary's pod there is in.  Canary in progress on node0 whose pod was
// evicted (phase Failed, not yet removed), crash-looping, pending, or is missing altogether; node1
// runs the active template.  A sync of the ACTIVE replica set (with or without a running back-off
// entry for node0) writes nothing on node0: replacing a failed canary pod is the canary replica
// set's business, with its own back-off.
func ZZ_C04_failedPodOnCanaryNode() {
	c, ds, rsNew, rsOld := zzStore(2)
	ds.Spec.Strategy.Canary = &datadoghqv1alpha1.ExtendedDaemonSetSpecStrategyCanary{}
	datadoghqv1alpha1.DefaultExtendedDaemonSetSpec(&ds.Spec, datadoghqv1alpha1.ExtendedDaemonSetSpecStrategyCanaryValidationModeAuto)
	// the replica set under sync (foo-new) is the ACTIVE one, foo-old plays the canary
	ds.Status.ActiveReplicaSet = rsNew.Name
	ds.Status.Canary = &datadoghqv1alpha1.ExtendedDaemonSetStatusCanary{ReplicaSet: rsOld.Name, Nodes: []string{zzNodeName(0)}}
	ds.Status.State = datadoghqv1alpha1.ExtendedDaemonSetStatusStateCanary
	// the user may have removed the optional canary section of the spec during the canary: until the
	// ExtendedDaemonSet reconcile ends it, status.canary still names the nodes ("while a canary is in
	// progress (status.canary set)")
	if nondet.Bool("canaryStrategyRemovedFromTheSpec") {
		ds.Spec.Strategy.Canary = nil
	}
	switch nondet.String("canaryPod", "failed", "running-not-ready", "pending", "missing") {
	case "failed":
		c.Pods = append(c.Pods, zzPod("canary-pod", zzNodeName(0), zzOldRS, zzHashOld, 0, corev1.PodFailed, false, nondet.Base().Add(-600*1e9)))
	case "running-not-ready":
		c.Pods = append(c.Pods, zzPod("canary-pod", zzNodeName(0), zzOldRS, zzHashOld, 0, corev1.PodRunning, false, nondet.Base().Add(-600*1e9)))
	case "pending":
		c.Pods = append(c.Pods, zzPod("canary-pod", zzNodeName(0), zzOldRS, zzHashOld, 1, corev1.PodPending, false, nondet.Base().Add(-600*1e9)))
	}
	for _, p := range c.Pods {
		p.Labels[datadoghqv1alpha1.ExtendedDaemonSetReplicaSetCanaryLabelKey] = datadoghqv1alpha1.ExtendedDaemonSetReplicaSetCanaryLabelValue
	}
	c.Pods = append(c.Pods, zzPod("active-pod", zzNodeName(1), zzRSName, zzHashNew, 0, corev1.PodRunning, true, nondet.Base().Add(-3600*1e9)))
	r := zzReconciler(c, nondet.Bool("nodeAffinityMode"))
	if nondet.Bool("backoffRunningForNode0") {
		r.failedPodsBackOff.Next(getBackOffKey(rsNew, zzNodeName(0)), r.failedPodsBackOff.Clock.Now())
	}
	_, err := zzReconcile(r, zzNS, rsNew.Name)
	nondet.Assert("C04.failed.noerror", err == nil)
	for _, e := range c.Writes() {
		if e.Kind == "Pod" {
			nondet.Assert("C04.failed.active-writes-nothing-on-canary-node", e.Node != zzNodeName(0) && e.Name != "canary-pod")
		}
	}
	nondet.Observe("podWrites", c.Count("create", "Pod")+c.Count("delete", "Pod"))
	nondet.Reach("C04.failed.evicted-pod-present", len(c.Pods) == 2 && c.Pods[0].Status.Phase == corev1.PodFailed)
}

// ZZ_C04_activeLeavesUnfitCanaryNodeAlone: "the active replica set neither creates nor deletes pods
// on those nodes" when a canary node is one the *active* template could not use: the new template
// adds a toleration (or widens the node selector) and the canary was placed on a node only it can
// run on — or the canary node is not in the node list at all any more.  The sync of the active
// replica set leaves the canary pod alone, creates nothing on that node and serves the other node.
func ZZ_C04_activeLeavesUnfitCanaryNodeAlone() {
	c, ds, rsNew, rsOld := zzStore(2)
	ds.Spec.Strategy.Canary = &datadoghqv1alpha1.ExtendedDaemonSetSpecStrategyCanary{}
	datadoghqv1alpha1.DefaultExtendedDaemonSetSpec(&ds.Spec, datadoghqv1alpha1.ExtendedDaemonSetSpecStrategyCanaryValidationModeAuto)
	ds.Status.ActiveReplicaSet = rsOld.Name
	ds.Status.Canary = &datadoghqv1alpha1.ExtendedDaemonSetStatusCanary{ReplicaSet: rsNew.Name, Nodes: []string{zzNodeName(0)}}
	if nondet.Bool("canaryStrategyRemovedFromTheSpec") {
		ds.Spec.Strategy.Canary = nil
	}
	why := nondet.String("canaryNodeUnfitForActiveBecause", "fit", "taint", "selector", "gone")
	switch why {
	case "taint":
		c.Nodes[0].Spec.Taints = []corev1.Taint{{Key: "dedicated", Value: "canary", Effect: corev1.TaintEffectNoSchedule}}
		rsNew.Spec.Template.Spec.Tolerations = []corev1.Toleration{{Key: "dedicated", Operator: corev1.TolerationOpExists}}
	case "selector":
		c.Nodes[1].Labels = map[string]string{"pool": "old"}
		rsOld.Spec.Template.Spec.NodeSelector = map[string]string{"pool": "old"}
	case "gone":
		c.Nodes = c.Nodes[1:]
	}
	c.Pods = append(c.Pods,
		zzPod("canary-pod", zzNodeName(0), rsNew.Name, zzHashNew, zzConcInt3(nondet.Int("canaryPod.binding", 0, 1)), corev1.PodRunning, true, nondet.Base().Add(-60*1e9)))
	if nondet.Bool("activePodOnNode1") {
		c.Pods = append(c.Pods, zzPod("active-pod-node1", zzNodeName(1), rsOld.Name, zzHashOld, 0, corev1.PodRunning, true, nondet.Base().Add(-3600*1e9)))
	}
	_, err := zzReconcile(zzReconciler(c, nondet.Bool("nodeAffinitySupported")), zzNS, rsOld.Name)
	nondet.Assert("C04.unfit-canary-node.noerror", err == nil)
	for _, e := range c.Log {
		if e.Kind == "Pod" && e.Verb == "delete" {
			nondet.Assert("C04.unfit-canary-node.active-deletes-nothing-there", e.Name != "canary-pod")
		}
		if e.Kind == "Pod" && e.Verb == "create" {
			nondet.Assert("C04.unfit-canary-node.active-creates-nothing-there", e.Node != zzNodeName(0))
		}
	}
	alive := false
	for _, p := range c.Pods {
		if p.Name == "canary-pod" && p.DeletionTimestamp == nil {
			alive = true
		}
	}
	nondet.Assert("C04.unfit-canary-node.canary-pod-kept", alive)
	nondet.Observe("creates", c.Count("create", "Pod"))
	nondet.Reach("C04.unfit-canary-node.tainted", why == "taint" && alive)
	nondet.Reach("C04.unfit-canary-node.gone", why == "gone" && alive)
}

func zzConcInt3(x int) int {
	for i := 0; i < 3; i++ {
		if x == i {
			return i
		}
	}
	return 0
}

// ZZ_C04_canaryPodsPinnedInEveryTerm: "pods built from the new template are created only on the nodes
// listed in status.canary.nodes" in the node-affinity binding mode, where "on a node" is only as strong as
// the affinity the pod carries: the new template has no node affinity, one required term, or two ORed
// required terms (pool a or pool b).  The pod the canary replica set creates for canary node0 can be
// scheduled on node0 only: every one of its required terms names node0 (terms are alternatives).
func ZZ_C04_canaryPodsPinnedInEveryTerm() {
	c, ds, rsNew, rsOld := zzStore(3)
	ds.Spec.Strategy.Canary = &datadoghqv1alpha1.ExtendedDaemonSetSpecStrategyCanary{}
	datadoghqv1alpha1.DefaultExtendedDaemonSetSpec(&ds.Spec, datadoghqv1alpha1.ExtendedDaemonSetSpecStrategyCanaryValidationModeAuto)
	ds.Status.ActiveReplicaSet = rsOld.Name
	ds.Status.Canary = &datadoghqv1alpha1.ExtendedDaemonSetStatusCanary{ReplicaSet: rsNew.Name, Nodes: []string{zzNodeName(0)}}
	c.Nodes[0].Labels = map[string]string{"pool": "a"}
	c.Nodes[1].Labels = map[string]string{"pool": "b"}
	c.Nodes[2].Labels = map[string]string{"pool": "b"}
	term := func(v string) corev1.NodeSelectorTerm {
		return corev1.NodeSelectorTerm{MatchExpressions: []corev1.NodeSelectorRequirement{{Key: "pool", Operator: corev1.NodeSelectorOpIn, Values: []string{v}}}}
	}
	var terms []corev1.NodeSelectorTerm
	switch nondet.String("template.requiredTerms", "none", "one", "two") {
	case "one":
		terms = []corev1.NodeSelectorTerm{term("a")}
	case "two":
		terms = []corev1.NodeSelectorTerm{term("a"), term("b")}
	}
	if terms != nil {
		rsNew.Spec.Template.Spec.Affinity = &corev1.Affinity{NodeAffinity: &corev1.NodeAffinity{RequiredDuringSchedulingIgnoredDuringExecution: &corev1.NodeSelector{NodeSelectorTerms: terms}}}
	}
	c.Pods = append(c.Pods,
		zzPod("active-1", zzNodeName(1), rsOld.Name, zzHashOld, 0, corev1.PodRunning, true, nondet.Base().Add(-3600*1e9)),
		zzPod("active-2", zzNodeName(2), rsOld.Name, zzHashOld, 0, corev1.PodRunning, true, nondet.Base().Add(-3600*1e9)))
	_, err := zzReconcile(zzReconciler(c, true), zzNS, rsNew.Name)
	nondet.Assert("C04.pinned.noerror", err == nil)
	created := 0
	for _, e := range c.Log {
		if e.Kind != "Pod" || e.Verb != "create" {
			continue
		}
		created++
		p := e.Obj.(*corev1.Pod)
		req := (*corev1.NodeSelector)(nil)
		if p.Spec.Affinity != nil && p.Spec.Affinity.NodeAffinity != nil {
			req = p.Spec.Affinity.NodeAffinity.RequiredDuringSchedulingIgnoredDuringExecution
		}
		nondet.Assert("C04.pinned.has-required-terms", req != nil && len(req.NodeSelectorTerms) > 0)
		if req == nil {
			continue
		}
		for _, t := range req.NodeSelectorTerms {
			named := false
			for _, f := range t.MatchFields {
				if f.Key == "metadata.name" && f.Operator == corev1.NodeSelectorOpIn && len(f.Values) == 1 && f.Values[0] == zzNodeName(0) {
					named = true
				}
			}
			nondet.Assert("C04.pinned.every-term-names-the-canary-node", named)
		}
	}
	nondet.Assert("C04.pinned.one-canary-pod", created == 1)
	nondet.Reach("C04.pinned.two-terms", len(terms) == 2 && created == 1)
}
