//go:build verif

package extendeddaemonsetreplicaset

import (
	"context"
	"strconv"
	"time"

	corev1 "k8s.io/api/core/v1"
	metav1 "k8s.io/apimachinery/pkg/apis/meta/v1"
	"k8s.io/apimachinery/pkg/types"
	"k8s.io/apimachinery/pkg/util/intstr"
	"sigs.k8s.io/controller-runtime/pkg/reconcile"

	datadoghqv1alpha1 "github.com/DataDog/extendeddaemonset/api/v1alpha1"
	"github.com/DataDog/extendeddaemonset/pkg/controller/utils/comparison"
	"github.com/DataDog/extendeddaemonset/zzverif/nondet"
)

// ZZ_C13_editsUnderSchedules: "for every sequence of template edits over a small alphabet of
// templates (A to B to A, A to B to C, edits during a canary ...), every reconcile interleaving".
// Two nodes running template A (replica set foo-a active), with or without a canary strategy.
// Each of the k steps is an ExtendedDaemonSet reconcile, a sync of every existing replica set
// followed by a kubelet step (one minute passes), or the user setting spec.template to A, B or C
// (a different one than the current).  After every step:
//   - no two replica sets carry the same template hash, and every replica set's template hashes to
//     its recorded hash (spec.templateGeneration and the annotation);
//   - a replica set is created only by an ExtendedDaemonSet reconcile that found none for spec.template;
//   - the active replica set and the one matching spec.template are never deleted, and any other only
//     when the status it reported showed no pod at all;
//   - every pod created is stamped with the hash of the replica set it is created for.
func ZZ_C13_editsUnderSchedules() {
	steps := 5
	if nondet.Thorough() {
		steps = 7
	}
	var canary *datadoghqv1alpha1.ExtendedDaemonSetSpecStrategyCanary
	if nondet.Bool("canaryStrategy") {
		one := intstr.FromInt(1)
		canary = &datadoghqv1alpha1.ExtendedDaemonSetSpecStrategyCanary{Replicas: &one, Duration: &metav1.Duration{Duration: 2 * time.Minute}}
	}
	w, ds := zzNewWorld(2, canary)
	// start from the quiet state: spec.template = A
	ds.Spec.Template = zzWorldTpl("A")
	current := "A"
	hashOf := func(t *corev1.PodTemplateSpec) string {
		h, _ := comparison.GenerateMD5PodTemplateSpec(t)
		return h
	}
	seen := 0
	for s := 0; s < steps; s++ {
		cur := w.c.EDS[0]
		specHash := hashOf(&cur.Spec.Template)
		type rsInfo struct {
			hash  string
			empty bool
		}
		before := map[string]rsInfo{}
		matchingBefore := false
		for _, rs := range w.c.ERS {
			before[rs.Name] = rsInfo{rs.Spec.TemplateGeneration, rs.Status.Desired == 0 && rs.Status.Current == 0 && rs.Status.Ready == 0 && rs.Status.Available == 0}
			if rs.Spec.TemplateGeneration == specHash {
				matchingBefore = true
			}
		}
		kind := nondet.String("step"+strconv.Itoa(s), "eds", "rs-all", "edit-A", "edit-B", "edit-C")
		switch kind {
		case "eds":
			_, _ = w.eds.Reconcile(context.TODO(), reconcile.Request{NamespacedName: types.NamespacedName{Namespace: zzNS, Name: zzEDSName}})
		case "rs-all":
			var names []string
			for _, rs := range w.c.ERS {
				names = append(names, rs.Name)
			}
			for _, name := range names {
				_, _ = zzReconcile(zzReconciler(w.c, false), zzNS, name)
			}
			zzKubelet(w.c)
		default:
			to := "A"
			if kind == "edit-B" {
				to = "B"
			} else if kind == "edit-C" {
				to = "C"
			}
			if to == current {
				nondet.Assume(false) // not an edit
			}
			cur.Spec.Template = zzWorldTpl(to)
			current = to
		}
		after := w.c.EDS[0]
		specHashAfter := hashOf(&after.Spec.Template)
		// one replica set per template, faithful to it
		for i, rs := range w.c.ERS {
			nondet.Assert("C13.sched.faithful", hashOf(&rs.Spec.Template) == rs.Spec.TemplateGeneration && rs.Annotations[datadoghqv1alpha1.MD5ExtendedDaemonSetAnnotationKey] == rs.Spec.TemplateGeneration)
			for j := i + 1; j < len(w.c.ERS); j++ {
				nondet.Assert("C13.sched.one-per-template", rs.Spec.TemplateGeneration != w.c.ERS[j].Spec.TemplateGeneration)
			}
		}
		for _, e := range w.c.Log[seen:] {
			switch {
			case e.Kind == "ExtendedDaemonSetReplicaSet" && e.Verb == "create":
				nondet.Assert("C13.sched.created-only-when-missing", kind == "eds" && !matchingBefore)
				nondet.Assert("C13.sched.created-for-spec-template", e.Obj.(*datadoghqv1alpha1.ExtendedDaemonSetReplicaSet).Spec.TemplateGeneration == specHash)
			case e.Kind == "ExtendedDaemonSetReplicaSet" && e.Verb == "delete":
				info, known := before[e.Name]
				nondet.Assert("C13.sched.delete-known", known)
				// (the reconcile that switches the active replica set removes an empty former one before it
				// writes the status naming the new one: "active" is the replica set it just selected)
				nondet.Assert("C13.sched.delete-not-active", e.Name != after.Status.ActiveReplicaSet)
				nondet.Assert("C13.sched.delete-not-uptodate", info.hash != specHash && info.hash != specHashAfter)
				nondet.Assert("C13.sched.delete-only-empty", info.empty)
			case e.Kind == "Pod" && e.Verb == "create":
				p := e.Obj.(*corev1.Pod)
				rsName := p.Labels[datadoghqv1alpha1.ExtendedDaemonSetReplicaSetNameLabelKey]
				info, known := before[rsName]
				nondet.Assert("C13.sched.pod-stamped-with-its-replicaset-hash", known && p.Annotations[datadoghqv1alpha1.MD5ExtendedDaemonSetAnnotationKey] == info.hash)
			}
		}
		seen = len(w.c.Log)
		w.onePodPerNode("C13.sched.one-pod-per-node")
	}
	nondet.Observe("replicaSets", len(w.c.ERS))
	nondet.Reach("C13.sched.back-to-A-reuses-foo-a", current == "A" && len(w.c.ERS) == 2 && w.c.EDS[0].Status.ActiveReplicaSet == "foo-a")
	nondet.Reach("C13.sched.three-templates", len(w.c.ERS) == 3)
}
