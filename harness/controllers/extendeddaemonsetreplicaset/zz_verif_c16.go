//go:build verif

package extendeddaemonsetreplicaset

import (
	"context"
	"time"

	metav1 "k8s.io/apimachinery/pkg/apis/meta/v1"
	"k8s.io/apimachinery/pkg/types"
	"k8s.io/apimachinery/pkg/util/intstr"
	"sigs.k8s.io/controller-runtime/pkg/reconcile"

	datadoghqv1alpha1 "github.com/DataDog/extendeddaemonset/api/v1alpha1"
	"github.com/DataDog/extendeddaemonset/zzverif/nondet"
)

// ZZ_C16_noPanicCanary: "For every spec the CRD schema accepts, validation and reconciliation
// return a result or an error but never crash" — the canary block.  Canary replicas absent / any
// integer / a percentage, malformed or not; duration and noRestartsDuration absent, zero, negative
// or positive; validation mode unset / auto / manual; auto-pause and auto-fail blocks absent or
// with arbitrary thresholds.  The spec is given to the controllers as the API server would store
// it (not defaulted): two rounds of {ExtendedDaemonSet reconcile, sync of every replica set,
// kubelet step} on a two-node cluster whose template was just changed run to completion — a panic
// anywhere in the interpreted code is reported as a violation — and an object the controller
// accepted (a replica set was created for it) passes validation.
func ZZ_C16_noPanicCanary() {
	canary := &datadoghqv1alpha1.ExtendedDaemonSetSpecStrategyCanary{}
	if nondet.Bool("replicas.set") {
		if nondet.Bool("replicas.isString") {
			v := intstr.FromString(nondet.String("replicas.str", "", "0%", "50%", "150%", "abc", "%"))
			canary.Replicas = &v
		} else {
			v := intstr.IntOrString{Type: intstr.Int, IntVal: nondet.Int32("replicas.int", -1<<31, 1<<31-1)}
			canary.Replicas = &v
		}
	}
	day := 24 * time.Hour
	if nondet.Bool("duration.set") {
		canary.Duration = &metav1.Duration{Duration: nondet.Duration("duration", -30*day, 30*day)}
	}
	if nondet.Bool("noRestartsDuration.set") {
		canary.NoRestartsDuration = &metav1.Duration{Duration: nondet.Duration("noRestartsDuration", -30*day, 30*day)}
	}
	canary.ValidationMode = datadoghqv1alpha1.ExtendedDaemonSetSpecStrategyCanaryValidationMode(nondet.String("validationMode", "", "auto", "manual"))
	if nondet.Bool("autoPause.set") {
		e, m := nondet.Bool("autoPause.enabled"), nondet.Int32("autoPause.maxRestarts", -1<<31, 1<<31-1)
		canary.AutoPause = &datadoghqv1alpha1.ExtendedDaemonSetSpecStrategyCanaryAutoPause{Enabled: &e, MaxRestarts: &m}
		if nondet.Bool("maxSlowStart.set") {
			canary.AutoPause.MaxSlowStartDuration = &metav1.Duration{Duration: nondet.Duration("maxSlowStart", -30*day, 30*day)}
		}
	}
	if nondet.Bool("autoFail.set") {
		e, m := nondet.Bool("autoFail.enabled"), nondet.Int32("autoFail.maxRestarts", -1<<31, 1<<31-1)
		canary.AutoFail = &datadoghqv1alpha1.ExtendedDaemonSetSpecStrategyCanaryAutoFail{Enabled: &e, MaxRestarts: &m}
		if nondet.Bool("canaryTimeout.set") {
			canary.AutoFail.CanaryTimeout = &metav1.Duration{Duration: nondet.Duration("canaryTimeout", -30*day, 30*day)}
		}
		if nondet.Bool("maxRestartsDuration.set") {
			canary.AutoFail.MaxRestartsDuration = &metav1.Duration{Duration: nondet.Duration("maxRestartsDuration", -30*day, 30*day)}
		}
	}
	w, ds := zzNewWorld(2, nil)
	// as stored by the API server: the strategy exactly as the user wrote it
	ds.Spec.Strategy = datadoghqv1alpha1.ExtendedDaemonSetSpecStrategy{Canary: canary}
	for round := 0; round < 2; round++ {
		_, _ = w.eds.Reconcile(context.TODO(), reconcile.Request{NamespacedName: types.NamespacedName{Namespace: zzNS, Name: zzEDSName}})
		var names []string
		for _, rs := range w.c.ERS {
			names = append(names, rs.Name)
		}
		for _, name := range names {
			_, _ = zzReconcile(zzReconciler(w.c, false), zzNS, name)
		}
		zzKubelet(w.c)
	}
	accepted := len(w.c.ERS) > 1
	if accepted {
		stored := w.c.EDS[0]
		nondet.Assert("C16.canary-run.accepted-spec-is-valid", datadoghqv1alpha1.ValidateExtendedDaemonSetSpec(&stored.Spec) == nil)
		nondet.Assert("C16.canary-run.accepted-spec-is-defaulted", datadoghqv1alpha1.IsDefaultedExtendedDaemonSet(stored))
	}
	w.onePodPerNode("C16.canary-run.one-pod-per-node")
	nondet.Observe("accepted", accepted)
	nondet.Reach("C16.canary-run.accepted", accepted)
	nondet.Reach("C16.canary-run.rejected", !accepted)
}
