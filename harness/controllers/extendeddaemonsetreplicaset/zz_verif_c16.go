//go:build verif

package extendeddaemonsetreplicaset

import (
	"context"
	corev1 "k8s.io/api/core/v1"
	"time"

	metav1 "k8s.io/apimachinery/pkg/apis/meta/v1"
	"k8s.io/apimachinery/pkg/types"
	"k8s.io/apimachinery/pkg/util/intstr"
	"sigs.k8s.io/controller-runtime/pkg/reconcile"

	datadoghqv1alpha1 "github.com/DataDog/extendeddaemonset/api/v1alpha1"
	"github.com/DataDog/extendeddaemonset/zzverif/nondet"
)

// ZZ_C16_noPanicCanary: "For every spec the CRD schema accepts, validation and reconciliation
// return a result or an error but never crash" — the canary block.  Canary replicas absent / any
// integer / a percentage, malformed or not; duration and noRestartsDuration absent, zero, negative
// or positive; validation mode unset / auto / manual; auto-pause and auto-fail blocks absent or
// with arbitrary thresholds.  The spec is given to the controllers as the API server would store
// it (not defaulted): two rounds of {ExtendedDaemonSet reconcile, sync of every replica set,
// kubelet step} on a two-node cluster whose template was just changed run to completion — a panic
// anywhere in the interpreted code is reported as a violation — and an object the controller
// accepted (a replica set was created for it) passes validation.
func ZZ_C16_noPanicCanary() {
	canary := &datadoghqv1alpha1.ExtendedDaemonSetSpecStrategyCanary{}
	if nondet.Bool("replicas.set") {
		if nondet.Bool("replicas.isString") {
			v := intstr.FromString(nondet.String("replicas.str", "", "0%", "50%", "150%", "abc", "%"))
			canary.Replicas = &v
		} else {
			v := intstr.IntOrString{Type: intstr.Int, IntVal: nondet.Int32("replicas.int", -1<<31, 1<<31-1)}
			canary.Replicas = &v
		}
	}
	day := 24 * time.Hour
	if nondet.Bool("duration.set") {
		canary.Duration = &metav1.Duration{Duration: nondet.Duration("duration", -30*day, 30*day)}
	}
	if nondet.Bool("noRestartsDuration.set") {
		canary.NoRestartsDuration = &metav1.Duration{Duration: nondet.Duration("noRestartsDuration", -30*day, 30*day)}
	}
	canary.ValidationMode = datadoghqv1alpha1.ExtendedDaemonSetSpecStrategyCanaryValidationMode(nondet.String("validationMode", "", "auto", "manual"))
	// spreading keys, and a canary node selector that may match no node at all (the nodes carry no label)
	// (one combined choice, to bound the number of paths)
	if nondet.Bool("antiAffinityKeysAndSelectorMatchingNoNode") {
		canary.NodeAntiAffinityKeys = []string{"zone"}
		canary.NodeSelector = &metav1.LabelSelector{MatchLabels: map[string]string{"canary": "yes"}}
	}
	if nondet.Bool("autoPause.set") {
		e, m := nondet.Bool("autoPause.enabled"), nondet.Int32("autoPause.maxRestarts", -1<<31, 1<<31-1)
		canary.AutoPause = &datadoghqv1alpha1.ExtendedDaemonSetSpecStrategyCanaryAutoPause{Enabled: &e, MaxRestarts: &m}
		if nondet.Bool("maxSlowStart.set") {
			canary.AutoPause.MaxSlowStartDuration = &metav1.Duration{Duration: nondet.Duration("maxSlowStart", -30*day, 30*day)}
		}
	}
	if nondet.Bool("autoFail.set") {
		e, m := nondet.Bool("autoFail.enabled"), nondet.Int32("autoFail.maxRestarts", -1<<31, 1<<31-1)
		canary.AutoFail = &datadoghqv1alpha1.ExtendedDaemonSetSpecStrategyCanaryAutoFail{Enabled: &e, MaxRestarts: &m}
		if nondet.Bool("canaryTimeout.set") {
			canary.AutoFail.CanaryTimeout = &metav1.Duration{Duration: nondet.Duration("canaryTimeout", -30*day, 30*day)}
		}
		if nondet.Bool("maxRestartsDuration.set") {
			canary.AutoFail.MaxRestartsDuration = &metav1.Duration{Duration: nondet.Duration("maxRestartsDuration", -30*day, 30*day)}
		}
	}
	w, ds := zzNewWorld(2, nil)
	// as stored by the API server: the strategy exactly as the user wrote it
	ds.Spec.Strategy = datadoghqv1alpha1.ExtendedDaemonSetSpecStrategy{Canary: canary}
	for round := 0; round < 2; round++ {
		_, _ = w.eds.Reconcile(context.TODO(), reconcile.Request{NamespacedName: types.NamespacedName{Namespace: zzNS, Name: zzEDSName}})
		var names []string
		for _, rs := range w.c.ERS {
			names = append(names, rs.Name)
		}
		for _, name := range names {
			_, _ = zzReconcile(zzReconciler(w.c, false), zzNS, name)
		}
		zzKubelet(w.c)
	}
	accepted := len(w.c.ERS) > 1
	if accepted {
		stored := w.c.EDS[0]
		nondet.Assert("C16.canary-run.accepted-spec-is-valid", datadoghqv1alpha1.ValidateExtendedDaemonSetSpec(&stored.Spec) == nil)
		nondet.Assert("C16.canary-run.accepted-spec-is-defaulted", datadoghqv1alpha1.IsDefaultedExtendedDaemonSet(stored))
	}
	w.onePodPerNode("C16.canary-run.one-pod-per-node")
	nondet.Observe("accepted", accepted)
	nondet.Reach("C16.canary-run.accepted", accepted)
	nondet.Reach("C16.canary-run.rejected", !accepted)
}

// ZZ_C16_noPanicCompleteSpec: a spec the user wrote out in full — every field
// IsDefaultedExtendedDaemonSet looks at is set, so defaulting never runs on it — leaves the fields
// defaulting would ALSO have filled but the recogniser does not check (noRestartsDuration,
// maxSlowStartDuration, maxRestartsDuration, canaryTimeout, nodeAntiAffinityKeys) absent or set,
// independently.  A canary is in progress on node0 with a pod that restarted (so that the replica set
// carries a PodRestarting condition after its sync) or not; auto or manual validation.  Two rounds of
// {sync of every replica set, ExtendedDaemonSet reconcile, kubelet step} run to completion: no
// dereference of an absent optional field anywhere.
func ZZ_C16_noPanicCompleteSpec() {
	one := intstr.FromInt(1)
	yes := true
	two, five := int32(2), int32(5)
	mode := datadoghqv1alpha1.ExtendedDaemonSetSpecStrategyCanaryValidationModeAuto
	if nondet.Bool("manualValidation") {
		mode = datadoghqv1alpha1.ExtendedDaemonSetSpecStrategyCanaryValidationModeManual
	}
	canary := &datadoghqv1alpha1.ExtendedDaemonSetSpecStrategyCanary{
		Replicas: &one, ValidationMode: mode, NodeSelector: &metav1.LabelSelector{},
		AutoPause: &datadoghqv1alpha1.ExtendedDaemonSetSpecStrategyCanaryAutoPause{Enabled: &yes, MaxRestarts: &two},
		AutoFail:  &datadoghqv1alpha1.ExtendedDaemonSetSpecStrategyCanaryAutoFail{Enabled: &yes, MaxRestarts: &five},
	}
	if mode == datadoghqv1alpha1.ExtendedDaemonSetSpecStrategyCanaryValidationModeAuto {
		canary.Duration = &metav1.Duration{Duration: 3 * time.Minute}
		if nondet.Bool("noRestartsDuration.set") {
			canary.NoRestartsDuration = &metav1.Duration{Duration: time.Minute}
		}
	}
	if nondet.Bool("maxSlowStartDuration.set") {
		canary.AutoPause.MaxSlowStartDuration = &metav1.Duration{Duration: time.Minute}
	}
	if nondet.Bool("maxRestartsDuration.set") {
		canary.AutoFail.MaxRestartsDuration = &metav1.Duration{Duration: 10 * time.Minute}
	}
	if nondet.Bool("canaryTimeout.set") {
		canary.AutoFail.CanaryTimeout = &metav1.Duration{Duration: time.Hour}
	}
	keepNoRestarts, keepSlowStart, keepRestartsDuration, keepTimeout := canary.NoRestartsDuration != nil, canary.AutoPause.MaxSlowStartDuration != nil, canary.AutoFail.MaxRestartsDuration != nil, canary.AutoFail.CanaryTimeout != nil
	w, ds := zzNewWorld(2, canary)
	// (zzNewWorld defaults the spec: take out again what the user did not write)
	if !keepNoRestarts {
		ds.Spec.Strategy.Canary.NoRestartsDuration = nil
	}
	if !keepSlowStart {
		ds.Spec.Strategy.Canary.AutoPause.MaxSlowStartDuration = nil
	}
	if !keepRestartsDuration {
		ds.Spec.Strategy.Canary.AutoFail.MaxRestartsDuration = nil
	}
	if !keepTimeout {
		ds.Spec.Strategy.Canary.AutoFail.CanaryTimeout = nil
	}
	nondet.Assert("C16.complete.recognised-as-given", datadoghqv1alpha1.IsDefaultedExtendedDaemonSet(ds) && datadoghqv1alpha1.ValidateExtendedDaemonSetSpec(&ds.Spec) == nil)
	// the canary is in progress on node0
	tB := zzWorldTpl("B")
	rsB := zzRS("foo-b", w.hashB)
	rsB.Spec.Template = tB
	rsB.Annotations = map[string]string{datadoghqv1alpha1.MD5ExtendedDaemonSetAnnotationKey: w.hashB}
	rsB.CreationTimestamp = metav1.NewTime(nondet.Base().Add(-10 * time.Minute))
	w.c.ERS = append(w.c.ERS, rsB)
	ds.Status.Canary = &datadoghqv1alpha1.ExtendedDaemonSetStatusCanary{ReplicaSet: "foo-b", Nodes: []string{zzNodeName(0)}}
	ds.Status.State = datadoghqv1alpha1.ExtendedDaemonSetStatusStateCanary
	p := zzPod("b-"+zzNodeName(0), zzNodeName(0), "foo-b", w.hashB, 0, corev1.PodRunning, true, nondet.Base().Add(-9*time.Minute))
	st := metav1.NewTime(nondet.Base().Add(-9 * time.Minute))
	p.Status.StartTime = &st
	restarts := nondet.Int32("canaryPod.restarts", 0, 1)
	cs := corev1.ContainerStatus{Name: "agent", RestartCount: restarts}
	if restarts > 0 {
		cs.LastTerminationState.Terminated = &corev1.ContainerStateTerminated{Reason: "Error", ExitCode: 1, FinishedAt: metav1.NewTime(nondet.Base().Add(-8 * time.Minute))}
	}
	p.Status.ContainerStatuses = []corev1.ContainerStatus{cs}
	w.c.Pods[0] = p
	for round := 0; round < 2; round++ {
		var names []string
		for _, rs := range w.c.ERS {
			names = append(names, rs.Name)
		}
		for _, name := range names {
			_, _ = zzReconcile(zzReconciler(w.c, false), zzNS, name)
		}
		_, _ = w.eds.Reconcile(context.TODO(), reconcile.Request{NamespacedName: types.NamespacedName{Namespace: zzNS, Name: zzEDSName}})
		zzKubelet(w.c)
	}
	w.onePodPerNode("C16.complete.one-pod-per-node")
	nondet.Observe("active", w.c.EDS[0].Status.ActiveReplicaSet)
	nondet.Reach("C16.complete.restart-recorded-without-norestartsduration", restarts > 0 && !keepNoRestarts && mode == datadoghqv1alpha1.ExtendedDaemonSetSpecStrategyCanaryValidationModeAuto)
}

// ZZ_C16_noPanicCanaryStrategyRemovedMidCanary: "reconciliation returns a result or an error but never
// crashes" in the window between two controllers: the user removes spec.strategy.canary while a canary
// is in progress, and the replica-set controller syncs a replica set (the canary one, the active one, a
// leftover) before the ExtendedDaemonSet controller has dropped status.canary.  The spec is valid and
// defaulted (no canary block at all); the status still names the canary replica set and its node.
func ZZ_C16_noPanicCanaryStrategyRemovedMidCanary() {
	c, ds, rsNew, rsOld := zzStore(2)
	ds.Spec.Strategy.Canary = nil
	ds.Status.ActiveReplicaSet = rsOld.Name
	ds.Status.Canary = &datadoghqv1alpha1.ExtendedDaemonSetStatusCanary{ReplicaSet: rsNew.Name, Nodes: []string{zzNodeName(0)}}
	ds.Status.State = datadoghqv1alpha1.ExtendedDaemonSetStatusStateCanary
	if nondet.Bool("canaryPodExists") {
		p := zzPod("canary-pod", zzNodeName(0), rsNew.Name, zzHashNew, 0, corev1.PodRunning, true, nondet.Base().Add(-60*1e9))
		if nondet.Bool("canaryPodRestarted") {
			p.Status.ContainerStatuses = []corev1.ContainerStatus{{Name: "agent", RestartCount: 3,
				LastTerminationState: corev1.ContainerState{Terminated: &corev1.ContainerStateTerminated{Reason: "Error", FinishedAt: metav1.NewTime(nondet.Base().Add(-30 * 1e9))}}}}
		}
		c.Pods = append(c.Pods, p)
	}
	c.Pods = append(c.Pods, zzPod("active-pod", zzNodeName(1), rsOld.Name, zzHashOld, 0, corev1.PodRunning, true, nondet.Base().Add(-3600*1e9)))
	which := rsNew.Name
	if nondet.Bool("syncOfTheActiveReplicaSet") {
		which = rsOld.Name
	}
	_, err := zzReconcile(zzReconciler(c, false), zzNS, which)
	nondet.Observe("error", err != nil)
	// until the ExtendedDaemonSet controller has ended the canary, no pod is deleted by either sync
	nondet.Assert("C16.strategy-removed.no-pod-deleted-meanwhile", c.Count("delete", "Pod") == 0)
	nondet.Reach("C16.strategy-removed.canary-synced", which == rsNew.Name)
}

// ZZ_C16_noPanicRollingUpdateThroughTheSync: "for every spec the CRD schema accepts, validation and
// reconciliation return a result or an error but never crash" — the rolling-update block through the whole
// replica-set sync (not only the strategy function): maxUnavailable, maxPodSchedulerFailure and
// slowStartAdditiveIncrease are int-or-string fields, so the schema accepts any string for them: a malformed
// percentage ("abc", "%"), an out-of-range one, zero and negative numbers.  The spec is otherwise defaulted;
// two nodes, one with an outdated pod, one without pod.  The sync of the active replica set returns.
func ZZ_C16_noPanicRollingUpdateThroughTheSync() {
	c, ds, rsNew, _ := zzStore(2)
	ds.Status.ActiveReplicaSet = rsNew.Name
	pick := func(label string) *intstr.IntOrString {
		var v intstr.IntOrString
		switch nondet.String(label, "default", "abc", "%", "150%", "0", "-1") {
		case "default":
			return nil
		case "abc":
			v = intstr.FromString("abc")
		case "%":
			v = intstr.FromString("%")
		case "150%":
			v = intstr.FromString("150%")
		case "0":
			v = intstr.FromInt(0)
		default:
			v = intstr.FromInt(-1)
		}
		return &v
	}
	if v := pick("maxUnavailable"); v != nil {
		ds.Spec.Strategy.RollingUpdate.MaxUnavailable = v
	}
	if v := pick("maxPodSchedulerFailure"); v != nil {
		ds.Spec.Strategy.RollingUpdate.MaxPodSchedulerFailure = v
	}
	if v := pick("slowStartAdditiveIncrease"); v != nil {
		ds.Spec.Strategy.RollingUpdate.SlowStartAdditiveIncrease = v
	}
	c.Pods = append(c.Pods, zzPod("outdated", zzNodeName(0), zzOldRS, zzHashOld, 0, corev1.PodRunning, true, nondet.Base().Add(-3600*1e9)))
	accepted := datadoghqv1alpha1.ValidateExtendedDaemonSetSpec(&ds.Spec) == nil && datadoghqv1alpha1.IsDefaultedExtendedDaemonSet(ds)
	_, err := zzReconcile(zzReconciler(c, false), zzNS, rsNew.Name)
	nondet.Observe("error", err != nil)
	nondet.Observe("accepted", accepted)
	// the replica set is still there, whatever the sync made of the spec
	nondet.Assert("C16.rolling-sync.returns", len(c.ERS) == 2)
	nondet.Reach("C16.rolling-sync.malformed-accepted", accepted && err != nil)
}

// ZZ_C16_noPanicCanaryNodeUnknownToTheReplicaSetController: the two controllers do not list the same nodes
// (the ExtendedDaemonSet controller selects canary nodes by the canary node selector, the replica-set
// controller lists nodes by spec.selector) and a canary node can disappear after it was selected: a name in
// status.canary.nodes that the replica-set controller cannot resolve must not crash any of the three syncs.
func ZZ_C16_noPanicCanaryNodeUnknownToTheReplicaSetController() {
	c, ds, rsNew, rsOld := zzStore(2)
	ds.Spec.Strategy.Canary = &datadoghqv1alpha1.ExtendedDaemonSetSpecStrategyCanary{}
	datadoghqv1alpha1.DefaultExtendedDaemonSetSpec(&ds.Spec, datadoghqv1alpha1.ExtendedDaemonSetSpecStrategyCanaryValidationModeAuto)
	ds.Status.ActiveReplicaSet = rsOld.Name
	list := []string{"node-unknown", zzNodeName(0)}
	if nondet.Bool("unknownNodeListedLast") {
		list = []string{zzNodeName(0), "node-unknown"}
	}
	ds.Status.Canary = &datadoghqv1alpha1.ExtendedDaemonSetStatusCanary{ReplicaSet: rsNew.Name, Nodes: list}
	c.Pods = append(c.Pods, zzPod("active-1", zzNodeName(1), rsOld.Name, zzHashOld, 0, corev1.PodRunning, true, nondet.Base().Add(-3600*1e9)))
	if nondet.Bool("canaryPodExists") {
		c.Pods = append(c.Pods, zzPod("canary-0", zzNodeName(0), rsNew.Name, zzHashNew, 0, corev1.PodRunning, true, nondet.Base().Add(-60*1e9)))
	}
	third := zzRS("foo-left", "hash-left")
	c.ERS = append(c.ERS, third)
	which := rsNew.Name
	switch nondet.String("synced", "canary", "active", "leftover") {
	case "active":
		which = rsOld.Name
	case "leftover":
		which = third.Name
	}
	_, err := zzReconcile(zzReconciler(c, false), zzNS, which)
	nondet.Observe("error", err != nil)
	nondet.Assert("C16.unknown-canary-node.other-node-untouched", c.Count("delete", "Pod") == 0)
	nondet.Reach("C16.unknown-canary-node.canary-synced", which == rsNew.Name)
}

// ZZ_C16_noPanicSpecReplacedAfterTheFirstSync: "reconciliation returns a result or an error but never
// crashes" on a spec the API server stores but defaulting has not filled (yet, or again): the user
// re-applies the original manifest over a running ExtendedDaemonSet, so a field defaulting had filled —
// the reconcile frequency, a rolling-update field, the whole strategy, a canary block left partial — is
// absent again, and a replica set that has been fully synced before (its status carries the
// LastFullSync condition, recent or old, and counters) is synced before the ExtendedDaemonSet
// controller has re-defaulted the parent.  The sync ends, writes no pod, and asks to be run again.
func ZZ_C16_noPanicSpecReplacedAfterTheFirstSync() {
	c, ds, rsNew, _ := zzStore(2)
	ds.Status.ActiveReplicaSet = rsNew.Name
	switch nondet.String("absentAgain", "reconcileFrequency", "maxUnavailable", "slowStartIntervalDuration", "whole-strategy", "partial-canary-block", "template-name-set") {
	case "reconcileFrequency":
		ds.Spec.Strategy.ReconcileFrequency = nil
	case "maxUnavailable":
		ds.Spec.Strategy.RollingUpdate.MaxUnavailable = nil
	case "slowStartIntervalDuration":
		ds.Spec.Strategy.RollingUpdate.SlowStartIntervalDuration = nil
	case "whole-strategy":
		ds.Spec.Strategy = datadoghqv1alpha1.ExtendedDaemonSetSpecStrategy{}
	case "partial-canary-block":
		ds.Spec.Strategy.Canary = &datadoghqv1alpha1.ExtendedDaemonSetSpecStrategyCanary{}
	default:
		ds.Spec.Template.Name = "fixed-name"
	}
	nondet.Assert("C16.spec-replaced.not-defaulted", !datadoghqv1alpha1.IsDefaultedExtendedDaemonSet(ds))
	switch nondet.String("lastFullSync", "never", "just-now", "an-hour-ago") {
	case "just-now":
		at := metav1.NewTime(nondet.Base().Add(-1e9))
		rsNew.Status.Conditions = append(rsNew.Status.Conditions, datadoghqv1alpha1.ExtendedDaemonSetReplicaSetCondition{Type: datadoghqv1alpha1.ConditionTypeLastFullSync, Status: corev1.ConditionTrue, LastTransitionTime: at, LastUpdateTime: at})
	case "an-hour-ago":
		at := metav1.NewTime(nondet.Base().Add(-3600 * 1e9))
		rsNew.Status.Conditions = append(rsNew.Status.Conditions, datadoghqv1alpha1.ExtendedDaemonSetReplicaSetCondition{Type: datadoghqv1alpha1.ConditionTypeLastFullSync, Status: corev1.ConditionTrue, LastTransitionTime: at, LastUpdateTime: at})
	}
	rsNew.Status.Status = "active"
	rsNew.Status.Desired, rsNew.Status.Current, rsNew.Status.Ready, rsNew.Status.Available = 2, 1, 1, 1
	c.Pods = append(c.Pods, zzPod("pod-node0", zzNodeName(0), rsNew.Name, zzHashNew, 0, corev1.PodRunning, true, nondet.Base().Add(-3600*1e9)))
	res, err := zzReconcile(zzReconciler(c, nondet.Bool("nodeAffinitySupported")), zzNS, rsNew.Name)
	nondet.Observe("error", err != nil)
	// nothing is rolled out from a spec that is not complete
	nondet.Assert("C16.spec-replaced.no-pod-write", c.Count("create", "Pod") == 0 && c.Count("delete", "Pod") == 0)
	// and the replica set comes back (an error is retried by the work queue)
	nondet.Assert("C16.spec-replaced.retried", err != nil || res.Requeue || res.RequeueAfter > 0)
}
