//go:build verif

package extendeddaemonsetreplicaset

import (
	"github.com/DataDog/extendeddaemonset/pkg/controller/utils/comparison"
	"context"
	"errors"
	"time"

	"github.com/go-logr/logr"
	apierrors "k8s.io/apimachinery/pkg/api/errors"
	"k8s.io/apimachinery/pkg/runtime/schema"
	"k8s.io/apimachinery/pkg/types"
	"sigs.k8s.io/controller-runtime/pkg/reconcile"

	edsctrl "github.com/DataDog/extendeddaemonset/controllers/extendeddaemonset"
	"github.com/DataDog/extendeddaemonset/zzverif/fakeapi"

	corev1 "k8s.io/api/core/v1"
	metav1 "k8s.io/apimachinery/pkg/apis/meta/v1"

	datadoghqv1alpha1 "github.com/DataDog/extendeddaemonset/api/v1alpha1"
	"github.com/DataDog/extendeddaemonset/zzverif/nondet"
)

// ZZ_C05_failedMarkOutlivesTheCanary: "A canary marked failed is never promoted by elapsed time."
// The only record of the failure is the Canary-Failed condition of the replica set.  After the
// rollback the failed replica set is neither active nor canary any more, but it lives on until it
// reports no pods — and if its template is applied again it is the candidate for promotion again.
// Whatever role the replica-set controller sees it in (canary, leftover, even active), a sync
// never turns a True Canary-Failed condition of a non-active replica set back to False.
func ZZ_C05_failedMarkOutlivesTheCanary() {
	c, ds, rsB, rsA := zzStore(2) // foo-new = the failed canary, foo-old = active
	ds.Spec.Strategy.Canary = &datadoghqv1alpha1.ExtendedDaemonSetSpecStrategyCanary{}
	datadoghqv1alpha1.DefaultExtendedDaemonSetSpec(&ds.Spec, datadoghqv1alpha1.ExtendedDaemonSetSpecStrategyCanaryValidationModeAuto)
	ds.Status.ActiveReplicaSet = rsA.Name
	role := nondet.String("roleOfFailedReplicaSet", "canary", "leftover")
	if role == "canary" {
		ds.Status.Canary = &datadoghqv1alpha1.ExtendedDaemonSetStatusCanary{ReplicaSet: rsB.Name, Nodes: []string{zzNodeName(0)}}
	}
	at := metav1.NewTime(nondet.Base().Add(-10 * time.Minute))
	rsB.Status.Status = nondet.String("statusString", "canary-failed", "canary", "unknown", "")
	if nondet.Bool("otherConditionsFirst") {
		rsB.Status.Conditions = append(rsB.Status.Conditions,
			datadoghqv1alpha1.ExtendedDaemonSetReplicaSetCondition{Type: datadoghqv1alpha1.ConditionTypeCanary, Status: corev1.ConditionFalse, LastTransitionTime: at, LastUpdateTime: at},
			datadoghqv1alpha1.ExtendedDaemonSetReplicaSetCondition{Type: datadoghqv1alpha1.ConditionTypeActive, Status: corev1.ConditionFalse, LastTransitionTime: at, LastUpdateTime: at})
	}
	rsB.Status.Conditions = append(rsB.Status.Conditions, datadoghqv1alpha1.ExtendedDaemonSetReplicaSetCondition{Type: datadoghqv1alpha1.ConditionTypeCanaryFailed, Status: corev1.ConditionTrue, Reason: "CrashLoopBackOff", LastTransitionTime: at, LastUpdateTime: at})
	if nondet.Bool("canaryPodLeft") {
		c.Pods = append(c.Pods, zzPod("canary-pod", zzNodeName(0), rsB.Name, zzHashNew, 0, corev1.PodRunning, nondet.Bool("canaryPodReady"), nondet.Base().Add(-600*1e9)))
	}
	c.Pods = append(c.Pods, zzPod("active-pod", zzNodeName(1), rsA.Name, zzHashOld, 0, corev1.PodRunning, true, nondet.Base().Add(-3600*1e9)))
	_, err := zzReconcile(zzReconciler(c, false), zzNS, rsB.Name)
	nondet.Assert("C05.mark.noerror", err == nil)
	still := false
	for _, s := range c.ERS {
		if s.Name == rsB.Name {
			for _, cd := range s.Status.Conditions {
				if cd.Type == datadoghqv1alpha1.ConditionTypeCanaryFailed && cd.Status == corev1.ConditionTrue {
					still = true
				}
			}
		}
	}
	nondet.Assert("C05.mark.failed-condition-survives", still)
	nondet.Observe("still", still)
	nondet.Reach("C05.mark.leftover-role", role == "leftover")
}

// ZZ_C05_manualFailRacingWithTheSync: "A canary marked failed is never promoted by elapsed time" — the
// mark has two writers, the replica-set controller and `kubectl-eds canary fail`.  The command's write
// lands between the read and the status write of a sync of the canary replica set: the API server
// answers that write with a Conflict.  Whatever the sync does about it, the mark survives — after the
// conflicting sync, after the next one (one minute later), and the ExtendedDaemonSet reconcile that
// follows (canary duration elapsed) does not promote the failed canary.
func ZZ_C05_manualFailRacingWithTheSync() { zzManualFailRace("C05.race") }

// ZZ_C07_manualFailRacingWithTheSync: the same race seen from C07: "when the canary replica set is marked
// failed ... by the user, the controller restores spec.template ... clears status.canary" — a mark the
// command reported as written leads to the rollback even if it landed in the middle of a sync.
func ZZ_C07_manualFailRacingWithTheSync() { zzManualFailRace("C07.race") }

func zzManualFailRace(prop string) {
	c, ds, rsNew, rsOld := zzStore(2)
	ds.Spec.Strategy.Canary = &datadoghqv1alpha1.ExtendedDaemonSetSpecStrategyCanary{Duration: &metav1.Duration{Duration: nondet.Duration("canary.duration", time.Minute, time.Hour)}}
	datadoghqv1alpha1.DefaultExtendedDaemonSetSpec(&ds.Spec, datadoghqv1alpha1.ExtendedDaemonSetSpecStrategyCanaryValidationModeAuto)
	// the replica sets carry the real hashes of their templates, so that the ExtendedDaemonSet controller
	// recognises them
	hNew, _ := comparison.GenerateMD5PodTemplateSpec(&rsNew.Spec.Template)
	hOld, _ := comparison.GenerateMD5PodTemplateSpec(&rsOld.Spec.Template)
	rsNew.Spec.TemplateGeneration, rsNew.Annotations = hNew, map[string]string{datadoghqv1alpha1.MD5ExtendedDaemonSetAnnotationKey: hNew}
	rsOld.Spec.TemplateGeneration, rsOld.Annotations = hOld, map[string]string{datadoghqv1alpha1.MD5ExtendedDaemonSetAnnotationKey: hOld}
	ds.Spec.Template = *rsNew.Spec.Template.DeepCopy()
	ds.Status.ActiveReplicaSet = rsOld.Name
	ds.Status.Canary = &datadoghqv1alpha1.ExtendedDaemonSetStatusCanary{ReplicaSet: rsNew.Name, Nodes: []string{zzNodeName(0)}}
	ds.Status.State = datadoghqv1alpha1.ExtendedDaemonSetStatusStateCanary
	rsNew.CreationTimestamp = metav1.NewTime(nondet.Base().Add(-nondet.Duration("canary.age", time.Minute, 2*time.Hour)))
	rsOld.CreationTimestamp = metav1.NewTime(nondet.Base().Add(-24 * time.Hour))
	c.Pods = append(c.Pods,
		zzPod("canary-pod", zzNodeName(0), zzRSName, hNew, 0, corev1.PodRunning, true, nondet.Base().Add(-9*time.Minute)),
		zzPod("active-pod", zzNodeName(1), zzOldRS, hOld, 0, corev1.PodRunning, true, nondet.Base().Add(-time.Hour)))
	raced := false
	c.OnStatusUpdate = func(kind, name string) error {
		if raced || kind != "ExtendedDaemonSetReplicaSet" || name != rsNew.Name {
			return nil
		}
		raced = true
		// the command got in first: it wrote Canary-Failed=True on the stored replica set
		for _, s := range c.ERS {
			if s.Name == rsNew.Name {
				at := metav1.NewTime(nondet.Base())
				s.Status.Conditions = append(s.Status.Conditions, datadoghqv1alpha1.ExtendedDaemonSetReplicaSetCondition{Type: datadoghqv1alpha1.ConditionTypeCanaryFailed, Status: corev1.ConditionTrue, Reason: "ManuallyFailed", LastTransitionTime: at, LastUpdateTime: at})
			}
		}
		return apierrors.NewConflict(schema.GroupResource{Resource: "extendeddaemonsetreplicasets"}, name, errors.New("the object has been modified"))
	}
	failedMark := func() bool {
		for _, s := range c.ERS {
			if s.Name == rsNew.Name {
				for _, cd := range s.Status.Conditions {
					if cd.Type == datadoghqv1alpha1.ConditionTypeCanaryFailed && cd.Status == corev1.ConditionTrue {
						return true
					}
				}
			}
		}
		return false
	}
	r := zzReconciler(c, false)
	_, _ = zzReconcile(r, zzNS, rsNew.Name)
	nondet.Assert(prop+".the-other-write-happened", raced)
	nondet.Assert(prop+".mark-survives-the-conflicting-sync", failedMark())
	zzKubelet(c)
	_, _ = zzReconcile(r, zzNS, rsNew.Name)
	nondet.Assert(prop+".mark-survives-the-next-sync", failedMark())
	edsRec, _ := edsctrl.NewReconciler(edsctrl.ReconcilerOptions{DefaultValidationMode: datadoghqv1alpha1.ExtendedDaemonSetSpecStrategyCanaryValidationModeAuto}, c, c.Scheme(), logr.Logger{}, &fakeapi.Recorder{})
	_, _ = edsRec.Reconcile(context.TODO(), reconcile.Request{NamespacedName: types.NamespacedName{Namespace: zzNS, Name: zzEDSName}})
	nondet.Assert(prop+".failed-canary-not-promoted", c.EDS[0].Status.ActiveReplicaSet == rsOld.Name)
	// ... and rolls back: the canary block is gone and the template is the active replica set's again
	nondet.Assert(prop+".rolled-back", c.EDS[0].Status.Canary == nil && len(c.EDS[0].Spec.Template.Spec.Containers) == 1 &&
		c.EDS[0].Spec.Template.Spec.Containers[0].Image == rsOld.Spec.Template.Spec.Containers[0].Image)
	nondet.Reach(prop+".done", raced && failedMark())
}

// ZZ_C05_failureRecordedDespiteACleanupError: "a canary marked failed is never promoted by elapsed time" needs
// the mark to be written when the replica-set controller sees the cause, whatever else goes wrong in that
// sync: the canary pod restarted six times (auto-fail at five), the last time a minute ago, and the canary
// node also holds a duplicate whose clean-up deletion the API server rejects (or not).  After the sync the
// stored replica set carries Canary-Failed=True and the restart record; the ExtendedDaemonSet reconcile that
// follows — the canary duration elapsed long ago — does not promote it.
func ZZ_C05_failureRecordedDespiteACleanupError() {
	c, ds, rsNew, rsOld := zzStore(2)
	ds.Spec.Strategy.Canary = &datadoghqv1alpha1.ExtendedDaemonSetSpecStrategyCanary{Duration: &metav1.Duration{Duration: 10 * time.Minute}, NoRestartsDuration: &metav1.Duration{Duration: 5 * time.Minute}}
	datadoghqv1alpha1.DefaultExtendedDaemonSetSpec(&ds.Spec, datadoghqv1alpha1.ExtendedDaemonSetSpecStrategyCanaryValidationModeAuto)
	hNew, _ := comparison.GenerateMD5PodTemplateSpec(&rsNew.Spec.Template)
	hOld, _ := comparison.GenerateMD5PodTemplateSpec(&rsOld.Spec.Template)
	rsNew.Spec.TemplateGeneration, rsNew.Annotations = hNew, map[string]string{datadoghqv1alpha1.MD5ExtendedDaemonSetAnnotationKey: hNew}
	rsOld.Spec.TemplateGeneration, rsOld.Annotations = hOld, map[string]string{datadoghqv1alpha1.MD5ExtendedDaemonSetAnnotationKey: hOld}
	ds.Spec.Template = *rsNew.Spec.Template.DeepCopy()
	ds.Status.ActiveReplicaSet = rsOld.Name
	ds.Status.Canary = &datadoghqv1alpha1.ExtendedDaemonSetStatusCanary{ReplicaSet: rsNew.Name, Nodes: []string{zzNodeName(0)}}
	ds.Status.State = datadoghqv1alpha1.ExtendedDaemonSetStatusStateCanary
	rsNew.CreationTimestamp = metav1.NewTime(nondet.Base().Add(-time.Hour))
	rsOld.CreationTimestamp = metav1.NewTime(nondet.Base().Add(-24 * time.Hour))
	canaryPod := zzPod("canary-pod", zzNodeName(0), zzRSName, hNew, 0, corev1.PodRunning, true, nondet.Base().Add(-50*time.Minute))
	canaryPod.Status.ContainerStatuses = []corev1.ContainerStatus{{Name: "agent", RestartCount: 6,
		LastTerminationState: corev1.ContainerState{Terminated: &corev1.ContainerStateTerminated{Reason: "Error", ExitCode: 1, FinishedAt: metav1.NewTime(nondet.Base().Add(-time.Minute))}}}}
	c.Pods = append(c.Pods, canaryPod,
		zzPod("duplicate", zzNodeName(0), zzRSName, hNew, 0, corev1.PodRunning, true, nondet.Base().Add(-time.Minute)),
		zzPod("active-pod", zzNodeName(1), zzOldRS, hOld, 0, corev1.PodRunning, true, nondet.Base().Add(-time.Hour)))
	c.InjectFaults = true
	c.FaultOnly = func(verb, kind, name, node string) bool { return verb == "delete" && kind == "Pod" }
	_, _ = zzReconcile(zzReconciler(c, false), zzNS, rsNew.Name)
	c.InjectFaults = false
	failedMark, restartRecord := false, false
	for _, s := range c.ERS {
		if s.Name == rsNew.Name {
			for _, cd := range s.Status.Conditions {
				if cd.Type == datadoghqv1alpha1.ConditionTypeCanaryFailed && cd.Status == corev1.ConditionTrue {
					failedMark = true
				}
				if cd.Type == datadoghqv1alpha1.ConditionTypePodRestarting && cd.Status == corev1.ConditionTrue {
					restartRecord = true
				}
			}
		}
	}
	nondet.Assert("C05.recorded.failed-mark-written", failedMark)
	nondet.Assert("C05.recorded.restart-record-written", restartRecord)
	edsRec, _ := edsctrl.NewReconciler(edsctrl.ReconcilerOptions{DefaultValidationMode: datadoghqv1alpha1.ExtendedDaemonSetSpecStrategyCanaryValidationModeAuto}, c, c.Scheme(), logr.Logger{}, &fakeapi.Recorder{})
	_, _ = edsRec.Reconcile(context.TODO(), reconcile.Request{NamespacedName: types.NamespacedName{Namespace: zzNS, Name: zzEDSName}})
	nondet.Assert("C05.recorded.failing-canary-not-promoted", c.EDS[0].Status.ActiveReplicaSet == rsOld.Name)
	nondet.Reach("C05.recorded.cleanup-deletion-rejected", c.Log != nil && func() bool {
		for _, e := range c.Log {
			if e.Failed && e.Verb == "delete" {
				return true
			}
		}
		return false
	}())
}
