//go:build verif

package extendeddaemonsetreplicaset

import (
	"time"

	corev1 "k8s.io/api/core/v1"
	metav1 "k8s.io/apimachinery/pkg/apis/meta/v1"

	datadoghqv1alpha1 "github.com/DataDog/extendeddaemonset/api/v1alpha1"
	"github.com/DataDog/extendeddaemonset/zzverif/nondet"
)

// ZZ_C05_failedMarkOutlivesTheCanary: "A canary marked failed is never promoted by elapsed time."
// The only record of the failure is the Canary-Failed condition of the replica set.  After the
// rollback the failed replica set is neither active nor canary any more, but it lives on until it
// reports no pods — and if its template is applied again it is the candidate for promotion again.
// Whatever role the replica-set controller sees it in (canary, leftover, even active), a sync
// never turns a True Canary-Failed condition of a non-active replica set back to False.
func ZZ_C05_failedMarkOutlivesTheCanary() {
	c, ds, rsB, rsA := zzStore(2) // foo-new = the failed canary, foo-old = active
	ds.Spec.Strategy.Canary = &datadoghqv1alpha1.ExtendedDaemonSetSpecStrategyCanary{}
	datadoghqv1alpha1.DefaultExtendedDaemonSetSpec(&ds.Spec, datadoghqv1alpha1.ExtendedDaemonSetSpecStrategyCanaryValidationModeAuto)
	ds.Status.ActiveReplicaSet = rsA.Name
	role := nondet.String("roleOfFailedReplicaSet", "canary", "leftover")
	if role == "canary" {
		ds.Status.Canary = &datadoghqv1alpha1.ExtendedDaemonSetStatusCanary{ReplicaSet: rsB.Name, Nodes: []string{zzNodeName(0)}}
	}
	at := metav1.NewTime(nondet.Base().Add(-10 * time.Minute))
	rsB.Status.Status = nondet.String("statusString", "canary-failed", "canary", "unknown", "")
	if nondet.Bool("otherConditionsFirst") {
		rsB.Status.Conditions = append(rsB.Status.Conditions,
			datadoghqv1alpha1.ExtendedDaemonSetReplicaSetCondition{Type: datadoghqv1alpha1.ConditionTypeCanary, Status: corev1.ConditionFalse, LastTransitionTime: at, LastUpdateTime: at},
			datadoghqv1alpha1.ExtendedDaemonSetReplicaSetCondition{Type: datadoghqv1alpha1.ConditionTypeActive, Status: corev1.ConditionFalse, LastTransitionTime: at, LastUpdateTime: at})
	}
	rsB.Status.Conditions = append(rsB.Status.Conditions, datadoghqv1alpha1.ExtendedDaemonSetReplicaSetCondition{Type: datadoghqv1alpha1.ConditionTypeCanaryFailed, Status: corev1.ConditionTrue, Reason: "CrashLoopBackOff", LastTransitionTime: at, LastUpdateTime: at})
	if nondet.Bool("canaryPodLeft") {
		c.Pods = append(c.Pods, zzPod("canary-pod", zzNodeName(0), rsB.Name, zzHashNew, 0, corev1.PodRunning, nondet.Bool("canaryPodReady"), nondet.Base().Add(-600*1e9)))
	}
	c.Pods = append(c.Pods, zzPod("active-pod", zzNodeName(1), rsA.Name, zzHashOld, 0, corev1.PodRunning, true, nondet.Base().Add(-3600*1e9)))
	_, err := zzReconcile(zzReconciler(c, false), zzNS, rsB.Name)
	nondet.Assert("C05.mark.noerror", err == nil)
	still := false
	for _, s := range c.ERS {
		if s.Name == rsB.Name {
			for _, cd := range s.Status.Conditions {
				if cd.Type == datadoghqv1alpha1.ConditionTypeCanaryFailed && cd.Status == corev1.ConditionTrue {
					still = true
				}
			}
		}
	}
	nondet.Assert("C05.mark.failed-condition-survives", still)
	nondet.Observe("still", still)
	nondet.Reach("C05.mark.leftover-role", role == "leftover")
}
