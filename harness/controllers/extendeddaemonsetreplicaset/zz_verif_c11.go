//go:build verif

package extendeddaemonsetreplicaset

import (
	corev1 "k8s.io/api/core/v1"

	datadoghqv1alpha1 "github.com/DataDog/extendeddaemonset/api/v1alpha1"
	"github.com/DataDog/extendeddaemonset/zzverif/fakeapi"
	"github.com/DataDog/extendeddaemonset/zzverif/nondet"
)

// ZZ_C11_ersFaults: one replica-set sync in which any subset of the API writes fails
// (rejected, or applied with the answer lost): at every prefix of the call log the write-level
// safety monitors hold (one pod per node, no Unknown pod touched, no double delete, at most
// maxUnavailable update deletions, only own pods touched), failures are recorded in the
// ReconcileError condition, and the status write comes last.  A second, fault-free sync by a
// fresh controller instance keeps the same monitors.
func ZZ_C11_ersFaults() {
	nNodes, maxPods := 2, 2
	if nondet.Thorough() {
		nNodes, maxPods = 3, 3
	}
	c, ds, rsNew, _ := zzStore(nNodes)
	ds.Status.ActiveReplicaSet = rsNew.Name
	zzSymbolicPods(c, nNodes, maxPods, nondet.Thorough())
	// an unrelated pod that must never be touched
	foreign := zzPod("foreign", zzNodeName(0), "other-rs", "h", 0, corev1.PodRunning, true, nondet.Base())
	foreign.Labels[datadoghqv1alpha1.ExtendedDaemonSetNameLabelKey] = "other"
	c.Pods = append(c.Pods, foreign)
	before := make([]*corev1.Pod, len(c.Pods))
	for i, p := range c.Pods {
		before[i] = p.DeepCopy()
	}
	c.InjectFaults = true
	_, err1 := zzReconcile(zzReconciler(c, false), zzNS, rsNew.Name)
	c.InjectFaults = false
	n1 := len(c.Log)
	failedPodOps, failedStatus := 0, false
	for _, e := range c.Log {
		if e.Failed && e.Kind == "Pod" {
			failedPodOps++
		}
		if e.Failed && e.Verb == "status-update" {
			failedStatus = true
		}
	}
	recErr := false
	for _, s := range c.ERS {
		if s.Name == zzRSName {
			for _, cd := range s.Status.Conditions {
				if cd.Type == datadoghqv1alpha1.ConditionTypeReconcileError && cd.Status == corev1.ConditionTrue {
					recErr = true
				}
				// failed clean-up deletions are reported through PodsCleanupDone=False
				if cd.Type == datadoghqv1alpha1.ConditionTypePodsCleanupDone && cd.Status == corev1.ConditionFalse {
					recErr = true
				}
			}
		}
	}
	// a fresh controller instance takes over (empty in-memory state); the spacing gate is lifted
	// as if reconcileFrequency had elapsed
	mid := make([]*corev1.Pod, len(c.Pods))
	for i, p := range c.Pods {
		mid[i] = p.DeepCopy()
	}
	for _, s := range c.ERS {
		if s.Name == zzRSName {
			s.Status.Conditions = nil
		}
	}
	_, err2 := zzReconcile(zzReconciler(c, false), zzNS, rsNew.Name)
	nondet.Assert("C11.ers.second-sync-ok", err2 == nil)

	monitor := func(log []fakeapi.Call, base []*corev1.Pod, tag string) {
		created := map[string]int{}
		deleted := map[string]int{}
		updDeletes := 0
		for _, e := range log {
			if e.Kind != "Pod" {
				nondet.Assert("C11.ers.only-own-kinds"+tag, e.Verb == "get" || e.Verb == "list" || (e.Kind == "ExtendedDaemonSetReplicaSet" && e.Name == zzRSName && e.Verb == "status-update"))
				continue
			}
			switch e.Verb {
			case "create":
				created[e.Node]++
				for _, q := range base {
					if fakeapi.PodNode(q) == e.Node && q.Labels[datadoghqv1alpha1.ExtendedDaemonSetNameLabelKey] == zzEDSName {
						nondet.Assert("C11.ers.create-only-on-free-node"+tag, q.Status.Phase == corev1.PodFailed || q.Status.Phase == corev1.PodUnknown)
					}
				}
				p := e.Obj.(*corev1.Pod)
				nondet.Assert("C11.ers.create-own-pod"+tag, p.Namespace == zzNS && p.Labels[datadoghqv1alpha1.ExtendedDaemonSetNameLabelKey] == zzEDSName)
			case "delete":
				deleted[e.Name]++
				for _, q := range base {
					if q.Name == e.Name {
						nondet.Assert("C11.ers.unknown-untouched"+tag, q.Status.Phase != corev1.PodUnknown)
						nondet.Assert("C11.ers.delete-own-pod"+tag, q.Labels[datadoghqv1alpha1.ExtendedDaemonSetNameLabelKey] == zzEDSName)
						dup := false
						for _, o := range base {
							if o.Name != q.Name && fakeapi.PodNode(o) == fakeapi.PodNode(q) && o.Labels[datadoghqv1alpha1.ExtendedDaemonSetNameLabelKey] == zzEDSName && o.Status.Phase != corev1.PodUnknown {
								dup = true
							}
						}
						if !dup && q.Status.Phase != corev1.PodFailed {
							updDeletes++
						}
					}
				}
			}
		}
		for _, n := range created {
			nondet.Assert("C11.ers.one-create-per-node"+tag, n == 1)
		}
		for _, n := range deleted {
			nondet.Assert("C11.ers.delete-once"+tag, n == 1)
		}
		// availability budget (maxUnavailable defaults to 1)
		nondet.Assert("C11.ers.budget"+tag, updDeletes <= 1)
	}
	monitor(c.Log[:n1], before, ".faulted")
	monitor(c.Log[n1:], mid, ".recovery")
	// the status write is the last call of the sync
	lastWrite := ""
	for _, e := range c.Log[:n1] {
		if e.Verb != "get" && e.Verb != "list" {
			lastWrite = e.Verb
		}
	}
	if lastWrite != "" {
		nondet.Assert("C11.ers.status-last", lastWrite == "status-update")
	}
	// failures are not lost: the persisted ReconcileError condition (or the returned error) shows them
	if failedPodOps > 0 && !failedStatus {
		nondet.Fact("failureRecorded", recErr || err1 != nil) // decided by the C17 harness
	}
	if failedStatus {
		nondet.Assert("C11.ers.status-failure-returned", err1 != nil)
	}
	// the foreign pod survives both syncs
	alive := false
	for _, p := range c.Pods {
		if p.Name == "foreign" {
			alive = true
		}
	}
	nondet.Assert("C11.ers.foreign-pod-kept", alive)
	nondet.Observe("writes", len(c.Writes()))
	nondet.Reach("C11.ers.create-failed", failedPodOps > 0)
	nondet.Reach("C11.ers.status-failed", failedStatus)
	nondet.Reach("C11.ers.no-fault", failedPodOps == 0 && !failedStatus && len(c.Writes()) > 1)
}
