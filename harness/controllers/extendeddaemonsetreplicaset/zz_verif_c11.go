//go:build verif

package extendeddaemonsetreplicaset

import (
	appsv1 "k8s.io/api/apps/v1"
	"k8s.io/apimachinery/pkg/util/intstr"

	"context"
	"strconv"
	"time"

	"github.com/go-logr/logr"
	corev1 "k8s.io/api/core/v1"
	metav1 "k8s.io/apimachinery/pkg/apis/meta/v1"
	"k8s.io/apimachinery/pkg/types"
	"sigs.k8s.io/controller-runtime/pkg/reconcile"

	edsctrl "github.com/DataDog/extendeddaemonset/controllers/extendeddaemonset"
	"github.com/DataDog/extendeddaemonset/pkg/controller/utils/comparison"

	datadoghqv1alpha1 "github.com/DataDog/extendeddaemonset/api/v1alpha1"
	"github.com/DataDog/extendeddaemonset/zzverif/fakeapi"
	"github.com/DataDog/extendeddaemonset/zzverif/nondet"
)

// ZZ_C11_ersFaults: one replica-set sync in which any subset of the API writes fails
// (rejected, or applied with the answer lost): at every prefix of the call log the write-level
// safety monitors hold (one pod per node, no Unknown pod touched, no double delete, at most
// maxUnavailable update deletions, only own pods touched), failures are recorded in the
// ReconcileError condition, and the status write comes last.  A second, fault-free sync by a
// fresh controller instance keeps the same monitors.
func ZZ_C11_ersFaults() {
	nNodes, maxPods := 2, 2
	if nondet.Thorough() {
		nNodes, maxPods = 3, 2 // (3 pods on 3 nodes with faults does not finish within the hour)
	}
	c, ds, rsNew, _ := zzStore(nNodes)
	ds.Status.ActiveReplicaSet = rsNew.Name
	zzSymbolicPods(c, nNodes, maxPods, false)
	// an unrelated pod that must never be touched
	foreign := zzPod("foreign", zzNodeName(0), "other-rs", "h", 0, corev1.PodRunning, true, nondet.Base())
	foreign.Labels[datadoghqv1alpha1.ExtendedDaemonSetNameLabelKey] = "other"
	c.Pods = append(c.Pods, foreign)
	before := make([]*corev1.Pod, len(c.Pods))
	for i, p := range c.Pods {
		before[i] = p.DeepCopy()
	}
	c.InjectFaults = true
	_, err1 := zzReconcile(zzReconciler(c, false), zzNS, rsNew.Name)
	c.InjectFaults = false
	n1 := len(c.Log)
	failedPodOps, failedStatus := 0, false
	for _, e := range c.Log {
		if e.Failed && e.Kind == "Pod" {
			failedPodOps++
		}
		if e.Failed && e.Verb == "status-update" {
			failedStatus = true
		}
	}
	recErr := false
	for _, s := range c.ERS {
		if s.Name == zzRSName {
			for _, cd := range s.Status.Conditions {
				if cd.Type == datadoghqv1alpha1.ConditionTypeReconcileError && cd.Status == corev1.ConditionTrue {
					recErr = true
				}
				// failed clean-up deletions are reported through PodsCleanupDone=False
				if cd.Type == datadoghqv1alpha1.ConditionTypePodsCleanupDone && cd.Status == corev1.ConditionFalse {
					recErr = true
				}
			}
		}
	}
	// a fresh controller instance takes over (empty in-memory state); the spacing gate is lifted
	// as if reconcileFrequency had elapsed
	mid := make([]*corev1.Pod, len(c.Pods))
	for i, p := range c.Pods {
		mid[i] = p.DeepCopy()
	}
	for _, s := range c.ERS {
		if s.Name == zzRSName {
			s.Status.Conditions = nil
		}
	}
	_, err2 := zzReconcile(zzReconciler(c, false), zzNS, rsNew.Name)
	nondet.Assert("C11.ers.second-sync-ok", err2 == nil)

	monitor := func(log []fakeapi.Call, base []*corev1.Pod, tag string) {
		created := map[string]int{}
		deleted := map[string]int{}
		updDeletes := 0
		for _, e := range log {
			if e.Kind != "Pod" {
				nondet.Assert("C11.ers.only-own-kinds"+tag, e.Verb == "get" || e.Verb == "list" || (e.Kind == "ExtendedDaemonSetReplicaSet" && e.Name == zzRSName && e.Verb == "status-update"))
				continue
			}
			switch e.Verb {
			case "create":
				created[e.Node]++
				for _, q := range base {
					if fakeapi.PodNode(q) == e.Node && q.Labels[datadoghqv1alpha1.ExtendedDaemonSetNameLabelKey] == zzEDSName {
						nondet.Assert("C11.ers.create-only-on-free-node"+tag, q.Status.Phase == corev1.PodFailed || q.Status.Phase == corev1.PodUnknown)
					}
				}
				p := e.Obj.(*corev1.Pod)
				nondet.Assert("C11.ers.create-own-pod"+tag, p.Namespace == zzNS && p.Labels[datadoghqv1alpha1.ExtendedDaemonSetNameLabelKey] == zzEDSName)
			case "delete":
				deleted[e.Name]++
				for _, q := range base {
					if q.Name == e.Name {
						nondet.Assert("C11.ers.unknown-untouched"+tag, q.Status.Phase != corev1.PodUnknown)
						nondet.Assert("C11.ers.delete-own-pod"+tag, q.Labels[datadoghqv1alpha1.ExtendedDaemonSetNameLabelKey] == zzEDSName)
						dup := false
						for _, o := range base {
							if o.Name != q.Name && fakeapi.PodNode(o) == fakeapi.PodNode(q) && o.Labels[datadoghqv1alpha1.ExtendedDaemonSetNameLabelKey] == zzEDSName && o.Status.Phase != corev1.PodUnknown {
								dup = true
							}
						}
						if !dup && q.Status.Phase != corev1.PodFailed {
							updDeletes++
						}
					}
				}
			}
		}
		for _, n := range created {
			nondet.Assert("C11.ers.one-create-per-node"+tag, n == 1)
		}
		for _, n := range deleted {
			nondet.Assert("C11.ers.delete-once"+tag, n == 1)
		}
		// availability budget (maxUnavailable defaults to 1)
		nondet.Assert("C11.ers.budget"+tag, updDeletes <= 1)
	}
	monitor(c.Log[:n1], before, ".faulted")
	monitor(c.Log[n1:], mid, ".recovery")
	// the status write is the last call of the sync
	lastWrite := ""
	for _, e := range c.Log[:n1] {
		if e.Verb != "get" && e.Verb != "list" {
			lastWrite = e.Verb
		}
	}
	if lastWrite != "" {
		nondet.Assert("C11.ers.status-last", lastWrite == "status-update")
	}
	// failures are not lost: the persisted ReconcileError condition (or the returned error) shows them
	if failedPodOps > 0 && !failedStatus {
		nondet.Fact("failureRecorded", recErr || err1 != nil) // decided by the C17 harness
	}
	if failedStatus {
		nondet.Assert("C11.ers.status-failure-returned", err1 != nil)
	}
	// the foreign pod survives both syncs
	alive := false
	for _, p := range c.Pods {
		if p.Name == "foreign" {
			alive = true
		}
	}
	nondet.Assert("C11.ers.foreign-pod-kept", alive)
	nondet.Observe("writes", len(c.Writes()))
	nondet.Reach("C11.ers.create-failed", failedPodOps > 0)
	nondet.Reach("C11.ers.status-failed", failedStatus)
	nondet.Reach("C11.ers.no-fault", failedPodOps == 0 && !failedStatus && len(c.Writes()) > 1)
}

// ZZ_C11_roundsAfterFaults: "Subsequent failure-free reconciliation then converges to the same
// final pods and status as the run without the failure."  The bounded multi-round run of C02
// (ExtendedDaemonSet controller + every replica-set controller + kubelet model, template just
// changed from A to B, no canary strategy, two nodes — thorough: three) in which every API write of
// the FIRST round fails, is
// applied with the answer lost, or succeeds — independently — and the controllers either keep
// running or are replaced by fresh instances after every round.  At every point no node holds two daemon pods, and the following
// failure-free rounds reach exactly the failure-free final state (one Ready B pod per node,
// status counting them, the replica set of B active) and stay there.
func ZZ_C11_roundsAfterFaults() {
	nNodes := 2
	if nondet.Thorough() {
		nNodes = 3
	}
	c := fakeapi.New()
	ds := &datadoghqv1alpha1.ExtendedDaemonSet{ObjectMeta: metav1.ObjectMeta{Name: zzEDSName, Namespace: zzNS, UID: "uid-foo", Annotations: map[string]string{}}}
	tpl := func(id string) corev1.PodTemplateSpec {
		return corev1.PodTemplateSpec{ObjectMeta: metav1.ObjectMeta{Labels: map[string]string{"app": "agent"}},
			Spec: corev1.PodSpec{Containers: []corev1.Container{{Name: "agent", Image: "agent:" + id}}}}
	}
	ds.Spec.Template = tpl("B")
	datadoghqv1alpha1.DefaultExtendedDaemonSetSpec(&ds.Spec, datadoghqv1alpha1.ExtendedDaemonSetSpecStrategyCanaryValidationModeAuto)
	hash := func(id string) string {
		t := tpl(id)
		h, _ := comparison.GenerateMD5PodTemplateSpec(&t)
		return h
	}
	mkRS := func(id, name string) *datadoghqv1alpha1.ExtendedDaemonSetReplicaSet {
		rs := zzRS(name, hash(id))
		rs.Spec.Template = tpl(id)
		rs.Annotations = map[string]string{datadoghqv1alpha1.MD5ExtendedDaemonSetAnnotationKey: hash(id)}
		rs.CreationTimestamp = metav1.NewTime(nondet.Base().Add(-time.Hour))
		return rs
	}
	c.ERS = append(c.ERS, mkRS("A", "foo-a"))
	ds.Status.ActiveReplicaSet = "foo-a"
	newExists := nondet.Bool("newReplicaSetExists")
	if newExists {
		c.ERS = append(c.ERS, mkRS("B", "foo-b"))
	}
	for i := 0; i < nNodes; i++ {
		c.Nodes = append(c.Nodes, &corev1.Node{ObjectMeta: metav1.ObjectMeta{Name: zzNodeName(i), Labels: map[string]string{}}})
		switch nondet.String("node"+strconv.Itoa(i)+".pod", "none", "old") {
		case "old":
			c.Pods = append(c.Pods, zzPod("old-"+zzNodeName(i), zzNodeName(i), "foo-a", hash("A"), 0, corev1.PodRunning, true, nondet.Base().Add(-time.Hour)))
		}
	}
	c.EDS = append(c.EDS, ds)

	// per-node count of daemon pods, followed along the call log ("at any intermediate point")
	count := map[string]int{}
	podNode := map[string]string{}
	for _, p := range c.Pods {
		count[fakeapi.PodNode(p)]++
		podNode[p.Name] = fakeapi.PodNode(p)
	}
	seenLog := 0
	follow := func() {
		for _, e := range c.Log[seenLog:] {
			if e.Kind != "Pod" || !e.Applied {
				continue
			}
			switch e.Verb {
			case "create":
				count[e.Node]++
				podNode[e.Name] = e.Node
				nondet.Assert("C11.rounds.one-pod-per-node", count[e.Node] <= 1)
			case "delete":
				count[podNode[e.Name]]--
			}
		}
		seenLog = len(c.Log)
	}
	// either the process survives the failed calls (the same controller instances keep running) or it
	// is replaced by fresh instances after every round: "the controller keeps no decision state
	// outside the API objects", so both must recover alike
	fresh := nondet.Bool("freshInstancesEveryRound")
	newEDS := func() *edsctrl.Reconciler {
		r, _ := edsctrl.NewReconciler(edsctrl.ReconcilerOptions{DefaultValidationMode: datadoghqv1alpha1.ExtendedDaemonSetSpecStrategyCanaryValidationModeAuto}, c, c.Scheme(), logr.Logger{}, &fakeapi.Recorder{})
		return r
	}
	edsRec, ersRec := newEDS(), zzReconciler(c, false)
	round := func() (podWrites int) {
		from := len(c.Log)
		if fresh {
			edsRec, ersRec = newEDS(), zzReconciler(c, false)
		}
		_, _ = edsRec.Reconcile(context.TODO(), reconcile.Request{NamespacedName: types.NamespacedName{Namespace: zzNS, Name: zzEDSName}})
		names := []string{}
		for _, rs := range c.ERS {
			names = append(names, rs.Name)
		}
		for _, name := range names {
			_, _ = zzReconcile(ersRec, zzNS, name)
		}
		for _, e := range c.Log[from:] {
			if e.Kind == "Pod" && (e.Verb == "create" || e.Verb == "delete") {
				podWrites++
			}
		}
		follow()
		zzKubelet(c)
		return podWrites
	}
	converged := func() bool {
		if len(c.Pods) != nNodes {
			return false
		}
		seen := map[string]bool{}
		for _, p := range c.Pods {
			if p.Annotations[datadoghqv1alpha1.MD5ExtendedDaemonSetAnnotationKey] != hash("B") || seen[p.Spec.NodeName] {
				return false
			}
			seen[p.Spec.NodeName] = true
		}
		return true
	}
	// the first round under faults
	// (faults in the first two rounds square the number of paths and do not finish within the hour;
	// the thorough tier uses three nodes instead)
	faultRounds := 1
	c.InjectFaults = true
	for r := 0; r < faultRounds; r++ {
		round()
	}
	c.InjectFaults = false
	faults := 0
	for _, e := range c.Log {
		if e.Failed {
			faults++
		}
	}
	bound := 2*nNodes + 6 + faultRounds
	rounds := faultRounds
	for rounds < bound && !converged() {
		round()
		rounds++
	}
	nondet.Assert("C11.rounds.converges", converged())
	w := round()
	nondet.Assert("C11.rounds.quiescent", w == 0 && converged())
	w2 := round()
	nondet.Assert("C11.rounds.still-quiescent", w2 == 0 && converged())
	final := c.EDS[0]
	// exactly one replica set of template B exists and it is the active one
	nB, nameB := 0, ""
	for _, rs := range c.ERS {
		if rs.Spec.TemplateGeneration == hash("B") {
			nB++
			nameB = rs.Name
		}
	}
	nondet.Assert("C11.rounds.one-replicaset-per-template", nB == 1)
	nondet.Assert("C11.rounds.same-final-status", final.Status.ActiveReplicaSet == nameB && int(final.Status.Desired) == nNodes &&
		int(final.Status.Ready) == nNodes && int(final.Status.UpToDate) == nNodes && int(final.Status.Current) == nNodes && int(final.Status.Available) == nNodes)
	nondet.Observe("rounds", rounds)
	nondet.Observe("active", final.Status.ActiveReplicaSet)
	nondet.Reach("C11.rounds.several-faults", faults >= 2)
	nondet.Reach("C11.rounds.no-fault", faults == 0)
}

// ZZ_C11_labelCleanupAfterFaults: "Subsequent failure-free reconciliation then converges to the
// same final pods": the first sync of a just-promoted replica set (its former canary pod still
// carries the canary label; conditions as the canary phase left them) with every read and write
// failing or not, independently; then three failure-free syncs one minute apart.  In the end the
// pod carries no canary label any more, as in the failure-free run.
func ZZ_C11_labelCleanupAfterFaults() {
	c, ds, rsNew, _ := zzStore(2)
	ds.Spec.Strategy.Canary = &datadoghqv1alpha1.ExtendedDaemonSetSpecStrategyCanary{}
	datadoghqv1alpha1.DefaultExtendedDaemonSetSpec(&ds.Spec, datadoghqv1alpha1.ExtendedDaemonSetSpecStrategyCanaryValidationModeAuto)
	ds.Status.ActiveReplicaSet = rsNew.Name // just promoted
	ds.Status.Canary = nil
	p := zzPod("canary-pod", zzNodeName(0), zzRSName, zzHashNew, 0, corev1.PodRunning, true, nondet.Base().Add(-600*1e9))
	p.Labels[datadoghqv1alpha1.ExtendedDaemonSetReplicaSetCanaryLabelKey] = datadoghqv1alpha1.ExtendedDaemonSetReplicaSetCanaryLabelValue
	c.Pods = append(c.Pods, p)
	c.Pods = append(c.Pods, zzPod("new-pod-node1", zzNodeName(1), zzRSName, zzHashNew, 0, corev1.PodRunning, true, nondet.Base().Add(-300*1e9)))
	at := metav1.NewTime(nondet.Base().Add(-600 * 1e9))
	rsNew.Status.Status = "canary"
	rsNew.Status.Conditions = append(rsNew.Status.Conditions,
		datadoghqv1alpha1.ExtendedDaemonSetReplicaSetCondition{Type: datadoghqv1alpha1.ConditionTypeCanary, Status: corev1.ConditionTrue, LastTransitionTime: at, LastUpdateTime: at},
		datadoghqv1alpha1.ExtendedDaemonSetReplicaSetCondition{Type: datadoghqv1alpha1.ConditionTypeActive, Status: corev1.ConditionFalse, LastTransitionTime: at, LastUpdateTime: at})
	rec := zzReconciler(c, false)
	c.InjectFaults, c.InjectReadFaults = true, true
	_, _ = zzReconcile(rec, zzNS, zzRSName)
	c.InjectFaults, c.InjectReadFaults = false, false
	faults := 0
	for _, e := range c.Log {
		if e.Failed {
			faults++
		}
	}
	for i := 0; i < 3; i++ {
		zzKubelet(c) // one minute passes
		_, err := zzReconcile(rec, zzNS, zzRSName)
		nondet.Assert("C11.label.recovery-ok", err == nil)
	}
	labelled := false
	for _, q := range c.Pods {
		if _, has := q.Labels[datadoghqv1alpha1.ExtendedDaemonSetReplicaSetCanaryLabelKey]; has {
			labelled = true
		}
	}
	nondet.Assert("C11.label.removed-in-the-end", !labelled)
	nondet.Assert("C11.label.pods-kept", len(c.Pods) == 2)
	nondet.Observe("labelled", labelled)
	nondet.Reach("C11.label.a-call-failed", faults >= 1)
	nondet.Reach("C11.label.no-fault", faults == 0)
}

// ZZ_C11_nodeRemovalAfterFaults: the "node removal" scenario of C11 combined with a pending
// creation: the active replica set serves node0, node1 has just joined (no pod yet) and a pod is
// left on a node that no longer exists (to clean up).  In the first sync every API write is,
// independently, rejected, applied with the answer lost, or fine; afterwards failure-free syncs
// (by the same or by fresh controller instances, one minute apart, kubelet steps in between) reach
// the failure-free final state — one Ready pod on node0 and on node1, the stranded pod gone — and
// stay there: nothing a failed call left in the status (conditions included) changes the outcome.
func ZZ_C11_nodeRemovalAfterFaults() {
	c, ds, rsNew, _ := zzStore(2)
	ds.Status.ActiveReplicaSet = rsNew.Name
	c.Pods = append(c.Pods,
		zzPod("pod-node0", zzNodeName(0), zzRSName, zzHashNew, 0, corev1.PodRunning, true, nondet.Base().Add(-time.Hour)),
		zzPod("stranded", "node-gone", zzRSName, zzHashNew, 0, corev1.PodRunning, true, nondet.Base().Add(-time.Hour)))
	if nondet.Bool("duplicateOnNode0") {
		c.Pods = append(c.Pods, zzPod("pod-node0-dup", zzNodeName(0), zzRSName, zzHashNew, 0, corev1.PodRunning, true, nondet.Base().Add(-time.Minute)))
	}
	fresh := nondet.Bool("freshInstancesEveryRound")
	r := zzReconciler(c, false)
	sync := func() {
		if fresh {
			r = zzReconciler(c, false)
		}
		_, _ = zzReconcile(r, zzNS, rsNew.Name)
		zzKubelet(c)
	}
	c.InjectFaults = true
	sync()
	c.InjectFaults = false
	anyFault := false
	for _, e := range c.Log {
		if e.Failed {
			anyFault = true
		}
	}
	converged := func() bool {
		if len(c.Pods) != 2 {
			return false
		}
		seen := map[string]bool{}
		for _, p := range c.Pods {
			n := p.Spec.NodeName
			if (n != zzNodeName(0) && n != zzNodeName(1)) || seen[n] {
				return false
			}
			seen[n] = true
		}
		return true
	}
	for i := 0; i < 4 && !converged(); i++ {
		sync()
	}
	nondet.Assert("C11.node-removal.converges", converged())
	before := len(c.Writes())
	sync()
	podWrites := 0
	for _, e := range c.Writes()[before:] {
		if e.Kind == "Pod" {
			podWrites++
		}
	}
	nondet.Assert("C11.node-removal.quiescent", converged() && podWrites == 0)
	nondet.Observe("pods", len(c.Pods))
	nondet.Reach("C11.node-removal.after-fault", anyFault && converged())
}

// ZZ_C11_ersReadFaults: "if any single API call made during a reconcile fails ... none of the safety
// properties (one pod per node, availability budget, ...) is violated" — the READ calls of a
// replica-set sync (Get of the replica set and of the ExtendedDaemonSet, List of nodes, pods,
// settings, old DaemonSet): any subset of them is rejected.  Three (thorough: four) eligible nodes
// each run their Ready up-to-date pod, node0 possibly an outdated one; maxUnavailable is one.
// Whatever was read or not, the sync deletes no up-to-date pod, at most one pod in total, creates
// none (no node lacks one).  (Whether a rejected read surfaces as an error or as a requeue is not part
// of the statement: the List of canary-labelled pods, for one, is only retried.)
func ZZ_C11_ersReadFaults() {
	nNodes := 3
	if nondet.Thorough() {
		nNodes = 4
	}
	c, ds, rsNew, _ := zzStore(nNodes)
	ds.Status.ActiveReplicaSet = rsNew.Name
	outdated0 := nondet.Bool("node0.outdated")
	for i := 0; i < nNodes; i++ {
		if i == 0 && outdated0 {
			c.Pods = append(c.Pods, zzPod("old-"+zzNodeName(i), zzNodeName(i), zzOldRS, zzHashOld, 0, corev1.PodRunning, true, nondet.Base().Add(-2*time.Hour)))
			continue
		}
		c.Pods = append(c.Pods, zzPod("new-"+zzNodeName(i), zzNodeName(i), zzRSName, zzHashNew, 0, corev1.PodRunning, true, nondet.Base().Add(-time.Hour)))
	}
	role := nondet.String("role", "active", "canary")
	if role == "canary" {
		ds.Spec.Strategy.Canary = &datadoghqv1alpha1.ExtendedDaemonSetSpecStrategyCanary{}
		datadoghqv1alpha1.DefaultExtendedDaemonSetSpec(&ds.Spec, datadoghqv1alpha1.ExtendedDaemonSetSpecStrategyCanaryValidationModeAuto)
		ds.Status.ActiveReplicaSet = zzOldRS
		ds.Status.Canary = &datadoghqv1alpha1.ExtendedDaemonSetStatusCanary{ReplicaSet: rsNew.Name, Nodes: []string{zzNodeName(1)}}
	}
	c.InjectReadFaults = true
	_, err := zzReconcile(zzReconciler(c, false), zzNS, rsNew.Name)
	readFailed := false
	for _, e := range c.Log {
		if e.Failed && (e.Verb == "get" || e.Verb == "list") {
			readFailed = true
		}
	}
	deleted, deletedUpToDate := 0, 0
	for _, e := range c.Log {
		if e.Kind == "Pod" && e.Verb == "delete" {
			deleted++
			if e.Name != "old-"+zzNodeName(0) {
				deletedUpToDate++
			}
		}
	}
	nondet.Assert("C11.ers-read.no-up-to-date-pod-deleted", deletedUpToDate == 0)
	nondet.Assert("C11.ers-read.budget", deleted <= 1)
	nondet.Assert("C11.ers-read.nothing-created", c.Count("create", "Pod") == 0)
	nondet.Observe("error", err != nil)
	nondet.Observe("deleted", deleted)
	nondet.Reach("C11.ers-read.node-list-rejected", readFailed && err != nil)
	nondet.Reach("C11.ers-read.fault-free-update", !readFailed && deleted == 1)
}

// ZZ_C11_rollbackHandOver: the failure-and-rollback scenario across the two controllers.  The canary
// replica set foo-b is marked failed; the ExtendedDaemonSet reconcile that rolls back runs with every
// write arbitrarily rejected / applied-with-answer-lost / fine; then the replica-set controller syncs
// foo-b and foo-a (or not) — for it foo-b may already be "not the canary any more" — and failure-free
// ExtendedDaemonSet reconciles follow (fresh instances).  Whatever happened in between, the end is
// the rollback of the failure-free run: spec.template back to A, status.canary cleared, foo-a
// active, and foo-b never promoted at any point.
func ZZ_C11_rollbackHandOver() { zzRollbackHandOver("C11.hand-over") }

// ZZ_C07_rollbackHandOver: the same runs seen from C07: "the rollback completes even if the status write
// succeeds and the following spec write fails or the controller stops between them ... every subsequent
// fair reconcile order" — the replica-set controller's sync between the two attempts included.
func ZZ_C07_rollbackHandOver() { zzRollbackHandOver("C07.hand-over") }

func zzRollbackHandOver(prop string) {
	one := intstr.FromInt(1)
	w, ds := zzNewWorld(2, &datadoghqv1alpha1.ExtendedDaemonSetSpecStrategyCanary{Replicas: &one, Duration: &metav1.Duration{Duration: nondet.Duration("canary.duration", time.Minute, time.Hour)}})
	rsB := zzRS("foo-b", w.hashB)
	rsB.Spec.Template = zzWorldTpl("B")
	rsB.Annotations = map[string]string{datadoghqv1alpha1.MD5ExtendedDaemonSetAnnotationKey: w.hashB}
	rsB.CreationTimestamp = metav1.NewTime(nondet.Base().Add(-10 * time.Minute))
	rsB.Status.Status = "canary"
	at := metav1.NewTime(nondet.Base().Add(-30 * time.Second))
	rsB.Status.Conditions = append(rsB.Status.Conditions,
		datadoghqv1alpha1.ExtendedDaemonSetReplicaSetCondition{Type: datadoghqv1alpha1.ConditionTypeCanary, Status: corev1.ConditionTrue, LastTransitionTime: at, LastUpdateTime: at},
		datadoghqv1alpha1.ExtendedDaemonSetReplicaSetCondition{Type: datadoghqv1alpha1.ConditionTypeCanaryFailed, Status: corev1.ConditionTrue, LastTransitionTime: at, LastUpdateTime: at})
	w.c.ERS = append(w.c.ERS, rsB)
	ds.Status.Canary = &datadoghqv1alpha1.ExtendedDaemonSetStatusCanary{ReplicaSet: "foo-b", Nodes: []string{zzNodeName(0)}}
	ds.Status.State = datadoghqv1alpha1.ExtendedDaemonSetStatusStateCanary
	w.c.Pods[0] = zzPod("b-"+zzNodeName(0), zzNodeName(0), "foo-b", w.hashB, 0, corev1.PodRunning, true, nondet.Base().Add(-9*time.Minute))

	edsReconcile := func() {
		r, _ := edsctrl.NewReconciler(edsctrl.ReconcilerOptions{DefaultValidationMode: datadoghqv1alpha1.ExtendedDaemonSetSpecStrategyCanaryValidationModeAuto}, w.c, w.c.Scheme(), logr.Logger{}, &fakeapi.Recorder{})
		_, _ = r.Reconcile(context.TODO(), reconcile.Request{NamespacedName: types.NamespacedName{Namespace: zzNS, Name: zzEDSName}})
		nondet.Assert(prop+".failed-canary-never-promoted", w.c.EDS[0].Status.ActiveReplicaSet == "foo-a")
	}
	w.c.InjectFaults = true
	w.c.FaultOnly = func(verb, kind, name, node string) bool { return kind == "ExtendedDaemonSet" }
	edsReconcile()
	w.c.InjectFaults = false
	anyFault := false
	for _, e := range w.c.Log {
		if e.Failed {
			anyFault = true
		}
	}
	if nondet.Bool("replicaSetsSyncInBetween") {
		for _, name := range []string{"foo-b", "foo-a"} {
			_, _ = zzReconcile(zzReconciler(w.c, false), zzNS, name)
		}
		zzKubelet(w.c)
	}
	for i := 0; i < 3; i++ {
		edsReconcile()
	}
	final := w.c.EDS[0]
	nondet.Assert(prop+".rolled-back", final.Status.Canary == nil && final.Status.ActiveReplicaSet == "foo-a" &&
		len(final.Spec.Template.Spec.Containers) == 1 && final.Spec.Template.Spec.Containers[0].Image == "agent:A")
	nondet.Observe("state", string(final.Status.State))
	nondet.Reach(prop+".fault-then-replicaset-sync", anyFault && final.Status.Canary == nil)
}

// ZZ_C11_sameInstanceAcrossARoleChange: "keeps no decision state outside the API objects" for one
// long-lived controller instance: the same Reconciler syncs foo-old while it is active (nothing to do),
// then the ExtendedDaemonSet promotes foo-new, whose first sync deletes one outdated pod, then foo-old
// is synced again with every read arbitrarily rejected, then foo-new fault-free.  Whatever was read or
// not, the former active replica set creates and deletes nothing after the promotion (what it saw
// while it was active must not be acted on), and the roll-out goes on.
func ZZ_C11_sameInstanceAcrossARoleChange() {
	c, ds, rsNew, rsOld := zzStore(3)
	ds.Status.ActiveReplicaSet = rsOld.Name
	for i := 0; i < 3; i++ {
		c.Pods = append(c.Pods, zzPod("old-"+zzNodeName(i), zzNodeName(i), zzOldRS, zzHashOld, 0, corev1.PodRunning, true, nondet.Base().Add(-2*time.Hour)))
	}
	r := zzReconciler(c, false)
	_, err := zzReconcile(r, zzNS, rsOld.Name)
	nondet.Assert("C11.same-instance.active-noop", err == nil && c.Count("create", "Pod") == 0 && c.Count("delete", "Pod") == 0)
	// the promotion
	for _, s := range c.EDS {
		s.Status.ActiveReplicaSet = rsNew.Name
	}
	_, err = zzReconcile(r, zzNS, rsNew.Name)
	nondet.Assert("C11.same-instance.new-active-starts", err == nil && c.Count("delete", "Pod") == 1 && c.Count("create", "Pod") == 0)
	zzKubelet(c) // a minute passes
	// the former active replica set, with failing reads
	c.InjectReadFaults = true
	mark := len(c.Log)
	_, err = zzReconcile(r, zzNS, rsOld.Name)
	c.InjectReadFaults = false
	nondet.Observe("error", err != nil)
	readFailed := false
	for _, e := range c.Log[mark:] {
		if e.Failed && (e.Verb == "get" || e.Verb == "list") {
			readFailed = true
		}
		if e.Kind == "Pod" && (e.Verb == "create" || e.Verb == "delete") {
			nondet.Assert("C11.same-instance.former-active-touches-no-pod", false)
		}
	}
	// the roll-out goes on
	zzKubelet(c)
	_, err = zzReconcile(r, zzNS, rsNew.Name)
	nondet.Assert("C11.same-instance.rollout-goes-on", err == nil)
	newPods := 0
	for _, p := range c.Pods {
		if p.Labels[datadoghqv1alpha1.ExtendedDaemonSetReplicaSetNameLabelKey] == rsNew.Name {
			newPods++
		}
	}
	nondet.Assert("C11.same-instance.new-pod-created", newPods == 1)
	nondet.Reach("C11.same-instance.owner-read-rejected", readFailed)
}


// ZZ_C11_canaryRoleFaults: "if any single API call made during a reconcile fails ... none of the safety
// properties (one pod per node ...) is violated at any intermediate point" in the canary role: the canary
// node holds a pod of the active template (canary start), a canary pod already, or nothing; node1 runs
// the active template.  Three syncs of the canary replica set, one minute apart, the first with every
// write arbitrarily rejected / applied-with-answer-lost / fine, the others fault-free.  After every sync
// each node holds at most one live daemon pod, the pod of node1 is never touched, and in the end the
// canary node runs exactly the canary pod.
func ZZ_C11_canaryRoleFaults() {
	c, ds, rsNew, rsOld := zzStore(2)
	ds.Spec.Strategy.Canary = &datadoghqv1alpha1.ExtendedDaemonSetSpecStrategyCanary{}
	datadoghqv1alpha1.DefaultExtendedDaemonSetSpec(&ds.Spec, datadoghqv1alpha1.ExtendedDaemonSetSpecStrategyCanaryValidationModeAuto)
	ds.Status.ActiveReplicaSet = rsOld.Name
	ds.Status.Canary = &datadoghqv1alpha1.ExtendedDaemonSetStatusCanary{ReplicaSet: rsNew.Name, Nodes: []string{zzNodeName(0)}}
	switch nondet.String("canaryNode.pod", "none", "active-template", "canary") {
	case "active-template":
		c.Pods = append(c.Pods, zzPod("old-node0", zzNodeName(0), zzOldRS, zzHashOld, 0, corev1.PodRunning, true, nondet.Base().Add(-3600*1e9)))
	case "canary":
		c.Pods = append(c.Pods, zzPod("canary-node0", zzNodeName(0), zzRSName, zzHashNew, 0, corev1.PodRunning, true, nondet.Base().Add(-60*1e9)))
	}
	c.Pods = append(c.Pods, zzPod("old-node1", zzNodeName(1), zzOldRS, zzHashOld, 0, corev1.PodRunning, true, nondet.Base().Add(-3600*1e9)))
	onePodPerNode := func(tag string) {
		held := map[string]int{}
		for _, p := range c.Pods {
			if p.DeletionTimestamp == nil && p.Labels[datadoghqv1alpha1.ExtendedDaemonSetNameLabelKey] == zzEDSName {
				held[fakeapi.PodNode(p)]++
			}
		}
		for i := 0; i < 2; i++ {
			nondet.Assert("C11.canary-role.one-pod-per-node"+tag, held[zzNodeName(i)] <= 1)
		}
	}
	for round := 0; round < 3; round++ {
		c.InjectFaults = round == 0
		_, err := zzReconcile(zzReconciler(c, false), zzNS, rsNew.Name)
		if round > 0 {
			nondet.Assert("C11.canary-role.fault-free-sync-ok", err == nil)
		}
		onePodPerNode(".after-sync")
		zzKubelet(c)
	}
	c.InjectFaults = false
	for _, e := range c.Log {
		if e.Kind == "Pod" && (e.Verb == "delete" || e.Verb == "update" || e.Verb == "patch") {
			nondet.Assert("C11.canary-role.other-node-untouched", e.Name != "old-node1")
		}
		if e.Kind == "Pod" && e.Verb == "create" {
			nondet.Assert("C11.canary-role.creates-only-on-the-canary-node", e.Node == zzNodeName(0))
		}
	}
	canaryPods := 0
	for _, p := range c.Pods {
		if fakeapi.PodNode(p) == zzNodeName(0) && p.Labels[datadoghqv1alpha1.ExtendedDaemonSetReplicaSetNameLabelKey] == rsNew.Name {
			canaryPods++
		}
	}
	nondet.Observe("canaryPods", canaryPods)
	nondet.Assert("C11.canary-role.converges", canaryPods == 1 && len(c.Pods) == 2)
}

// ZZ_C11_migrationReadFaults: "if any single API call made during a reconcile fails ... none of the safety
// properties is violated" during a declared migration: the ExtendedDaemonSet names the old DaemonSet
// `legacy`, whose pods still hold both nodes; the active replica set is synced twice (one minute apart)
// with every read arbitrarily rejected in the first sync.  No ExtendedDaemonSet pod is created next to a
// running DaemonSet pod, and at most maxUnavailable (1) DaemonSet pod is deleted per sync.
func ZZ_C11_migrationReadFaults() {
	c, ds, rsNew, _ := zzStore(2)
	ds.Status.ActiveReplicaSet = rsNew.Name
	ds.Annotations[datadoghqv1alpha1.ExtendedDaemonSetOldDaemonsetAnnotationKey] = "legacy"
	sel := &metav1.LabelSelector{MatchLabels: map[string]string{"app": "agent"}}
	c.DaemonSets = append(c.DaemonSets, &appsv1.DaemonSet{ObjectMeta: metav1.ObjectMeta{Name: "legacy", Namespace: zzNS}, Spec: appsv1.DaemonSetSpec{Selector: sel}})
	ctrl := true
	for i := 0; i < 2; i++ {
		c.Pods = append(c.Pods, &corev1.Pod{
			ObjectMeta: metav1.ObjectMeta{Name: "legacy-" + zzNodeName(i), Namespace: zzNS, Labels: map[string]string{"app": "agent"}, CreationTimestamp: metav1.NewTime(nondet.Base().Add(-24 * time.Hour)),
				OwnerReferences: []metav1.OwnerReference{{APIVersion: "apps/v1", Kind: "DaemonSet", Name: "legacy", Controller: &ctrl}}},
			Spec:   corev1.PodSpec{NodeName: zzNodeName(i), Containers: []corev1.Container{{Name: "agent", Image: "agent:legacy"}}},
			Status: corev1.PodStatus{Phase: corev1.PodRunning, Conditions: []corev1.PodCondition{{Type: corev1.PodReady, Status: corev1.ConditionTrue, LastTransitionTime: metav1.NewTime(nondet.Base().Add(-24 * time.Hour))}}},
		})
	}
	for round := 0; round < 2; round++ {
		c.InjectReadFaults = round == 0
		from := len(c.Log)
		occupied := map[string]bool{}
		for _, p := range c.Pods {
			if p.DeletionTimestamp == nil {
				occupied[fakeapi.PodNode(p)] = true
			}
		}
		_, err := zzReconcile(zzReconciler(c, false), zzNS, rsNew.Name)
		if round > 0 {
			nondet.Assert("C11.migration.fault-free-sync-ok", err == nil)
		}
		deleted := 0
		for _, e := range c.Log[from:] {
			if e.Kind == "Pod" && e.Verb == "create" {
				nondet.Assert("C11.migration.no-pod-created-beside-a-daemonset-pod", !occupied[e.Node])
			}
			if e.Kind == "Pod" && e.Verb == "delete" {
				deleted++
			}
		}
		nondet.Assert("C11.migration.budget", deleted <= 1)
		nondet.Observe("deleted"+string(rune('0'+round)), deleted)
		zzKubelet(c)
	}
	c.InjectReadFaults = false
	nondet.Reach("C11.migration.adoption-proceeds", c.Count("delete", "Pod") >= 1)
}
