//go:build verif

package extendeddaemonsetreplicaset

import (
	podutils "github.com/DataDog/extendeddaemonset/pkg/controller/utils/pod"
	corev1 "k8s.io/api/core/v1"
	metav1 "k8s.io/apimachinery/pkg/apis/meta/v1"
	"k8s.io/apimachinery/pkg/util/intstr"

	datadoghqv1alpha1 "github.com/DataDog/extendeddaemonset/api/v1alpha1"
	"github.com/DataDog/extendeddaemonset/zzverif/nondet"
)

// ZZ_C17_errorAccounting: under the engine's single goroutine schedule, every error returned
// by a pod creation, an update deletion or a clean-up deletion of a sync is reflected in the
// error the reconcile returns or in the replica set's ReconcileError / PodsCleanupDone
// condition.  (Data-race freedom, the other half of C17, is NOT decided: one schedule only.)
func ZZ_C17_errorAccounting() {
	c, ds, rsNew, _ := zzStore(3)
	ds.Status.ActiveReplicaSet = rsNew.Name
	two := intstr.FromInt(2) // node2 lacks a pod; a budget of two still allows the update deletion on node1
	ds.Spec.Strategy.RollingUpdate.MaxUnavailable = &two
	// node0: two daemon pods (one is a duplicate to clean up); node1: one outdated available pod
	// (update deletion); node2: no pod (creation)
	dup := nondet.Bool("withDuplicate")
	c.Pods = append(c.Pods, zzPod("pod0", zzNodeName(0), zzRSName, zzHashNew, 0, corev1.PodRunning, true, nondet.Base().Add(-120*1e9)))
	// the clean-up list may also hold a duplicate that an earlier sync already deleted and the kubelet has
	// not removed yet (nothing is sent for it), listed before or after the one to delete now
	terminatingDup := func() {
		p := zzPod("pod0gone", zzNodeName(0), zzRSName, zzHashNew, 0, corev1.PodRunning, true, nondet.Base().Add(-90*1e9))
		t := metav1.NewTime(nondet.Base().Add(-5 * 1e9))
		p.DeletionTimestamp = &t
		c.Pods = append(c.Pods, p)
	}
	withGone := nondet.String("terminatingDuplicate", "none", "listed-before", "listed-after")
	if withGone == "listed-before" {
		terminatingDup()
	}
	if dup {
		c.Pods = append(c.Pods, zzPod("pod0dup", zzNodeName(0), zzRSName, zzHashNew, 0, corev1.PodRunning, true, nondet.Base().Add(-60*1e9)))
	}
	if withGone == "listed-after" {
		terminatingDup()
	}
	if nondet.Bool("withOutdated") {
		c.Pods = append(c.Pods, zzPod("pod1", zzNodeName(1), zzOldRS, zzHashOld, 0, corev1.PodRunning, true, nondet.Base().Add(-120*1e9)))
	} else {
		c.Pods = append(c.Pods, zzPod("pod1", zzNodeName(1), zzRSName, zzHashNew, 0, corev1.PodRunning, true, nondet.Base().Add(-120*1e9)))
	}
	// the replica set may just have been promoted from canary: its pod on node0 still carries the
	// canary label, which this sync removes (one more API write between the clean-up and the end)
	if nondet.Bool("formerCanaryPodStillLabelled") {
		c.Pods[0].Labels[datadoghqv1alpha1.ExtendedDaemonSetReplicaSetCanaryLabelKey] = datadoghqv1alpha1.ExtendedDaemonSetReplicaSetCanaryLabelValue
	}
	// the PodsCleanupDone condition may or may not exist from an earlier sync
	if nondet.Bool("cleanupCondExists") {
		c.ERS[0].Status.Conditions = append(c.ERS[0].Status.Conditions, datadoghqv1alpha1.ExtendedDaemonSetReplicaSetCondition{Type: datadoghqv1alpha1.ConditionTypePodsCleanupDone, Status: corev1.ConditionTrue})
	}
	// a creation can also fail before it reaches the API: the pod template already names another
	// controller as owner, so the generated pod cannot be given its owner reference (the pod is still
	// submitted); that error counts like any other
	alreadyOwned := nondet.Bool("templateAlreadyOwnedByAnotherController")
	if alreadyOwned {
		ctrl := true
		c.ERS[0].Spec.Template.OwnerReferences = []metav1.OwnerReference{{APIVersion: "batch/v1", Kind: "Job", Name: "someone-else", UID: "uid-job", Controller: &ctrl}}
	}
	c.InjectFaults = true
	c.InjectConflicts = true // a rejected status write may be an optimistic-locking conflict
	_, err := zzReconcile(zzReconciler(c, false), zzNS, rsNew.Name)

	failedCreate, failedDelete, failedCleanup, failedStatus := 0, 0, 0, false
	for _, e := range c.Log {
		if alreadyOwned && e.Kind == "Pod" && e.Verb == "create" && !e.Failed {
			failedCreate++ // generation error of a pod whose Create call succeeded
		}
		if !e.Failed {
			continue
		}
		switch {
		case e.Kind == "Pod" && e.Verb == "create":
			failedCreate++
		case e.Kind == "Pod" && e.Verb == "delete" && e.Name == "pod0dup":
			failedCleanup++
		case e.Kind == "Pod" && e.Verb == "delete":
			failedDelete++
		case e.Verb == "status-update":
			failedStatus = true
		}
	}
	recErr, cleanupFalse := false, false
	for _, s := range c.ERS {
		if s.Name == zzRSName {
			for _, cd := range s.Status.Conditions {
				if cd.Type == datadoghqv1alpha1.ConditionTypeReconcileError && cd.Status == corev1.ConditionTrue {
					recErr = true
				}
				if cd.Type == datadoghqv1alpha1.ConditionTypePodsCleanupDone && cd.Status == corev1.ConditionFalse {
					cleanupFalse = true
				}
			}
		}
	}
	nondet.Fact("cleanupDeleteFailed", failedCleanup > 0)
	nondet.Fact("createOrUpdateDeleteFailed", failedCreate+failedDelete > 0)
	if failedStatus {
		// the status could not be persisted: the failure of that write is what the reconcile returns
		nondet.Assert("C17.status-failure-returned", err != nil)
	} else {
		// "every error returned by a parallel pod creation or deletion is reflected in the error the
		// sync reports and in the replica set's ReconcileError or PodsCleanupDone condition rather
		// than being lost": both — the error the reconcile returns and a persisted condition
		if failedCreate+failedDelete > 0 {
			nondet.Assert("C17.create-delete-error-recorded", recErr && err != nil)
		}
		if failedCleanup > 0 {
			nondet.Assert("C17.cleanup-error-recorded", (recErr || cleanupFalse) && err != nil)
		}
		if failedCreate+failedDelete+failedCleanup == 0 {
			nondet.Assert("C17.no-spurious-error", !recErr && !cleanupFalse && err == nil)
		}
	}
	nondet.Observe("recorded", recErr || cleanupFalse)
	nondet.Reach("C17.create-failed", failedCreate > 0 && !failedStatus)
	nondet.Reach("C17.generation-error-only", alreadyOwned && failedCreate > 0 && failedDelete == 0 && failedCleanup == 0 && !failedStatus)
	nondet.Reach("C17.update-delete-failed", failedDelete > 0 && !failedStatus)
	nondet.Reach("C17.cleanup-failed", failedCleanup > 0 && !failedStatus)
	nondet.Reach("C17.all-ok", failedCreate+failedDelete+failedCleanup == 0 && !failedStatus)
}

// ZZ_C17_batches: the same accounting with batches: k nodes lacking a pod (k parallel
// creations), k outdated available pods (k parallel update deletions, budget k) and k nodes
// holding a duplicate (k parallel clean-up deletions); every pod call fails, is applied with the
// answer lost, or succeeds, independently.  k = 2 (quick) / 3 (thorough).  A failure of any one
// call of a batch — whichever position it has in the batch — must be recorded.
func ZZ_C17_batches() {
	k := 2
	if nondet.Thorough() {
		k = 3
	}
	c, ds, rsNew, _ := zzStore(3 * k)
	ds.Status.ActiveReplicaSet = rsNew.Name
	budget := intstr.FromInt(3 * k)
	ds.Spec.Strategy.RollingUpdate.MaxUnavailable = &budget
	ds.Spec.Strategy.RollingUpdate.MaxParallelPodCreation = func() *int32 { v := int32(3 * k); return &v }()
	inc := intstr.FromInt(3 * k)
	ds.Spec.Strategy.RollingUpdate.SlowStartAdditiveIncrease = &inc
	for i := 0; i < k; i++ {
		// nodes k..2k-1: outdated available pod; nodes 2k..3k-1: an up-to-date pod and its duplicate
		c.Pods = append(c.Pods, zzPod("out"+zzNodeName(k+i), zzNodeName(k+i), zzOldRS, zzHashOld, 0, corev1.PodRunning, true, nondet.Base().Add(-120*1e9)))
		c.Pods = append(c.Pods, zzPod("keep"+zzNodeName(2*k+i), zzNodeName(2*k+i), zzRSName, zzHashNew, 0, corev1.PodRunning, true, nondet.Base().Add(-120*1e9)))
		c.Pods = append(c.Pods, zzPod("dup"+zzNodeName(2*k+i), zzNodeName(2*k+i), zzRSName, zzHashNew, 0, corev1.PodRunning, true, nondet.Base().Add(-60*1e9)))
	}
	c.InjectFaults = true
	// an error is an error: a NotFound answer to a delete is reported like any other (those flavours in the quick
	// tier's batches of two only: batches of three with them did not finish in 30 minutes)
	c.InjectNotFound = k == 2
	_, err := zzReconcile(zzReconciler(c, false), zzNS, rsNew.Name)

	nCreate, nDelete, nCleanup := 0, 0, 0
	failedCreate, failedDelete, failedCleanup, failedStatus := 0, 0, 0, false
	for _, e := range c.Log {
		isCleanup := e.Kind == "Pod" && e.Verb == "delete" && len(e.Name) >= 3 && e.Name[:3] == "dup"
		switch {
		case e.Kind == "Pod" && e.Verb == "create":
			nCreate++
			if e.Failed {
				failedCreate++
			}
		case isCleanup:
			nCleanup++
			if e.Failed {
				failedCleanup++
			}
		case e.Kind == "Pod" && e.Verb == "delete":
			nDelete++
			if e.Failed {
				failedDelete++
			}
		case e.Verb == "status-update" && e.Failed:
			failedStatus = true
		}
	}
	recErr, cleanupFalse := false, false
	for _, s := range c.ERS {
		if s.Name == zzRSName {
			for _, cd := range s.Status.Conditions {
				if cd.Type == datadoghqv1alpha1.ConditionTypeReconcileError && cd.Status == corev1.ConditionTrue {
					recErr = true
				}
				if cd.Type == datadoghqv1alpha1.ConditionTypePodsCleanupDone && cd.Status == corev1.ConditionFalse {
					cleanupFalse = true
				}
			}
		}
	}
	// every planned call of each batch is attempted, also after an earlier one of the batch failed
	nondet.Assert("C17.batch.all-attempted", nCreate == k && nDelete == k && nCleanup == k)
	if failedStatus {
		nondet.Assert("C17.batch.status-failure-returned", err != nil)
	} else {
		if failedCreate+failedDelete > 0 {
			nondet.Assert("C17.batch.create-delete-error-recorded", recErr && err != nil)
		}
		if failedCleanup > 0 {
			nondet.Assert("C17.batch.cleanup-error-recorded", (recErr || cleanupFalse) && err != nil)
		}
		if failedCreate+failedDelete+failedCleanup == 0 {
			nondet.Assert("C17.batch.no-spurious-error", !recErr && !cleanupFalse && err == nil)
		}
	}
	nondet.Observe("recorded", recErr || cleanupFalse)
	nondet.Reach("C17.batch.first-ok-last-failed", failedCreate == 1 && failedDelete == 0 && failedCleanup == 0 && !failedStatus)
	nondet.Reach("C17.batch.only-cleanup-failed", failedCreate+failedDelete == 0 && failedCleanup == 1 && !failedStatus)
	nondet.Reach("C17.batch.all-failed", failedCreate == k && failedDelete == k && failedCleanup == k && !failedStatus)
}

// ZZ_C17_largeBatch: batches at the sizes the property names (2 .. 64 simultaneous calls).  One
// kind of batch per path (n creations, n update deletions or n clean-up deletions); exactly one
// call of the batch — at a symbolic position — fails (rejected, or applied with the answer lost)
// and every other call succeeds, or all of them fail.  The failure must be recorded whatever
// its position.  n in {2, 33, 64} (quick), {2, 3, 8, 16, 31, 32, 33, 48, 63, 64} (thorough).
func ZZ_C17_largeBatch() {
	sizes := []int{2, 33, 64}
	if nondet.Thorough() {
		sizes = []int{2, 3, 8, 16, 31, 32, 33, 48, 63, 64}
	}
	n := sizes[0]
	pick := nondet.Int("batchSize", 0, len(sizes)-1)
	for i, v := range sizes {
		if pick == i {
			n = v
		}
	}
	kind := nondet.String("batchKind", "create", "update-delete", "cleanup")
	c, ds, rsNew, _ := zzStore(n)
	ds.Status.ActiveReplicaSet = rsNew.Name
	budget := intstr.FromInt(n)
	ds.Spec.Strategy.RollingUpdate.MaxUnavailable = &budget
	ds.Spec.Strategy.RollingUpdate.MaxParallelPodCreation = func() *int32 { v := int32(n); return &v }()
	ds.Spec.Strategy.RollingUpdate.SlowStartAdditiveIncrease = &budget
	for i := 0; i < n; i++ {
		switch kind {
		case "update-delete":
			c.Pods = append(c.Pods, zzPod("out"+zzNodeName(i), zzNodeName(i), zzOldRS, zzHashOld, 0, corev1.PodRunning, true, nondet.Base().Add(-120*1e9)))
		case "cleanup":
			c.Pods = append(c.Pods, zzPod("keep"+zzNodeName(i), zzNodeName(i), zzRSName, zzHashNew, 0, corev1.PodRunning, true, nondet.Base().Add(-120*1e9)))
			c.Pods = append(c.Pods, zzPod("dup"+zzNodeName(i), zzNodeName(i), zzRSName, zzHashNew, 0, corev1.PodRunning, true, nondet.Base().Add(-60*1e9)))
		}
	}
	all := nondet.Bool("allFail")
	pos := 0
	if !all {
		// the failing position, made concrete (one path per position)
		p := nondet.Int("failingPosition", 0, n-1)
		for i := 0; i < n; i++ {
			if p == i {
				pos = i
			}
		}
	}
	// the failing call is identified by its node (not by arrival order: natively the calls of a
	// batch arrive in any order)
	failNode := zzNodeName(pos)
	c.FaultOnly = func(verb, k, name, node string) bool {
		if k != "Pod" || (verb != "create" && verb != "delete") {
			return false
		}
		return all || node == failNode
	}
	if all {
		c.FaultForce = 1
	}
	c.InjectFaults = true
	_, err := zzReconcile(zzReconciler(c, false), zzNS, rsNew.Name)

	calls, failed := 0, 0
	for _, e := range c.Log {
		if e.Kind == "Pod" && (e.Verb == "create" || e.Verb == "delete") {
			calls++
			if e.Failed {
				failed++
			}
		}
	}
	recErr, cleanupFalse := false, false
	for _, s := range c.ERS {
		if s.Name == zzRSName {
			for _, cd := range s.Status.Conditions {
				if cd.Type == datadoghqv1alpha1.ConditionTypeReconcileError && cd.Status == corev1.ConditionTrue {
					recErr = true
				}
				if cd.Type == datadoghqv1alpha1.ConditionTypePodsCleanupDone && cd.Status == corev1.ConditionFalse {
					cleanupFalse = true
				}
			}
		}
	}
	nondet.Assert("C17.large.all-attempted", calls == n)
	if failed > 0 {
		if kind == "cleanup" {
			nondet.Assert("C17.large.cleanup-error-recorded", (recErr || cleanupFalse) && err != nil)
		} else {
			nondet.Assert("C17.large.error-recorded", recErr && err != nil)
		}
	} else {
		nondet.Assert("C17.large.no-spurious-error", !recErr && !cleanupFalse && err == nil)
	}
	nondet.Observe("recorded", recErr || cleanupFalse)
	nondet.Observe("calls", calls)
	nondet.Reach("C17.large.first-fails", failed == 1 && !all && pos == 0)
	nondet.Reach("C17.large.last-fails", failed == 1 && !all && pos == n-1)
	nondet.Reach("C17.large.all-fail", failed == n)
}

// ZZ_C17_canaryRoleCleanupErrors: "every error returned by a parallel pod ... deletion is reflected ...
// rather than being lost" in the canary role, whose strategy has its own clean-up call: the canary
// node holds the canary pod and one or two duplicates to clean up, each clean-up deletion independently
// fails or not; the PodsCleanupDone condition exists (True, from an earlier successful clean-up) or not.
// With the status write succeeding, a failed clean-up deletion shows in the error the sync returns or in
// a persisted ReconcileError=True / PodsCleanupDone=False condition (both: the returned error and a condition).
func ZZ_C17_canaryRoleCleanupErrors() {
	c, ds, rsNew, rsOld := zzStore(2)
	ds.Spec.Strategy.Canary = &datadoghqv1alpha1.ExtendedDaemonSetSpecStrategyCanary{}
	datadoghqv1alpha1.DefaultExtendedDaemonSetSpec(&ds.Spec, datadoghqv1alpha1.ExtendedDaemonSetSpecStrategyCanaryValidationModeAuto)
	ds.Status.ActiveReplicaSet = rsOld.Name
	ds.Status.Canary = &datadoghqv1alpha1.ExtendedDaemonSetStatusCanary{ReplicaSet: rsNew.Name, Nodes: []string{zzNodeName(0)}}
	c.Pods = append(c.Pods,
		zzPod("canary-pod", zzNodeName(0), zzRSName, zzHashNew, 0, corev1.PodRunning, true, nondet.Base().Add(-300*1e9)),
		zzPod("dup1", zzNodeName(0), zzRSName, zzHashNew, 0, corev1.PodRunning, true, nondet.Base().Add(-60*1e9)),
		zzPod("active-pod", zzNodeName(1), zzOldRS, zzHashOld, 0, corev1.PodRunning, true, nondet.Base().Add(-3600*1e9)))
	if nondet.Bool("twoDuplicates") {
		c.Pods = append(c.Pods, zzPod("dup2", zzNodeName(0), zzRSName, zzHashNew, 0, corev1.PodRunning, true, nondet.Base().Add(-30*1e9)))
	}
	if nondet.Bool("cleanupCondExists") {
		c.ERS[0].Status.Conditions = append(c.ERS[0].Status.Conditions, datadoghqv1alpha1.ExtendedDaemonSetReplicaSetCondition{Type: datadoghqv1alpha1.ConditionTypePodsCleanupDone, Status: corev1.ConditionTrue})
	}
	c.InjectFaults = true
	c.FaultOnly = func(verb, kind, name, node string) bool { return verb == "delete" && kind == "Pod" }
	_, err := zzReconcile(zzReconciler(c, false), zzNS, rsNew.Name)
	failedCleanup := 0
	for _, e := range c.Log {
		if e.Failed && e.Kind == "Pod" && e.Verb == "delete" {
			failedCleanup++
		}
		if e.Kind == "Pod" && e.Verb == "delete" {
			nondet.Assert("C17.canary-cleanup.only-duplicates-deleted", e.Name == "dup1" || e.Name == "dup2")
		}
	}
	recErr, cleanupFalse := false, false
	for _, s := range c.ERS {
		if s.Name == zzRSName {
			for _, cd := range s.Status.Conditions {
				if cd.Type == datadoghqv1alpha1.ConditionTypeReconcileError && cd.Status == corev1.ConditionTrue {
					recErr = true
				}
				if cd.Type == datadoghqv1alpha1.ConditionTypePodsCleanupDone && cd.Status == corev1.ConditionFalse {
					cleanupFalse = true
				}
			}
		}
	}
	if failedCleanup > 0 {
		nondet.Assert("C17.canary-cleanup.error-not-lost", err != nil && (recErr || cleanupFalse))
	} else {
		nondet.Assert("C17.canary-cleanup.no-false-alarm", err == nil && !recErr && !cleanupFalse)
	}
	nondet.Observe("error", err != nil)
	nondet.Observe("cleanupFalse", cleanupFalse)
	nondet.Reach("C17.canary-cleanup.one-of-two-failed", failedCleanup == 1 && c.Count("delete", "Pod") == 2)
}

// ZZ_C17_parallelCreationsShareNoMutableState: "a single sync creates ... pods in parallel; there is no data
// race among these goroutines" when the template gives the pod builder something to do with the package's
// shared tables: the template already lists none / the first / a middle one / two of the standard DaemonSet
// tolerations.  Three creations in one sync (the engine's lockset check reports any cell two of the
// goroutines write without a common lock); afterwards the shared list of standard tolerations is what it
// was, and every created pod carries each standard toleration.
func ZZ_C17_parallelCreationsShareNoMutableState() {
	c, ds, rsNew, _ := zzStore(3)
	ds.Status.ActiveReplicaSet = rsNew.Name
	ds.Spec.Strategy.RollingUpdate.SlowStartAdditiveIncrease = &intstr.IntOrString{Type: intstr.Int, IntVal: 5}
	std := podutils.StandardDaemonSetTolerations
	before := append([]corev1.Toleration{}, std...)
	switch nondet.String("template.tolerations", "none", "first-standard", "middle-standard", "two-standard") {
	case "first-standard":
		rsNew.Spec.Template.Spec.Tolerations = []corev1.Toleration{std[0]}
	case "middle-standard":
		rsNew.Spec.Template.Spec.Tolerations = []corev1.Toleration{{Key: "dedicated", Operator: corev1.TolerationOpExists}, std[2]}
	case "two-standard":
		rsNew.Spec.Template.Spec.Tolerations = []corev1.Toleration{std[1], std[len(std)-1]}
	}
	_, err := zzReconcile(zzReconciler(c, nondet.Bool("nodeAffinitySupported")), zzNS, rsNew.Name)
	nondet.Assert("C17.shared.noerror", err == nil)
	nondet.Assert("C17.shared.three-creations", c.Count("create", "Pod") == 3)
	same := len(podutils.StandardDaemonSetTolerations) == len(before)
	if same {
		for i := range before {
			g := podutils.StandardDaemonSetTolerations[i]
			same = same && g.Key == before[i].Key && g.Operator == before[i].Operator && g.Effect == before[i].Effect && g.Value == before[i].Value
		}
	}
	nondet.Assert("C17.shared.standard-tolerations-list-unchanged", same)
	for _, p := range c.Pods {
		for _, want := range before {
			found := false
			for _, t := range p.Spec.Tolerations {
				if t.Key == want.Key && t.Operator == want.Operator && t.Effect == want.Effect {
					found = true
				}
			}
			nondet.Assert("C17.shared.every-pod-carries-the-standard-tolerations", found)
		}
	}
}
