//go:build verif

package extendeddaemonsetreplicaset

import (
	corev1 "k8s.io/api/core/v1"
	"k8s.io/apimachinery/pkg/util/intstr"

	datadoghqv1alpha1 "github.com/DataDog/extendeddaemonset/api/v1alpha1"
	"github.com/DataDog/extendeddaemonset/zzverif/nondet"
)

// ZZ_C17_errorAccounting: under the engine's single goroutine schedule, every error returned
// by a pod creation, an update deletion or a clean-up deletion of a sync is reflected in the
// error the reconcile returns or in the replica set's ReconcileError / PodsCleanupDone
// condition.  (Data-race freedom, the other half of C17, is NOT decided: one schedule only.)
func ZZ_C17_errorAccounting() {
	c, ds, rsNew, _ := zzStore(3)
	ds.Status.ActiveReplicaSet = rsNew.Name
	two := intstr.FromInt(2) // node2 lacks a pod; a budget of two still allows the update deletion on node1
	ds.Spec.Strategy.RollingUpdate.MaxUnavailable = &two
	// node0: two daemon pods (one is a duplicate to clean up); node1: one outdated available pod
	// (update deletion); node2: no pod (creation)
	dup := nondet.Bool("withDuplicate")
	c.Pods = append(c.Pods, zzPod("pod0", zzNodeName(0), zzRSName, zzHashNew, 0, corev1.PodRunning, true, nondet.Base().Add(-120*1e9)))
	if dup {
		c.Pods = append(c.Pods, zzPod("pod0dup", zzNodeName(0), zzRSName, zzHashNew, 0, corev1.PodRunning, true, nondet.Base().Add(-60*1e9)))
	}
	if nondet.Bool("withOutdated") {
		c.Pods = append(c.Pods, zzPod("pod1", zzNodeName(1), zzOldRS, zzHashOld, 0, corev1.PodRunning, true, nondet.Base().Add(-120*1e9)))
	} else {
		c.Pods = append(c.Pods, zzPod("pod1", zzNodeName(1), zzRSName, zzHashNew, 0, corev1.PodRunning, true, nondet.Base().Add(-120*1e9)))
	}
	// the PodsCleanupDone condition may or may not exist from an earlier sync
	if nondet.Bool("cleanupCondExists") {
		c.ERS[0].Status.Conditions = append(c.ERS[0].Status.Conditions, datadoghqv1alpha1.ExtendedDaemonSetReplicaSetCondition{Type: datadoghqv1alpha1.ConditionTypePodsCleanupDone, Status: corev1.ConditionTrue})
	}
	c.InjectFaults = true
	_, err := zzReconcile(zzReconciler(c, false), zzNS, rsNew.Name)

	failedCreate, failedDelete, failedCleanup, failedStatus := 0, 0, 0, false
	for _, e := range c.Log {
		if !e.Failed {
			continue
		}
		switch {
		case e.Kind == "Pod" && e.Verb == "create":
			failedCreate++
		case e.Kind == "Pod" && e.Verb == "delete" && e.Name == "pod0dup":
			failedCleanup++
		case e.Kind == "Pod" && e.Verb == "delete":
			failedDelete++
		case e.Verb == "status-update":
			failedStatus = true
		}
	}
	recErr, cleanupFalse := false, false
	for _, s := range c.ERS {
		if s.Name == zzRSName {
			for _, cd := range s.Status.Conditions {
				if cd.Type == datadoghqv1alpha1.ConditionTypeReconcileError && cd.Status == corev1.ConditionTrue {
					recErr = true
				}
				if cd.Type == datadoghqv1alpha1.ConditionTypePodsCleanupDone && cd.Status == corev1.ConditionFalse {
					cleanupFalse = true
				}
			}
		}
	}
	nondet.Fact("cleanupDeleteFailed", failedCleanup > 0)
	nondet.Fact("createOrUpdateDeleteFailed", failedCreate+failedDelete > 0)
	if failedStatus {
		// the status could not be persisted: the failure of that write is what the reconcile returns
		nondet.Assert("C17.status-failure-returned", err != nil)
	} else {
		// "every error returned by a parallel pod creation or deletion is reflected in the error the
		// sync reports and in the replica set's ReconcileError or PodsCleanupDone condition rather
		// than being lost"
		if failedCreate+failedDelete > 0 {
			nondet.Assert("C17.create-delete-error-recorded", recErr || err != nil)
		}
		if failedCleanup > 0 {
			nondet.Assert("C17.cleanup-error-recorded", recErr || cleanupFalse || err != nil)
		}
		if failedCreate+failedDelete+failedCleanup == 0 {
			nondet.Assert("C17.no-spurious-error", !recErr && !cleanupFalse && err == nil)
		}
	}
	nondet.Observe("recorded", recErr || cleanupFalse)
	nondet.Reach("C17.create-failed", failedCreate > 0 && !failedStatus)
	nondet.Reach("C17.update-delete-failed", failedDelete > 0 && !failedStatus)
	nondet.Reach("C17.cleanup-failed", failedCleanup > 0 && !failedStatus)
	nondet.Reach("C17.all-ok", failedCreate+failedDelete+failedCleanup == 0 && !failedStatus)
}
