//go:build verif

package extendeddaemonsetreplicaset

import (
	"k8s.io/apimachinery/pkg/util/intstr"

	"strconv"

	corev1 "k8s.io/api/core/v1"
	metav1 "k8s.io/apimachinery/pkg/apis/meta/v1"

	datadoghqv1alpha1 "github.com/DataDog/extendeddaemonset/api/v1alpha1"
	"github.com/DataDog/extendeddaemonset/zzverif/fakeapi"
	"github.com/DataDog/extendeddaemonset/zzverif/nondet"
)

// zzStore builds a store with ExtendedDaemonSet foo, its replica sets foo-new (hash-new)
// and foo-old (hash-old), nNodes plain nodes and no pods.
func zzStore(nNodes int) (*fakeapi.Client, *datadoghqv1alpha1.ExtendedDaemonSet, *datadoghqv1alpha1.ExtendedDaemonSetReplicaSet, *datadoghqv1alpha1.ExtendedDaemonSetReplicaSet) {
	c := fakeapi.New()
	ds := zzDS()
	rsNew := zzRS(zzRSName, zzHashNew)
	rsOld := zzRS(zzOldRS, zzHashOld)
	for i := 0; i < nNodes; i++ {
		c.Nodes = append(c.Nodes, &corev1.Node{ObjectMeta: metav1.ObjectMeta{Name: zzNodeName(i), Labels: map[string]string{}}})
	}
	c.EDS = append(c.EDS, ds)
	c.ERS = append(c.ERS, rsNew, rsOld)
	return c, ds, rsNew, rsOld
}

// zzStoredDS returns the stored ExtendedDaemonSet (the store holds copies the harness may edit
// before the reconcile).
func zzSymbolicPods(c *fakeapi.Client, nNodes, maxPods int, rich bool) {
	nPods := nondet.Int("nPods", 0, maxPods)
	for j := 0; j < maxPods; j++ {
		if j >= nPods {
			break
		}
		l := "pod" + strconv.Itoa(j)
		target := nondet.Int(l+".node", 0, nNodes-1)
		nodeName := zzNodeName(0)
		for i := 0; i < nNodes; i++ {
			if target == i {
				nodeName = zzNodeName(i)
			}
		}
		binding := 0
		if rich && nondet.Bool(l+".byAffinity") {
			binding = 1
		}
		rsName, hash := zzRSName, zzHashNew
		if nondet.Bool(l + ".old") {
			rsName, hash = zzOldRS, zzHashOld
		}
		p := zzPod(l, nodeName, rsName, hash, binding, zzPhase(l+".phase"), !nondet.Thorough() || nondet.Bool(l+".ready"), nondet.Base().Add(-60*1e9))
		if rich {
			// terminating: just now, or for longer than its grace period (a pod the kubelet of an
			// unreachable node never confirms: it still is the pod of its node)
			switch nondet.String(l+".terminating", "no", "just-now", "overdue") {
			case "just-now":
				t := metav1.NewTime(nondet.Base())
				p.DeletionTimestamp = &t
			case "overdue":
				t := metav1.NewTime(nondet.Base().Add(-120 * 1e9))
				g := int64(30)
				p.DeletionTimestamp, p.DeletionGracePeriodSeconds = &t, &g
			}
		}
		c.Pods = append(c.Pods, p)
	}
}

// ZZ_C01_reconcile: a whole replica-set sync (active role) creates at most one pod per node,
// only for nodes that hold no live daemon pod, binds it to that node, and never deletes an
// Unknown-phase pod nor the same pod twice.
func ZZ_C01_reconcile() {
	nNodes, maxPods := 2, 2
	// (thorough tier: three pods over two or three nodes are millions of paths and do not finish in 30 minutes;
	// it keeps two pods and additionally lets each pod be Ready or not — zzSymbolicPods — on three nodes)
	if nondet.Thorough() {
		nNodes, maxPods = 3, 2
	}
	c, ds, rsNew, _ := zzStore(nNodes)
	ds.Status.ActiveReplicaSet = rsNew.Name
	zzSymbolicPods(c, nNodes, maxPods, true)
	before := make([]*corev1.Pod, len(c.Pods))
	for i, p := range c.Pods {
		before[i] = p.DeepCopy()
	}
	affinity := nondet.Bool("nodeAffinitySupported")
	r := zzReconciler(c, affinity)
	_, err := zzReconcile(r, zzNS, rsNew.Name)
	nondet.Assert("C01.sync.noerror", err == nil)

	created := map[string]int{}
	for _, e := range c.Log {
		switch {
		case e.Verb == "create" && e.Kind == "Pod":
			p := e.Obj.(*corev1.Pod)
			node := fakeapi.PodNode(p)
			created[node]++
			// bound to an existing node
			exists := false
			for i := 0; i < nNodes; i++ {
				if node == zzNodeName(i) {
					exists = true
				}
			}
			nondet.Assert("C01.sync.create-on-listed-node", exists)
			// "carries no pod of the same ExtendedDaemonSet other than pods in Failed or Unknown phase"
			for _, q := range before {
				if fakeapi.PodNode(q) == node {
					nondet.Assert("C01.sync.create-only-on-free-node", q.Status.Phase == corev1.PodFailed || q.Status.Phase == corev1.PodUnknown)
				}
			}
			nondet.Assert("C01.sync.create-binding", (p.Spec.NodeName == node) != affinity)
		case e.Verb == "delete" && e.Kind == "Pod":
			for _, q := range before {
				if q.Name == e.Name {
					nondet.Assert("C01.sync.unknown-untouched", q.Status.Phase != corev1.PodUnknown)
				}
			}
		}
	}
	for _, n := range created {
		// "it never creates two pods for one node in the same sync"
		nondet.Assert("C01.sync.one-create-per-node", n == 1)
	}
	for i, e := range c.Log {
		if e.Verb != "delete" {
			continue
		}
		for j := i + 1; j < len(c.Log); j++ {
			nondet.Assert("C01.sync.delete-once", !(c.Log[j].Verb == "delete" && c.Log[j].Name == e.Name))
		}
	}
	// duplicates: of several live pods on one node at most one survives the sync's deletions
	for i := 0; i < nNodes; i++ {
		live, deleted := 0, 0
		for _, q := range before {
			if fakeapi.PodNode(q) != zzNodeName(i) || q.Status.Phase == corev1.PodUnknown || q.Status.Phase == corev1.PodFailed {
				continue
			}
			live++
			for _, e := range c.Log {
				if e.Verb == "delete" && e.Name == q.Name {
					deleted++
				}
			}
			if q.DeletionTimestamp != nil {
				deleted++ // already on its way out
			}
		}
		if live >= 2 {
			nondet.Assert("C01.sync.duplicates-removed", deleted >= live-1)
		}
	}
	nondet.Observe("creates", c.Count("create", "Pod"))
	nondet.Observe("deletes", c.Count("delete", "Pod"))
	nondet.Reach("C01.sync.creates", c.Count("create", "Pod") == 1 && len(before) == 0)
	nondet.Reach("C01.sync.duplicate-deleted", len(before) == 2 && fakeapi.PodNode(before[0]) == fakeapi.PodNode(before[1]) && c.Count("delete", "Pod") >= 1)
	nondet.Reach("C01.sync.failed-replaced", len(before) >= 1 && before[0].Status.Phase == corev1.PodFailed && created[fakeapi.PodNode(before[0])] == 1)
}

// ZZ_C01_canaryRoleEligibility: the eligibility clauses hold for the canary replica set too: a node
// listed in status.canary.nodes that stopped being eligible after it was selected (untolerated
// taint, lost label) or that vanished gets no pod, the eligible canary nodes get exactly one.
func ZZ_C01_canaryRoleEligibility() {
	c, ds, rsNew, rsOld := zzStore(3)
	ds.Spec.Strategy.Canary = &datadoghqv1alpha1.ExtendedDaemonSetSpecStrategyCanary{}
	datadoghqv1alpha1.DefaultExtendedDaemonSetSpec(&ds.Spec, datadoghqv1alpha1.ExtendedDaemonSetSpecStrategyCanaryValidationModeAuto)
	ds.Status.ActiveReplicaSet = rsOld.Name
	nodes := []string{zzNodeName(0), zzNodeName(1)}
	if nondet.Bool("canaryListNamesVanishedNode") {
		nodes = append(nodes, "ghost")
	}
	ds.Status.Canary = &datadoghqv1alpha1.ExtendedDaemonSetStatusCanary{ReplicaSet: rsNew.Name, Nodes: nodes}
	rsNew.Spec.Template.Spec.NodeSelector = map[string]string{"pool": "agents"}
	for _, n := range c.Nodes {
		n.Labels = map[string]string{"pool": "agents"}
	}
	// what happened to canary node0 since it was selected
	event := nondet.String("node0.event", "nothing", "tainted-NoSchedule", "tainted-NoExecute", "label-lost")
	switch event {
	case "tainted-NoSchedule":
		c.Nodes[0].Spec.Taints = []corev1.Taint{{Key: "dedicated", Value: "db", Effect: corev1.TaintEffectNoSchedule}}
	case "tainted-NoExecute":
		c.Nodes[0].Spec.Taints = []corev1.Taint{{Key: "dedicated", Value: "db", Effect: corev1.TaintEffectNoExecute}}
	case "label-lost":
		c.Nodes[0].Labels = map[string]string{}
	}
	if nondet.Bool("node1.hasCanaryPod") {
		c.Pods = append(c.Pods, zzPod("canary-pod-node1", zzNodeName(1), rsNew.Name, zzHashNew, 0, corev1.PodRunning, true, nondet.Base().Add(-60*1e9)))
	}
	c.Pods = append(c.Pods, zzPod("active-pod-node2", zzNodeName(2), rsOld.Name, zzHashOld, 0, corev1.PodRunning, true, nondet.Base().Add(-3600*1e9)))
	_, _ = zzReconcile(zzReconciler(c, nondet.Bool("nodeAffinitySupported")), zzNS, rsNew.Name)
	created := map[string]int{}
	for _, e := range c.Log {
		if e.Kind == "Pod" && e.Verb == "create" {
			created[e.Node]++
		}
	}
	if event != "nothing" {
		nondet.Assert("C01.canary.no-pod-on-ineligible-canary-node", created[zzNodeName(0)] == 0)
	}
	nondet.Assert("C01.canary.no-pod-on-vanished-node", created["ghost"] == 0)
	nondet.Assert("C01.canary.not-outside-the-list", created[zzNodeName(2)] == 0)
	for _, n := range created {
		nondet.Assert("C01.canary.one-create-per-node", n == 1)
	}
	nondet.Observe("createdOnNode0", created[zzNodeName(0)])
	nondet.Reach("C01.canary.eligible-canary-node-served", event == "nothing" && created[zzNodeName(0)] == 1)
}

// ZZ_C01_boundPodStaysOnItsNode: a pod bound by spec.nodeName belongs to that node, whatever its
// (template-copied) required node affinity says about node names — e.g. a template that excludes
// one node by name (metadata.name NotIn [node2]) or names the only one it wants.  A sync with one such healthy
// pod per eligible node creates and deletes nothing.
func ZZ_C01_boundPodStaysOnItsNode() {
	c, ds, rsNew, _ := zzStore(3)
	ds.Status.ActiveReplicaSet = rsNew.Name
	shape := nondet.String("templateAffinity", "none", "name-notin-node2", "name-in-node0", "name-notin-ghost")
	var terms []corev1.NodeSelectorTerm
	eligible := []bool{true, true, true}
	switch shape {
	case "name-notin-node2":
		terms = []corev1.NodeSelectorTerm{{MatchFields: []corev1.NodeSelectorRequirement{{Key: "metadata.name", Operator: corev1.NodeSelectorOpNotIn, Values: []string{zzNodeName(2)}}}}}
		eligible[2] = false
	case "name-in-node0":
		// (the API accepts exactly one value for a metadata.name In requirement)
		terms = []corev1.NodeSelectorTerm{{MatchFields: []corev1.NodeSelectorRequirement{{Key: "metadata.name", Operator: corev1.NodeSelectorOpIn, Values: []string{zzNodeName(0)}}}}}
		eligible[1], eligible[2] = false, false
	case "name-notin-ghost":
		terms = []corev1.NodeSelectorTerm{{MatchFields: []corev1.NodeSelectorRequirement{{Key: "metadata.name", Operator: corev1.NodeSelectorOpNotIn, Values: []string{"ghost"}}}}}
	}
	if terms != nil {
		rsNew.Spec.Template.Spec.Affinity = &corev1.Affinity{NodeAffinity: &corev1.NodeAffinity{RequiredDuringSchedulingIgnoredDuringExecution: &corev1.NodeSelector{NodeSelectorTerms: terms}}}
	}
	for i := 0; i < 3; i++ {
		if !eligible[i] {
			continue
		}
		p := zzPod("pod-"+zzNodeName(i), zzNodeName(i), rsNew.Name, zzHashNew, 0, corev1.PodRunning, true, nondet.Base().Add(-600*1e9))
		if terms != nil {
			// created in node-name mode: the template's affinity is copied verbatim
			p.Spec.Affinity = rsNew.Spec.Template.Spec.Affinity.DeepCopy()
		}
		c.Pods = append(c.Pods, p)
	}
	_, err := zzReconcile(zzReconciler(c, false), zzNS, rsNew.Name)
	nondet.Assert("C01.bound.noerror", err == nil)
	nondet.Assert("C01.bound.nothing-created-or-deleted", c.Count("create", "Pod") == 0 && c.Count("delete", "Pod") == 0)
	nondet.Observe("creates", c.Count("create", "Pod"))
	nondet.Observe("deletes", c.Count("delete", "Pod"))
	nondet.Reach("C01.bound.name-excluding-template", shape == "name-notin-node2")
}

// ZZ_C01_malformedOverrideStillBound: a node may carry a resources-override annotation for this
// ExtendedDaemonSet whose value does not parse.  Whatever the controller does about it (skip the
// node, report an error, create the pod without the override), every pod it creates is bound to
// the node it was created for and no node gets two: an unbound daemon pod would be placed by the
// scheduler on any node, including one that already runs a daemon pod.  Two free nodes, either
// binding style, the annotation on node0 or on both.
func ZZ_C01_malformedOverrideStillBound() {
	c, ds, rsNew, _ := zzStore(2)
	ds.Status.ActiveReplicaSet = rsNew.Name
	key := "resources.extendeddaemonset.datadoghq.com/" + zzNS + "." + ds.Name + ".agent"
	c.Nodes[0].Annotations = map[string]string{key: "{not json"}
	if nondet.Bool("bothNodes") {
		c.Nodes[1].Annotations = map[string]string{key: `{"requests":{"cpu":"not-a-quantity"}}`}
	}
	affinity := nondet.Bool("nodeAffinitySupported")
	zzReconcile(zzReconciler(c, affinity), zzNS, rsNew.Name)
	created := map[string]int{}
	for _, e := range c.Log {
		if e.Verb == "create" && e.Kind == "Pod" {
			p := e.Obj.(*corev1.Pod)
			node := fakeapi.PodNode(p)
			nondet.Assert("C01.malformed.bound", node == "node0" || node == "node1")
			nondet.Assert("C01.malformed.binding-style", (p.Spec.NodeName == node) != affinity)
			created[node]++
		}
	}
	for _, n := range created {
		nondet.Assert("C01.malformed.one-per-node", n == 1)
	}
	nondet.Observe("creates", c.Count("create", "Pod"))
	nondet.Reach("C01.malformed.pod-created", c.Count("create", "Pod") >= 1)
}

// ZZ_C01_repairWhilePausedOrFrozen: "When a node nevertheless holds several such pods, all but one
// are deleted ...; pods on nodes that stopped being eligible are deleted" — these repairs are not
// part of updating pods, so the rolling-update-paused and rollout-frozen annotations (which stop
// deletions "in order to update" / "for updating", C08) do not suspend them.  node0 holds two
// Running up-to-date pods, node1 got an untolerated NoSchedule taint and still holds its pod; the
// active replica set syncs with either, both or none of the annotations.
func ZZ_C01_repairWhilePausedOrFrozen() {
	c, ds, rsNew, _ := zzStore(2)
	ds.Status.ActiveReplicaSet = rsNew.Name
	ann := nondet.String("annotation", "none", "rolling-update-paused", "rollout-frozen", "both")
	if ann == "rolling-update-paused" || ann == "both" {
		ds.Annotations[datadoghqv1alpha1.ExtendedDaemonSetRollingUpdatePausedAnnotationKey] = "true"
	}
	if ann == "rollout-frozen" || ann == "both" {
		ds.Annotations[datadoghqv1alpha1.ExtendedDaemonSetRolloutFrozenAnnotationKey] = "true"
	}
	c.Nodes[1].Spec.Taints = []corev1.Taint{{Key: "dedicated", Value: "db", Effect: corev1.TaintEffectNoSchedule}}
	c.Pods = append(c.Pods,
		zzPod("older", zzNodeName(0), zzRSName, zzHashNew, 0, corev1.PodRunning, true, nondet.Base().Add(-3600*1e9)),
		zzPod("newer", zzNodeName(0), zzRSName, zzHashNew, 0, corev1.PodRunning, true, nondet.Base().Add(-60*1e9)),
		zzPod("stranded", zzNodeName(1), zzRSName, zzHashNew, 0, corev1.PodRunning, true, nondet.Base().Add(-3600*1e9)))
	_, err := zzReconcile(zzReconciler(c, nondet.Bool("nodeAffinitySupported")), zzNS, rsNew.Name)
	nondet.Assert("C01.repair.noerror", err == nil)
	deleted := map[string]bool{}
	for _, e := range c.Log {
		if e.Verb == "delete" && e.Kind == "Pod" {
			deleted[e.Name] = true
		}
	}
	nondet.Assert("C01.repair.duplicate-removed", deleted["newer"] && !deleted["older"])
	nondet.Assert("C01.repair.pod-on-ineligible-node-removed", deleted["stranded"])
	nondet.Assert("C01.repair.nothing-created", c.Count("create", "Pod") == 0)
	nondet.Observe("deletes", c.Count("delete", "Pod"))
	nondet.Reach("C01.repair.while-frozen", ann == "rollout-frozen" && deleted["newer"])
}

// ZZ_C01_everyPhaseOccupiesItsNode: "carries no pod of the same ExtendedDaemonSet other than pods in
// Failed or Unknown phase" over the complete phase alphabet, Succeeded included (a daemon pod that
// completed after a graceful node shutdown): node0 holds one pod in an arbitrary phase, node1 none;
// with or without a running back-off entry for node0.  A pod is created for node0 only when its
// pod is Failed or Unknown, never two, and an Unknown pod is never deleted.
func ZZ_C01_everyPhaseOccupiesItsNode() {
	c, ds, rsNew, _ := zzStore(2)
	ds.Status.ActiveReplicaSet = rsNew.Name
	phase := corev1.PodRunning
	switch nondet.String("node0.pod.phase", "Running", "Pending", "Succeeded", "Failed", "Unknown") {
	case "Pending":
		phase = corev1.PodPending
	case "Succeeded":
		phase = corev1.PodSucceeded
	case "Failed":
		phase = corev1.PodFailed
	case "Unknown":
		phase = corev1.PodUnknown
	}
	c.Pods = append(c.Pods, zzPod("pod-node0", zzNodeName(0), zzRSName, zzHashNew, 0, phase, phase == corev1.PodRunning, nondet.Base().Add(-3600*1e9)))
	five := intstr.FromInt(5)
	ds.Spec.Strategy.RollingUpdate.SlowStartAdditiveIncrease = &five
	r := zzReconciler(c, nondet.Bool("nodeAffinitySupported"))
	if nondet.Bool("backoffRunningForNode0") {
		r.failedPodsBackOff.Next(getBackOffKey(rsNew, zzNodeName(0)), r.failedPodsBackOff.Clock.Now())
	}
	_, err := zzReconcile(r, zzNS, rsNew.Name)
	nondet.Assert("C01.phase.noerror", err == nil)
	created0 := 0
	for _, e := range c.Log {
		if e.Kind == "Pod" && e.Verb == "create" && e.Node == zzNodeName(0) {
			created0++
		}
		if e.Kind == "Pod" && e.Verb == "delete" && e.Name == "pod-node0" {
			nondet.Assert("C01.phase.unknown-untouched", phase != corev1.PodUnknown)
		}
	}
	nondet.Assert("C01.phase.create-only-beside-failed-or-unknown", created0 == 0 || phase == corev1.PodFailed || phase == corev1.PodUnknown)
	nondet.Assert("C01.phase.at-most-one", created0 <= 1)
	nondet.Observe("created0", created0)
	nondet.Reach("C01.phase.succeeded-pod-keeps-its-node", phase == corev1.PodSucceeded && created0 == 0)
	nondet.Reach("C01.phase.failed-pod-replaced", phase == corev1.PodFailed && created0 == 1)
}

// ZZ_C01_threePodsOnOneNode: "When a node nevertheless holds several such pods, all but one are deleted
// and the kept one is a scheduled pod if any, the oldest among those" — with THREE pods on the node, in
// every listing order (the API lists by name, which says nothing about age) and with the youngest
// possibly not scheduled yet.  One sync of the active replica set removes exactly the two others.
func ZZ_C01_threePodsOnOneNode() {
	c, ds, rsNew, _ := zzStore(1)
	ds.Status.ActiveReplicaSet = rsNew.Name
	youngestUnscheduled := nondet.Bool("youngestBoundByAffinityOnly")
	bind := 0
	if youngestUnscheduled {
		bind = 1
	}
	oldest := zzPod("oldest", zzNodeName(0), zzRSName, zzHashNew, 0, corev1.PodRunning, true, nondet.Base().Add(-3*3600*1e9))
	middle := zzPod("middle", zzNodeName(0), zzRSName, zzHashNew, 0, corev1.PodRunning, true, nondet.Base().Add(-2*3600*1e9))
	newest := zzPod("newest", zzNodeName(0), zzRSName, zzHashNew, bind, corev1.PodRunning, !youngestUnscheduled, nondet.Base().Add(-1*3600*1e9))
	switch nondet.Int("listingOrder", 0, 5) {
	case 0:
		c.Pods = append(c.Pods, oldest, middle, newest)
	case 1:
		c.Pods = append(c.Pods, oldest, newest, middle)
	case 2:
		c.Pods = append(c.Pods, middle, oldest, newest)
	case 3:
		c.Pods = append(c.Pods, middle, newest, oldest)
	case 4:
		c.Pods = append(c.Pods, newest, oldest, middle)
	default:
		c.Pods = append(c.Pods, newest, middle, oldest)
	}
	_, err := zzReconcile(zzReconciler(c, youngestUnscheduled), zzNS, rsNew.Name)
	nondet.Assert("C01.three.noerror", err == nil)
	deleted := map[string]bool{}
	for _, e := range c.Log {
		if e.Kind == "Pod" && e.Verb == "delete" {
			deleted[e.Name] = true
		}
	}
	nondet.Assert("C01.three.oldest-scheduled-pod-kept", !deleted["oldest"])
	nondet.Assert("C01.three.the-two-others-removed", deleted["middle"] && deleted["newest"])
	nondet.Assert("C01.three.nothing-created", c.Count("create", "Pod") == 0)
	nondet.Reach("C01.three.oldest-listed-last", !deleted["oldest"] && c.Count("delete", "Pod") == 2)
}

// ZZ_C01_failedCreationsNotRepeatedInTheSync: "it never creates two pods for one node in the same
// sync" when the API server misbehaves: three eligible nodes without a pod, every pod creation of the
// sync independently succeeds, is rejected, or is applied with its answer lost, and a failure is the
// plain error or a typed transient one (ServerTimeout).  Whatever the pattern, one sync asks for at
// most one pod per node, and the store holds at most one pod per node afterwards.
func ZZ_C01_failedCreationsNotRepeatedInTheSync() {
	c, ds, rsNew, _ := zzStore(3)
	ds.Status.ActiveReplicaSet = rsNew.Name
	ds.Spec.Strategy.RollingUpdate.SlowStartAdditiveIncrease = &intstr.IntOrString{Type: intstr.Int, IntVal: 5}
	c.InjectFaults = true
	c.InjectTransient = true
	c.FaultOnly = func(verb, kind, name, node string) bool { return verb == "create" && kind == "Pod" }
	_, err := zzReconcile(zzReconciler(c, nondet.Bool("nodeAffinitySupported")), zzNS, rsNew.Name)
	nondet.Observe("error", err != nil)
	asked := map[string]int{}
	failed := 0
	for _, e := range c.Log {
		if e.Verb == "create" && e.Kind == "Pod" {
			asked[e.Node]++
			if e.Failed {
				failed++
			}
		}
	}
	for i := 0; i < 3; i++ {
		nondet.Assert("C01.failed-create.one-request-per-node", asked[zzNodeName(i)] <= 1)
	}
	held := map[string]int{}
	for _, p := range c.Pods {
		held[fakeapi.PodNode(p)]++
	}
	for i := 0; i < 3; i++ {
		nondet.Assert("C01.failed-create.one-pod-per-node", held[zzNodeName(i)] <= 1)
	}
	nondet.Assert("C01.failed-create.failure-reported", (failed > 0) == (err != nil))
	nondet.Observe("created", len(c.Pods))
	nondet.Reach("C01.failed-create.some-failed-some-created", failed > 0 && len(c.Pods) > 0)
	nondet.Reach("C01.failed-create.all-created", failed == 0 && len(c.Pods) == 3)
}

// ZZ_C01_secondSyncSeesThePodsOfTheFirst: "creates a pod for a node only if ... that node ... carries no
// pod of the same ExtendedDaemonSet" across two syncs, whatever the pod template drags along: the template
// may carry the reserved link labels with the names of another ExtendedDaemonSet / replica set, or the
// reserved hash annotations with stale values (a template written from the manifest of a running pod).
// Two nodes without pod; sync, the kubelet starts the pods, one minute passes, sync again: the second sync
// creates nothing and each node holds exactly one pod.
func ZZ_C01_secondSyncSeesThePodsOfTheFirst() {
	c, ds, rsNew, _ := zzStore(2)
	ds.Status.ActiveReplicaSet = rsNew.Name
	ds.Spec.Strategy.RollingUpdate.SlowStartAdditiveIncrease = &intstr.IntOrString{Type: intstr.Int, IntVal: 5}
	switch nondet.String("template.carries", "nothing", "foreign-link-labels", "stale-hash-annotations") {
	case "foreign-link-labels":
		rsNew.Spec.Template.Labels[datadoghqv1alpha1.ExtendedDaemonSetNameLabelKey] = "bar"
		rsNew.Spec.Template.Labels[datadoghqv1alpha1.ExtendedDaemonSetReplicaSetNameLabelKey] = "bar-z"
	case "stale-hash-annotations":
		rsNew.Spec.Template.Annotations = map[string]string{
			datadoghqv1alpha1.MD5ExtendedDaemonSetAnnotationKey:     "0123456789abcdef0123456789abcdef",
			datadoghqv1alpha1.MD5NodeExtendedDaemonSetAnnotationKey: "fedcba9876543210fedcba9876543210",
		}
	}
	affinity := nondet.Bool("nodeAffinitySupported")
	_, err := zzReconcile(zzReconciler(c, affinity), zzNS, rsNew.Name)
	nondet.Assert("C01.second-sync.first-ok", err == nil && c.Count("create", "Pod") == 2)
	zzKubelet(c)
	mark := len(c.Log)
	_, err = zzReconcile(zzReconciler(c, affinity), zzNS, rsNew.Name)
	nondet.Assert("C01.second-sync.second-ok", err == nil)
	for _, e := range c.Log[mark:] {
		if e.Kind == "Pod" && (e.Verb == "create" || e.Verb == "delete") {
			nondet.Assert("C01.second-sync.nothing-created-or-deleted", false)
		}
	}
	held := map[string]int{}
	for _, p := range c.Pods {
		held[fakeapi.PodNode(p)]++
	}
	nondet.Assert("C01.second-sync.one-pod-per-node", held[zzNodeName(0)] == 1 && held[zzNodeName(1)] == 1 && len(c.Pods) == 2)
}

// ZZ_C01_canaryRoleCleansUnscheduledPods: "when a node nevertheless holds several such pods, all but one are
// deleted and the kept one is a scheduled pod if any ... pods on nodes that stopped being eligible are deleted"
// on the canary nodes, which only the canary replica set looks after, and for pods that are bound by their
// node-name affinity and not scheduled yet: canary node0 holds the scheduled canary pod plus an unscheduled
// duplicate; canary node1 — tainted since it was selected, or not — holds one unscheduled canary pod.
func ZZ_C01_canaryRoleCleansUnscheduledPods() {
	c, ds, rsNew, rsOld := zzStore(3)
	ds.Spec.Strategy.Canary = &datadoghqv1alpha1.ExtendedDaemonSetSpecStrategyCanary{}
	datadoghqv1alpha1.DefaultExtendedDaemonSetSpec(&ds.Spec, datadoghqv1alpha1.ExtendedDaemonSetSpecStrategyCanaryValidationModeAuto)
	ds.Status.ActiveReplicaSet = rsOld.Name
	ds.Status.Canary = &datadoghqv1alpha1.ExtendedDaemonSetStatusCanary{ReplicaSet: rsNew.Name, Nodes: []string{zzNodeName(0), zzNodeName(1)}}
	node1Tainted := nondet.Bool("canaryNode1.taintedSinceItWasSelected")
	if node1Tainted {
		c.Nodes[1].Spec.Taints = []corev1.Taint{{Key: "dedicated", Value: "db", Effect: corev1.TaintEffectNoSchedule}}
	}
	dupBinding := 1
	if nondet.Bool("duplicateIsScheduledToo") {
		dupBinding = 0
	}
	c.Pods = append(c.Pods,
		zzPod("kept", zzNodeName(0), rsNew.Name, zzHashNew, 0, corev1.PodRunning, true, nondet.Base().Add(-600*1e9)),
		zzPod("duplicate", zzNodeName(0), rsNew.Name, zzHashNew, dupBinding, corev1.PodPending, false, nondet.Base().Add(-30*1e9)),
		zzPod("on-node1", zzNodeName(1), rsNew.Name, zzHashNew, 1, corev1.PodPending, false, nondet.Base().Add(-30*1e9)),
		zzPod("active-2", zzNodeName(2), rsOld.Name, zzHashOld, 0, corev1.PodRunning, true, nondet.Base().Add(-3600*1e9)))
	_, err := zzReconcile(zzReconciler(c, true), zzNS, rsNew.Name)
	nondet.Assert("C01.canary-cleanup.noerror", err == nil)
	deleted := map[string]bool{}
	for _, e := range c.Log {
		if e.Kind == "Pod" && e.Verb == "delete" {
			deleted[e.Name] = true
		}
	}
	nondet.Assert("C01.canary-cleanup.duplicate-removed-scheduled-pod-kept", deleted["duplicate"] && !deleted["kept"])
	nondet.Assert("C01.canary-cleanup.pod-on-ineligible-canary-node-removed", deleted["on-node1"] == node1Tainted)
	nondet.Assert("C01.canary-cleanup.other-nodes-untouched", !deleted["active-2"])
	nondet.Observe("deletes", len(deleted))
}
