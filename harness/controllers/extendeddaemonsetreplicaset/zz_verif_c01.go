//go:build verif

package extendeddaemonsetreplicaset

import (
	"strconv"
	"time"

	"github.com/go-logr/logr"
	corev1 "k8s.io/api/core/v1"
	metav1 "k8s.io/apimachinery/pkg/apis/meta/v1"

	datadoghqv1alpha1 "github.com/DataDog/extendeddaemonset/api/v1alpha1"
	"github.com/DataDog/extendeddaemonset/controllers/extendeddaemonsetreplicaset/strategy"
	"github.com/DataDog/extendeddaemonset/zzverif/fakeapi"
	"github.com/DataDog/extendeddaemonset/zzverif/nondet"
)

const zzLabelKey = "k"

type zzNodeAttr struct {
	label  string // "" = absent, "E" = present with the empty value
	taint  bool
	tKey   string
	effect corev1.TaintEffect
	// optional second taint with the same key and another effect
	taint2  bool
	effect2 corev1.TaintEffect
}

type zzTplAttr struct {
	selector           bool   // nodeSelector {k: v}
	selectorEmptyValue bool   // ... or {k: ""}: matches a node carrying the label with an empty value, not one lacking it
	affinityOp         string // "" none, In, NotIn, Exists, DoesNotExist (on key k, values [v])
	// tolerates: "" none; "k" = tolerates taint key k (Exists, any effect); "k-second" = two tolerations of key
	// k, the first for another value only, the second Exists (the taint is tolerated by the second one);
	// "wild-noexecute" = one toleration without key (Exists) restricted to the NoExecute effect
	tolerates string
	// fieldShape: what else the required node affinity contains besides the expression on key k:
	// "" nothing; "and-name-in" / "and-name-notin": the same term also has matchFields
	// metadata.name In / NotIn [node0]; "or-name-in": a second (ORed) term matchFields metadata.name In [node0]
	fieldShape string
	// noRequired (only without affinityOp / fieldShape): the template has a node affinity section without a
	// required part — "preferred-only" (one preferred term on key k) or "empty" (nodeAffinity: {}); neither
	// restricts eligibility, and the node selector still applies
	noRequired string
}

// zzEligible: reference predicate written from the statement of C01.
func zzEligible(n zzNodeAttr, t zzTplAttr, nodeName string) bool {
	if t.selector && !t.selectorEmptyValue && n.label != "v" {
		return false
	}
	if t.selector && t.selectorEmptyValue && n.label != "E" {
		return false
	}
	// first term: every expression and every field of a term must match
	term1 := true
	switch t.affinityOp {
	case "In":
		term1 = n.label == "v"
	case "NotIn":
		term1 = n.label != "v"
	case "Exists":
		term1 = n.label != ""
	case "DoesNotExist":
		term1 = n.label == ""
	}
	switch t.fieldShape {
	case "and-name-in":
		term1 = term1 && nodeName == zzNodeName(0)
	case "and-name-notin":
		term1 = term1 && nodeName != zzNodeName(0)
	case "or-name-in":
		// terms are ORed (without an expression there is only the by-name term)
		if t.affinityOp == "" {
			term1 = nodeName == zzNodeName(0)
		} else {
			term1 = term1 || nodeName == zzNodeName(0)
		}
	}
	if (t.affinityOp != "" || t.fieldShape != "") && !term1 {
		return false
	}
	if n.taint && !zzTaintTolerated(n.tKey, n.effect, t) {
		return false
	}
	if n.taint2 && !zzTaintTolerated(n.tKey, n.effect2, t) {
		return false
	}
	return true
}

// zzTaintTolerated: "has no NoSchedule/NoExecute taint the pod does not tolerate", taint by taint.
func zzTaintTolerated(key string, effect corev1.TaintEffect, t zzTplAttr) bool {
	if effect != corev1.TaintEffectNoSchedule && effect != corev1.TaintEffectNoExecute {
		return true
	}
	if (t.tolerates == "k" || t.tolerates == "k-second") && key == zzLabelKey {
		return true
	}
	if t.tolerates == "wild-noexecute" && effect == corev1.TaintEffectNoExecute {
		return true
	}
	// tolerations every daemon pod gets: not-ready is tolerated for NoExecute only
	return key == "node.kubernetes.io/not-ready" && effect == corev1.TaintEffectNoExecute
}

// zzTemplateFor applies the template attributes to a replica set.
func zzTemplateFor(tpl zzTplAttr) *datadoghqv1alpha1.ExtendedDaemonSetReplicaSet {
	rs := zzRS(zzRSName, zzHashNew)
	if tpl.selector {
		rs.Spec.Template.Spec.NodeSelector = map[string]string{zzLabelKey: "v"}
		if tpl.selectorEmptyValue {
			rs.Spec.Template.Spec.NodeSelector[zzLabelKey] = ""
		}
	}
	if tpl.affinityOp != "" || tpl.fieldShape != "" {
		term := corev1.NodeSelectorTerm{}
		if tpl.affinityOp != "" {
			req := corev1.NodeSelectorRequirement{Key: zzLabelKey, Operator: corev1.NodeSelectorOperator(tpl.affinityOp)}
			if tpl.affinityOp == "In" || tpl.affinityOp == "NotIn" {
				req.Values = []string{"v"}
			}
			term.MatchExpressions = []corev1.NodeSelectorRequirement{req}
		}
		terms := []corev1.NodeSelectorTerm{term}
		byName := func(op corev1.NodeSelectorOperator) []corev1.NodeSelectorRequirement {
			return []corev1.NodeSelectorRequirement{{Key: "metadata.name", Operator: op, Values: []string{zzNodeName(0)}}}
		}
		switch tpl.fieldShape {
		case "and-name-in":
			terms[0].MatchFields = byName(corev1.NodeSelectorOpIn)
		case "and-name-notin":
			terms[0].MatchFields = byName(corev1.NodeSelectorOpNotIn)
		case "or-name-in":
			if tpl.affinityOp == "" {
				terms = nil // only the by-name term
			}
			terms = append(terms, corev1.NodeSelectorTerm{MatchFields: byName(corev1.NodeSelectorOpIn)})
		}
		rs.Spec.Template.Spec.Affinity = &corev1.Affinity{NodeAffinity: &corev1.NodeAffinity{RequiredDuringSchedulingIgnoredDuringExecution: &corev1.NodeSelector{NodeSelectorTerms: terms}}}
	}
	if tpl.affinityOp == "" && tpl.fieldShape == "" && tpl.noRequired != "" {
		na := &corev1.NodeAffinity{}
		if tpl.noRequired == "preferred-only" {
			na.PreferredDuringSchedulingIgnoredDuringExecution = []corev1.PreferredSchedulingTerm{{Weight: 1, Preference: corev1.NodeSelectorTerm{
				MatchExpressions: []corev1.NodeSelectorRequirement{{Key: zzLabelKey, Operator: corev1.NodeSelectorOpIn, Values: []string{"w"}}}}}}
		}
		rs.Spec.Template.Spec.Affinity = &corev1.Affinity{NodeAffinity: na}
	}
	switch tpl.tolerates {
	case "k":
		rs.Spec.Template.Spec.Tolerations = []corev1.Toleration{{Key: zzLabelKey, Operator: corev1.TolerationOpExists}}
	case "k-second":
		rs.Spec.Template.Spec.Tolerations = []corev1.Toleration{{Key: zzLabelKey, Operator: corev1.TolerationOpEqual, Value: "another-value"}, {Key: zzLabelKey, Operator: corev1.TolerationOpExists}}
	case "wild-noexecute":
		rs.Spec.Template.Spec.Tolerations = []corev1.Toleration{{Operator: corev1.TolerationOpExists, Effect: corev1.TaintEffectNoExecute}}
	}
	return rs
}

func zzNodeFor(i int, a zzNodeAttr) *corev1.Node {
	node := &corev1.Node{ObjectMeta: metav1.ObjectMeta{Name: zzNodeName(i), Labels: map[string]string{}}}
	if a.label == "E" {
		node.Labels[zzLabelKey] = ""
	} else if a.label != "" {
		node.Labels[zzLabelKey] = a.label
	}
	if a.taint {
		node.Spec.Taints = []corev1.Taint{{Key: a.tKey, Effect: a.effect}}
		if a.taint2 {
			node.Spec.Taints = append(node.Spec.Taints, corev1.Taint{Key: a.tKey, Effect: a.effect2})
		}
	}
	return node
}

func zzPickNodeAttr(l string) zzNodeAttr {
	a := zzNodeAttr{}
	switch nondet.String(l+".label", "", "v", "w", "present-with-empty-value") {
	case "v":
		a.label = "v"
	case "w":
		a.label = "w"
	case "present-with-empty-value":
		a.label = "E"
	}
	if nondet.Bool(l + ".tainted") {
		a.taint = true
		a.tKey = zzLabelKey
		if nondet.Bool(l + ".taintNotReady") {
			a.tKey = "node.kubernetes.io/not-ready"
		}
		switch nondet.String(l+".effect", "NoSchedule", "NoExecute", "PreferNoSchedule") {
		case "NoSchedule":
			a.effect = corev1.TaintEffectNoSchedule
		case "NoExecute":
			a.effect = corev1.TaintEffectNoExecute
		default:
			a.effect = corev1.TaintEffectPreferNoSchedule
		}
		// a second taint with the same key and the other hard effect
		if a.effect != corev1.TaintEffectPreferNoSchedule && nondet.Bool(l+".secondTaintSameKey") {
			a.taint2 = true
			a.effect2 = corev1.TaintEffectNoSchedule
			if a.effect == corev1.TaintEffectNoSchedule {
				a.effect2 = corev1.TaintEffectNoExecute
			}
		}
	}
	return a
}

func zzPickTplAttr() zzTplAttr {
	tpl := zzTplAttr{}
	switch nondet.String("tpl.selector", "none", "value", "empty-value") {
	case "value":
		tpl.selector = true
	case "empty-value":
		tpl.selector, tpl.selectorEmptyValue = true, true
	}
	switch nondet.String("tpl.affinity", "", "In", "NotIn", "Exists", "DoesNotExist") {
	case "In":
		tpl.affinityOp = "In"
	case "NotIn":
		tpl.affinityOp = "NotIn"
	case "Exists":
		tpl.affinityOp = "Exists"
	case "DoesNotExist":
		tpl.affinityOp = "DoesNotExist"
	}
	switch nondet.String("tpl.tolerates", "", "k", "k-second", "wild-noexecute") {
	case "k":
		tpl.tolerates = "k"
	case "k-second":
		tpl.tolerates = "k-second"
	case "wild-noexecute":
		tpl.tolerates = "wild-noexecute"
	}
	switch nondet.String("tpl.affinityFields", "", "and-name-in", "and-name-notin", "or-name-in") {
	case "and-name-in":
		tpl.fieldShape = "and-name-in"
	case "and-name-notin":
		tpl.fieldShape = "and-name-notin"
	case "or-name-in":
		tpl.fieldShape = "or-name-in"
	}
	if tpl.affinityOp == "" && tpl.fieldShape == "" {
		tpl.noRequired = zzPickNoRequired()
	}
	return tpl
}

// zzPickNoRequired: a node affinity section without a required part (see zzTplAttr.noRequired).
func zzPickNoRequired() string {
	switch nondet.String("tpl.nodeAffinityWithoutRequired", "", "preferred-only", "empty") {
	case "preferred-only":
		return "preferred-only"
	case "empty":
		return "empty"
	}
	return ""
}

// ZZ_C01_eligibility: a node enters the per-node map exactly when it satisfies the
// template's node selector and required node affinity and carries no NoSchedule/NoExecute
// taint the daemon pod does not tolerate (eligibility is decided node by node).
func ZZ_C01_eligibility() {
	tpl := zzPickTplAttr()
	rs := zzTemplateFor(tpl)
	a := zzPickNodeAttr("node0")
	b := zzNodeAttr{}
	if nondet.Thorough() {
		b = zzPickNodeAttr("node1")
	}
	nodeList := &strategy.NodeList{Items: []*strategy.NodeItem{strategy.NewNodeItem(zzNodeFor(0, a), nil), strategy.NewNodeItem(zzNodeFor(1, b), nil)}}
	r := zzReconciler(fakeapi.New(), true)
	_, podsByNode, toDelete, unscheduled := r.FilterAndMapPodsByNode(logr.Logger{}, rs, nodeList, &corev1.PodList{}, nil)
	_, m0 := podsByNode[nodeList.Items[0]]
	_, m1 := podsByNode[nodeList.Items[1]]
	nondet.Assert("C01.eligible.node0", m0 == zzEligible(a, tpl, zzNodeName(0)))
	nondet.Assert("C01.eligible.node1", m1 == zzEligible(b, tpl, zzNodeName(1)))
	nondet.Assert("C01.eligible.nothing-else", len(toDelete) == 0 && len(unscheduled) == 0 && podsByNode[nodeList.Items[0]] == nil)
	nondet.Observe("mapped0", m0)
	nondet.Reach("C01.eligible.by-toleration", m0 && a.taint && a.effect == corev1.TaintEffectNoSchedule)
	nondet.Reach("C01.eligible.not-ready-noexecute", m0 && a.taint && a.tKey == "node.kubernetes.io/not-ready")
	nondet.Reach("C01.eligible.rejected-taint", !m0 && a.taint && !tpl.selector && tpl.affinityOp == "")
	nondet.Reach("C01.eligible.rejected-selector", !m0 && tpl.selector && !a.taint)
	nondet.Reach("C01.eligible.rejected-affinity", !m0 && !tpl.selector && !a.taint && tpl.affinityOp != "")
	nondet.Reach("C01.eligible.rejected-by-name-field", !m0 && !tpl.selector && !a.taint && tpl.fieldShape == "and-name-notin" && tpl.affinityOp == "Exists" && a.label != "")
	nondet.Reach("C01.eligible.accepted-by-second-term", m0 && tpl.fieldShape == "or-name-in" && tpl.affinityOp == "In" && a.label != "v")
	nondet.Reach("C01.eligible.two-taints-one-tolerated", !m0 && a.taint2 && a.tKey == "node.kubernetes.io/not-ready")
	nondet.Reach("C01.eligible.prefer-noschedule-ok", m0 && a.taint && a.effect == corev1.TaintEffectPreferNoSchedule && a.tKey == zzLabelKey && tpl.tolerates == "")
}

// ZZ_C01_filterMap: on a two/three node cluster (node0 eligible, ineligible or ignored, the
// others eligible) with up to 2 (thorough 3) daemon pods in arbitrary phase, binding, age
// and termination state, FilterAndMapPodsByNode keeps one pod per node (scheduled first,
// then oldest), deletes duplicates and pods on ineligible or vanished nodes, and never
// touches Unknown-phase pods.
func ZZ_C01_filterMap() {
	nNodes := 2
	maxPods := 2
	if nondet.Thorough() {
		// (three pods, over two or three nodes, exceed the cap of two million paths: the thorough tier has two
		// pods over three nodes; triple occupancy of a node is covered by ZZ_C01_threePodsOnOneNode)
		nNodes, maxPods = 3, 2
	}
	tpl := zzTplAttr{}
	rs := zzTemplateFor(tpl)
	nodeList := &strategy.NodeList{}
	attrs := make([]zzNodeAttr, nNodes)
	var ignore []string
	ignored := map[string]bool{}
	switch nondet.String("node0.kind", "eligible", "tainted", "ignored") {
	case "tainted":
		attrs[0] = zzNodeAttr{taint: true, tKey: zzLabelKey, effect: corev1.TaintEffectNoSchedule}
	case "ignored":
		ignore = append(ignore, zzNodeName(0))
		ignored[zzNodeName(0)] = true
	}
	for i := 0; i < nNodes; i++ {
		nodeList.Items = append(nodeList.Items, strategy.NewNodeItem(zzNodeFor(i, attrs[i]), nil))
	}
	// ---- pods ----
	nPods := nondet.Int("nPods", 0, maxPods)
	podList := &corev1.PodList{}
	type podAttr struct {
		node        string // "" = unbound
		binding     int
		phase       corev1.PodPhase
		terminating bool
	}
	var pattrs []podAttr
	for j := 0; j < maxPods; j++ {
		if j >= nPods {
			break
		}
		l := "pod" + strconv.Itoa(j)
		pa := podAttr{binding: nondet.Int(l+".binding", 0, 2), phase: zzPhase(l + ".phase")}
		target := nondet.Int(l+".node", 0, nNodes) // nNodes = a node that is not listed
		nodeName := "gone"
		for i := 0; i < nNodes; i++ {
			if target == i {
				nodeName = zzNodeName(i)
			}
		}
		switch pa.binding {
		case 0:
			pa.binding = 0
		case 1:
			pa.binding = 1
		default:
			pa.binding = 2
			nodeName = ""
		}
		pa.node = nodeName
		created := nondet.TimeSec(l+".created", -3, 0)
		p := zzPod("pod"+strconv.Itoa(j), nodeName, zzRSName, zzHashNew, pa.binding, pa.phase, true, created)
		if nondet.Bool(l + ".terminating") {
			pa.terminating = true
			t := metav1.NewTime(nondet.Base())
			p.DeletionTimestamp = &t
		}
		podList.Items = append(podList.Items, *p)
		pattrs = append(pattrs, pa)
	}
	c := fakeapi.New()
	r := zzReconciler(c, true)
	// arbitrary in-memory back-off state (including the empty one after a restart)
	if nondet.Bool("backoff.node1") {
		r.failedPodsBackOff.Next(getBackOffKey(rs, zzNodeName(1)), r.failedPodsBackOff.Clock.Now())
	}

	// ---- the real code ----
	nodesByName, podsByNode, toDelete, _ := r.FilterAndMapPodsByNode(logr.Logger{}, rs, nodeList, podList, ignore)

	// (a) keys of podsByNode = listed, eligible, not ignored nodes
	for i, ni := range nodeList.Items {
		_, mapped := podsByNode[ni]
		want := zzEligible(attrs[i], tpl, ni.Node.Name) && !ignored[ni.Node.Name]
		nondet.Assert("C01.map.keys", mapped == want)
		nondet.Assert("C01.map.nodesByName", nodesByName[ni.Node.Name] == ni)
	}
	nondet.Assert("C01.map.no-extra-keys", len(podsByNode) <= nNodes)
	nodeIdx := func(name string) int {
		for i := 0; i < nNodes; i++ {
			if zzNodeName(i) == name {
				return i
			}
		}
		return -1
	}
	for j := range podList.Items {
		p := &podList.Items[j]
		pa := pattrs[j]
		// (f) Unknown-phase pods are never touched; (g) no pod is deleted twice
		if pa.phase == corev1.PodUnknown {
			nondet.Assert("C01.unknown-untouched", !zzHasPod(toDelete, p))
		}
		nondet.Assert("C01.delete-once", zzCountPod(toDelete, p) <= 1)
		if pa.node == "" {
			nondet.Assert("C01.unbound-ignored", !zzHasPod(toDelete, p))
			continue
		}
		i := nodeIdx(pa.node)
		mappedNode := i >= 0 && zzEligible(attrs[i], tpl, pa.node) && !ignored[pa.node]
		if !mappedNode && pa.phase != corev1.PodUnknown {
			// (e) pods on nodes that stopped being eligible (or vanished) are deleted unless already
			// terminating; pods on ignored nodes belong to the other replica set's scope
			if ignored[pa.node] {
				nondet.Assert("C01.ignored-node-pod-kept", !zzHasPod(toDelete, p))
			} else {
				nondet.Assert("C01.ineligible-node-pod-deleted", zzHasPod(toDelete, p) == !pa.terminating)
			}
		}
	}
	// (b,d) per mapped node: exactly one kept among the candidates, scheduled first then oldest
	for i, ni := range nodeList.Items {
		kept, mapped := podsByNode[ni]
		if !mapped {
			continue
		}
		var cands []*corev1.Pod
		for j := range podList.Items {
			p := &podList.Items[j]
			if pattrs[j].node != zzNodeName(i) || pattrs[j].phase == corev1.PodUnknown {
				continue
			}
			if pattrs[j].phase == corev1.PodFailed && zzHasPod(toDelete, p) {
				continue // failed pod cleaned up (outside back-off)
			}
			cands = append(cands, p)
		}
		if len(cands) == 0 {
			nondet.Assert("C01.nil-means-free", kept == nil)
			continue
		}
		nondet.Assert("C01.kept-one", kept != nil && zzHasPod(cands, kept))
		if kept == nil {
			continue
		}
		for _, p := range cands {
			if p.Name == kept.Name {
				nondet.Assert("C01.kept-not-deleted", !zzHasPod(toDelete, p))
				continue
			}
			// "all but one are deleted"
			nondet.Assert("C01.duplicates-deleted", zzHasPod(toDelete, p))
			// "the kept one is a scheduled pod if any, the oldest among those"
			keptSched, pSched := kept.Spec.NodeName != "", p.Spec.NodeName != ""
			nondet.Assert("C01.kept-scheduled-first", keptSched || !pSched)
			if keptSched == pSched {
				nondet.Assert("C01.kept-oldest", !p.CreationTimestamp.Time.Before(kept.CreationTimestamp.Time))
			}
		}
	}
	nondet.Observe("mapped", len(podsByNode))
	nondet.Observe("deleted", len(toDelete))
	nondet.Reach("C01.duplicate", nPods >= 2 && len(toDelete) >= 1 && len(podsByNode) >= 1)
	nondet.Reach("C01.pod-on-ineligible-node", len(podsByNode) < nNodes && len(ignore) == 0 && len(toDelete) >= 1)
	nondet.Reach("C01.failed-in-backoff", nPods >= 1 && pattrs[0].phase == corev1.PodFailed && pattrs[0].node == zzNodeName(1) && !zzHasPod(toDelete, &podList.Items[0]))
	nondet.Reach("C01.failed-deleted", nPods >= 1 && pattrs[0].phase == corev1.PodFailed && pattrs[0].node == zzNodeName(1) && zzHasPod(toDelete, &podList.Items[0]))
	_ = time.Second
}
