//go:build verif

package extendeddaemonsetreplicaset

import (
	corev1 "k8s.io/api/core/v1"
	metav1 "k8s.io/apimachinery/pkg/apis/meta/v1"

	datadoghqv1alpha1 "github.com/DataDog/extendeddaemonset/api/v1alpha1"
	"github.com/DataDog/extendeddaemonset/zzverif/fakeapi"
	"github.com/DataDog/extendeddaemonset/zzverif/nondet"
)

// ZZ_C07_nodesReturn: once status.canary is cleared after a failed canary, the former canary
// nodes re-enter the scope of the active replica set: the canary pods on them are classified
// outdated and replaced by pods of the active template (delete, then create), while the
// failed replica set itself creates and deletes nothing any more.
func ZZ_C07_nodesReturn() {
	nNodes := 2
	if nondet.Thorough() {
		nNodes = 3
	}
	c, ds, rsFailed, rsActive := zzStore(nNodes) // foo-new = failed canary, foo-old = active
	ds.Status.ActiveReplicaSet = rsActive.Name
	ds.Status.Canary = nil
	ds.Status.State = datadoghqv1alpha1.ExtendedDaemonSetStatusStateCanaryFailed
	at := metav1.NewTime(nondet.Base().Add(-30 * 1e9))
	rsFailed.Status.Conditions = append(rsFailed.Status.Conditions, datadoghqv1alpha1.ExtendedDaemonSetReplicaSetCondition{Type: datadoghqv1alpha1.ConditionTypeCanaryFailed, Status: corev1.ConditionTrue, LastTransitionTime: at, LastUpdateTime: at})
	// node0 was the canary node: it still runs (or not any more) a pod of the failed template;
	// the other nodes run the active template
	canaryPodLeft := nondet.Bool("canaryPodStillThere")
	if canaryPodLeft {
		var p *corev1.Pod
		switch nondet.String("canaryPod", "ready", "not-ready", "pending-unschedulable") {
		case "ready":
			p = zzPod("canary-pod", zzNodeName(0), rsFailed.Name, zzHashNew, 0, corev1.PodRunning, true, nondet.Base().Add(-600*1e9))
		case "not-ready":
			p = zzPod("canary-pod", zzNodeName(0), rsFailed.Name, zzHashNew, 0, corev1.PodRunning, false, nondet.Base().Add(-600*1e9))
		default:
			// bound by the node-name affinity and not scheduled yet (the failed template asks for more than the
			// node has): one minute old, PodScheduled=False/Unschedulable — pending, not stuck
			p = zzPod("canary-pod", zzNodeName(0), rsFailed.Name, zzHashNew, 1, corev1.PodPending, false, nondet.Base().Add(-60*1e9))
			p.Status.Conditions = append(p.Status.Conditions, corev1.PodCondition{Type: corev1.PodScheduled, Status: corev1.ConditionFalse, Reason: corev1.PodReasonUnschedulable})
		}
		p.Labels[datadoghqv1alpha1.ExtendedDaemonSetReplicaSetCanaryLabelKey] = datadoghqv1alpha1.ExtendedDaemonSetReplicaSetCanaryLabelValue
		c.Pods = append(c.Pods, p)
	}
	for i := 1; i < nNodes; i++ {
		c.Pods = append(c.Pods, zzPod("active-pod"+zzNodeName(i), zzNodeName(i), rsActive.Name, zzHashOld, 0, corev1.PodRunning, true, nondet.Base().Add(-3600*1e9)))
	}
	// the former canary node may be one only the failed template could use (the active template has a node
	// selector the failed one dropped): the canary pod there is still removed by the active replica set —
	// nobody else would — and nothing is created in its place
	unfit := nondet.Bool("formerCanaryNodeUnfitForTheActiveTemplate")
	if unfit {
		rsActive.Spec.Template.Spec.NodeSelector = map[string]string{"pool": "old"}
		for i := 1; i < nNodes; i++ {
			c.Nodes[i].Labels = map[string]string{"pool": "old"}
		}
	}
	// which replica set syncs first
	failedFirst := nondet.Bool("failedReplicaSetSyncsFirst")
	order := []string{rsActive.Name, rsFailed.Name}
	if failedFirst {
		order = []string{rsFailed.Name, rsActive.Name}
	}
	logAt := map[string][2]int{}
	for _, name := range order {
		from := len(c.Log)
		_, err := zzReconcile(zzReconciler(c, false), zzNS, name)
		nondet.Assert("C07.return.noerror", err == nil)
		logAt[name] = [2]int{from, len(c.Log)}
	}
	// the failed replica set does nothing
	for _, e := range c.Log[logAt[rsFailed.Name][0]:logAt[rsFailed.Name][1]] {
		if e.Kind == "Pod" && (e.Verb == "create" || e.Verb == "delete") {
			nondet.Assert("C07.return.failed-rs-idle", false)
		}
	}
	// the active replica set takes node0 back
	deletedCanary, createdOnNode0 := false, false
	for _, e := range c.Log[logAt[rsActive.Name][0]:logAt[rsActive.Name][1]] {
		if e.Kind != "Pod" {
			continue
		}
		if e.Verb == "delete" {
			nondet.Assert("C07.return.only-canary-pod-deleted", e.Name == "canary-pod")
			deletedCanary = true
		}
		if e.Verb == "create" {
			p := e.Obj.(*corev1.Pod)
			nondet.Assert("C07.return.creates-active-template", !unfit && fakeapi.PodNode(p) == zzNodeName(0) && p.Annotations[datadoghqv1alpha1.MD5ExtendedDaemonSetAnnotationKey] == zzHashOld)
			createdOnNode0 = true
		}
	}
	if canaryPodLeft {
		// "subsequently replaces the canary pods by pods of the active template on the former canary nodes"
		nondet.Assert("C07.return.canary-pod-replaced", deletedCanary)
	} else if !unfit {
		nondet.Assert("C07.return.node-served", createdOnNode0)
	}
	// and the active replica set counts the node again
	for _, s := range c.ERS {
		if s.Name == rsActive.Name {
			want := nNodes
			if unfit {
				want = nNodes - 1
			}
			nondet.Assert("C07.return.desired-all-nodes", int(s.Status.Desired) == want)
		}
	}
	nondet.Observe("deleted", deletedCanary)
	nondet.Reach("C07.return.replaced", deletedCanary)
	nondet.Reach("C07.return.created", createdOnNode0)
	nondet.Reach("C07.return.cleaned-on-unfit-node", unfit && deletedCanary)
}

// ZZ_C07_userFailedSurvives: "marked failed, automatically or by the user": kubectl-eds canary
// fail sets only the Canary-Failed condition of the canary replica set (status.status still reads
// "canary").  If the replica-set controller syncs that replica set before the ExtendedDaemonSet
// controller has processed the failure, the mark must survive — otherwise the rollback never
// happens — and the failed canary creates no further pod.
func ZZ_C07_userFailedSurvives() {
	c, ds, rsCanary, rsActive := zzStore(2) // foo-new = canary, foo-old = active
	ds.Spec.Strategy.Canary = &datadoghqv1alpha1.ExtendedDaemonSetSpecStrategyCanary{}
	datadoghqv1alpha1.DefaultExtendedDaemonSetSpec(&ds.Spec, datadoghqv1alpha1.ExtendedDaemonSetSpecStrategyCanaryValidationModeAuto)
	ds.Status.ActiveReplicaSet = rsActive.Name
	ds.Status.Canary = &datadoghqv1alpha1.ExtendedDaemonSetStatusCanary{ReplicaSet: rsCanary.Name, Nodes: []string{zzNodeName(0)}}
	ds.Status.State = datadoghqv1alpha1.ExtendedDaemonSetStatusStateCanary
	at := metav1.NewTime(nondet.Base().Add(-5 * 1e9))
	// what earlier syncs of the replica-set controller left in the status of the canary
	rsCanary.Status.Status = nondet.String("canary.statusString", "canary", "", "canary-failed")
	if nondet.Bool("canary.otherConditionsFirst") {
		rsCanary.Status.Conditions = append(rsCanary.Status.Conditions, datadoghqv1alpha1.ExtendedDaemonSetReplicaSetCondition{Type: datadoghqv1alpha1.ConditionTypeCanary, Status: corev1.ConditionTrue, LastTransitionTime: at, LastUpdateTime: at})
	}
	// the user's mark
	rsCanary.Status.Conditions = append(rsCanary.Status.Conditions, datadoghqv1alpha1.ExtendedDaemonSetReplicaSetCondition{Type: datadoghqv1alpha1.ConditionTypeCanaryFailed, Status: corev1.ConditionTrue, Reason: "ManuallyFailed", LastTransitionTime: at, LastUpdateTime: at})
	if nondet.Bool("canaryPodExists") {
		p := zzPod("canary-pod", zzNodeName(0), rsCanary.Name, zzHashNew, 0, corev1.PodRunning, nondet.Bool("canaryPodReady"), nondet.Base().Add(-600*1e9))
		p.Labels[datadoghqv1alpha1.ExtendedDaemonSetReplicaSetCanaryLabelKey] = datadoghqv1alpha1.ExtendedDaemonSetReplicaSetCanaryLabelValue
		c.Pods = append(c.Pods, p)
	}
	c.Pods = append(c.Pods, zzPod("active-pod", zzNodeName(1), rsActive.Name, zzHashOld, 0, corev1.PodRunning, true, nondet.Base().Add(-3600*1e9)))

	_, err := zzReconcile(zzReconciler(c, false), zzNS, rsCanary.Name)
	nondet.Assert("C07.user.noerror", err == nil)
	stillFailed := false
	for _, s := range c.ERS {
		if s.Name == rsCanary.Name {
			for _, cd := range s.Status.Conditions {
				if cd.Type == datadoghqv1alpha1.ConditionTypeCanaryFailed && cd.Status == corev1.ConditionTrue {
					stillFailed = true
				}
			}
		}
	}
	nondet.Assert("C07.user.mark-survives", stillFailed)
	for _, e := range c.Log {
		nondet.Assert("C07.user.no-create", !(e.Kind == "Pod" && e.Verb == "create"))
	}
	nondet.Observe("stillFailed", stillFailed)
	nondet.Reach("C07.user.status-string-canary", rsCanary.Status.Status == "canary")
}
