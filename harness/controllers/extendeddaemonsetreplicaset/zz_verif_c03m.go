//go:build verif

package extendeddaemonsetreplicaset

import (
	"strconv"
	"time"

	appsv1 "k8s.io/api/apps/v1"
	corev1 "k8s.io/api/core/v1"
	metav1 "k8s.io/apimachinery/pkg/apis/meta/v1"

	datadoghqv1alpha1 "github.com/DataDog/extendeddaemonset/api/v1alpha1"
	"github.com/DataDog/extendeddaemonset/zzverif/fakeapi"
	"github.com/DataDog/extendeddaemonset/zzverif/nondet"
)

// ZZ_C03_migrationSync: the budget "also covers pods adopted from the old DaemonSet; only clean-up of
// duplicates / ineligible nodes is outside the budget" at the level of a whole replica-set sync
// during a declared migration.  Three (thorough: four) eligible nodes, each holding exactly one
// available pod: a pod still owned by the old DaemonSet or a pod of the active replica set (up to
// date or outdated) — all of them match the old DaemonSet's selector, as they do when the
// ExtendedDaemonSet took over the DaemonSet's labels — listed in either order.  maxUnavailable is
// one and no node is unavailable, so one sync deletes at most one available pod in total, and none
// that is the only pod of its node as a "duplicate".
func ZZ_C03_migrationSync() {
	nNodes := 3
	if nondet.Thorough() {
		nNodes = 4
	}
	c, ds, rsNew, _ := zzStore(nNodes)
	ds.Status.ActiveReplicaSet = rsNew.Name
	ds.Annotations[datadoghqv1alpha1.ExtendedDaemonSetOldDaemonsetAnnotationKey] = "legacy"
	sel := &metav1.LabelSelector{MatchLabels: map[string]string{"app": "agent"}}
	c.DaemonSets = append(c.DaemonSets, &appsv1.DaemonSet{ObjectMeta: metav1.ObjectMeta{Name: "legacy", Namespace: zzNS}, Spec: appsv1.DaemonSetSpec{Selector: sel}})
	ctrl := true
	var pods []*corev1.Pod
	for i := 0; i < nNodes; i++ {
		var p *corev1.Pod
		switch nondet.String("node"+strconv.Itoa(i)+".pod", "legacy", "up-to-date", "outdated") {
		case "legacy":
			p = &corev1.Pod{
				ObjectMeta: metav1.ObjectMeta{Name: "legacy-" + zzNodeName(i), Namespace: zzNS, Labels: map[string]string{"app": "agent"}, CreationTimestamp: metav1.NewTime(nondet.Base().Add(-24 * time.Hour)),
					OwnerReferences: []metav1.OwnerReference{{APIVersion: "apps/v1", Kind: "DaemonSet", Name: "legacy", Controller: &ctrl}}},
				Spec:   corev1.PodSpec{NodeName: zzNodeName(i)},
				Status: corev1.PodStatus{Phase: corev1.PodRunning, Conditions: []corev1.PodCondition{{Type: corev1.PodReady, Status: corev1.ConditionTrue}}},
			}
		case "up-to-date":
			p = zzPod("new-"+zzNodeName(i), zzNodeName(i), zzRSName, zzHashNew, 0, corev1.PodRunning, true, nondet.Base().Add(-time.Hour))
			p.Labels["app"] = "agent"
		default:
			p = zzPod("old-"+zzNodeName(i), zzNodeName(i), zzOldRS, zzHashOld, 0, corev1.PodRunning, true, nondet.Base().Add(-2*time.Hour))
			p.Labels["app"] = "agent"
		}
		pods = append(pods, p)
	}
	if nondet.Bool("listedInReverse") {
		for i := len(pods) - 1; i >= 0; i-- {
			c.Pods = append(c.Pods, pods[i])
		}
	} else {
		c.Pods = append(c.Pods, pods...)
	}
	_, err := zzReconcile(zzReconciler(c, false), zzNS, rsNew.Name)
	nondet.Assert("C03.migration.noerror", err == nil)
	deleted := 0
	for _, e := range c.Log {
		if e.Kind == "Pod" && e.Verb == "delete" {
			deleted++
		}
	}
	// every pod was available and alone on its node: the budget of one covers all deletions
	nondet.Assert("C03.migration.at-most-maxUnavailable-available-pods-deleted", deleted <= 1)
	nondet.Assert("C03.migration.nothing-created", c.Count("create", "Pod") == 0)
	nondet.Observe("deleted", deleted)
	nondet.Reach("C03.migration.adopted-pod-replaced", deleted == 1 && fakeapi.PodNode(pods[0]) == zzNodeName(0) && pods[0].Name == "legacy-"+zzNodeName(0))
}
