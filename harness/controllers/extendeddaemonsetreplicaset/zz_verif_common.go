//go:build verif

package extendeddaemonsetreplicaset

import (
	"context"
	"strconv"
	"time"

	"github.com/go-logr/logr"
	corev1 "k8s.io/api/core/v1"
	metav1 "k8s.io/apimachinery/pkg/apis/meta/v1"
	"k8s.io/apimachinery/pkg/types"
	"k8s.io/client-go/util/flowcontrol"
	"sigs.k8s.io/controller-runtime/pkg/reconcile"

	datadoghqv1alpha1 "github.com/DataDog/extendeddaemonset/api/v1alpha1"
	"github.com/DataDog/extendeddaemonset/zzverif/fakeapi"
	"github.com/DataDog/extendeddaemonset/zzverif/nondet"
)

const (
	zzNS      = "ns"
	zzEDSName = "foo"
	zzRSName  = "foo-new"
	zzOldRS   = "foo-old"
	zzHashNew = "hash-new"
	zzHashOld = "hash-old"
)

func zzNodeName(i int) string { return "node" + strconv.Itoa(i) }

func zzReconciler(c *fakeapi.Client, affinity bool) *Reconciler {
	return &Reconciler{
		options:           ReconcilerOptions{IsNodeAffinitySupported: affinity},
		client:            c,
		scheme:            c.Scheme(),
		log:               logr.Logger{},
		recorder:          &fakeapi.Recorder{},
		failedPodsBackOff: flowcontrol.NewBackOff(10*time.Second, 15*time.Minute),
	}
}

func zzReconcile(r *Reconciler, ns, name string) (reconcile.Result, error) {
	return r.Reconcile(context.TODO(), reconcile.Request{NamespacedName: types.NamespacedName{Namespace: ns, Name: name}})
}

// zzDS returns a defaulted ExtendedDaemonSet foo.
func zzDS() *datadoghqv1alpha1.ExtendedDaemonSet {
	ds := &datadoghqv1alpha1.ExtendedDaemonSet{ObjectMeta: metav1.ObjectMeta{Name: zzEDSName, Namespace: zzNS, UID: "uid-foo", Annotations: map[string]string{}}}
	datadoghqv1alpha1.DefaultExtendedDaemonSetSpec(&ds.Spec, datadoghqv1alpha1.ExtendedDaemonSetSpecStrategyCanaryValidationModeAuto)
	return ds
}

// zzRS returns a replica set of foo with the given name and template hash.
func zzRS(name, hash string) *datadoghqv1alpha1.ExtendedDaemonSetReplicaSet {
	ctrl := true
	return &datadoghqv1alpha1.ExtendedDaemonSetReplicaSet{
		ObjectMeta: metav1.ObjectMeta{Name: name, Namespace: zzNS, UID: types.UID("uid-" + name),
			Labels:          map[string]string{datadoghqv1alpha1.ExtendedDaemonSetNameLabelKey: zzEDSName},
			OwnerReferences: []metav1.OwnerReference{{APIVersion: "datadoghq.com/v1alpha1", Kind: "ExtendedDaemonSet", Name: zzEDSName, UID: "uid-foo", Controller: &ctrl}}},
		Spec: datadoghqv1alpha1.ExtendedDaemonSetReplicaSetSpec{
			TemplateGeneration: hash,
			Template: corev1.PodTemplateSpec{
				ObjectMeta: metav1.ObjectMeta{Labels: map[string]string{"app": "agent"}},
				Spec:       corev1.PodSpec{Containers: []corev1.Container{{Name: "agent", Image: "agent:" + hash}}},
			},
		},
	}
}

// zzPod builds a daemon pod of foo.
//
//	binding: 0 = spec.nodeName, 1 = node-name affinity (not yet scheduled), 2 = unbound
func zzPod(name, node, rsName, hash string, binding int, phase corev1.PodPhase, ready bool, created time.Time) *corev1.Pod {
	p := &corev1.Pod{
		ObjectMeta: metav1.ObjectMeta{
			Name: name, Namespace: zzNS, UID: types.UID("uid-" + name), CreationTimestamp: metav1.NewTime(created),
			Labels: map[string]string{
				datadoghqv1alpha1.ExtendedDaemonSetNameLabelKey:           zzEDSName,
				datadoghqv1alpha1.ExtendedDaemonSetReplicaSetNameLabelKey: rsName,
			},
			Annotations: map[string]string{datadoghqv1alpha1.MD5ExtendedDaemonSetAnnotationKey: hash},
		},
		Spec:   corev1.PodSpec{Containers: []corev1.Container{{Name: "agent", Image: "agent:" + hash}}},
		Status: corev1.PodStatus{Phase: phase},
	}
	switch binding {
	case 0:
		p.Spec.NodeName = node
	case 1:
		p.Spec.Affinity = &corev1.Affinity{NodeAffinity: &corev1.NodeAffinity{RequiredDuringSchedulingIgnoredDuringExecution: &corev1.NodeSelector{
			NodeSelectorTerms: []corev1.NodeSelectorTerm{{MatchFields: []corev1.NodeSelectorRequirement{{Key: "metadata.name", Operator: corev1.NodeSelectorOpIn, Values: []string{node}}}}},
		}}}
	}
	if ready {
		p.Status.Conditions = append(p.Status.Conditions, corev1.PodCondition{Type: corev1.PodReady, Status: corev1.ConditionTrue})
	}
	return p
}

func zzPhase(label string) corev1.PodPhase {
	switch nondet.String(label, "Running", "Pending", "Failed", "Unknown") {
	case "Running":
		return corev1.PodRunning
	case "Pending":
		return corev1.PodPending
	case "Failed":
		return corev1.PodFailed
	}
	return corev1.PodUnknown
}

func zzHasPod(l []*corev1.Pod, p *corev1.Pod) bool {
	for _, x := range l {
		if x.Name == p.Name && x.Namespace == p.Namespace {
			return true
		}
	}
	return false
}

func zzCountPod(l []*corev1.Pod, p *corev1.Pod) int {
	n := 0
	for _, x := range l {
		if x.Name == p.Name && x.Namespace == p.Namespace {
			n++
		}
	}
	return n
}
