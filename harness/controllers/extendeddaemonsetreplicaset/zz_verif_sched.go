//go:build verif

package extendeddaemonsetreplicaset

import (
	"context"
	"strconv"
	"time"

	"github.com/go-logr/logr"
	corev1 "k8s.io/api/core/v1"
	metav1 "k8s.io/apimachinery/pkg/apis/meta/v1"
	"k8s.io/apimachinery/pkg/types"
	"k8s.io/apimachinery/pkg/util/intstr"
	"sigs.k8s.io/controller-runtime/pkg/reconcile"

	datadoghqv1alpha1 "github.com/DataDog/extendeddaemonset/api/v1alpha1"
	edsctrl "github.com/DataDog/extendeddaemonset/controllers/extendeddaemonset"
	"github.com/DataDog/extendeddaemonset/pkg/controller/utils/comparison"
	"github.com/DataDog/extendeddaemonset/zzverif/fakeapi"
	"github.com/DataDog/extendeddaemonset/zzverif/nondet"
)

// zzWorld is a small cluster driven step by step by a symbolic schedule: every step runs one
// real reconcile (ExtendedDaemonSet, replica set foo-a, the other replica set) or a kubelet step.
type zzWorld struct {
	c            *fakeapi.Client
	eds          *edsctrl.Reconciler
	hashA, hashB string
	nNodes       int
}

func zzWorldTpl(id string) corev1.PodTemplateSpec {
	return corev1.PodTemplateSpec{ObjectMeta: metav1.ObjectMeta{Labels: map[string]string{"app": "agent"}},
		Spec: corev1.PodSpec{Containers: []corev1.Container{{Name: "agent", Image: "agent:" + id}}}}
}

// zzNewWorld: nNodes eligible nodes each running a Ready pod of replica set foo-a (template A,
// active, status in sync), spec.template = B.
func zzNewWorld(nNodes int, canary *datadoghqv1alpha1.ExtendedDaemonSetSpecStrategyCanary) (*zzWorld, *datadoghqv1alpha1.ExtendedDaemonSet) {
	w := &zzWorld{c: fakeapi.New(), nNodes: nNodes}
	tA, tB := zzWorldTpl("A"), zzWorldTpl("B")
	w.hashA, _ = comparison.GenerateMD5PodTemplateSpec(&tA)
	w.hashB, _ = comparison.GenerateMD5PodTemplateSpec(&tB)
	ds := &datadoghqv1alpha1.ExtendedDaemonSet{ObjectMeta: metav1.ObjectMeta{Name: zzEDSName, Namespace: zzNS, UID: "uid-foo", Annotations: map[string]string{}}}
	ds.Spec.Template = tB
	ds.Spec.Strategy.Canary = canary
	datadoghqv1alpha1.DefaultExtendedDaemonSetSpec(&ds.Spec, datadoghqv1alpha1.ExtendedDaemonSetSpecStrategyCanaryValidationModeAuto)
	rsA := zzRS("foo-a", w.hashA)
	rsA.Spec.Template = tA
	rsA.Annotations = map[string]string{datadoghqv1alpha1.MD5ExtendedDaemonSetAnnotationKey: w.hashA}
	rsA.CreationTimestamp = metav1.NewTime(nondet.Base().Add(-24 * time.Hour))
	rsA.Status.Status = "active"
	n32 := int32(nNodes)
	rsA.Status.Desired, rsA.Status.Current, rsA.Status.Ready, rsA.Status.Available = n32, n32, n32, n32
	w.c.ERS = append(w.c.ERS, rsA)
	ds.Status.ActiveReplicaSet = "foo-a"
	ds.Status.State = datadoghqv1alpha1.ExtendedDaemonSetStatusStateRunning
	ds.Status.Desired, ds.Status.Current, ds.Status.Ready, ds.Status.Available, ds.Status.UpToDate = n32, n32, n32, n32, n32
	for i := 0; i < nNodes; i++ {
		w.c.Nodes = append(w.c.Nodes, &corev1.Node{ObjectMeta: metav1.ObjectMeta{Name: zzNodeName(i), Labels: map[string]string{}}})
		w.c.Pods = append(w.c.Pods, zzPod("a-"+zzNodeName(i), zzNodeName(i), "foo-a", w.hashA, 0, corev1.PodRunning, true, nondet.Base().Add(-time.Hour)))
	}
	w.c.EDS = append(w.c.EDS, ds)
	w.eds, _ = edsctrl.NewReconciler(edsctrl.ReconcilerOptions{DefaultValidationMode: datadoghqv1alpha1.ExtendedDaemonSetSpecStrategyCanaryValidationModeAuto}, w.c, w.c.Scheme(), logr.Logger{}, &fakeapi.Recorder{})
	return w, ds
}

// otherRS returns the name of the replica set that is not foo-a ("" when there is none yet).
func (w *zzWorld) otherRS() string {
	for _, rs := range w.c.ERS {
		if rs.Name != "foo-a" {
			return rs.Name
		}
	}
	return ""
}

// step runs the s-th step of the symbolic schedule and returns its kind.
func (w *zzWorld) step(s int) string {
	kind := nondet.String("step"+strconv.Itoa(s), "eds", "rs-a", "rs-other", "kubelet")
	switch kind {
	case "eds":
		_, _ = w.eds.Reconcile(context.TODO(), reconcile.Request{NamespacedName: types.NamespacedName{Namespace: zzNS, Name: zzEDSName}})
	case "rs-a":
		_, _ = zzReconcile(zzReconciler(w.c, false), zzNS, "foo-a")
	case "kubelet":
		zzKubelet(w.c)
	default:
		name := w.otherRS()
		if name == "" {
			nondet.Assume(false) // not a step yet
		}
		_, _ = zzReconcile(zzReconciler(w.c, false), zzNS, name)
	}
	return kind
}

// unavailableNodes counts the nodes without a Ready, non-terminating daemon pod.
func (w *zzWorld) unavailableNodes() int {
	n := 0
	for i := 0; i < w.nNodes; i++ {
		ok := false
		for _, p := range w.c.Pods {
			if fakeapi.PodNode(p) != zzNodeName(i) || p.DeletionTimestamp != nil {
				continue
			}
			for _, cd := range p.Status.Conditions {
				if cd.Type == corev1.PodReady && cd.Status == corev1.ConditionTrue {
					ok = true
				}
			}
		}
		if !ok {
			n++
		}
	}
	return n
}

func (w *zzWorld) onePodPerNode(tag string) {
	perNode := map[string]int{}
	for _, p := range w.c.Pods {
		perNode[fakeapi.PodNode(p)]++
		nondet.Assert(tag, perNode[fakeapi.PodNode(p)] <= 1)
	}
}

// ZZ_C03_budgetUnderSchedules: the availability budget along whole histories.  Three nodes, no
// canary strategy, spec.template just changed, maxUnavailable at its default of one: under every
// schedule of k reconciles / kubelet steps at most one node is ever without a Ready daemon pod,
// no node ever holds two daemon pods, and every pod created is of the new template.
func ZZ_C03_budgetUnderSchedules() {
	steps := 6
	if nondet.Thorough() {
		steps = 9 // long enough to see a second node updated
	}
	w, _ := zzNewWorld(3, nil)
	seen := 0
	for s := 0; s < steps; s++ {
		w.step(s)
		nondet.Assert("C03.sched.at-most-maxUnavailable-nodes-down", w.unavailableNodes() <= 1)
		w.onePodPerNode("C03.sched.one-pod-per-node")
		for _, e := range w.c.Log[seen:] {
			if e.Kind == "Pod" && e.Verb == "create" {
				nondet.Assert("C03.sched.creates-live-template", e.Obj.(*corev1.Pod).Annotations[datadoghqv1alpha1.MD5ExtendedDaemonSetAnnotationKey] == w.hashB)
			}
		}
		seen = len(w.c.Log)
	}
	updated := 0
	for _, p := range w.c.Pods {
		if p.Annotations[datadoghqv1alpha1.MD5ExtendedDaemonSetAnnotationKey] == w.hashB {
			updated++
		}
	}
	nondet.Observe("updated", updated)
	nondet.Reach("C03.sched.a-node-was-updated", updated >= 1)
	if nondet.Thorough() {
		nondet.Reach("C03.sched.two-nodes-updated", updated >= 2)
	}
}

// ZZ_C07_rollbackUnderSchedules: a failed canary under every schedule.  Three nodes, canary of
// one node in progress (its pod of template B is running on node0), the canary replica set has
// just been marked failed.  Along k arbitrary steps: the active replica set stays active, no pod of
// the failed template is created any more, no pod is deleted on the non-canary nodes, no node
// holds two pods; and as soon as the ExtendedDaemonSet controller has run once, spec.template is
// back to the active template and status.canary is cleared, for good.
func ZZ_C07_rollbackUnderSchedules() {
	steps := 6
	if nondet.Thorough() {
		steps = 8
	}
	one := intstr.FromInt(1)
	w, ds := zzNewWorld(3, &datadoghqv1alpha1.ExtendedDaemonSetSpecStrategyCanary{Replicas: &one, Duration: &metav1.Duration{Duration: time.Hour}})
	tB := zzWorldTpl("B")
	rsB := zzRS("foo-b", w.hashB)
	rsB.Spec.Template = tB
	rsB.Annotations = map[string]string{datadoghqv1alpha1.MD5ExtendedDaemonSetAnnotationKey: w.hashB}
	rsB.CreationTimestamp = metav1.NewTime(nondet.Base().Add(-5 * time.Minute))
	rsB.Status.Status = "canary"
	rsB.Status.Desired, rsB.Status.Current, rsB.Status.Ready, rsB.Status.Available = 1, 1, 1, 1
	at := metav1.NewTime(nondet.Base().Add(-5 * time.Second))
	rsB.Status.Conditions = append(rsB.Status.Conditions, datadoghqv1alpha1.ExtendedDaemonSetReplicaSetCondition{Type: datadoghqv1alpha1.ConditionTypeCanaryFailed, Status: corev1.ConditionTrue, LastTransitionTime: at, LastUpdateTime: at})
	w.c.ERS = append(w.c.ERS, rsB)
	ds.Status.Canary = &datadoghqv1alpha1.ExtendedDaemonSetStatusCanary{ReplicaSet: "foo-b", Nodes: []string{zzNodeName(0)}}
	ds.Status.State = datadoghqv1alpha1.ExtendedDaemonSetStatusStateCanary
	// node0 runs the canary pod instead of its A pod
	w.c.Pods[0] = zzPod("b-"+zzNodeName(0), zzNodeName(0), "foo-b", w.hashB, 0, corev1.PodRunning, true, nondet.Base().Add(-4*time.Minute))
	w.c.Pods[0].Labels[datadoghqv1alpha1.ExtendedDaemonSetReplicaSetCanaryLabelKey] = datadoghqv1alpha1.ExtendedDaemonSetReplicaSetCanaryLabelValue
	w.c.ERS[0].Status.Desired, w.c.ERS[0].Status.Current, w.c.ERS[0].Status.Ready, w.c.ERS[0].Status.Available = 2, 2, 2, 2

	seen := 0
	edsRan := false
	for s := 0; s < steps; s++ {
		if w.step(s) == "eds" {
			edsRan = true
		}
		cur := w.c.EDS[0]
		nondet.Assert("C07.sched.active-unchanged", cur.Status.ActiveReplicaSet == "foo-a")
		for _, e := range w.c.Log[seen:] {
			if e.Kind != "Pod" {
				continue
			}
			if e.Verb == "create" {
				nondet.Assert("C07.sched.no-pod-of-failed-template", e.Obj.(*corev1.Pod).Annotations[datadoghqv1alpha1.MD5ExtendedDaemonSetAnnotationKey] == w.hashA)
			}
			if e.Verb == "delete" {
				nondet.Assert("C07.sched.only-canary-node-touched", e.Node == zzNodeName(0))
			}
		}
		seen = len(w.c.Log)
		w.onePodPerNode("C07.sched.one-pod-per-node")
		if edsRan {
			nondet.Assert("C07.sched.rolled-back-for-good", cur.Status.Canary == nil && len(cur.Spec.Template.Spec.Containers) == 1 && cur.Spec.Template.Spec.Containers[0].Image == "agent:A")
		}
	}
	replaced := false
	for _, p := range w.c.Pods {
		if fakeapi.PodNode(p) == zzNodeName(0) && p.Annotations[datadoghqv1alpha1.MD5ExtendedDaemonSetAnnotationKey] == w.hashA {
			replaced = true
		}
	}
	nondet.Observe("canaryNodeBackOnA", replaced)
	nondet.Reach("C07.sched.canary-pod-replaced", replaced)
}
