//go:build verif

package extendeddaemonsetreplicaset

import (
	"context"
	"strconv"
	"time"

	"github.com/go-logr/logr"
	corev1 "k8s.io/api/core/v1"
	metav1 "k8s.io/apimachinery/pkg/apis/meta/v1"
	"k8s.io/apimachinery/pkg/types"
	"k8s.io/apimachinery/pkg/util/intstr"
	"sigs.k8s.io/controller-runtime/pkg/reconcile"

	datadoghqv1alpha1 "github.com/DataDog/extendeddaemonset/api/v1alpha1"
	edsctrl "github.com/DataDog/extendeddaemonset/controllers/extendeddaemonset"
	"github.com/DataDog/extendeddaemonset/pkg/controller/utils/comparison"
	"github.com/DataDog/extendeddaemonset/zzverif/fakeapi"
	"github.com/DataDog/extendeddaemonset/zzverif/nondet"
)

// zzWorld is a small cluster driven step by step by a symbolic schedule: every step runs one
// real reconcile (ExtendedDaemonSet, replica set foo-a, the other replica set) or a kubelet step.
type zzWorld struct {
	c            *fakeapi.Client
	eds          *edsctrl.Reconciler
	hashA, hashB string
	nNodes       int
}

func zzWorldTpl(id string) corev1.PodTemplateSpec {
	return corev1.PodTemplateSpec{ObjectMeta: metav1.ObjectMeta{Labels: map[string]string{"app": "agent"}},
		Spec: corev1.PodSpec{Containers: []corev1.Container{{Name: "agent", Image: "agent:" + id}}}}
}

// zzNewWorld: nNodes eligible nodes each running a Ready pod of replica set foo-a (template A,
// active, status in sync), spec.template = B.
func zzNewWorld(nNodes int, canary *datadoghqv1alpha1.ExtendedDaemonSetSpecStrategyCanary) (*zzWorld, *datadoghqv1alpha1.ExtendedDaemonSet) {
	w := &zzWorld{c: fakeapi.New(), nNodes: nNodes}
	tA, tB := zzWorldTpl("A"), zzWorldTpl("B")
	w.hashA, _ = comparison.GenerateMD5PodTemplateSpec(&tA)
	w.hashB, _ = comparison.GenerateMD5PodTemplateSpec(&tB)
	ds := &datadoghqv1alpha1.ExtendedDaemonSet{ObjectMeta: metav1.ObjectMeta{Name: zzEDSName, Namespace: zzNS, UID: "uid-foo", Annotations: map[string]string{}}}
	ds.Spec.Template = tB
	ds.Spec.Strategy.Canary = canary
	datadoghqv1alpha1.DefaultExtendedDaemonSetSpec(&ds.Spec, datadoghqv1alpha1.ExtendedDaemonSetSpecStrategyCanaryValidationModeAuto)
	rsA := zzRS("foo-a", w.hashA)
	rsA.Spec.Template = tA
	rsA.Annotations = map[string]string{datadoghqv1alpha1.MD5ExtendedDaemonSetAnnotationKey: w.hashA}
	rsA.CreationTimestamp = metav1.NewTime(nondet.Base().Add(-24 * time.Hour))
	rsA.Status.Status = "active"
	n32 := int32(nNodes)
	rsA.Status.Desired, rsA.Status.Current, rsA.Status.Ready, rsA.Status.Available = n32, n32, n32, n32
	w.c.ERS = append(w.c.ERS, rsA)
	ds.Status.ActiveReplicaSet = "foo-a"
	ds.Status.State = datadoghqv1alpha1.ExtendedDaemonSetStatusStateRunning
	ds.Status.Desired, ds.Status.Current, ds.Status.Ready, ds.Status.Available, ds.Status.UpToDate = n32, n32, n32, n32, n32
	for i := 0; i < nNodes; i++ {
		w.c.Nodes = append(w.c.Nodes, &corev1.Node{ObjectMeta: metav1.ObjectMeta{Name: zzNodeName(i), Labels: map[string]string{}}})
		w.c.Pods = append(w.c.Pods, zzPod("a-"+zzNodeName(i), zzNodeName(i), "foo-a", w.hashA, 0, corev1.PodRunning, true, nondet.Base().Add(-time.Hour)))
	}
	w.c.EDS = append(w.c.EDS, ds)
	w.eds, _ = edsctrl.NewReconciler(edsctrl.ReconcilerOptions{DefaultValidationMode: datadoghqv1alpha1.ExtendedDaemonSetSpecStrategyCanaryValidationModeAuto}, w.c, w.c.Scheme(), logr.Logger{}, &fakeapi.Recorder{})
	return w, ds
}

// otherRS returns the name of the replica set that is not foo-a ("" when there is none yet).
func (w *zzWorld) otherRS() string {
	for _, rs := range w.c.ERS {
		if rs.Name != "foo-a" {
			return rs.Name
		}
	}
	return ""
}

// step runs the s-th step of the symbolic schedule and returns its kind.
func (w *zzWorld) step(s int) string {
	kind := nondet.String("step"+strconv.Itoa(s), "eds", "rs-a", "rs-other", "kubelet")
	switch kind {
	case "eds":
		_, _ = w.eds.Reconcile(context.TODO(), reconcile.Request{NamespacedName: types.NamespacedName{Namespace: zzNS, Name: zzEDSName}})
	case "rs-a":
		_, _ = zzReconcile(zzReconciler(w.c, false), zzNS, "foo-a")
	case "kubelet":
		zzKubelet(w.c)
	default:
		name := w.otherRS()
		if name == "" {
			nondet.Assume(false) // not a step yet
		}
		_, _ = zzReconcile(zzReconciler(w.c, false), zzNS, name)
	}
	return kind
}

// unavailableNodes counts the nodes without a Ready, non-terminating daemon pod.
func (w *zzWorld) unavailableNodes() int {
	n := 0
	for i := 0; i < w.nNodes; i++ {
		ok := false
		for _, p := range w.c.Pods {
			if fakeapi.PodNode(p) != zzNodeName(i) || p.DeletionTimestamp != nil {
				continue
			}
			for _, cd := range p.Status.Conditions {
				if cd.Type == corev1.PodReady && cd.Status == corev1.ConditionTrue {
					ok = true
				}
			}
		}
		if !ok {
			n++
		}
	}
	return n
}

func (w *zzWorld) onePodPerNode(tag string) {
	perNode := map[string]int{}
	for _, p := range w.c.Pods {
		perNode[fakeapi.PodNode(p)]++
		nondet.Assert(tag, perNode[fakeapi.PodNode(p)] <= 1)
	}
}

// ZZ_C03_budgetUnderSchedules: the availability budget along whole histories.  Three nodes, no
// canary strategy, spec.template just changed, maxUnavailable at its default of one: under every
// schedule of k reconciles / kubelet steps at most one node is ever without a Ready daemon pod,
// no node ever holds two daemon pods, and every pod created is of the new template.
func ZZ_C03_budgetUnderSchedules() {
	steps := 6
	if nondet.Thorough() {
		steps = 9 // long enough to see a second node updated
	}
	w, _ := zzNewWorld(3, nil)
	seen := 0
	for s := 0; s < steps; s++ {
		w.step(s)
		nondet.Assert("C03.sched.at-most-maxUnavailable-nodes-down", w.unavailableNodes() <= 1)
		w.onePodPerNode("C03.sched.one-pod-per-node")
		for _, e := range w.c.Log[seen:] {
			if e.Kind == "Pod" && e.Verb == "create" {
				nondet.Assert("C03.sched.creates-live-template", e.Obj.(*corev1.Pod).Annotations[datadoghqv1alpha1.MD5ExtendedDaemonSetAnnotationKey] == w.hashB)
			}
		}
		seen = len(w.c.Log)
	}
	updated := 0
	for _, p := range w.c.Pods {
		if p.Annotations[datadoghqv1alpha1.MD5ExtendedDaemonSetAnnotationKey] == w.hashB {
			updated++
		}
	}
	nondet.Observe("updated", updated)
	nondet.Reach("C03.sched.a-node-was-updated", updated >= 1)
	if nondet.Thorough() {
		nondet.Reach("C03.sched.two-nodes-updated", updated >= 2)
	}
}

// ZZ_C07_rollbackUnderSchedules: a failed canary under every schedule.  Three nodes, canary of
// one node in progress (its pod of template B is running on node0), the canary replica set has
// just been marked failed.  Along k arbitrary steps: the active replica set stays active, no pod of
// the failed template is created any more, no pod is deleted on the non-canary nodes, no node
// holds two pods; and as soon as the ExtendedDaemonSet controller has run once, spec.template is
// back to the active template and status.canary is cleared, for good.
func ZZ_C07_rollbackUnderSchedules() {
	steps := 6
	if nondet.Thorough() {
		steps = 8
	}
	one := intstr.FromInt(1)
	w, ds := zzNewWorld(3, &datadoghqv1alpha1.ExtendedDaemonSetSpecStrategyCanary{Replicas: &one, Duration: &metav1.Duration{Duration: time.Hour}})
	tB := zzWorldTpl("B")
	rsB := zzRS("foo-b", w.hashB)
	rsB.Spec.Template = tB
	rsB.Annotations = map[string]string{datadoghqv1alpha1.MD5ExtendedDaemonSetAnnotationKey: w.hashB}
	rsB.CreationTimestamp = metav1.NewTime(nondet.Base().Add(-5 * time.Minute))
	rsB.Status.Status = "canary"
	rsB.Status.Desired, rsB.Status.Current, rsB.Status.Ready, rsB.Status.Available = 1, 1, 1, 1
	at := metav1.NewTime(nondet.Base().Add(-5 * time.Second))
	rsB.Status.Conditions = append(rsB.Status.Conditions, datadoghqv1alpha1.ExtendedDaemonSetReplicaSetCondition{Type: datadoghqv1alpha1.ConditionTypeCanaryFailed, Status: corev1.ConditionTrue, LastTransitionTime: at, LastUpdateTime: at})
	w.c.ERS = append(w.c.ERS, rsB)
	ds.Status.Canary = &datadoghqv1alpha1.ExtendedDaemonSetStatusCanary{ReplicaSet: "foo-b", Nodes: []string{zzNodeName(0)}}
	ds.Status.State = datadoghqv1alpha1.ExtendedDaemonSetStatusStateCanary
	// node0 runs the canary pod instead of its A pod
	w.c.Pods[0] = zzPod("b-"+zzNodeName(0), zzNodeName(0), "foo-b", w.hashB, 0, corev1.PodRunning, true, nondet.Base().Add(-4*time.Minute))
	w.c.Pods[0].Labels[datadoghqv1alpha1.ExtendedDaemonSetReplicaSetCanaryLabelKey] = datadoghqv1alpha1.ExtendedDaemonSetReplicaSetCanaryLabelValue
	w.c.ERS[0].Status.Desired, w.c.ERS[0].Status.Current, w.c.ERS[0].Status.Ready, w.c.ERS[0].Status.Available = 2, 2, 2, 2

	seen := 0
	edsRan := false
	for s := 0; s < steps; s++ {
		if w.step(s) == "eds" {
			edsRan = true
		}
		cur := w.c.EDS[0]
		nondet.Assert("C07.sched.active-unchanged", cur.Status.ActiveReplicaSet == "foo-a")
		for _, e := range w.c.Log[seen:] {
			if e.Kind != "Pod" {
				continue
			}
			if e.Verb == "create" {
				nondet.Assert("C07.sched.no-pod-of-failed-template", e.Obj.(*corev1.Pod).Annotations[datadoghqv1alpha1.MD5ExtendedDaemonSetAnnotationKey] == w.hashA)
			}
			if e.Verb == "delete" {
				nondet.Assert("C07.sched.only-canary-node-touched", e.Node == zzNodeName(0))
			}
		}
		seen = len(w.c.Log)
		w.onePodPerNode("C07.sched.one-pod-per-node")
		if edsRan {
			nondet.Assert("C07.sched.rolled-back-for-good", cur.Status.Canary == nil && len(cur.Spec.Template.Spec.Containers) == 1 && cur.Spec.Template.Spec.Containers[0].Image == "agent:A")
		}
	}
	replaced := false
	for _, p := range w.c.Pods {
		if fakeapi.PodNode(p) == zzNodeName(0) && p.Annotations[datadoghqv1alpha1.MD5ExtendedDaemonSetAnnotationKey] == w.hashA {
			replaced = true
		}
	}
	nondet.Observe("canaryNodeBackOnA", replaced)
	nondet.Reach("C07.sched.canary-pod-replaced", replaced)
}

// ZZ_C05_promotionUnderSchedules: the promotion rule along whole histories, with the user acting
// in between.  Three nodes, canary of one node, auto validation with a three-minute duration.
// Each of the k steps is one of: ExtendedDaemonSet reconcile, a sync of both replica sets, a
// kubelet step (one minute passes), the user toggling the canary pause (as kubectl-eds pause /
// unpause write it), the user validating the canary.  Whenever status.activeReplicaSet switches to
// the new replica set, the canary-valid annotation named it or — the canary not being paused at
// that moment — its duration had elapsed; and new-template pods appear outside the canary nodes
// only after the switch.
func ZZ_C05_promotionUnderSchedules() {
	steps := 6
	if nondet.Thorough() {
		steps = 8
	}
	one := intstr.FromInt(1)
	w, _ := zzNewWorld(3, &datadoghqv1alpha1.ExtendedDaemonSetSpecStrategyCanary{Replicas: &one, Duration: &metav1.Duration{Duration: 3 * time.Minute},
		NoRestartsDuration: &metav1.Duration{Duration: time.Minute}})
	seen := 0
	promoted := false
	for s := 0; s < steps; s++ {
		cur := w.c.EDS[0]
		pausedBefore := cur.Annotations[datadoghqv1alpha1.ExtendedDaemonSetCanaryPausedAnnotationKey] == "true"
		validBefore := cur.Annotations[datadoghqv1alpha1.ExtendedDaemonSetCanaryValidAnnotationKey]
		var canaryNodes []string
		if cur.Status.Canary != nil {
			canaryNodes = append(canaryNodes, cur.Status.Canary.Nodes...)
		}
		other := w.otherRS()
		age := time.Duration(0)
		for _, rs := range w.c.ERS {
			if rs.Name == other {
				age = nondet.Base().Sub(rs.CreationTimestamp.Time)
			}
		}
		switch nondet.String("step"+strconv.Itoa(s), "eds", "rs-all", "kubelet", "toggle-pause", "validate") {
		case "eds":
			_, _ = w.eds.Reconcile(context.TODO(), reconcile.Request{NamespacedName: types.NamespacedName{Namespace: zzNS, Name: zzEDSName}})
		case "rs-all":
			for _, name := range []string{"foo-a", other} {
				if name != "" {
					_, _ = zzReconcile(zzReconciler(w.c, false), zzNS, name)
				}
			}
		case "kubelet":
			zzKubelet(w.c)
		case "toggle-pause":
			if cur.Status.Canary == nil {
				nondet.Assume(false) // kubectl-eds refuses without an active canary
			}
			if pausedBefore {
				cur.Annotations[datadoghqv1alpha1.ExtendedDaemonSetCanaryPausedAnnotationKey] = "false"
				cur.Annotations[datadoghqv1alpha1.ExtendedDaemonSetCanaryUnpausedAnnotationKey] = "true"
			} else {
				cur.Annotations[datadoghqv1alpha1.ExtendedDaemonSetCanaryPausedAnnotationKey] = "true"
				cur.Annotations[datadoghqv1alpha1.ExtendedDaemonSetCanaryUnpausedAnnotationKey] = "false"
			}
		default:
			if cur.Status.Canary == nil {
				nondet.Assume(false)
			}
			cur.Annotations[datadoghqv1alpha1.ExtendedDaemonSetCanaryValidAnnotationKey] = cur.Status.Canary.ReplicaSet
		}
		after := w.c.EDS[0]
		if !promoted && after.Status.ActiveReplicaSet != "foo-a" {
			promoted = true
			// the switch happens in an ExtendedDaemonSet reconcile and only when the rule allows it
			nondet.Assert("C05.sched.switch-to-the-new-replicaset", after.Status.ActiveReplicaSet == other && other != "")
			byValidation := validBefore != "" && validBefore == other
			byTime := !pausedBefore && age >= 3*time.Minute-time.Second
			nondet.Assert("C05.sched.rule", byValidation || byTime)
			nondet.Fact("byValidation", byValidation)
		}
		for _, e := range w.c.Log[seen:] {
			if e.Kind == "Pod" && e.Verb == "create" && e.Obj.(*corev1.Pod).Annotations[datadoghqv1alpha1.MD5ExtendedDaemonSetAnnotationKey] == w.hashB && !promoted {
				nondet.Assert("C05.sched.new-template-confined-until-promoted", zzInList(canaryNodes, e.Node))
			}
		}
		seen = len(w.c.Log)
		w.onePodPerNode("C05.sched.one-pod-per-node")
	}
	nondet.Observe("promoted", promoted)
	nondet.Reach("C05.sched.promoted", promoted)
}

// ZZ_C08_switchesUnderSchedules: "every combination and toggling order of the paused, frozen ...
// annotations, and every interleaving of reconciles while they are set".  Three nodes, no canary
// strategy, template just changed.  Each of the k steps is an ExtendedDaemonSet reconcile, a sync of
// both replica sets, a kubelet step, or the user toggling rolling-update-paused or rollout-frozen.
// A sync that runs while rollout-frozen is true creates and deletes nothing; one that runs while
// rolling-update-paused is true deletes nothing; after an ExtendedDaemonSet reconcile status.state
// tells the switches; and with both switches off the rollout does make progress again.
func ZZ_C08_switchesUnderSchedules() {
	steps := 5
	if nondet.Thorough() {
		steps = 7
	}
	w, _ := zzNewWorld(3, nil)
	seen := 0
	for s := 0; s < steps; s++ {
		cur := w.c.EDS[0]
		paused := cur.Annotations[datadoghqv1alpha1.ExtendedDaemonSetRollingUpdatePausedAnnotationKey] == "true"
		frozen := cur.Annotations[datadoghqv1alpha1.ExtendedDaemonSetRolloutFrozenAnnotationKey] == "true"
		kind := nondet.String("step"+strconv.Itoa(s), "eds", "rs-all", "kubelet", "toggle-paused", "toggle-frozen")
		switch kind {
		case "eds":
			_, _ = w.eds.Reconcile(context.TODO(), reconcile.Request{NamespacedName: types.NamespacedName{Namespace: zzNS, Name: zzEDSName}})
		case "rs-all":
			for _, name := range []string{"foo-a", w.otherRS()} {
				if name != "" {
					_, _ = zzReconcile(zzReconciler(w.c, false), zzNS, name)
				}
			}
		case "kubelet":
			zzKubelet(w.c)
		case "toggle-paused":
			// set to "true", then to "false" (as kubectl-eds writes it), then removed
			switch cur.Annotations[datadoghqv1alpha1.ExtendedDaemonSetRollingUpdatePausedAnnotationKey] {
			case "":
				cur.Annotations[datadoghqv1alpha1.ExtendedDaemonSetRollingUpdatePausedAnnotationKey] = "true"
			case "true":
				cur.Annotations[datadoghqv1alpha1.ExtendedDaemonSetRollingUpdatePausedAnnotationKey] = "false"
			default:
				delete(cur.Annotations, datadoghqv1alpha1.ExtendedDaemonSetRollingUpdatePausedAnnotationKey)
			}
		default:
			if frozen {
				delete(cur.Annotations, datadoghqv1alpha1.ExtendedDaemonSetRolloutFrozenAnnotationKey)
			} else {
				cur.Annotations[datadoghqv1alpha1.ExtendedDaemonSetRolloutFrozenAnnotationKey] = "true"
			}
		}
		creates, deletes, createdRS := 0, 0, false
		for _, e := range w.c.Log[seen:] {
			if e.Kind == "Pod" && e.Verb == "create" {
				creates++
			}
			if e.Kind == "Pod" && e.Verb == "delete" {
				deletes++
			}
			if e.Kind == "ExtendedDaemonSetReplicaSet" && e.Verb == "create" {
				createdRS = true
			}
		}
		seen = len(w.c.Log)
		if kind == "rs-all" {
			if frozen {
				nondet.Assert("C08.sched.frozen-sync-touches-no-pod", creates == 0 && deletes == 0)
			}
			if paused {
				nondet.Assert("C08.sched.paused-sync-deletes-nothing", deletes == 0)
			}
		}
		// (the reconcile that creates the replica set of the new template returns right after that)
		if kind == "eds" && !createdRS {
			want := datadoghqv1alpha1.ExtendedDaemonSetStatusStateRunning
			if frozen {
				want = datadoghqv1alpha1.ExtendedDaemonSetStatusStateRolloutFrozen
			} else if paused {
				want = datadoghqv1alpha1.ExtendedDaemonSetStatusStateRollingUpdatePaused
			}
			nondet.Assert("C08.sched.state-tells-the-switches", w.c.EDS[0].Status.State == want)
		}
		w.onePodPerNode("C08.sched.one-pod-per-node")
		nondet.Assert("C08.sched.budget", w.unavailableNodes() <= 1)
	}
	nondet.Reach("C08.sched.frozen-sync-seen", w.c.EDS[0].Annotations[datadoghqv1alpha1.ExtendedDaemonSetRolloutFrozenAnnotationKey] == "true" && seen > 0)
}
