//go:build verif

package extendeddaemonsetreplicaset

import (
	corev1 "k8s.io/api/core/v1"

	datadoghqv1alpha1 "github.com/DataDog/extendeddaemonset/api/v1alpha1"
	"github.com/DataDog/extendeddaemonset/zzverif/fakeapi"
	"github.com/DataDog/extendeddaemonset/zzverif/nondet"
)

// ZZ_C02_eligibleNodesServed: "every eligible node runs exactly one Ready live-template pod" with
// eligibility decided by the real predicates on a template that restricts it: node selector, a
// required node affinity of one or two ORed terms (label expression, node name field), a toleration.
// node0 has an arbitrary label / taint, node1 is plain; each may already run its pod.  After at most
// four rounds of {sync of the active replica set, kubelet step} exactly the eligible nodes (reference
// predicate written from the statement of C01) run one pod each, nothing else exists, and one more
// round changes nothing.
func ZZ_C02_eligibleNodesServed() { zzEligibleWorld("C02.eligible") }

// ZZ_C14_countsMatchEligibleNodes: the same runs seen from C14: once quiescent, the replica set's
// "desired equals the number of eligible nodes and current, ready, available ... equal the numbers of
// daemon pods that exist, are Ready".
func ZZ_C14_countsMatchEligibleNodes() { zzEligibleWorld("C14.eligible") }

func zzEligibleWorld(prop string) {
	tpl := zzTplAttr{}
	switch nondet.String("tpl.selector", "none", "value", "empty-value") {
	case "value":
		tpl.selector = true
	case "empty-value": // {k: ""}: matches a node carrying the label with an empty value, not one lacking it
		tpl.selector, tpl.selectorEmptyValue = true, true
	}
	if nondet.Bool("tpl.affinityIn") {
		tpl.affinityOp = "In"
	}
	switch nondet.String("tpl.affinityFields", "", "and-name-in", "or-name-in") {
	case "and-name-in":
		tpl.fieldShape = "and-name-in"
	case "or-name-in":
		tpl.fieldShape = "or-name-in"
	}
	if tpl.affinityOp == "" && tpl.fieldShape == "" {
		tpl.noRequired = zzPickNoRequired()
	}
	// the taint of node0 may be tolerated — by the only toleration of its key, or by the second of two
	switch nondet.String("tpl.tolerates", "", "k", "k-second") {
	case "k":
		tpl.tolerates = "k"
	case "k-second":
		tpl.tolerates = "k-second"
	}
	a := zzNodeAttr{}
	switch nondet.String("node0.label", "", "v", "w", "present-with-empty-value") {
	case "v":
		a.label = "v"
	case "w":
		a.label = "w"
	case "present-with-empty-value":
		a.label = "E"
	}
	if nondet.Bool("node0.tainted") {
		a.taint, a.tKey, a.effect = true, zzLabelKey, corev1.TaintEffectNoSchedule
	}
	b := zzNodeAttr{label: "v"}
	if tpl.selectorEmptyValue {
		b.label = "E" // node1 stays the plain eligible node
	}
	attrs := []zzNodeAttr{a, b}

	c, ds, _, _ := zzStore(0)
	rs := zzTemplateFor(tpl)
	c.ERS[0] = rs
	ds.Status.ActiveReplicaSet = rs.Name
	for i, at := range attrs {
		c.Nodes = append(c.Nodes, zzNodeFor(i, at))
	}
	for i := range attrs {
		if nondet.Bool(zzNodeName(i) + ".hasPod") {
			c.Pods = append(c.Pods, zzPod("pod-"+zzNodeName(i), zzNodeName(i), zzRSName, zzHashNew, 0, corev1.PodRunning, true, nondet.Base().Add(-3600*1e9)))
		}
	}
	r := zzReconciler(c, nondet.Bool("nodeAffinitySupported"))
	eligible := 0
	for i, at := range attrs {
		if zzEligible(at, tpl, zzNodeName(i)) {
			eligible++
		}
	}
	settled := func() bool {
		if len(c.Pods) != eligible {
			return false
		}
		seen := map[string]bool{}
		for _, p := range c.Pods {
			n := p.Spec.NodeName
			ok := false
			for i, at := range attrs {
				if n == zzNodeName(i) && zzEligible(at, tpl, n) {
					ok = true
				}
			}
			if !ok || seen[n] {
				return false
			}
			seen[n] = true
		}
		return true
	}
	for round := 0; round < 4; round++ {
		_, err := zzReconcile(r, zzNS, rs.Name)
		nondet.Assert(prop+".sync-succeeds", err == nil)
		zzKubelet(c)
	}
	nondet.Assert(prop+".exactly-the-eligible-nodes-run-a-pod", settled())
	before := len(c.Writes())
	_, _ = zzReconcile(r, zzNS, rs.Name)
	podWrites := 0
	for _, e := range c.Writes()[before:] {
		if e.Kind == "Pod" {
			podWrites++
		}
	}
	nondet.Assert(prop+".quiescent", podWrites == 0)
	var st *datadoghqv1alpha1.ExtendedDaemonSetReplicaSetStatus
	for _, s := range c.ERS {
		if s.Name == rs.Name {
			st = &s.Status
		}
	}
	nondet.Assert(prop+".status-counts", st != nil && int(st.Desired) == eligible && int(st.Current) == eligible && int(st.Ready) == eligible && int(st.Available) == eligible)
	nondet.Observe("eligible", eligible)
	nondet.Reach(prop+".node0-only-by-the-second-term", tpl.affinityOp == "In" && tpl.fieldShape == "or-name-in" && a.label != "v" && !a.taint && !tpl.selector && eligible == 2)
	nondet.Reach(prop+".node0-ineligible", eligible == 1)
	_ = fakeapi.PodNode
}
