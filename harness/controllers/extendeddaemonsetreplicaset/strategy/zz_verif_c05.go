//go:build verif

package strategy

import (
	"time"

	corev1 "k8s.io/api/core/v1"
	metav1 "k8s.io/apimachinery/pkg/apis/meta/v1"

	datadoghqv1alpha1 "github.com/DataDog/extendeddaemonset/api/v1alpha1"
	"github.com/DataDog/extendeddaemonset/zzverif/nondet"
)

// ZZ_C05_lastRestartAcrossContainers: "at least noRestartsDuration has passed since the last canary
// pod restart" — the ExtendedDaemonSet controller reads the time of the last restart from the
// PodRestarting condition the canary sync maintains (its last update time), so that record has to
// be the latest termination of ANY container of ANY canary pod, not the one of the container that
// happened to restart most.  One or two canary pods with two containers each, arbitrary restart
// counts and termination instants, auto-pause and auto-fail off, no earlier record: after the sync
// the condition is True exactly when some container restarted and its last update is the latest of
// the termination instants.
func ZZ_C05_lastRestartAcrossContainers() { zzLastRestart("C05.last-restart") }

// ZZ_C06_latestRestartAcrossContainers: the same record seen from C06: "the span between the first and
// the latest observed restart" — the latest is the latest termination over every container of every
// canary pod (arbitrary termination instants, run start times unset as the kubelet leaves them for
// containers started with the pod).
func ZZ_C06_latestRestartAcrossContainers() { zzLastRestart("C06.latest-restart") }

func zzLastRestart(prop string) {
	now := nondet.TimeNs("now", 0, time.Hour)
	ds := zzDaemonset(map[string]string{})
	off := false
	ds.Spec.Strategy.Canary = &datadoghqv1alpha1.ExtendedDaemonSetSpecStrategyCanary{
		AutoPause: &datadoghqv1alpha1.ExtendedDaemonSetSpecStrategyCanaryAutoPause{Enabled: &off},
		AutoFail:  &datadoghqv1alpha1.ExtendedDaemonSetSpecStrategyCanaryAutoFail{Enabled: &off},
	}
	datadoghqv1alpha1.DefaultExtendedDaemonSetSpec(&ds.Spec, datadoghqv1alpha1.ExtendedDaemonSetSpecStrategyCanaryValidationModeAuto)
	rs := zzReplicaSet()
	params := &Parameters{
		EDSName: zzEDSName, Strategy: &ds.Spec.Strategy, Replicaset: rs, ReplicaSetStatus: string(ReplicaSetStatusCanary),
		NewStatus:  rs.Status.DeepCopy(),
		NodeByName: map[string]*NodeItem{}, PodByNodeName: map[*NodeItem]*corev1.Pod{},
	}
	nPods := 1
	if nondet.Bool("twoPods") {
		nPods = 2
	}
	anyRestart := false
	var latest time.Time
	sidecarIsInit := nondet.Bool("sidecarIsANativeSidecar")
	for i := 0; i < nPods; i++ {
		ni := NewNodeItem(&corev1.Node{ObjectMeta: metav1.ObjectMeta{Name: zzNodeName(i)}}, nil)
		params.NodeByName[ni.Node.Name] = ni
		params.CanaryNodes = append(params.CanaryNodes, ni.Node.Name)
		p := zzPod(i, zzHashNew, 2, true, nondet.Base().Add(-time.Hour))
		st := metav1.NewTime(nondet.Base().Add(-time.Hour))
		p.Status.StartTime = &st
		for _, cn := range []string{"agent", "sidecar"} {
			l := zzNodeName(i) + "." + cn
			cs := corev1.ContainerStatus{Name: cn, RestartCount: nondet.Int32(l+".restarts", 0, 5)}
			if cs.RestartCount > 0 {
				at := nondet.TimeNs(l+".finishedAt", -24*time.Hour, 0)
				cs.LastTerminationState.Terminated = &corev1.ContainerStateTerminated{Reason: "Error", ExitCode: 1, FinishedAt: metav1.NewTime(at)}
				if !anyRestart || at.After(latest) {
					latest = at
				}
				anyRestart = true
			}
			// the sidecar may be a native sidecar (an init container with restartPolicy Always): its status
			// is reported among the init containers, and its restarts count like any other
			if cn == "sidecar" && sidecarIsInit {
				p.Status.InitContainerStatuses = append(p.Status.InitContainerStatuses, cs)
			} else {
				p.Status.ContainerStatuses = append(p.Status.ContainerStatuses, cs)
			}
		}
		params.PodByNodeName[ni] = p
	}

	res := manageCanaryStatus(map[string]string{}, params, now)

	recorded, isTrue := false, false
	var at time.Time
	for _, c := range res.NewStatus.Conditions {
		if c.Type == datadoghqv1alpha1.ConditionTypePodRestarting {
			recorded, isTrue, at = true, c.Status == corev1.ConditionTrue, c.LastUpdateTime.Time
		}
	}
	nondet.Assert(prop+".recorded", (recorded && isTrue) == anyRestart)
	if anyRestart && recorded {
		nondet.Assert(prop+".is-the-latest-of-all-containers", at.Equal(latest))
	}
	nondet.Assert(prop+".no-verdict-when-disabled", !res.IsFailed && !res.IsPaused)
	nondet.Observe("recorded", recorded)
	nondet.Reach(prop+".less-restarted-container-is-later", anyRestart && nPods == 1 && recorded && at.Equal(latest))
}
