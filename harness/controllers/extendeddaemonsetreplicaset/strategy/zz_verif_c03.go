//go:build verif

package strategy

import (
	corev1 "k8s.io/api/core/v1"
	"strconv"

	metav1 "k8s.io/apimachinery/pkg/apis/meta/v1"
	"k8s.io/apimachinery/pkg/util/intstr"

	datadoghqv1alpha1 "github.com/DataDog/extendeddaemonset/api/v1alpha1"
	"github.com/DataDog/extendeddaemonset/zzverif/fakeapi"
	"github.com/DataDog/extendeddaemonset/zzverif/nondet"
)

func zzNumNodes(quick, thorough int) int {
	if nondet.Thorough() {
		return thorough
	}
	return quick
}

// zzC03 runs one rolling-update sync over n nodes in arbitrary categories and checks
// the availability budget of property C03.
func zzC03(n int, percent, sharedVariants bool) { zzC03x(n, percent, sharedVariants, "") }

// zzC03x: notReadyAs = how a pod whose Ready condition would be False presents itself instead:
// "unknown" — Ready=Unknown (a kubelet that stopped reporting); "failed" — phase Failed (evicted, still
// listed because the failed-pods back-off holds it): none of these is "available", all of them are
// unavailable pods that are replaced first.
func zzC03x(n int, percent, sharedVariants bool, notReadyAs string) {
	cats := make([]int, n)
	for i := range cats {
		cats[i] = nondet.Int("cat"+strconv.Itoa(i), 0, zzNumCat-1)
	}
	ds := zzDaemonset(map[string]string{})
	if percent {
		if nondet.Thorough() {
			// (six values each on four nodes took 22 minutes; the thorough tier keeps four nodes and widens the
			// alphabets by the rounding cases 1% and 100% on one side only)
			ds.Spec.Strategy.RollingUpdate.MaxUnavailable = zzIntOrString("maxUnavailable", 0, "0%", "1%", "34%", "67%", "100%", "150%")
			ds.Spec.Strategy.RollingUpdate.MaxPodSchedulerFailure = zzIntOrString("maxSchedFail", 0, "0%", "50%")
		} else {
			ds.Spec.Strategy.RollingUpdate.MaxUnavailable = zzIntOrString("maxUnavailable", 0, "0%", "34%", "67%", "150%")
			ds.Spec.Strategy.RollingUpdate.MaxPodSchedulerFailure = zzIntOrString("maxSchedFail", 0, "0%", "50%")
		}
		nondet.Assume(ds.Spec.Strategy.RollingUpdate.MaxUnavailable.Type == 1)
		nondet.Assume(ds.Spec.Strategy.RollingUpdate.MaxPodSchedulerFailure.Type == 1)
	} else {
		ds.Spec.Strategy.RollingUpdate.MaxUnavailable = zzIntOrString("maxUnavailable", n+2)
		ds.Spec.Strategy.RollingUpdate.MaxPodSchedulerFailure = zzIntOrString("maxSchedFail", n+2)
	}
	// the creation side is throttled by default (slow start of one pod per interval, just activated: fewer
	// pods may be created than nodes lack one) or not (increase of ten): U counts every node without an
	// available pod either way
	if !percent && nondet.Bool("creationUnthrottled") {
		ten := intstr.FromInt(10)
		ds.Spec.Strategy.RollingUpdate.SlowStartAdditiveIncrease = &ten
	}
	rs := zzReplicaSet()
	// the status the previous sync stored (the strategy starts from a copy of it) is arbitrary: counters
	// of an earlier sync — stuck nodes that have recovered since included — must not leak into this one
	rs.Status.Desired = nondet.Int32("prev.desired", 0, 1000)
	if percent {
		// (percentages are resolved by floating-point code the engine only runs on concrete operands: with
		// percent limits the stored desired count is a fixed one, larger than any cluster of the harness — the
		// node list shrank since the previous sync)
		rs.Status.Desired = 25
	}
	rs.Status.Current = nondet.Int32("prev.current", 0, 1000)
	rs.Status.Ready = nondet.Int32("prev.ready", 0, 1000)
	rs.Status.Available = nondet.Int32("prev.available", 0, 1000)
	rs.Status.IgnoredUnresponsiveNodes = nondet.Int32("prev.ignoredUnresponsiveNodes", 0, 1000)
	// concrete shape: categories fork here
	for i := range cats {
		cats[i] = int(nondetConc(cats[i]))
	}
	params, items := zzParamsV(ds, rs, cats, sharedVariants)
	// a canary may be in progress elsewhere: the controller hands the canary node names over, after having
	// left those nodes out of the maps — they are not targeted nodes and change nothing in the budget
	// (a separate case only in the quick absolute-number harness; elsewhere the names are always handed over,
	// to keep the number of paths)
	if percent || nondet.Thorough() || nondet.Bool("canaryInProgressOnOtherNodes") {
		params.CanaryNodes = []string{"canary-node-x", "canary-node-y"}
	}
	if notReadyAs != "" {
		for _, pod := range params.PodByNodeName {
			if pod == nil {
				continue
			}
			for i := range pod.Status.Conditions {
				if pod.Status.Conditions[i].Type == corev1.PodReady && pod.Status.Conditions[i].Status == corev1.ConditionFalse {
					if notReadyAs == "unknown" {
						pod.Status.Conditions[i].Status = corev1.ConditionUnknown
					} else if pod.DeletionTimestamp == nil {
						pod.Status.Phase = corev1.PodFailed
					}
				}
			}
		}
	}
	client := fakeapi.New()

	res, err := ManageDeployment(client, ds, params, metav1.Now())
	nondet.Assert("C03.noerror", err == nil)
	if err != nil {
		return
	}

	// ---- oracle, from the statement ----
	maxUnavailable := zzResolve(ds.Spec.Strategy.RollingUpdate.MaxUnavailable, n)
	maxSchedFail := zzResolve(ds.Spec.Strategy.RollingUpdate.MaxPodSchedulerFailure, n)
	stuck, withoutAvailable := 0, 0
	for _, c := range cats {
		if c == zzStuck {
			stuck++
		}
		if c != zzUpToDateAvailable && c != zzOutdatedAvailable {
			withoutAvailable++
		}
	}
	tolerated := nondet.IteInt(stuck <= maxSchedFail, stuck, maxSchedFail)
	u := withoutAvailable - tolerated
	budget := nondet.IteInt(maxUnavailable-u >= 0, maxUnavailable-u, 0)

	availableDeleted := 0
	for _, ni := range res.PodsToDelete {
		pod := params.PodByNodeName[ni]
		// every pod deleted for updating is outdated and not already terminating
		idx := zzIndexOf(items, ni)
		nondet.Assert("C03.only-outdated", idx >= 0 && (cats[idx] == zzOutdatedAvailable || cats[idx] == zzOutdatedUnavailable))
		if pod != nil && zzReady(pod) {
			availableDeleted++
		}
	}
	for i := range res.PodsToDelete {
		for j := i + 1; j < len(res.PodsToDelete); j++ {
			nondet.Assert("C03.distinct", res.PodsToDelete[i] != res.PodsToDelete[j])
		}
	}
	nondet.Fact("availableDeleted>0", availableDeleted > 0)
	nondet.Fact("overBudget", availableDeleted > budget)
	// "it deletes at most max(0, maxUnavailable - U) available pods"
	nondet.Assert("C03.budget", availableDeleted <= budget)
	// "it never deletes more than maxUnavailable pods for updating in one sync"
	nondet.Assert("C03.total", len(res.PodsToDelete) <= maxUnavailable)
	// "replacing pods that are already unavailable first"
	if availableDeleted > 0 {
		for i, c := range cats {
			if c == zzOutdatedUnavailable {
				nondet.Assert("C03.unavailable-first", zzContainsNode(res.PodsToDelete, items[i]))
			}
		}
	}
	// the clean-up of duplicates / ineligible pods is outside the budget and none was given
	nondet.Assert("C03.no-cleanup", client.Count("delete", "") == 0)

	nondet.Observe("nDelete", len(res.PodsToDelete))
	nondet.Observe("nCreate", len(res.PodsToCreate))
	nondet.Reach("C03.deletes-available", availableDeleted >= 1)
	nondet.Reach("C03.clamped", nondet.And(budget == 0, len(res.PodsToDelete) > 0))
	nondet.Reach("C03.stuck-tolerated", nondet.And(tolerated > 0, availableDeleted > 0))
}

func zzIndexOf(items []*NodeItem, n *NodeItem) int {
	for i, x := range items {
		if x == n {
			return i
		}
	}
	return -1
}

// nondetConc forces a small symbolic int to a concrete value (the engine forks).
func nondetConc(x int) int {
	for v := 0; v < zzNumCat; v++ {
		if x == v {
			return v
		}
	}
	return x
}

// ZZ_C03_budget: absolute maxUnavailable / maxPodSchedulerFailure.  Three nodes; the thorough
// tier: four nodes with one choice of sub-variants per path.
func ZZ_C03_budget() { zzC03(zzNumNodes(3, 4), false, true) }

// ZZ_C03_budgetPercent: percentages.
// ZZ_C03_budgetUnknownReadiness: the same budget on two nodes where a not-ready pod reports Ready=Unknown
// instead of False.
func ZZ_C03_budgetUnknownReadiness() { zzC03x(2, false, true, "unknown") }

// ZZ_C03_budgetFailedPhase: the same budget on two nodes where a not-ready pod is an evicted one
// (phase Failed) that is still mapped to its node.
func ZZ_C03_budgetFailedPhase() { zzC03x(2, false, true, "failed") }

func ZZ_C03_budgetPercent() { zzC03(zzNumNodes(3, 4), true, true) }

// ZZ_C03_budgetVariants_thorough: three nodes, every node choosing its own sub-variants
// (Ready False vs absent, adopted pod without hash, kind of stuck pod, readiness while terminating).
func ZZ_C03_budgetVariants_thorough() { zzC03(3, false, false) }

// ZZ_C03_percentLarge: "resolved against the number of targeted nodes, rounding up" on clusters
// large enough for rounding to matter: N targeted nodes, each with an outdated available pod
// (U = 0), maxUnavailable given as a percentage: at most ceil(pct*N/100) pods are deleted, and —
// budget permitting — exactly that many.
func ZZ_C03_percentLarge() {
	n := 25
	switch nondet.String("nodes", "25", "50", "100") {
	case "50":
		n = 50
	case "100":
		n = 100
	}
	pct := 0
	switch nondet.String("maxUnavailable", "1%", "7%", "14%", "28%", "34%", "55%", "56%", "100%") {
	case "1%":
		pct = 1
	case "7%":
		pct = 7
	case "14%":
		pct = 14
	case "28%":
		pct = 28
	case "34%":
		pct = 34
	case "55%":
		pct = 55
	case "56%":
		pct = 56
	default:
		pct = 100
	}
	ds := zzDaemonset(map[string]string{})
	v := intstr.FromString(strconv.Itoa(pct) + "%")
	ds.Spec.Strategy.RollingUpdate.MaxUnavailable = &v
	rs := zzReplicaSet()
	cats := make([]int, n)
	for i := range cats {
		cats[i] = zzOutdatedAvailable
	}
	params, _ := zzParams(ds, rs, cats)
	// nodes the replica set does not target (unfit for the pod, or reserved for a canary) are
	// listed in NodeByName but not in PodByNodeName: percentages do not resolve against them
	zzAddUntargetedNodes(params, nondet.String("untargetedNodes", "0", "1", "30"))
	res, err := ManageDeployment(fakeapi.New(), ds, params, metav1.Now())
	nondet.Assert("C03.large.noerror", err == nil)
	if err != nil {
		return
	}
	want := (pct*n + 99) / 100 // integer ceiling
	nondet.Assert("C03.large.rounded-up-budget", len(res.PodsToDelete) == want)
	nondet.Observe("nDelete", len(res.PodsToDelete))
	nondet.Reach("C03.large.exact-multiple", pct*n%100 == 0 && pct < 100)
	nondet.Reach("C03.large.rounds-up", pct*n%100 != 0)
}

// ZZ_C03_migrationMix: "This also covers pods adopted from the DaemonSet named by the old-daemonset
// migration annotation".  The ExtendedDaemonSet carries the migration annotation; every outdated
// pod is either a pod of a previous replica set or a pod still owned by the old DaemonSet (no
// template hash, an owner reference to it), node by node; three nodes over {no pod, up-to-date
// available, outdated available, outdated unavailable}.  The same budget applies, and pods that
// are already unavailable go first whoever owns them.
func ZZ_C03_migrationMix() {
	const n = 3
	ds := zzDaemonset(map[string]string{datadoghqv1alpha1.ExtendedDaemonSetOldDaemonsetAnnotationKey: "legacy"})
	ds.Spec.Strategy.RollingUpdate.MaxUnavailable = zzIntOrString("maxUnavailable", n)
	rs := zzReplicaSet()
	cats := make([]int, n)
	adopted := make([]bool, n)
	for i := range cats {
		switch nondet.String("cat"+strconv.Itoa(i), "none", "current", "outdated-available", "outdated-unavailable") {
		case "none":
			cats[i] = zzNoPod
		case "current":
			cats[i] = zzUpToDateAvailable
		case "outdated-available":
			cats[i] = zzOutdatedAvailable
		default:
			cats[i] = zzOutdatedUnavailable
		}
		if cats[i] == zzOutdatedAvailable || cats[i] == zzOutdatedUnavailable {
			adopted[i] = nondet.Bool("adopted" + strconv.Itoa(i))
		}
	}
	params, items := zzParams(ds, rs, cats)
	ctrl := true
	for i, ni := range items {
		if !adopted[i] {
			continue
		}
		p := params.PodByNodeName[ni]
		p.Labels = map[string]string{"app": "agent"}
		p.Annotations = map[string]string{}
		p.OwnerReferences = []metav1.OwnerReference{{APIVersion: "apps/v1", Kind: "DaemonSet", Name: "legacy", Controller: &ctrl}}
	}
	res, err := ManageDeployment(fakeapi.New(), ds, params, metav1.Now())
	nondet.Assert("C03.mix.noerror", err == nil)
	if err != nil {
		return
	}
	maxUnavailable := int(ds.Spec.Strategy.RollingUpdate.MaxUnavailable.IntVal)
	withoutAvailable := 0
	for _, c := range cats {
		if c != zzUpToDateAvailable && c != zzOutdatedAvailable {
			withoutAvailable++
		}
	}
	budget := nondet.IteInt(maxUnavailable-withoutAvailable >= 0, maxUnavailable-withoutAvailable, 0)
	availableDeleted, adoptedDeleted := 0, 0
	for _, ni := range res.PodsToDelete {
		idx := zzIndexOf(items, ni)
		nondet.Assert("C03.mix.only-outdated", idx >= 0 && (cats[idx] == zzOutdatedAvailable || cats[idx] == zzOutdatedUnavailable))
		if idx >= 0 && cats[idx] == zzOutdatedAvailable {
			availableDeleted++
		}
		if idx >= 0 && adopted[idx] {
			adoptedDeleted++
		}
	}
	nondet.Assert("C03.mix.budget", availableDeleted <= budget)
	nondet.Assert("C03.mix.total", len(res.PodsToDelete) <= maxUnavailable)
	if availableDeleted > 0 {
		for i, c := range cats {
			if c == zzOutdatedUnavailable {
				nondet.Assert("C03.mix.unavailable-first", zzContainsNode(res.PodsToDelete, items[i]))
			}
		}
	}
	nondet.Observe("nDelete", len(res.PodsToDelete))
	nondet.Reach("C03.mix.adopted-replaced", adoptedDeleted >= 1)
	nondet.Reach("C03.mix.adopted-available-waits", availableDeleted == 0 && len(res.PodsToDelete) >= 1 && adopted[0] && cats[0] == zzOutdatedAvailable)
}

// ZZ_C03_stuckKinds: "nodes whose pod is stuck unscheduled or terminating are tolerated up to
// maxPodSchedulerFailure" — the two kinds together, not each on its own: one node with a pod
// unscheduled for more than ten minutes, one with a pod terminating past its grace period, and two
// (thorough: three) further nodes over {outdated available, outdated unavailable, up to date}.
func ZZ_C03_stuckKinds() {
	extra := 2
	if nondet.Thorough() {
		extra = 3
	}
	n := 2 + extra
	ds := zzDaemonset(map[string]string{})
	ds.Spec.Strategy.RollingUpdate.MaxUnavailable = zzIntOrString("maxUnavailable", n)
	ds.Spec.Strategy.RollingUpdate.MaxPodSchedulerFailure = zzIntOrString("maxSchedFail", 3)
	rs := zzReplicaSet()
	cats := []int{zzStuck, zzStuck}
	for i := 0; i < extra; i++ {
		switch nondet.String("cat"+strconv.Itoa(i), "outdated-available", "outdated-unavailable", "current") {
		case "outdated-available":
			cats = append(cats, zzOutdatedAvailable)
		case "outdated-unavailable":
			cats = append(cats, zzOutdatedUnavailable)
		default:
			cats = append(cats, zzUpToDateAvailable)
		}
	}
	params, items := zzParamsV(ds, rs, cats, true)
	stuckHash := nondet.String("stuckHash", zzHashNew, zzHashOld)
	params.PodByNodeName[items[0]] = zzCategoryPod(0, zzStuck, zzVariants{stuckTerminating: false, stuckHash: stuckHash})
	params.PodByNodeName[items[1]] = zzCategoryPod(1, zzStuck, zzVariants{stuckTerminating: true, stuckHash: stuckHash, terminatingReady: 0})
	res, err := ManageDeployment(fakeapi.New(), ds, params, metav1.Now())
	nondet.Assert("C03.kinds.noerror", err == nil)
	if err != nil {
		return
	}
	maxUnavailable := int(ds.Spec.Strategy.RollingUpdate.MaxUnavailable.IntVal)
	maxSchedFail := int(ds.Spec.Strategy.RollingUpdate.MaxPodSchedulerFailure.IntVal)
	withoutAvailable := 0
	for _, c := range cats {
		if c != zzUpToDateAvailable && c != zzOutdatedAvailable {
			withoutAvailable++
		}
	}
	tolerated := nondet.IteInt(2 <= maxSchedFail, 2, maxSchedFail) // two stuck nodes in all
	u := withoutAvailable - tolerated
	budget := nondet.IteInt(maxUnavailable-u >= 0, maxUnavailable-u, 0)
	availableDeleted := 0
	for _, ni := range res.PodsToDelete {
		idx := zzIndexOf(items, ni)
		if idx >= 0 && cats[idx] == zzOutdatedAvailable {
			availableDeleted++
		}
	}
	nondet.Assert("C03.kinds.budget", availableDeleted <= budget)
	nondet.Assert("C03.kinds.total", len(res.PodsToDelete) <= maxUnavailable)
	nondet.Observe("nDelete", len(res.PodsToDelete))
	nondet.Reach("C03.kinds.one-tolerated-one-not", maxSchedFail == 1 && availableDeleted == 0 && maxUnavailable >= 1)
	nondet.Reach("C03.kinds.both-tolerated", maxSchedFail >= 2 && availableDeleted >= 1)
}
