//go:build verif

package strategy

import (
	datadoghqv1alpha1 "github.com/DataDog/extendeddaemonset/api/v1alpha1"
	"github.com/DataDog/extendeddaemonset/pkg/controller/utils/comparison"
	podutils "github.com/DataDog/extendeddaemonset/pkg/controller/utils/pod"
	"github.com/DataDog/extendeddaemonset/zzverif/fakeapi"
	"github.com/DataDog/extendeddaemonset/zzverif/nondet"
)

// ZZ_C13_podHashStamp: "a replica set's template, its recorded hash and the hash stamped on its
// pods always equal the template it was created from".  For every template shape, node override
// annotation and setting of the C10 harnesses: the template-hash annotation of a created pod is
// the replica set's recorded hash (which is the hash of its template), whatever else is stamped on
// the pod — the node-override hash goes under its own key and only when the node carries overrides.
func ZZ_C13_podHashStamp() {
	in := zzC10Pick(true)
	rs, node, setting := zzC10Build(in)
	// the template may itself carry the controller's stamp keys with stale values (a template copied from
	// the manifest of a running pod): the controller's own stamps win on the pods it creates
	if nondet.Bool("templateCarriesStaleStamps") {
		rs.Spec.Template.Annotations = map[string]string{
			datadoghqv1alpha1.MD5ExtendedDaemonSetAnnotationKey:     "0123456789abcdef0123456789abcdef",
			datadoghqv1alpha1.MD5NodeExtendedDaemonSetAnnotationKey: "fedcba9876543210fedcba9876543210",
			"team": "x",
		}
	}
	// the recorded hash of the replica set is the hash of its template
	h, herr := comparison.GenerateMD5PodTemplateSpec(&rs.Spec.Template)
	nondet.Assert("C13.pod.hashable", herr == nil)
	rs.Spec.TemplateGeneration = h
	rs.Annotations = map[string]string{datadoghqv1alpha1.MD5ExtendedDaemonSetAnnotationKey: h}
	pod, _ := podutils.CreatePodFromDaemonSetReplicaSet(fakeapi.NewScheme(), rs, node, setting, in.addAffinity)
	nondet.Assert("C13.pod.built", pod != nil)
	if pod == nil {
		return
	}
	nondet.Assert("C13.pod.template-hash-stamped", pod.Annotations[datadoghqv1alpha1.MD5ExtendedDaemonSetAnnotationKey] == h)
	nodeHash := comparison.GenerateHashFromEDSResourceNodeAnnotation(zzNS, zzEDSName, node.Annotations)
	got, has := pod.Annotations[datadoghqv1alpha1.MD5NodeExtendedDaemonSetAnnotationKey]
	nondet.Assert("C13.pod.node-hash-under-its-own-key", (nodeHash == "" && !has) || (nodeHash != "" && got == nodeHash))
	nondet.Reach("C13.pod.with-node-override", nodeHash != "")
}
