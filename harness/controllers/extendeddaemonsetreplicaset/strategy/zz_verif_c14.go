//go:build verif

package strategy

import (
	"strconv"
	"time"

	corev1 "k8s.io/api/core/v1"
	metav1 "k8s.io/apimachinery/pkg/apis/meta/v1"

	datadoghqv1alpha1 "github.com/DataDog/extendeddaemonset/api/v1alpha1"
	"github.com/DataDog/extendeddaemonset/zzverif/fakeapi"
	"github.com/DataDog/extendeddaemonset/zzverif/nondet"
)

// ZZ_C14_counters: the status computed by a sync of the active, canary and leftover role
// satisfies 0 <= available <= ready <= current <= desired and counts the pods of the layout.
func ZZ_C14_counters() {
	n := zzNumNodes(3, 4)
	cats := make([]int, n)
	// the seven categories plus "up-to-date pod that is terminating but still Ready" (deleted by
	// a user or a drain, inside its grace period)
	const upToDateTerminating = zzNumCat
	termIdx := -1
	for i := range cats {
		cats[i] = zzConcSmall(nondet.Int("cat"+strconv.Itoa(i), 0, zzNumCat), zzNumCat)
		if cats[i] == upToDateTerminating {
			termIdx = i
		}
	}
	ds := zzDaemonset(map[string]string{})
	rs := zzReplicaSet()
	params, items := zzParams(ds, rs, cats)
	for i, c := range cats {
		if c == upToDateTerminating {
			p := zzPod(i, zzHashNew, 2, true, nondet.Base().Add(-time.Minute))
			t := metav1.NewTime(nondet.Base().Add(-5 * time.Second))
			p.DeletionTimestamp = &t
			g := int64(30)
			p.DeletionGracePeriodSeconds = &g
			params.PodByNodeName[items[i]] = p
		}
	}
	role := nondet.String("role", "active", "canary", "unknown")

	var st *datadoghqv1alpha1.ExtendedDaemonSetReplicaSetStatus
	switch role {
	case "active":
		res, err := ManageDeployment(fakeapi.New(), ds, params, metav1.Now())
		nondet.Assert("C14.counters.noerror", err == nil)
		if err != nil {
			return
		}
		st = res.NewStatus
	case "canary":
		ds.Spec.Strategy.Canary = &datadoghqv1alpha1.ExtendedDaemonSetSpecStrategyCanary{}
		datadoghqv1alpha1.DefaultExtendedDaemonSetSpec(&ds.Spec, datadoghqv1alpha1.ExtendedDaemonSetSpecStrategyCanaryValidationModeAuto)
		params.ReplicaSetStatus = string(ReplicaSetStatusCanary)
		for i := 0; i < n; i++ {
			params.CanaryNodes = append(params.CanaryNodes, zzNodeName(i))
		}
		res, err := ManageCanaryDeployment(fakeapi.New(), ds, params)
		nondet.Assert("C14.counters.noerror", err == nil)
		if err != nil {
			return
		}
		st = res.NewStatus
	default:
		params.ReplicaSetStatus = string(ReplicaSetStatusUnknown)
		res, err := ManageUnknown(fakeapi.New(), params)
		nondet.Assert("C14.counters.noerror", err == nil)
		if err != nil {
			return
		}
		st = res.NewStatus
	}
	upToDate, upToDateReady := 0, 0
	allGood := true
	for _, c := range cats {
		if c == zzUpToDateAvailable {
			upToDate++
			upToDateReady++
		} else {
			allGood = false
			if c == zzUpToDateUnavailable {
				upToDate++
			}
		}
	}
	if role != "unknown" {
		// "an active or canary replica set's status satisfies 0 <= available <= ready <= current <= desired"
		nondet.Assert("C14.counters.order", nondet.And(0 <= st.Available, st.Available <= st.Ready, st.Ready <= st.Current, st.Current <= st.Desired))
		nondet.Assert("C14.counters.desired", int(st.Desired) == n)
		// stuck pods running the live template are tolerated, not counted as current
		nondet.Assert("C14.counters.current", int(st.Current) >= upToDate && int(st.Ready) >= upToDateReady && int(st.Available) == int(st.Ready))
		if allGood {
			// "once quiescent, desired equals the number of eligible nodes and current, ready, available equal ..."
			nondet.Assert("C14.counters.quiescent", int(st.Desired) == n && int(st.Current) == n && int(st.Ready) == n && int(st.Available) == n)
		}
	} else {
		nondet.Assert("C14.counters.leftover", st.Desired == 0 && st.Available <= st.Ready && st.Ready <= st.Current && int(st.Current) <= n)
	}
	nondet.Assert("C14.counters.status-string", st.Status == role || (role == "canary" && st.Status == "canary-failed"))
	nondet.Observe("desired", st.Desired)
	nondet.Observe("current", st.Current)
	nondet.Observe("ready", st.Ready)
	nondet.Reach("C14.counters.terminating-ready-pod", termIdx >= 0 && role == "active")
	nondet.Reach("C14.counters.quiescent-layout", allGood && role == "active")
	nondet.Reach("C14.counters.mixed", role == "canary" && upToDate >= 1 && upToDate < n)
	_ = corev1.PodRunning
}
