//go:build verif

package strategy

import (
	"github.com/go-logr/logr"
	podutils "github.com/DataDog/extendeddaemonset/pkg/controller/utils/pod"
	"strconv"
	"time"

	corev1 "k8s.io/api/core/v1"
	metav1 "k8s.io/apimachinery/pkg/apis/meta/v1"

	datadoghqv1alpha1 "github.com/DataDog/extendeddaemonset/api/v1alpha1"
	"github.com/DataDog/extendeddaemonset/zzverif/fakeapi"
	"github.com/DataDog/extendeddaemonset/zzverif/nondet"
)

// ZZ_C14_counters: the status computed by a sync of the active, canary and leftover role
// satisfies 0 <= available <= ready <= current <= desired and counts the pods of the layout.
func ZZ_C14_counters() {
	n := zzNumNodes(3, 4)
	cats := make([]int, n)
	// the seven categories plus "up-to-date pod that is terminating but still Ready" (deleted by
	// a user or a drain, inside its grace period)
	const upToDateTerminating = zzNumCat
	termIdx := -1
	for i := range cats {
		cats[i] = zzConcSmall(nondet.Int("cat"+strconv.Itoa(i), 0, zzNumCat), zzNumCat)
		if cats[i] == upToDateTerminating {
			termIdx = i
		}
	}
	// the rollout may be frozen: nothing is created or deleted then, but the counters still describe what is
	// there now, not what an earlier sync stored (nine of each, from a larger cluster)
	ann := map[string]string{}
	rs := zzReplicaSet()
	if nondet.Bool("rolloutFrozen") {
		ann[datadoghqv1alpha1.ExtendedDaemonSetRolloutFrozenAnnotationKey] = "true"
		rs.Status.Desired, rs.Status.Current, rs.Status.Ready, rs.Status.Available = 9, 9, 9, 9
	}
	ds := zzDaemonset(ann)
	params, items := zzParams(ds, rs, cats)
	for i, c := range cats {
		if c == upToDateTerminating {
			p := zzPod(i, zzHashNew, 2, true, nondet.Base().Add(-time.Minute))
			t := metav1.NewTime(nondet.Base().Add(-5 * time.Second))
			p.DeletionTimestamp = &t
			g := int64(30)
			p.DeletionGracePeriodSeconds = &g
			params.PodByNodeName[items[i]] = p
		}
	}
	role := nondet.String("role", "active", "canary", "unknown")

	var st *datadoghqv1alpha1.ExtendedDaemonSetReplicaSetStatus
	switch role {
	case "active":
		res, err := ManageDeployment(fakeapi.New(), ds, params, metav1.Now())
		nondet.Assert("C14.counters.noerror", err == nil)
		if err != nil {
			return
		}
		st = res.NewStatus
	case "canary":
		ds.Spec.Strategy.Canary = &datadoghqv1alpha1.ExtendedDaemonSetSpecStrategyCanary{}
		datadoghqv1alpha1.DefaultExtendedDaemonSetSpec(&ds.Spec, datadoghqv1alpha1.ExtendedDaemonSetSpecStrategyCanaryValidationModeAuto)
		params.ReplicaSetStatus = string(ReplicaSetStatusCanary)
		for i := 0; i < n; i++ {
			params.CanaryNodes = append(params.CanaryNodes, zzNodeName(i))
		}
		res, err := ManageCanaryDeployment(fakeapi.New(), ds, params)
		nondet.Assert("C14.counters.noerror", err == nil)
		if err != nil {
			return
		}
		st = res.NewStatus
	default:
		params.ReplicaSetStatus = string(ReplicaSetStatusUnknown)
		res, err := ManageUnknown(fakeapi.New(), params)
		nondet.Assert("C14.counters.noerror", err == nil)
		if err != nil {
			return
		}
		st = res.NewStatus
	}
	upToDate, upToDateReady := 0, 0
	allGood := true
	for _, c := range cats {
		if c == zzUpToDateAvailable {
			upToDate++
			upToDateReady++
		} else {
			allGood = false
			if c == zzUpToDateUnavailable {
				upToDate++
			}
		}
	}
	if role != "unknown" {
		// "an active or canary replica set's status satisfies 0 <= available <= ready <= current <= desired"
		nondet.Assert("C14.counters.order", nondet.And(0 <= st.Available, st.Available <= st.Ready, st.Ready <= st.Current, st.Current <= st.Desired))
		nondet.Assert("C14.counters.desired", int(st.Desired) == n)
		// stuck pods running the live template are tolerated, not counted as current
		nondet.Assert("C14.counters.current", int(st.Current) >= upToDate && int(st.Ready) >= upToDateReady && int(st.Available) == int(st.Ready))
		if allGood {
			// "once quiescent, desired equals the number of eligible nodes and current, ready, available equal ..."
			nondet.Assert("C14.counters.quiescent", int(st.Desired) == n && int(st.Current) == n && int(st.Ready) == n && int(st.Available) == n)
		}
	} else {
		nondet.Assert("C14.counters.leftover", st.Desired == 0 && st.Available <= st.Ready && st.Ready <= st.Current && int(st.Current) <= n)
	}
	nondet.Assert("C14.counters.status-string", st.Status == role || (role == "canary" && st.Status == "canary-failed"))
	nondet.Observe("desired", st.Desired)
	nondet.Observe("current", st.Current)
	nondet.Observe("ready", st.Ready)
	nondet.Reach("C14.counters.terminating-ready-pod", termIdx >= 0 && role == "active")
	nondet.Reach("C14.counters.quiescent-layout", allGood && role == "active")
	nondet.Reach("C14.counters.mixed", role == "canary" && upToDate >= 1 && upToDate < n)
	_ = corev1.PodRunning
}

// ZZ_C14_overrideComesAndGoes: "current, ready, available ... equal the numbers of daemon pods that ...
// run the live template" when what a node's pod has to look like changes under it: the pod of node0 was
// created (by the real pod builder) while the node carried a resources override annotation or not; by
// the time of the sync the annotation is unchanged, has been removed, has got another value, or has
// appeared.  In every role the pod counts in current / ready / available exactly when it still is what
// would be created now, and the active replica set replaces it when it is not.
func ZZ_C14_overrideComesAndGoes() {
	ds := zzDaemonset(map[string]string{})
	rs := zzReplicaSet()
	rs.Spec.Template = corev1.PodTemplateSpec{
		ObjectMeta: metav1.ObjectMeta{Labels: map[string]string{"app": "agent"}},
		Spec:       corev1.PodSpec{Containers: []corev1.Container{{Name: "agent", Image: "agent:1"}}},
	}
	key := "resources.extendeddaemonset.datadoghq.com/" + zzNS + "." + zzEDSName + ".agent"
	node := &corev1.Node{ObjectMeta: metav1.ObjectMeta{Name: zzNodeName(0), Annotations: map[string]string{"unrelated": "x"}}}
	before := nondet.String("override.atCreation", "none", "r1")
	if before == "r1" {
		node.Annotations[key] = `{"requests":{"cpu":"200m"}}`
	}
	pod, err := podutils.CreatePodFromDaemonSetReplicaSet(fakeapi.NewScheme(), rs, node, nil, false)
	nondet.Assert("C14.override.pod-built", err == nil && pod != nil)
	if pod == nil {
		return
	}
	pod = pod.DeepCopy()
	pod.Name = "pod0"
	pod.Spec.NodeName = zzNodeName(0)
	pod.CreationTimestamp = metav1.NewTime(nondet.Base().Add(-time.Hour))
	pod.Status = corev1.PodStatus{Phase: corev1.PodRunning, Conditions: []corev1.PodCondition{{Type: corev1.PodReady, Status: corev1.ConditionTrue, LastTransitionTime: metav1.NewTime(nondet.Base().Add(-time.Hour))}}}
	now := nondet.String("override.now", "none", "r1", "r2")
	delete(node.Annotations, key)
	switch now {
	case "r1":
		node.Annotations[key] = `{"requests":{"cpu":"200m"}}`
	case "r2":
		node.Annotations[key] = `{"requests":{"cpu":"300m"}}`
	}
	if nondet.Bool("nodeLeftWithoutAnyAnnotation") && now == "none" {
		node.Annotations = nil
	}
	same := before == now
	ni := NewNodeItem(node, nil)
	params := &Parameters{
		EDSName: zzEDSName, Strategy: &ds.Spec.Strategy, Replicaset: rs, ReplicaSetStatus: string(ReplicaSetStatusActive),
		NewStatus:     rs.Status.DeepCopy(),
		NodeByName:    map[string]*NodeItem{ni.Node.Name: ni},
		PodByNodeName: map[*NodeItem]*corev1.Pod{ni: pod},
		Logger:        logr.Logger{},
	}
	role := nondet.String("role", "active", "canary", "unknown")
	var st *datadoghqv1alpha1.ExtendedDaemonSetReplicaSetStatus
	replaced := false
	switch role {
	case "active":
		res, err := ManageDeployment(fakeapi.New(), ds, params, metav1.Now())
		nondet.Assert("C14.override.noerror", err == nil)
		if err != nil {
			return
		}
		st = res.NewStatus
		replaced = len(res.PodsToDelete) == 1
		// "the active replica set replaces it when it is not"
		nondet.Assert("C14.override.outdated-pod-replaced", replaced == !same)
	case "canary":
		ds.Spec.Strategy.Canary = &datadoghqv1alpha1.ExtendedDaemonSetSpecStrategyCanary{}
		datadoghqv1alpha1.DefaultExtendedDaemonSetSpec(&ds.Spec, datadoghqv1alpha1.ExtendedDaemonSetSpecStrategyCanaryValidationModeAuto)
		params.ReplicaSetStatus = string(ReplicaSetStatusCanary)
		params.CanaryNodes = []string{zzNodeName(0)}
		res, err := ManageCanaryDeployment(fakeapi.New(), ds, params)
		nondet.Assert("C14.override.noerror", err == nil)
		if err != nil {
			return
		}
		st = res.NewStatus
	default:
		params.ReplicaSetStatus = string(ReplicaSetStatusUnknown)
		res, err := ManageUnknown(fakeapi.New(), params)
		nondet.Assert("C14.override.noerror", err == nil)
		if err != nil {
			return
		}
		st = res.NewStatus
	}
	want := int32(0)
	if same {
		want = 1
	}
	nondet.Assert("C14.override.current", st.Current == want)
	nondet.Assert("C14.override.ready", st.Ready == want)
	nondet.Assert("C14.override.available", st.Available == want)
	nondet.Observe("current", st.Current)
	nondet.Reach("C14.override.removed", before == "r1" && now == "none" && st.Current == 0)
	nondet.Reach("C14.override.kept", before == "r1" && now == "r1" && st.Current == 1)
}

// ZZ_C14_noNodeLeftForTheReplicaSet: "desired equals the number of eligible nodes and current, ready,
// available equal the numbers of daemon pods that exist, are Ready ..." when that number is zero: the
// replica set reported pods on every node in an earlier sync (arbitrary stored counters) and now targets
// no node at all — a canary took every node (replicas 100% or larger than the cluster), or every node
// left with its pod.  In each role the sync publishes zeros, not what it stored earlier.
func ZZ_C14_noNodeLeftForTheReplicaSet() {
	ann := map[string]string{}
	switch nondet.String("switch", "none", "rolling-update-paused", "rollout-frozen") {
	case "rolling-update-paused":
		ann[datadoghqv1alpha1.ExtendedDaemonSetRollingUpdatePausedAnnotationKey] = "true"
	case "rollout-frozen":
		ann[datadoghqv1alpha1.ExtendedDaemonSetRolloutFrozenAnnotationKey] = "true"
	}
	ds := zzDaemonset(ann)
	rs := zzReplicaSet()
	rs.Status.Desired = nondet.Int32("stored.desired", 0, 1000)
	rs.Status.Current = nondet.Int32("stored.current", 0, 1000)
	rs.Status.Ready = nondet.Int32("stored.ready", 0, 1000)
	rs.Status.Available = nondet.Int32("stored.available", 0, 1000)
	rs.Status.IgnoredUnresponsiveNodes = nondet.Int32("stored.ignoredUnresponsiveNodes", 0, 1000)
	params, _ := zzParamsV(ds, rs, nil, true)
	role := nondet.String("role", "active", "canary", "unknown")
	var st *datadoghqv1alpha1.ExtendedDaemonSetReplicaSetStatus
	switch role {
	case "active":
		res, err := ManageDeployment(fakeapi.New(), ds, params, metav1.Now())
		nondet.Assert("C14.no-node.noerror", err == nil && res != nil)
		if err != nil || res == nil {
			return
		}
		nondet.Assert("C14.no-node.nothing-to-do", len(res.PodsToCreate) == 0 && len(res.PodsToDelete) == 0)
		st = res.NewStatus
	case "canary":
		ds.Spec.Strategy.Canary = &datadoghqv1alpha1.ExtendedDaemonSetSpecStrategyCanary{}
		datadoghqv1alpha1.DefaultExtendedDaemonSetSpec(&ds.Spec, datadoghqv1alpha1.ExtendedDaemonSetSpecStrategyCanaryValidationModeAuto)
		params.ReplicaSetStatus = string(ReplicaSetStatusCanary)
		res, err := ManageCanaryDeployment(fakeapi.New(), ds, params)
		nondet.Assert("C14.no-node.noerror", err == nil && res != nil)
		if err != nil || res == nil {
			return
		}
		st = res.NewStatus
	default:
		params.ReplicaSetStatus = string(ReplicaSetStatusUnknown)
		res, err := ManageUnknown(fakeapi.New(), params)
		nondet.Assert("C14.no-node.noerror", err == nil && res != nil)
		if err != nil || res == nil {
			return
		}
		st = res.NewStatus
	}
	nondet.Assert("C14.no-node.status-present", st != nil)
	if st == nil {
		return
	}
	nondet.Assert("C14.no-node.zeros", nondet.And(st.Desired == 0, st.Current == 0, st.Ready == 0, st.Available == 0))
	if role == "active" {
		nondet.Assert("C14.no-node.no-ignored-node", st.IgnoredUnresponsiveNodes == 0)
	}
	nondet.Observe("desired", st.Desired)
	nondet.Reach("C14.no-node.stored-counters-were-not-zero", nondet.And(rs.Status.Current > 0, role == "active"))
}
