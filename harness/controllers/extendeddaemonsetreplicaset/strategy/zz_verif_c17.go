//go:build verif

package strategy

import (
	apiequality "k8s.io/apimachinery/pkg/api/equality"

	podutils "github.com/DataDog/extendeddaemonset/pkg/controller/utils/pod"
	"github.com/DataDog/extendeddaemonset/zzverif/fakeapi"
	"github.com/DataDog/extendeddaemonset/zzverif/nondet"
)

// ZZ_C17_creationWritesNoSharedObject: a sequential, sufficient condition for the race-freedom
// clause on the pod-creation path (the clause itself — all interleavings under the Go memory
// model — is outside this technique, DESIGN §4).  The goroutines of createPods share exactly
// three kinds of objects: the replica set (its template), the ExtendedDaemonsetSetting attached
// to several nodes, and the node objects.  If building a pod never writes to any of them, the
// goroutines only read shared memory and write to their own copies.  So: for every template
// shape, override annotation and setting of the C10 harnesses, CreatePodFromDaemonSetReplicaSet
// leaves the replica set, the setting and the node exactly as they were.
func ZZ_C17_creationWritesNoSharedObject() {
	in := zzC10Pick(true)
	rs, node, setting := zzC10Build(in)
	rsBefore, nodeBefore := rs.DeepCopy(), node.DeepCopy()
	settingBefore := setting.DeepCopy() // nil-safe
	pod, _ := podutils.CreatePodFromDaemonSetReplicaSet(fakeapi.NewScheme(), rs, node, setting, in.addAffinity)
	nondet.Assert("C17.shared.pod-built", pod != nil)
	nondet.Assert("C17.shared.replicaset-not-written", apiequality.Semantic.DeepEqual(rs, rsBefore))
	nondet.Assert("C17.shared.node-not-written", apiequality.Semantic.DeepEqual(node, nodeBefore))
	if setting != nil {
		nondet.Assert("C17.shared.setting-not-written", apiequality.Semantic.DeepEqual(setting, settingBefore))
	}
	// a second pod built from the same shared objects (another goroutine of the batch) is identical in
	// everything that does not name the pod itself
	pod2, _ := podutils.CreatePodFromDaemonSetReplicaSet(fakeapi.NewScheme(), rs, node, setting, in.addAffinity)
	nondet.Assert("C17.shared.second-build-identical", pod2 != nil && apiequality.Semantic.DeepEqual(pod.Spec, pod2.Spec) && apiequality.Semantic.DeepEqual(pod.Annotations, pod2.Annotations))
	nondet.Reach("C17.shared.annotation-and-setting", in.annotation == "r1" && in.setting == "agent")
}
