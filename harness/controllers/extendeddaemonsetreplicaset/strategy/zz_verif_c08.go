//go:build verif

package strategy

import (
	"strconv"

	metav1 "k8s.io/apimachinery/pkg/apis/meta/v1"

	datadoghqv1alpha1 "github.com/DataDog/extendeddaemonset/api/v1alpha1"
	"github.com/DataDog/extendeddaemonset/zzverif/fakeapi"
	"github.com/DataDog/extendeddaemonset/zzverif/nondet"
)

// zzSamePlan: two plans are equivalent when they have the same size (which nodes fill a
// rate-limited plan follows Go's randomised map iteration, so identity is not compared).
func zzSameNodes(a, b []*NodeItem) bool { return len(a) == len(b) }

// ZZ_C08_pauseFreeze: rolling-update-paused stops update deletions only, rollout-frozen
// stops creations and update deletions, anything else behaves like the annotation-free run.
func ZZ_C08_pauseFreeze() {
	n := zzNumNodes(2, 3)
	cats := make([]int, n)
	for i := range cats {
		cats[i] = zzConcSmall(nondet.Int("cat"+strconv.Itoa(i), 0, zzNumCat-1), zzNumCat-1)
	}
	ann := map[string]string{}
	pausedSet := nondet.Bool("paused.present")
	pausedVal := ""
	if pausedSet {
		pausedVal = nondet.String("paused", "true", "false", "True")
		ann[datadoghqv1alpha1.ExtendedDaemonSetRollingUpdatePausedAnnotationKey] = pausedVal
	}
	frozenSet := nondet.Bool("frozen.present")
	frozenVal := ""
	if frozenSet {
		frozenVal = nondet.String("frozen", "true", "false", "1")
		ann[datadoghqv1alpha1.ExtendedDaemonSetRolloutFrozenAnnotationKey] = frozenVal
	}
	ds := zzDaemonset(ann)
	ds.Spec.Strategy.RollingUpdate.MaxUnavailable = zzIntOrString("maxUnavailable", n)
	rs := zzReplicaSet()
	params, _ := zzParams(ds, rs, cats)
	now := metav1.Now()

	// reference run: same state, no annotation at all
	plain := ds.DeepCopy()
	plain.Annotations = map[string]string{}
	ref, errRef := ManageDeployment(fakeapi.New(), plain, params, now)
	params.NewStatus = rs.Status.DeepCopy()
	client := fakeapi.New()
	res, err := ManageDeployment(client, ds, params, now)
	nondet.Assert("C08.noerror", err == nil && errRef == nil)
	if err != nil || errRef != nil {
		return
	}

	paused := nondet.And(pausedSet, pausedVal == "true")
	frozen := nondet.And(frozenSet, frozenVal == "true")
	nondet.Fact("paused", paused)
	nondet.Fact("frozen", frozen)

	// "while rolling-update-paused is true ... deletes no pod in order to update it but still creates pods on eligible nodes that have none"
	if paused {
		nondet.Assert("C08.paused.no-delete", len(res.PodsToDelete) == 0)
		if !frozen {
			nondet.Assert("C08.paused.still-creates", zzSameNodes(res.PodsToCreate, ref.PodsToCreate))
		}
	}
	// "while rollout-frozen is true it neither creates pods nor deletes pods for updating"
	if frozen {
		nondet.Assert("C08.frozen.nothing", len(res.PodsToDelete) == 0 && len(res.PodsToCreate) == 0)
	}
	// "a rolling update resumes once its annotation is removed or set to false"
	if !paused && !frozen {
		nondet.Assert("C08.resume", zzSameNodes(res.PodsToCreate, ref.PodsToCreate) && zzSameNodes(res.PodsToDelete, ref.PodsToDelete))
	}
	for _, ni := range res.PodsToCreate {
		nondet.Assert("C08.create-only-missing", params.PodByNodeName[ni] == nil)
	}
	nondet.Assert("C08.flags", res.IsPaused == paused && res.IsFrozen == frozen)
	// no pod write other than what is planned (nothing to clean up in this layout)
	nondet.Assert("C08.no-writes", len(client.Writes()) == 0)

	nondet.Observe("nCreate", len(res.PodsToCreate))
	nondet.Observe("nDelete", len(res.PodsToDelete))
	nondet.Reach("C08.paused-would-delete", nondet.And(paused, len(ref.PodsToDelete) > 0))
	nondet.Reach("C08.paused-creates", nondet.And(paused, !frozen, len(res.PodsToCreate) > 0))
	nondet.Reach("C08.frozen-would-create", nondet.And(frozen, len(ref.PodsToCreate) > 0))
	nondet.Reach("C08.resumed-deletes", nondet.And(pausedSet, !paused, !frozen, len(res.PodsToDelete) > 0))
}
