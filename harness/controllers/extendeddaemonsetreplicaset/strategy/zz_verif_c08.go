//go:build verif

package strategy

import (
	"strconv"
	"time"

	corev1 "k8s.io/api/core/v1"
	metav1 "k8s.io/apimachinery/pkg/apis/meta/v1"

	datadoghqv1alpha1 "github.com/DataDog/extendeddaemonset/api/v1alpha1"
	"github.com/DataDog/extendeddaemonset/zzverif/fakeapi"
	"github.com/DataDog/extendeddaemonset/zzverif/nondet"
)

// zzSamePlan: two plans are equivalent when they have the same size (which nodes fill a
// rate-limited plan follows Go's randomised map iteration, so identity is not compared).
func zzSameNodes(a, b []*NodeItem) bool { return len(a) == len(b) }

// ZZ_C08_pauseFreeze: rolling-update-paused stops update deletions only, rollout-frozen
// stops creations and update deletions, anything else behaves like the annotation-free run.
func ZZ_C08_pauseFreeze() {
	n := zzNumNodes(2, 3)
	cats := make([]int, n)
	for i := range cats {
		cats[i] = zzConcSmall(nondet.Int("cat"+strconv.Itoa(i), 0, zzNumCat-1), zzNumCat-1)
	}
	ann := map[string]string{}
	pausedSet := nondet.Bool("paused.present")
	pausedVal := ""
	if pausedSet {
		pausedVal = nondet.String("paused", "true", "false", "True")
		ann[datadoghqv1alpha1.ExtendedDaemonSetRollingUpdatePausedAnnotationKey] = pausedVal
	}
	frozenSet := nondet.Bool("frozen.present")
	frozenVal := ""
	if frozenSet {
		frozenVal = nondet.String("frozen", "true", "false", "1")
		ann[datadoghqv1alpha1.ExtendedDaemonSetRolloutFrozenAnnotationKey] = frozenVal
	}
	ds := zzDaemonset(ann)
	ds.Spec.Strategy.RollingUpdate.MaxUnavailable = zzIntOrString("maxUnavailable", n)
	rs := zzReplicaSet()
	params, _ := zzParams(ds, rs, cats)
	now := metav1.Now()

	// reference run: same state, no annotation at all
	plain := ds.DeepCopy()
	plain.Annotations = map[string]string{}
	ref, errRef := ManageDeployment(fakeapi.New(), plain, params, now)
	params.NewStatus = rs.Status.DeepCopy()
	client := fakeapi.New()
	res, err := ManageDeployment(client, ds, params, now)
	nondet.Assert("C08.noerror", err == nil && errRef == nil)
	if err != nil || errRef != nil {
		return
	}

	paused := nondet.And(pausedSet, pausedVal == "true")
	frozen := nondet.And(frozenSet, frozenVal == "true")
	nondet.Fact("paused", paused)
	nondet.Fact("frozen", frozen)

	// "while rolling-update-paused is true ... deletes no pod in order to update it but still creates pods on eligible nodes that have none"
	if paused {
		nondet.Assert("C08.paused.no-delete", len(res.PodsToDelete) == 0)
		if !frozen {
			nondet.Assert("C08.paused.still-creates", zzSameNodes(res.PodsToCreate, ref.PodsToCreate))
		}
	}
	// "while rollout-frozen is true it neither creates pods nor deletes pods for updating"
	if frozen {
		nondet.Assert("C08.frozen.nothing", len(res.PodsToDelete) == 0 && len(res.PodsToCreate) == 0)
	}
	// "a rolling update resumes once its annotation is removed or set to false"
	if !paused && !frozen {
		nondet.Assert("C08.resume", zzSameNodes(res.PodsToCreate, ref.PodsToCreate) && zzSameNodes(res.PodsToDelete, ref.PodsToDelete))
	}
	for _, ni := range res.PodsToCreate {
		nondet.Assert("C08.create-only-missing", params.PodByNodeName[ni] == nil)
	}
	nondet.Assert("C08.flags", res.IsPaused == paused && res.IsFrozen == frozen)
	// no pod write other than what is planned (nothing to clean up in this layout)
	nondet.Assert("C08.no-writes", len(client.Writes()) == 0)

	nondet.Observe("nCreate", len(res.PodsToCreate))
	nondet.Observe("nDelete", len(res.PodsToDelete))
	nondet.Reach("C08.paused-would-delete", nondet.And(paused, len(ref.PodsToDelete) > 0))
	nondet.Reach("C08.paused-creates", nondet.And(paused, !frozen, len(res.PodsToCreate) > 0))
	nondet.Reach("C08.frozen-would-create", nondet.And(frozen, len(ref.PodsToCreate) > 0))
	nondet.Reach("C08.resumed-deletes", nondet.And(pausedSet, !paused, !frozen, len(res.PodsToDelete) > 0))
}

// ZZ_C08_canaryPaused: "While a canary is paused, by annotation or by the replica set's own
// Canary-Paused condition, no additional canary pod is created ... a canary resumes on unpause".
// One healthy canary pod, one canary node still without its pod; the pause annotation, the
// unpause annotation and the Canary-Paused condition each absent / true / false.
func ZZ_C08_canaryPaused() {
	ds := zzDaemonset(map[string]string{})
	ds.Spec.Strategy.Canary = &datadoghqv1alpha1.ExtendedDaemonSetSpecStrategyCanary{}
	datadoghqv1alpha1.DefaultExtendedDaemonSetSpec(&ds.Spec, datadoghqv1alpha1.ExtendedDaemonSetSpecStrategyCanaryValidationModeAuto)
	rs := zzReplicaSet()
	condPaused := false
	if nondet.Bool("condPaused.present") {
		st := corev1.ConditionStatus(nondet.String("condPaused.status", "True", "False"))
		condPaused = st == corev1.ConditionTrue
		rs.Status.Conditions = append(rs.Status.Conditions, datadoghqv1alpha1.ExtendedDaemonSetReplicaSetCondition{
			Type: datadoghqv1alpha1.ConditionTypeCanaryPaused, Status: st, Reason: "CrashLoopBackOff",
			LastTransitionTime: metav1.NewTime(nondet.Base().Add(-time.Minute)), LastUpdateTime: metav1.NewTime(nondet.Base().Add(-time.Minute)),
		})
	}
	ann := map[string]string{}
	annPaused, annUnpaused := false, false
	if nondet.Bool("annPaused.present") {
		v := nondet.String("annPaused", "true", "false", "")
		ann[datadoghqv1alpha1.ExtendedDaemonSetCanaryPausedAnnotationKey] = v
		annPaused = v == "true"
	}
	if nondet.Bool("annUnpaused.present") {
		v := nondet.String("annUnpaused", "true", "false")
		ann[datadoghqv1alpha1.ExtendedDaemonSetCanaryUnpausedAnnotationKey] = v
		annUnpaused = v == "true"
	}
	params := &Parameters{
		EDSName: zzEDSName, Strategy: &ds.Spec.Strategy, Replicaset: rs, ReplicaSetStatus: string(ReplicaSetStatusCanary),
		NewStatus:  rs.Status.DeepCopy(),
		NodeByName: map[string]*NodeItem{}, PodByNodeName: map[*NodeItem]*corev1.Pod{},
	}
	withPod := nondet.Bool("hasCanaryPod")
	restarts := int32(0)
	for i := 0; i < 2; i++ {
		ni := NewNodeItem(&corev1.Node{ObjectMeta: metav1.ObjectMeta{Name: zzNodeName(i)}}, nil)
		params.NodeByName[ni.Node.Name] = ni
		params.CanaryNodes = append(params.CanaryNodes, ni.Node.Name)
		params.PodByNodeName[ni] = nil
		if i == 0 && withPod {
			p := zzPod(i, zzHashNew, 2, true, nondet.Base().Add(-time.Hour))
			st := metav1.NewTime(nondet.Base().Add(-time.Hour))
			p.Status.StartTime = &st
			// the pod may have restarted, up to autoFail.maxRestarts (default 5; autoPause.maxRestarts
			// defaults to 2): the usual reason why a canary is paused, and still true when the user unpauses
			restarts = nondet.Int32("canaryPod.restarts", 0, 5)
			cs := corev1.ContainerStatus{Name: "c", RestartCount: restarts}
			if restarts > 0 {
				cs.LastTerminationState.Terminated = &corev1.ContainerStateTerminated{Reason: "Error", ExitCode: 1, FinishedAt: metav1.NewTime(nondet.Base().Add(-30 * time.Minute))}
			}
			p.Status.ContainerStatuses = []corev1.ContainerStatus{cs}
			params.PodByNodeName[ni] = p
		}
	}
	res := manageCanaryStatus(ann, params, nondet.Base())
	paused := condPaused || annPaused
	nondet.Fact("paused", paused)
	nondet.Fact("unpaused", annUnpaused)
	if paused && !annUnpaused {
		nondet.Assert("C08.canary.paused-stays", res.IsPaused)
		nondet.Assert("C08.canary.no-create", len(res.PodsToCreate) == 0)
	}
	if annUnpaused || (!paused && restarts <= 2) {
		// "a canary resumes on unpause" (whatever made it pause is overridden by the user); a healthy
		// canary that nobody paused keeps filling its nodes
		nondet.Assert("C08.canary.resumes", !res.IsPaused && len(res.PodsToCreate) >= 1)
	}
	nondet.Assert("C08.canary.no-delete", len(res.PodsToDelete) == 0)
	nondet.Observe("isPaused", res.IsPaused)
	nondet.Observe("nCreate", len(res.PodsToCreate))
	nondet.Reach("C08.canary.cond-paused-ann-false", condPaused && !annPaused && len(ann) > 0 && !annUnpaused)
	nondet.Reach("C08.canary.unpaused", paused && annUnpaused)
	nondet.Reach("C08.canary.unpaused-while-still-restarting", annUnpaused && restarts > 2 && !res.IsPaused)
}

// ZZ_C08_resumeIgnoresReplicaSetCopies: "a rolling update resumes once its annotation is removed
// or set to false".  The ExtendedDaemonSet controller copies the ExtendedDaemonSet's annotations
// onto a replica set when it creates it, so a replica set created while the rollout was paused
// or frozen keeps a stale "true" copy for ever: only the ExtendedDaemonSet's own annotations
// decide.  One outdated available pod and one node without pod; the annotation on the
// ExtendedDaemonSet absent / "false" / "true", the copies on the replica set absent / "true".
func ZZ_C08_resumeIgnoresReplicaSetCopies() {
	ann := map[string]string{}
	_ = ann
	edsPaused := nondet.String("eds.paused", "absent", "false", "true")
	edsFrozen := nondet.String("eds.frozen", "absent", "false", "true")
	if edsPaused != "absent" {
		ann[datadoghqv1alpha1.ExtendedDaemonSetRollingUpdatePausedAnnotationKey] = edsPaused
	}
	if edsFrozen != "absent" {
		ann[datadoghqv1alpha1.ExtendedDaemonSetRolloutFrozenAnnotationKey] = edsFrozen
	}
	ds := zzDaemonset(ann)
	rs := zzReplicaSet()
	rs.Annotations = map[string]string{}
	if nondet.Bool("rs.staleCopy.paused") {
		rs.Annotations[datadoghqv1alpha1.ExtendedDaemonSetRollingUpdatePausedAnnotationKey] = "true"
	}
	if nondet.Bool("rs.staleCopy.frozen") {
		rs.Annotations[datadoghqv1alpha1.ExtendedDaemonSetRolloutFrozenAnnotationKey] = "true"
	}
	params, _ := zzParams(ds, rs, []int{zzOutdatedAvailable, zzNoPod})
	res, err := ManageDeployment(fakeapi.New(), ds, params, metav1.Now())
	nondet.Assert("C08.copies.noerror", err == nil)
	if err != nil {
		return
	}
	paused, frozen := edsPaused == "true", edsFrozen == "true"
	nondet.Assert("C08.copies.flags", res.IsPaused == paused && res.IsFrozen == frozen)
	wantDelete, wantCreate := 1, 1
	if paused || frozen {
		wantDelete = 0
	}
	if frozen {
		wantCreate = 0
	}
	// maxUnavailable defaults to 1 and one node already lacks its pod: the update deletion waits
	// for the creation, so only the creation is planned when nothing holds the rollout
	nondet.Assert("C08.copies.creates", len(res.PodsToCreate) == wantCreate)
	nondet.Assert("C08.copies.deletes-at-most", len(res.PodsToDelete) <= wantDelete)
	activeTrue := false
	for _, cd := range params.NewStatus.Conditions {
		if cd.Type == datadoghqv1alpha1.ConditionTypeActive {
			activeTrue = cd.Status == "True"
		}
	}
	nondet.Assert("C08.copies.active-condition", activeTrue == (!paused && !frozen))
	nondet.Observe("nCreate", len(res.PodsToCreate))
	nondet.Reach("C08.copies.resumed-despite-copy", !paused && !frozen && len(rs.Annotations) == 2 && len(res.PodsToCreate) == 1)
}
