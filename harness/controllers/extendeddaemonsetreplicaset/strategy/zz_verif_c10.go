//go:build verif

package strategy

import (
	autoscalingv1 "k8s.io/api/autoscaling/v1"
	corev1 "k8s.io/api/core/v1"
	"k8s.io/apimachinery/pkg/api/resource"
	metav1 "k8s.io/apimachinery/pkg/apis/meta/v1"

	datadoghqv1alpha1 "github.com/DataDog/extendeddaemonset/api/v1alpha1"
	podutils "github.com/DataDog/extendeddaemonset/pkg/controller/utils/pod"
	"github.com/DataDog/extendeddaemonset/zzverif/fakeapi"
	"github.com/DataDog/extendeddaemonset/zzverif/nondet"
)

const zzAnnPrefix = "resources.extendeddaemonset.datadoghq.com/" + zzNS + "." + zzEDSName + "."

func zzRes(cpu string) corev1.ResourceRequirements {
	return corev1.ResourceRequirements{Requests: corev1.ResourceList{corev1.ResourceCPU: resource.MustParse(cpu)}}
}

// zzCPU returns the cpu request of a container as milli-units (-1: none).
func zzCPU(c *corev1.Container) int64 {
	q, ok := c.Resources.Requests[corev1.ResourceCPU]
	if !ok {
		return -1
	}
	return q.MilliValue()
}

type zzC10Input struct {
	affinityShape   string // nil | no-node-affinity | no-required | one-term | term-with-name
	nContainers     int
	annotation      string // "" | r1 | r2 | empty | malformed      (override of container "agent" on the node)
	setting         string // "" | agent | sidecar         (container the valid setting gives resources to)
	addAffinity     bool
	strayAnnotation bool   // the node also carries an override for a container the template does not have (a leftover)
	tolerations     string // "" | catch-all | narrow-seconds | narrow-value | other-effect   (tolerations of the template)
}

// crossTolerations: vary the template's tolerations together with every affinity shape (the creation
// harness), or only with the plain one (the round-trip harness, where the two are read by
// different code: the cross product only multiplies paths).
func zzC10Pick(crossTolerations bool) zzC10Input {
	in := zzC10Input{nContainers: 1, addAffinity: nondet.Bool("addNodeAffinity")}
	switch nondet.String("affinity", "nil", "no-node-affinity", "no-required", "one-term", "term-with-name", "name-then-plain", "plain-then-name") {
	case "name-then-plain":
		in.affinityShape = "name-then-plain"
	case "plain-then-name":
		in.affinityShape = "plain-then-name"
	case "nil":
		in.affinityShape = "nil"
	case "no-node-affinity":
		in.affinityShape = "no-node-affinity"
	case "no-required":
		in.affinityShape = "no-required"
	case "one-term":
		in.affinityShape = "one-term"
	default:
		in.affinityShape = "term-with-name"
	}
	if nondet.Thorough() && nondet.Bool("twoContainers") {
		in.nContainers = 2
	}
	switch nondet.String("nodeAnnotation", "", "r1", "r2", "malformed", "undecodable", "wrong-shape", "other-container", "r1-and-other-container", "empty") {
	case "empty":
		in.annotation = "empty"
	case "r1":
		in.annotation = "r1"
	case "r2":
		in.annotation = "r2"
	case "malformed":
		in.annotation = "malformed"
	case "undecodable":
		in.annotation = "undecodable"
	case "wrong-shape":
		in.annotation = "wrong-shape"
	case "other-container":
		in.annotation = "other-container"
	case "r1-and-other-container":
		in.annotation = "r1"
		in.strayAnnotation = true
	}
	if in.annotation == "other-container" {
		in.annotation = ""
		in.strayAnnotation = true
	}
	switch nondet.String("setting", "", "agent", "sidecar") {
	case "agent":
		in.setting = "agent"
	case "sidecar":
		in.setting = "sidecar"
	}
	if !crossTolerations && in.affinityShape != "nil" {
		return in
	}
	switch nondet.String("templateTolerations", "", "catch-all", "narrow-seconds", "narrow-value", "other-effect") {
	case "catch-all":
		in.tolerations = "catch-all"
	case "narrow-seconds":
		in.tolerations = "narrow-seconds"
	case "narrow-value":
		in.tolerations = "narrow-value"
	case "other-effect":
		in.tolerations = "other-effect"
	}
	return in
}

// unusable: the override annotation is present but cannot be decoded into resources
func (in zzC10Input) unusable() bool {
	return in.annotation == "malformed" || in.annotation == "undecodable" || in.annotation == "wrong-shape"
}

func zzC10Build(in zzC10Input) (*datadoghqv1alpha1.ExtendedDaemonSetReplicaSet, *corev1.Node, *datadoghqv1alpha1.ExtendedDaemonsetSetting) {
	rs := zzReplicaSet()
	// a replica set written by an older controller version may lack spec.templateGeneration (the
	// field is optional) while it carries the template-hash annotation: what is stamped on the pod is
	// what the comparison expects
	if nondet.Bool("replicaSetWithoutTemplateGeneration") {
		rs.Annotations = map[string]string{datadoghqv1alpha1.MD5ExtendedDaemonSetAnnotationKey: rs.Spec.TemplateGeneration}
		rs.Spec.TemplateGeneration = ""
	}
	rs.Spec.Template = corev1.PodTemplateSpec{
		ObjectMeta: metav1.ObjectMeta{Labels: map[string]string{"app": "agent"}},
		Spec:       corev1.PodSpec{Containers: []corev1.Container{{Name: "agent", Image: "agent:1", Resources: zzRes("100m")}}},
	}
	if in.nContainers == 2 {
		rs.Spec.Template.Spec.Containers = append(rs.Spec.Template.Spec.Containers, corev1.Container{Name: "sidecar", Image: "sidecar:1"})
	}
	// tolerations of the template itself: they must not displace any default DaemonSet toleration
	switch in.tolerations {
	case "catch-all":
		rs.Spec.Template.Spec.Tolerations = []corev1.Toleration{{Operator: corev1.TolerationOpExists}}
	case "narrow-seconds": // same key and effect as a default one, but time-bounded
		secs := int64(300)
		rs.Spec.Template.Spec.Tolerations = []corev1.Toleration{{Key: "node.kubernetes.io/not-ready", Operator: corev1.TolerationOpExists, Effect: corev1.TaintEffectNoExecute, TolerationSeconds: &secs}}
	case "narrow-value": // same key and effect as a default one, but for one value only
		rs.Spec.Template.Spec.Tolerations = []corev1.Toleration{{Key: "node.kubernetes.io/disk-pressure", Operator: corev1.TolerationOpEqual, Value: "soft", Effect: corev1.TaintEffectNoSchedule}}
	case "other-effect":
		rs.Spec.Template.Spec.Tolerations = []corev1.Toleration{{Key: "node.kubernetes.io/unschedulable", Operator: corev1.TolerationOpExists, Effect: corev1.TaintEffectNoExecute}}
	}
	other := corev1.NodeSelectorRequirement{Key: "disk", Operator: corev1.NodeSelectorOpIn, Values: []string{"ssd"}}
	switch in.affinityShape {
	case "no-node-affinity":
		rs.Spec.Template.Spec.Affinity = &corev1.Affinity{}
	case "no-required":
		rs.Spec.Template.Spec.Affinity = &corev1.Affinity{NodeAffinity: &corev1.NodeAffinity{}}
	case "one-term":
		rs.Spec.Template.Spec.Affinity = &corev1.Affinity{NodeAffinity: &corev1.NodeAffinity{RequiredDuringSchedulingIgnoredDuringExecution: &corev1.NodeSelector{
			NodeSelectorTerms: []corev1.NodeSelectorTerm{{MatchExpressions: []corev1.NodeSelectorRequirement{other}}, {MatchFields: []corev1.NodeSelectorRequirement{other}}}}}}
	case "term-with-name":
		rs.Spec.Template.Spec.Affinity = &corev1.Affinity{NodeAffinity: &corev1.NodeAffinity{RequiredDuringSchedulingIgnoredDuringExecution: &corev1.NodeSelector{
			// (the term names nodes twice: a stale In left by a copied pod manifest and a NotIn; both have to give way)
			NodeSelectorTerms: []corev1.NodeSelectorTerm{{MatchFields: []corev1.NodeSelectorRequirement{{Key: "metadata.name", Operator: corev1.NodeSelectorOpIn, Values: []string{"stale"}},
				{Key: "metadata.name", Operator: corev1.NodeSelectorOpNotIn, Values: []string{"node0", "quarantined"}}}}}}}}
	case "name-then-plain", "plain-then-name":
		named := corev1.NodeSelectorTerm{MatchExpressions: []corev1.NodeSelectorRequirement{other},
			MatchFields: []corev1.NodeSelectorRequirement{{Key: "metadata.name", Operator: corev1.NodeSelectorOpNotIn, Values: []string{"quarantined"}}}}
		plain := corev1.NodeSelectorTerm{MatchExpressions: []corev1.NodeSelectorRequirement{other}}
		terms := []corev1.NodeSelectorTerm{named, plain, plain}
		if in.affinityShape == "plain-then-name" {
			terms = []corev1.NodeSelectorTerm{plain, named, plain}
		}
		rs.Spec.Template.Spec.Affinity = &corev1.Affinity{NodeAffinity: &corev1.NodeAffinity{RequiredDuringSchedulingIgnoredDuringExecution: &corev1.NodeSelector{NodeSelectorTerms: terms}}}
	}
	node := &corev1.Node{ObjectMeta: metav1.ObjectMeta{Name: "node0", Annotations: map[string]string{"unrelated": "x"}}}
	switch in.annotation {
	case "r1":
		node.Annotations[zzAnnPrefix+"agent"] = `{"requests":{"cpu":"200m"}}`
	case "r2":
		node.Annotations[zzAnnPrefix+"agent"] = `{"requests":{"cpu":"300m"},"limits":{"cpu":"1"}}`
	case "empty": // a well-formed override that defines no resources: the container gets none (it is an override like any other)
		node.Annotations[zzAnnPrefix+"agent"] = `{"limits":{}}`
	case "malformed": // not JSON at all
		node.Annotations[zzAnnPrefix+"agent"] = `{"requests":`
	case "undecodable": // JSON, but not a quantity
		node.Annotations[zzAnnPrefix+"agent"] = `{"requests":{"cpu":"lots"}}`
	case "wrong-shape": // JSON, but not an object
		node.Annotations[zzAnnPrefix+"agent"] = `[]`
	}
	if in.strayAnnotation {
		node.Annotations[zzAnnPrefix+"process-agent"] = `{"requests":{"cpu":"50m"}}`
	}
	var setting *datadoghqv1alpha1.ExtendedDaemonsetSetting
	if in.setting != "" {
		// the same amount written canonically or not ("0.5" is stored as submitted, and reads back from a pod as "500m")
		settingCPU := "500m"
		if nondet.String("setting.cpuNotation", "500m", "0.5") == "0.5" {
			settingCPU = "0.5"
		}
		setting = &datadoghqv1alpha1.ExtendedDaemonsetSetting{
			ObjectMeta: metav1.ObjectMeta{Name: "setting", Namespace: zzNS},
			Spec: datadoghqv1alpha1.ExtendedDaemonsetSettingSpec{
				Reference:  &autoscalingv1.CrossVersionObjectReference{Name: zzEDSName},
				Containers: []datadoghqv1alpha1.ExtendedDaemonsetSettingContainerSpec{{Name: in.setting, Resources: zzRes(settingCPU)}},
			},
			Status: datadoghqv1alpha1.ExtendedDaemonsetSettingStatus{Status: datadoghqv1alpha1.ExtendedDaemonsetSettingStatusValid},
		}
	}
	return rs, node, setting
}

// ZZ_C10_create: every created pod is bound to exactly its node, owned by its replica set,
// labelled, stamped with the template hash, given the DaemonSet tolerations and resources
// resolved as node annotation, else valid setting, else template.
func ZZ_C10_create() {
	in := zzC10Pick(true)
	rs, node, setting := zzC10Build(in)
	scheme := fakeapi.NewScheme()
	pod, err := podutils.CreatePodFromDaemonSetReplicaSet(scheme, rs, node, setting, in.addAffinity)
	// (a malformed override annotation is skipped; whether its decoding error is returned is not part of the property)
	nondet.Assert("C10.create.pod-built", pod != nil)
	if !in.unusable() {
		nondet.Assert("C10.create.noerror", err == nil)
	}
	if pod == nil {
		return
	}
	// "bound to exactly the node it was created for (by node name, or by a required node affinity
	// on the node's name added to every affinity term)"
	if in.addAffinity {
		ok := pod.Spec.NodeName == "" && pod.Spec.Affinity != nil && pod.Spec.Affinity.NodeAffinity != nil &&
			pod.Spec.Affinity.NodeAffinity.RequiredDuringSchedulingIgnoredDuringExecution != nil &&
			len(pod.Spec.Affinity.NodeAffinity.RequiredDuringSchedulingIgnoredDuringExecution.NodeSelectorTerms) >= 1
		nondet.Assert("C10.create.bound-by-affinity", ok)
		if ok {
			for _, t := range pod.Spec.Affinity.NodeAffinity.RequiredDuringSchedulingIgnoredDuringExecution.NodeSelectorTerms {
				found := 0
				for _, f := range t.MatchFields {
					if f.Key == "metadata.name" {
						found++
						nondet.Assert("C10.create.affinity-names-node", f.Operator == corev1.NodeSelectorOpIn && len(f.Values) == 1 && f.Values[0] == "node0")
					}
				}
				// (a term may name the node more than once; every by-name requirement of it names node0 — see above)
				nondet.Assert("C10.create.every-term-pinned", found >= 1)
			}
		}
	} else {
		nondet.Assert("C10.create.bound-by-name", pod.Spec.NodeName == "node0")
	}
	got, gerr := podutils.GetNodeNameFromPod(pod)
	nondet.Assert("C10.create.read-back", gerr == nil && got == "node0")
	// the template of the replica set is not modified by creating a pod from it
	if in.affinityShape == "term-with-name" {
		nondet.Assert("C10.create.template-untouched", rs.Spec.Template.Spec.Affinity.NodeAffinity.RequiredDuringSchedulingIgnoredDuringExecution.NodeSelectorTerms[0].MatchFields[0].Values[0] == "stale")
	}
	// "owned by its replica set, carries the ExtendedDaemonSet and replica-set name labels, that replica set's template hash"
	nondet.Assert("C10.create.owner", len(pod.OwnerReferences) == 1 && pod.OwnerReferences[0].Kind == "ExtendedDaemonSetReplicaSet" && pod.OwnerReferences[0].Name == zzRSName && pod.OwnerReferences[0].UID == rs.UID)
	nondet.Assert("C10.create.labels", pod.Labels[datadoghqv1alpha1.ExtendedDaemonSetNameLabelKey] == zzEDSName && pod.Labels[datadoghqv1alpha1.ExtendedDaemonSetReplicaSetNameLabelKey] == zzRSName && pod.Labels["app"] == "agent")
	nondet.Assert("C10.create.hash", pod.Annotations[datadoghqv1alpha1.MD5ExtendedDaemonSetAnnotationKey] == rs.Spec.TemplateGeneration && pod.Namespace == zzNS && pod.GenerateName == zzRSName+"-")
	// "the default DaemonSet tolerations"
	for _, want := range podutils.StandardDaemonSetTolerations {
		found := false
		for _, t := range pod.Spec.Tolerations {
			// the default toleration itself: same key, operator and effect, any value, not time-bounded
			if t.Key == want.Key && t.Operator == want.Operator && t.Effect == want.Effect && t.Value == want.Value && t.TolerationSeconds == nil {
				found = true
			}
		}
		nondet.Assert("C10.create.tolerations", found)
	}
	// the template's own tolerations are kept
	for _, want := range rs.Spec.Template.Spec.Tolerations {
		found := false
		for _, t := range pod.Spec.Tolerations {
			if t.Key == want.Key && t.Operator == want.Operator && t.Effect == want.Effect && t.Value == want.Value && (t.TolerationSeconds == nil) == (want.TolerationSeconds == nil) {
				found = true
			}
		}
		nondet.Assert("C10.create.template-tolerations-kept", found)
	}
	// "container resources resolved as node-annotation override, else the valid setting selecting the node, else the template"
	wantCPU := int64(100)
	if in.setting == "agent" {
		wantCPU = 500
	}
	switch in.annotation {
	case "r1":
		wantCPU = 200
	case "r2":
		wantCPU = 300
	case "empty":
		wantCPU = -1
	}
	nondet.Assert("C10.create.resources", zzCPU(&pod.Spec.Containers[0]) == wantCPU)
	if in.nContainers == 2 {
		w2 := int64(-1)
		if in.setting == "sidecar" {
			w2 = 500
		}
		nondet.Assert("C10.create.resources-sidecar", zzCPU(&pod.Spec.Containers[1]) == w2)
	}
	nondet.Observe("cpu", zzCPU(&pod.Spec.Containers[0]))
	nondet.Reach("C10.create.annotation-wins", in.annotation == "r1" && in.setting == "agent")
	nondet.Reach("C10.create.setting", in.annotation == "" && in.setting == "agent")
	nondet.Reach("C10.create.pinned-existing-term", in.addAffinity && in.affinityShape == "term-with-name")
	nondet.Reach("C10.create.pinned-mixed-terms", in.addAffinity && in.affinityShape == "name-then-plain")
}

// ZZ_C10_roundtrip: a pod just created for given inputs is recognised as up to date for the
// same inputs; it is recognised as outdated when the template hash, the node's override
// annotation, or a resource value demanded by the applicable setting changes.
func ZZ_C10_roundtrip() {
	in := zzC10Pick(nondet.Thorough())
	rs, node, setting := zzC10Build(in)
	pod, _ := podutils.CreatePodFromDaemonSetReplicaSet(fakeapi.NewScheme(), rs, node, setting, in.addAffinity)
	ds := zzDaemonset(map[string]string{})
	params := &Parameters{EDSName: zzEDSName, Strategy: &ds.Spec.Strategy, Replicaset: rs}
	ni := NewNodeItem(node, setting)

	// the pod as the controller sees it in later syncs: read back from the API, i.e. with every
	// quantity re-parsed from its canonical text
	if nondet.Bool("podReadBackFromAPI") {
		pod = pod.DeepCopy() // (the created pod shares its resource maps with the setting it was built from)
		for i := range pod.Spec.Containers {
			for _, list := range []corev1.ResourceList{pod.Spec.Containers[i].Resources.Requests, pod.Spec.Containers[i].Resources.Limits} {
				for name, q := range list {
					list[name] = resource.MustParse(q.String())
				}
			}
		}
	}
	nondet.Fact("annotationAndSettingSameContainer", in.annotation != "" && !in.unusable() && in.setting == "agent")
	nondet.Fact("malformedAnnotation", in.unusable())
	// "a pod just created for given inputs is recognised as up to date for the same inputs"
	nondet.Assert("C10.roundtrip.stable", compareCurrentPodWithNewPod(params, pod, ni))

	switch nondet.String("perturb", "template", "annotation", "setting", "annotation-removed") {
	case "template":
		rs2 := rs.DeepCopy()
		rs2.Spec.TemplateGeneration = "another-hash"
		p2 := &Parameters{EDSName: zzEDSName, Strategy: &ds.Spec.Strategy, Replicaset: rs2}
		nondet.Assert("C10.perturb.template", !compareCurrentPodWithNewPod(p2, pod, ni))
	case "annotation":
		n2 := node.DeepCopy()
		n2.Annotations[zzAnnPrefix+"agent"] = `{"requests":{"cpu":"250m"}}`
		nondet.Assert("C10.perturb.annotation", !compareCurrentPodWithNewPod(params, pod, NewNodeItem(n2, setting)))
	case "annotation-removed":
		if in.annotation != "" {
			n2 := node.DeepCopy()
			delete(n2.Annotations, zzAnnPrefix+"agent")
			nondet.Assert("C10.perturb.annotation-removed", !compareCurrentPodWithNewPod(params, pod, NewNodeItem(n2, setting)))
			// ... also when the override was the node's only annotation (nil or empty map afterwards)
			n3 := node.DeepCopy()
			n3.Annotations = nil
			nondet.Assert("C10.perturb.annotation-removed-node-without-annotations", !compareCurrentPodWithNewPod(params, pod, NewNodeItem(n3, setting)))
			n3.Annotations = map[string]string{}
			nondet.Assert("C10.perturb.annotation-removed-node-without-annotations", !compareCurrentPodWithNewPod(params, pod, NewNodeItem(n3, setting)))
		}
	default:
		// the setting now demands another value for a container of the pod that no annotation overrides
		if in.setting == "agent" && (in.annotation == "" || in.unusable()) {
			s2 := setting.DeepCopy()
			s2.Spec.Containers[0].Resources = zzRes("750m")
			nondet.Assert("C10.perturb.setting", !compareCurrentPodWithNewPod(params, pod, NewNodeItem(node, s2)))
			// ... or starts to demand a quantity in a section the pod's container does not have at all
			s3 := setting.DeepCopy()
			s3.Spec.Containers[0].Resources.Limits = corev1.ResourceList{corev1.ResourceCPU: resource.MustParse("1")}
			nondet.Assert("C10.perturb.setting-demands-a-missing-section", !compareCurrentPodWithNewPod(params, pod, NewNodeItem(node, s3)))
		}
		// a valid setting appears for a container that has no resources of that kind at all
		if in.setting == "" && in.annotation == "" {
			target := "agent"
			if in.nContainers == 2 {
				target = "sidecar"
			}
			s4 := &datadoghqv1alpha1.ExtendedDaemonsetSetting{
				ObjectMeta: metav1.ObjectMeta{Name: "setting", Namespace: zzNS},
				Spec: datadoghqv1alpha1.ExtendedDaemonsetSettingSpec{
					Reference:  &autoscalingv1.CrossVersionObjectReference{Name: zzEDSName},
					Containers: []datadoghqv1alpha1.ExtendedDaemonsetSettingContainerSpec{{Name: target, Resources: corev1.ResourceRequirements{Limits: corev1.ResourceList{corev1.ResourceMemory: resource.MustParse("256Mi")}}}},
				},
				Status: datadoghqv1alpha1.ExtendedDaemonsetSettingStatus{Status: datadoghqv1alpha1.ExtendedDaemonsetSettingStatusValid},
			}
			nondet.Assert("C10.perturb.setting-appears-for-a-missing-section", !compareCurrentPodWithNewPod(params, pod, NewNodeItem(node, s4)))
		}
	}
	nondet.Observe("cpu", zzCPU(&pod.Spec.Containers[0]))
	nondet.Reach("C10.roundtrip.with-setting", in.setting == "agent" && in.annotation == "")
	nondet.Reach("C10.roundtrip.with-annotation", in.annotation == "r1" && in.setting == "")
}

// ZZ_C10_overridesPerContainer: "container resources resolved as node-annotation override ..." per
// container: a template with two containers (in either order), the node carrying a well-formed
// override for neither, one or both of them, the two overrides of different shapes (requests only,
// limits only, both, other resource names).  Each container of the created pod has exactly the
// resources of its own override — nothing leaks from the other container's — and the template's
// where it has none; the pod is recognised as up to date afterwards.
func ZZ_C10_overridesPerContainer() {
	type shape struct {
		json string
		want corev1.ResourceRequirements
	}
	q := resource.MustParse
	shapes := map[string]shape{
		"requests-cpu":      {`{"requests":{"cpu":"200m"}}`, corev1.ResourceRequirements{Requests: corev1.ResourceList{corev1.ResourceCPU: q("200m")}}},
		"limits-cpu":        {`{"limits":{"cpu":"1"}}`, corev1.ResourceRequirements{Limits: corev1.ResourceList{corev1.ResourceCPU: q("1")}}},
		"requests-memory":   {`{"requests":{"memory":"64Mi"}}`, corev1.ResourceRequirements{Requests: corev1.ResourceList{corev1.ResourceMemory: q("64Mi")}}},
		"limits-and-memory": {`{"limits":{"memory":"128Mi"},"requests":{"cpu":"300m"}}`, corev1.ResourceRequirements{Limits: corev1.ResourceList{corev1.ResourceMemory: q("128Mi")}, Requests: corev1.ResourceList{corev1.ResourceCPU: q("300m")}}},
	}
	pick := func(label string) string {
		switch nondet.String(label, "none", "requests-cpu", "limits-cpu", "requests-memory", "limits-and-memory") {
		case "requests-cpu":
			return "requests-cpu"
		case "limits-cpu":
			return "limits-cpu"
		case "requests-memory":
			return "requests-memory"
		case "limits-and-memory":
			return "limits-and-memory"
		}
		return "none"
	}
	rs := zzReplicaSet()
	agent := corev1.Container{Name: "agent", Image: "agent:1", Resources: zzRes("100m")}
	sidecar := corev1.Container{Name: "sidecar", Image: "sidecar:1"}
	rs.Spec.Template = corev1.PodTemplateSpec{ObjectMeta: metav1.ObjectMeta{Labels: map[string]string{"app": "agent"}}}
	if nondet.Bool("sidecarFirst") {
		rs.Spec.Template.Spec.Containers = []corev1.Container{sidecar, agent}
	} else {
		rs.Spec.Template.Spec.Containers = []corev1.Container{agent, sidecar}
	}
	node := &corev1.Node{ObjectMeta: metav1.ObjectMeta{Name: "node0", Annotations: map[string]string{}}}
	choice := map[string]string{"agent": pick("agent.override"), "sidecar": pick("sidecar.override")}
	for name, c := range choice {
		if c != "none" {
			node.Annotations[zzAnnPrefix+name] = shapes[c].json
		}
	}
	affinity := nondet.Bool("addNodeAffinity")
	pod, err := podutils.CreatePodFromDaemonSetReplicaSet(fakeapi.NewScheme(), rs, node, nil, affinity)
	nondet.Assert("C10.per-container.noerror", err == nil && pod != nil && len(pod.Spec.Containers) == 2)
	if err != nil || pod == nil || len(pod.Spec.Containers) != 2 {
		return
	}
	same := func(a, b corev1.ResourceList) bool {
		if len(a) != len(b) {
			return false
		}
		for k, v := range a {
			w, ok := b[k]
			if !ok || v.Cmp(w) != 0 {
				return false
			}
		}
		return true
	}
	for i := range pod.Spec.Containers {
		c := &pod.Spec.Containers[i]
		want := corev1.ResourceRequirements{}
		if c.Name == "agent" {
			want = zzRes("100m")
		}
		if ch := choice[c.Name]; ch != "none" {
			want = shapes[ch].want
		}
		nondet.Assert("C10.per-container.own-override-only", same(c.Resources.Requests, want.Requests) && same(c.Resources.Limits, want.Limits))
	}
	ds := zzDaemonset(map[string]string{})
	params := &Parameters{EDSName: zzEDSName, Strategy: &ds.Spec.Strategy, Replicaset: rs}
	nondet.Assert("C10.per-container.stable", compareCurrentPodWithNewPod(params, pod, NewNodeItem(node, nil)))
	nondet.Reach("C10.per-container.both-overridden", choice["agent"] == "limits-cpu" && choice["sidecar"] == "requests-memory")
}

// ZZ_C10_staleStampsInTemplate: "for every pod template": the template may itself carry the
// controller's stamp annotations with stale values (a template copied from the manifest of a
// running pod).  On the created pod the controller's own stamps win — the template hash is the
// replica set's, the node-override hash is present exactly when the node carries overrides — so the
// pod "is recognised as up to date for the same inputs" and is not replaced for ever.
func ZZ_C10_staleStampsInTemplate() {
	rs := zzReplicaSet()
	rs.Spec.Template = corev1.PodTemplateSpec{
		ObjectMeta: metav1.ObjectMeta{Labels: map[string]string{"app": "agent"}, Annotations: map[string]string{"team": "x"}},
		Spec:       corev1.PodSpec{Containers: []corev1.Container{{Name: "agent", Image: "agent:1", Resources: zzRes("100m")}}},
	}
	if nondet.Bool("staleTemplateHash") {
		rs.Spec.Template.Annotations[datadoghqv1alpha1.MD5ExtendedDaemonSetAnnotationKey] = "0123456789abcdef0123456789abcdef"
	}
	if nondet.Bool("staleNodeHash") {
		rs.Spec.Template.Annotations[datadoghqv1alpha1.MD5NodeExtendedDaemonSetAnnotationKey] = "fedcba9876543210fedcba9876543210"
	}
	node := &corev1.Node{ObjectMeta: metav1.ObjectMeta{Name: "node0", Annotations: map[string]string{}}}
	if nondet.Bool("nodeOverride") {
		node.Annotations[zzAnnPrefix+"agent"] = `{"requests":{"cpu":"200m"}}`
	}
	affinity := nondet.Bool("addNodeAffinity")
	pod, err := podutils.CreatePodFromDaemonSetReplicaSet(fakeapi.NewScheme(), rs, node, nil, affinity)
	nondet.Assert("C10.stale-stamps.noerror", err == nil && pod != nil)
	if err != nil || pod == nil {
		return
	}
	nondet.Assert("C10.stale-stamps.template-hash-is-the-replicasets", pod.Annotations[datadoghqv1alpha1.MD5ExtendedDaemonSetAnnotationKey] == rs.Spec.TemplateGeneration)
	nondet.Assert("C10.stale-stamps.user-annotation-kept", pod.Annotations["team"] == "x")
	ds := zzDaemonset(map[string]string{})
	params := &Parameters{EDSName: zzEDSName, Strategy: &ds.Spec.Strategy, Replicaset: rs}
	nondet.Assert("C10.stale-stamps.recognised-as-up-to-date", compareCurrentPodWithNewPod(params, pod, NewNodeItem(node, nil)))
	nondet.Reach("C10.stale-stamps.both", pod.Annotations["team"] == "x" && len(node.Annotations) == 0)
}
