//go:build verif

package strategy

import (
	metav1 "k8s.io/apimachinery/pkg/apis/meta/v1"

	"github.com/DataDog/extendeddaemonset/zzverif/fakeapi"
	"github.com/DataDog/extendeddaemonset/zzverif/nondet"
)

// ZZ_C07_brokenCanaryPodsReplaced: "subsequently replaces the canary pods by pods of the active
// template on the former canary nodes" — also when the failed version cannot even start: after the
// rollback the active replica set sees k former canary nodes holding outdated pods that are not
// Ready (k = 1..3 of four or five nodes, the others healthy and up to date).  Replacing a pod that
// is already unavailable costs no availability, so with maxUnavailable >= 1 every sync makes
// progress on them: at least one, at most maxUnavailable, only those pods.
func ZZ_C07_brokenCanaryPodsReplaced() {
	n := 4
	if nondet.Bool("fiveNodes") {
		n = 5
	}
	k := 1
	switch nondet.String("brokenCanaryPods", "1", "2", "3") {
	case "2":
		k = 2
	case "3":
		k = 3
	}
	ds := zzDaemonset(map[string]string{})
	mu := zzIntOrString("maxUnavailable", 3)
	nondet.Assume(mu.IntVal >= 1)
	ds.Spec.Strategy.RollingUpdate.MaxUnavailable = mu
	rs := zzReplicaSet()
	cats := make([]int, n)
	for i := range cats {
		cats[i] = zzUpToDateAvailable
		if i < k {
			cats[i] = zzOutdatedUnavailable
		}
	}
	params, items := zzParamsV(ds, rs, cats, true)
	res, err := ManageDeployment(fakeapi.New(), ds, params, metav1.Now())
	nondet.Assert("C07.broken.noerror", err == nil)
	if err != nil {
		return
	}
	maxUnavailable := int(mu.IntVal)
	nondet.Assert("C07.broken.progress", len(res.PodsToDelete) >= 1)
	nondet.Assert("C07.broken.within-budget", len(res.PodsToDelete) <= maxUnavailable)
	for _, ni := range res.PodsToDelete {
		idx := zzIndexOf(items, ni)
		nondet.Assert("C07.broken.only-the-broken-pods", idx >= 0 && idx < k)
	}
	nondet.Observe("nDelete", len(res.PodsToDelete))
	nondet.Reach("C07.broken.more-broken-than-budget", k > maxUnavailable && len(res.PodsToDelete) == maxUnavailable)
}
