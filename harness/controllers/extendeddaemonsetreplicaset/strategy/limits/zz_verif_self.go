//go:build verif

package limits

import "github.com/DataDog/extendeddaemonset/zzverif/nondet"

// ZZ_SELF_limits is the engine self-test: symbolic integers through the real
// CalculatePodToCreateAndDelete, asserting its clamps.
func ZZ_SELF_limits() {
	p := Parameters{
		NbNodes:              nondet.Int("nodes", 0, 1000),
		NbPods:               nondet.Int("pods", 0, 1000),
		NbAvailablesPod:      nondet.Int("avail", 0, 1000),
		NbOldAvailablesPod:   nondet.Int("oldAvail", 0, 1000),
		NbCreatedPod:         nondet.Int("created", 0, 1000),
		NbUnresponsiveNodes:  nondet.Int("unresp", 0, 1000),
		NbOldUnavailablePods: nondet.Int("oldUnavail", 0, 1000),
		MaxPodCreation:       nondet.Int("maxCreate", 0, 1000),
		MaxUnavailablePod:    nondet.Int("maxUnavail", 0, 1000),
		MaxUnschedulablePod:  nondet.Int("maxUnsched", 0, 1000),
	}
	c, d := CalculatePodToCreateAndDelete(p)
	nondet.Observe("create", c)
	nondet.Observe("delete", d)
	nondet.Assert("SELF.create.nonneg", c >= 0)
	nondet.Assert("SELF.create.cap", c <= p.MaxPodCreation)
	nondet.Assert("SELF.delete.range", nondet.And(d >= 0, d <= p.MaxUnavailablePod))
	nondet.Reach("SELF.delete.positive", d > 0)
	nondet.Reach("SELF.create.capped", nondet.And(c == p.MaxPodCreation, p.NbNodes-p.NbPods > p.MaxPodCreation))
}
