//go:build verif

package strategy

import (
	"strconv"
	"time"

	"github.com/go-logr/logr"
	corev1 "k8s.io/api/core/v1"
	metav1 "k8s.io/apimachinery/pkg/apis/meta/v1"
	"k8s.io/apimachinery/pkg/util/intstr"

	datadoghqv1alpha1 "github.com/DataDog/extendeddaemonset/api/v1alpha1"
	"github.com/DataDog/extendeddaemonset/zzverif/nondet"
)

const (
	zzHashNew = "hash-new" // template hash of the replica set under test
	zzHashOld = "hash-old"
	zzRSName  = "foo-new"
	zzOldRS   = "foo-old"
	zzEDSName = "foo"
	zzNS      = "ns"
)

// node categories of property C03's quantifier
const (
	zzNoPod = iota
	zzUpToDateAvailable
	zzUpToDateUnavailable
	zzOutdatedAvailable
	zzOutdatedUnavailable
	zzOutdatedTerminating
	zzStuck
	zzNumCat
)

func zzIntOrString(label string, maxInt int, percents ...string) *intstr.IntOrString {
	if len(percents) > 0 && nondet.Bool(label+".percent") {
		v := intstr.FromString(nondet.String(label+".pct", percents...))
		return &v
	}
	v := intstr.IntOrString{Type: intstr.Int, IntVal: nondet.Int32(label, 0, int32(maxInt))}
	return &v
}

// zzDaemonset returns a defaulted ExtendedDaemonSet with the given annotations.
func zzDaemonset(ann map[string]string) *datadoghqv1alpha1.ExtendedDaemonSet {
	ds := &datadoghqv1alpha1.ExtendedDaemonSet{ObjectMeta: metav1.ObjectMeta{Name: zzEDSName, Namespace: zzNS, Annotations: ann}}
	datadoghqv1alpha1.DefaultExtendedDaemonSetSpec(&ds.Spec, datadoghqv1alpha1.ExtendedDaemonSetSpecStrategyCanaryValidationModeAuto)
	return ds
}

func zzReplicaSet() *datadoghqv1alpha1.ExtendedDaemonSetReplicaSet {
	return &datadoghqv1alpha1.ExtendedDaemonSetReplicaSet{
		ObjectMeta: metav1.ObjectMeta{Name: zzRSName, Namespace: zzNS, UID: "uid-rs",
			Labels: map[string]string{datadoghqv1alpha1.ExtendedDaemonSetNameLabelKey: zzEDSName}},
		Spec: datadoghqv1alpha1.ExtendedDaemonSetReplicaSetSpec{TemplateGeneration: zzHashNew},
	}
}

func zzNodeName(i int) string { return "node" + strconv.Itoa(i) }

// zzPod builds a daemon pod for node i.
func zzPod(i int, hash string, ready int, scheduled bool, created time.Time) *corev1.Pod {
	rsName := zzRSName
	if hash != zzHashNew {
		rsName = zzOldRS
	}
	p := &corev1.Pod{
		ObjectMeta: metav1.ObjectMeta{
			Name: "pod" + strconv.Itoa(i), Namespace: zzNS, CreationTimestamp: metav1.NewTime(created),
			Labels: map[string]string{
				datadoghqv1alpha1.ExtendedDaemonSetNameLabelKey:           zzEDSName,
				datadoghqv1alpha1.ExtendedDaemonSetReplicaSetNameLabelKey: rsName,
			},
			Annotations: map[string]string{},
		},
		Status: corev1.PodStatus{Phase: corev1.PodRunning},
	}
	if hash != "" {
		p.Annotations[datadoghqv1alpha1.MD5ExtendedDaemonSetAnnotationKey] = hash
	}
	// the outdated pod of node0 is what an ended (failed or superseded) canary left behind: it still carries
	// the canary label; for the rolling update it is an outdated pod like any other
	if i == 0 && hash != zzHashNew {
		p.Labels[datadoghqv1alpha1.ExtendedDaemonSetReplicaSetCanaryLabelKey] = datadoghqv1alpha1.ExtendedDaemonSetReplicaSetCanaryLabelValue
	}
	if scheduled {
		p.Spec.NodeName = zzNodeName(i)
	} else {
		p.Spec.Affinity = &corev1.Affinity{NodeAffinity: &corev1.NodeAffinity{RequiredDuringSchedulingIgnoredDuringExecution: &corev1.NodeSelector{
			NodeSelectorTerms: []corev1.NodeSelectorTerm{{MatchFields: []corev1.NodeSelectorRequirement{{Key: "metadata.name", Operator: corev1.NodeSelectorOpIn, Values: []string{zzNodeName(i)}}}}},
		}}}
	}
	switch ready {
	case 1:
		p.Status.Conditions = append(p.Status.Conditions, corev1.PodCondition{Type: corev1.PodReady, Status: corev1.ConditionFalse})
	case 2:
		p.Status.Conditions = append(p.Status.Conditions, corev1.PodCondition{Type: corev1.PodReady, Status: corev1.ConditionTrue})
	}
	return p
}

// zzVariants are the sub-variants inside a category.  In the quick tier one arbitrary
// choice is shared by all nodes of a path; in the thorough tier every node chooses.
type zzVariants struct {
	notReadyFalse    bool   // unavailable = Ready condition False (else: condition absent)
	terminatingReady int    // readiness of a terminating pod
	stuckTerminating bool   // stuck = terminating past its grace period (else: unscheduled > 10 min)
	stuckHash        string // template hash of the stuck pod
	outdatedNoHash   bool   // outdated pod = pod adopted from the old DaemonSet (no template hash at all)
}

func zzPickVariants(label string) zzVariants {
	return zzVariants{
		notReadyFalse:    nondet.Bool(label + ".notReadyFalse"),
		terminatingReady: nondet.Int(label+".terminatingReady", 0, 2),
		stuckTerminating: nondet.Bool(label + ".stuckTerminating"),
		stuckHash:        nondet.String(label+".stuckHash", zzHashNew, zzHashOld),
		outdatedNoHash:   nondet.Bool(label + ".outdatedNoHash"),
	}
}

// zzCategoryPod returns the pod (or nil) for a node of the given C03 category.
func zzCategoryPod(i, cat int, v zzVariants) *corev1.Pod {
	base := nondet.Base()
	recent := base.Add(-time.Minute)
	notReady := func() int {
		if v.notReadyFalse {
			return 1
		}
		return 0
	}
	oldHash := func() string {
		if v.outdatedNoHash {
			return ""
		}
		return zzHashOld
	}
	switch cat {
	case zzNoPod:
		return nil
	case zzUpToDateAvailable:
		return zzPod(i, zzHashNew, 2, true, recent)
	case zzUpToDateUnavailable:
		if !v.notReadyFalse {
			// just created and not scheduled yet: bound by the node-name affinity, one minute old, the scheduler
			// has answered Unschedulable for now — unavailable, but not stuck (that takes ten minutes)
			p := zzPod(i, zzHashNew, 0, false, recent)
			p.Status.Phase = corev1.PodPending
			p.Status.Conditions = append(p.Status.Conditions, corev1.PodCondition{Type: corev1.PodScheduled, Status: corev1.ConditionFalse, Reason: corev1.PodReasonUnschedulable})
			return p
		}
		return zzPod(i, zzHashNew, notReady(), true, recent)
	case zzOutdatedAvailable:
		return zzPod(i, oldHash(), 2, true, recent)
	case zzOutdatedUnavailable:
		return zzPod(i, oldHash(), notReady(), true, recent)
	case zzOutdatedTerminating:
		p := zzPod(i, oldHash(), v.terminatingReady, true, recent)
		t := metav1.NewTime(base.Add(-5 * time.Second))
		p.DeletionTimestamp = &t
		g := int64(30)
		p.DeletionGracePeriodSeconds = &g
		return p
	case zzStuck:
		if v.stuckTerminating {
			// terminating for longer than its grace period
			p := zzPod(i, v.stuckHash, v.terminatingReady, true, recent)
			t := metav1.NewTime(base.Add(-120 * time.Second))
			p.DeletionTimestamp = &t
			g := int64(30)
			p.DeletionGracePeriodSeconds = &g
			return p
		}
		// unscheduled for more than ten minutes
		return zzPod(i, v.stuckHash, 0, false, base.Add(-11*time.Minute))
	}
	return nil
}

// zzParams builds strategy parameters for n nodes with the given categories (thorough tier: every
// node chooses its own sub-variants).
func zzParams(ds *datadoghqv1alpha1.ExtendedDaemonSet, rs *datadoghqv1alpha1.ExtendedDaemonSetReplicaSet, cats []int) (*Parameters, []*NodeItem) {
	return zzParamsV(ds, rs, cats, false)
}

// zzParamsV: sharedVariants = even in the thorough tier all nodes of a path share one choice of
// sub-variants (for harnesses whose node count makes per-node variants unaffordable).
func zzParamsV(ds *datadoghqv1alpha1.ExtendedDaemonSet, rs *datadoghqv1alpha1.ExtendedDaemonSetReplicaSet, cats []int, sharedVariants bool) (*Parameters, []*NodeItem) {
	p := &Parameters{
		EDSName: zzEDSName, Strategy: &ds.Spec.Strategy, Replicaset: rs, ReplicaSetStatus: string(ReplicaSetStatusActive),
		NewStatus:     rs.Status.DeepCopy(),
		NodeByName:    map[string]*NodeItem{},
		PodByNodeName: map[*NodeItem]*corev1.Pod{},
		Logger:        logr.Logger{},
	}
	var items []*NodeItem
	shared := zzVariants{}
	perNode := nondet.Thorough() && !sharedVariants
	if !perNode {
		shared = zzPickVariants("variant")
	}
	for i, cat := range cats {
		ni := NewNodeItem(&corev1.Node{ObjectMeta: metav1.ObjectMeta{Name: zzNodeName(i)}}, nil)
		items = append(items, ni)
		p.NodeByName[ni.Node.Name] = ni
		v := shared
		if perNode && cat != zzNoPod && cat != zzUpToDateAvailable && cat != zzOutdatedAvailable {
			v = zzPickVariants("n" + strconv.Itoa(i))
		}
		p.PodByNodeName[ni] = zzCategoryPod(i, cat, v)
	}
	return p, items
}

func zzReady(p *corev1.Pod) bool {
	for _, c := range p.Status.Conditions {
		if c.Type == corev1.PodReady {
			return c.Status == corev1.ConditionTrue
		}
	}
	return false
}

func zzContainsNode(l []*NodeItem, n *NodeItem) bool {
	for _, x := range l {
		if x == n {
			return true
		}
	}
	return false
}

// zzResolve resolves an int-or-percent against total, rounding up (reference implementation
// written from the API documentation, integer arithmetic only).
func zzResolve(v *intstr.IntOrString, total int) int {
	if v.Type == intstr.Int {
		return int(v.IntVal)
	}
	s := v.StrVal
	pct, _ := strconv.Atoi(s[:len(s)-1])
	return (pct*total + 99) / 100
}

// zzAddUntargetedNodes adds k ("0", "1", "30") nodes to NodeByName only: nodes that exist but are
// not targeted by the replica set (FilterAndMapPodsByNode leaves unfit and ignored nodes out of
// PodByNodeName).
func zzAddUntargetedNodes(p *Parameters, k string) int {
	n := 0
	switch k {
	case "1":
		n = 1
	case "30":
		n = 30
	}
	for i := 0; i < n; i++ {
		ni := NewNodeItem(&corev1.Node{ObjectMeta: metav1.ObjectMeta{Name: "untargeted" + strconv.Itoa(i)}}, nil)
		p.NodeByName[ni.Node.Name] = ni
	}
	return n
}
