//go:build verif

package strategy

import (
	"strconv"
	"time"

	corev1 "k8s.io/api/core/v1"
	metav1 "k8s.io/apimachinery/pkg/apis/meta/v1"
	"k8s.io/apimachinery/pkg/util/intstr"

	datadoghqv1alpha1 "github.com/DataDog/extendeddaemonset/api/v1alpha1"
	"github.com/DataDog/extendeddaemonset/zzverif/fakeapi"
	"github.com/DataDog/extendeddaemonset/zzverif/nondet"
)

const zzYear = 365 * 24 * time.Hour

// ZZ_C09_ramp: calculateMaxCreation equals min(maxParallelPodCreation,
// (1 + floor(t/interval)) * increase) for every instant, interval and increase in range.
func ZZ_C09_ramp() {
	start := nondet.TimeNs("start", -zzYear, zzYear)
	now := nondet.TimeNs("now", -zzYear, 2*zzYear)
	nondet.Assume(!now.Before(start)) // t = time since activation >= 0
	interval := nondet.Duration("interval", 1, 10*zzYear)
	maxPar := nondet.Int32("maxParallel", 0, 1<<31-1)
	ru := &datadoghqv1alpha1.ExtendedDaemonSetSpecStrategyRollingUpdate{
		MaxParallelPodCreation:    &maxPar,
		SlowStartIntervalDuration: &metav1.Duration{Duration: interval},
	}
	nbNodes := 0
	inc := 0
	if nondet.Bool("increase.percent") {
		pct := nondet.String("increase.pct", "0%", "1%", "10%", "34%", "50%", "100%", "250%")
		v := intstr.FromString(pct)
		ru.SlowStartAdditiveIncrease = &v
		nbNodes = zzConcSmall(nondet.Int("nbNodes", 0, 12), 12)
		inc = zzResolve(&v, nbNodes)
	} else {
		inc = int(nondet.Int32("increase", 0, 1_000_000))
		v := intstr.IntOrString{Type: intstr.Int, IntVal: int32(inc)}
		ru.SlowStartAdditiveIncrease = &v
		nbNodes = nondet.Int("nbNodes", 0, 100000)
	}
	t := now.Sub(start)
	slots := int64(t / interval)
	// documented range of the formula: (1+floor(t/iv))*inc fits the machine word; stated bound
	nondet.Assume(slots <= 1_000_000_000)

	got, err := calculateMaxCreation(ru, nbNodes, start, now)

	nondet.Assert("C09.ramp.noerror", err == nil)
	want := (1 + slots) * int64(inc)
	if want > int64(maxPar) {
		want = int64(maxPar)
	}
	nondet.Assert("C09.ramp.formula", int64(got) == want)
	nondet.Observe("maxCreation", got)
	nondet.Reach("C09.ramp.capped", int64(got) == int64(maxPar) && (1+slots)*int64(inc) > int64(maxPar))
	nondet.Reach("C09.ramp.second-slot", slots == 1 && got == 2*inc && inc > 0)
}

func zzConcSmall(x, hi int) int {
	for v := 0; v < hi; v++ {
		if x == v {
			return v
		}
	}
	return hi
}

// ZZ_C09_caps: one rolling-update sync never plans more creations than the slow-start
// bound nor more update-deletions than maxUnavailable.
func ZZ_C09_caps() { zzC09Caps(false, zzNumNodes(3, 4)) } // (5 nodes in the thorough tier did not finish in 25 minutes on a loaded machine)

// ZZ_C09_capsWhilePaused: the creation cap does not depend on the rolling-update-paused switch: a
// paused active replica set "still creates pods on eligible nodes that have none" (C08) — at the
// slow-start rate — and deletes none for updating.
func ZZ_C09_capsWhilePaused() { zzC09Caps(true, 3) }

func zzC09Caps(paused bool, n int) {
	// categories: no pod / up-to-date / outdated available / outdated unavailable
	cats := make([]int, n)
	for i := range cats {
		switch nondet.Int("cat"+strconv.Itoa(i), 0, 3) {
		case 0:
			cats[i] = zzNoPod
		case 1:
			cats[i] = zzUpToDateAvailable
		case 2:
			cats[i] = zzOutdatedUnavailable
		default:
			cats[i] = zzOutdatedAvailable
		}
	}
	ann := map[string]string{}
	if paused {
		ann[datadoghqv1alpha1.ExtendedDaemonSetRollingUpdatePausedAnnotationKey] = "true"
	}
	ds := zzDaemonset(ann)
	maxPar := nondet.Int32("maxParallel", 0, int32(n+2))
	ds.Spec.Strategy.RollingUpdate.MaxParallelPodCreation = &maxPar
	interval := nondet.Duration("interval", time.Second, time.Hour)
	ds.Spec.Strategy.RollingUpdate.SlowStartIntervalDuration = &metav1.Duration{Duration: interval}
	ds.Spec.Strategy.RollingUpdate.SlowStartAdditiveIncrease = zzIntOrString("increase", n+2)
	ds.Spec.Strategy.RollingUpdate.MaxUnavailable = zzIntOrString("maxUnavailable", n+2)
	rs := zzReplicaSet()
	// slow start began `since` whole seconds ago (Active condition true since then)
	since := nondet.Int("activeSinceSec", 0, 7200)
	activeSince := nondet.Base().Add(-time.Duration(since) * time.Second)
	rs.Status.Conditions = []datadoghqv1alpha1.ExtendedDaemonSetReplicaSetCondition{{
		Type: datadoghqv1alpha1.ConditionTypeActive, Status: corev1.ConditionTrue,
		LastTransitionTime: metav1.NewTime(activeSince), LastUpdateTime: metav1.NewTime(activeSince),
	}}
	// the first sync of a replica set in the active role finds no Active condition (or a False one left
	// by its canary phase): "t is the time since its Active condition last became true" is then zero,
	// however old the replica set is
	rs.CreationTimestamp = metav1.NewTime(nondet.Base().Add(-48 * time.Hour))
	switch nondet.String("activeCondition", "true", "absent", "false") {
	case "absent":
		rs.Status.Conditions = nil
		activeSince = nondet.Base()
	case "false":
		rs.Status.Conditions[0].Status = corev1.ConditionFalse
		activeSince = nondet.Base()
	}
	params, _ := zzParams(ds, rs, cats)
	client := fakeapi.New()
	now := metav1.NewTime(nondet.Base())

	res, err := ManageDeployment(client, ds, params, now)
	nondet.Assert("C09.caps.noerror", err == nil)
	if err != nil {
		return
	}
	t := now.Time.Sub(activeSince)
	bound := (1 + int64(t/interval)) * int64(ds.Spec.Strategy.RollingUpdate.SlowStartAdditiveIncrease.IntVal)
	if bound > int64(maxPar) {
		bound = int64(maxPar)
	}
	missing := 0
	for _, c := range cats {
		if c == zzNoPod {
			missing++
		}
	}
	nondet.Assert("C09.caps.create", int64(len(res.PodsToCreate)) <= bound)
	nondet.Assert("C09.caps.create-only-missing", len(res.PodsToCreate) <= missing)
	nondet.Assert("C09.caps.delete", len(res.PodsToDelete) <= int(ds.Spec.Strategy.RollingUpdate.MaxUnavailable.IntVal))
	if paused {
		nondet.Assert("C09.caps.paused-deletes-nothing", len(res.PodsToDelete) == 0)
	}
	// the ramp is not needlessly tight: with budget left every missing pod is planned
	nondet.Assert("C09.caps.uses-budget", nondet.Or(int64(len(res.PodsToCreate)) == bound, len(res.PodsToCreate) == missing))
	nondet.Observe("nCreate", len(res.PodsToCreate))
	nondet.Reach("C09.caps.limited", nondet.And(int64(len(res.PodsToCreate)) == bound, missing > len(res.PodsToCreate)))
	nondet.Reach("C09.caps.all", nondet.And(len(res.PodsToCreate) == missing, missing >= 2))
	if paused {
		nondet.Reach("C09.caps.paused-creates-at-the-slow-start-rate", nondet.And(int64(len(res.PodsToCreate)) == bound, missing > len(res.PodsToCreate), bound >= 1))
		return
	}
	nondet.Reach("C09.caps.delete-capped", nondet.And(len(res.PodsToDelete) == int(ds.Spec.Strategy.RollingUpdate.MaxUnavailable.IntVal), len(res.PodsToDelete) >= 1, len(res.PodsToDelete) < n-missing))
}

// ZZ_C09_percentTargets: "percentages resolve against the number of targeted nodes": N targeted
// nodes, none with a pod, plus nodes that are listed but not targeted; slowStartAdditiveIncrease is a percentage,
// maxParallelPodCreation an integer:
// the sync plans exactly min(maxParallel, (1+floor(t/interval)) * ceil(pct*N/100), N) creations.
func ZZ_C09_percentTargets() {
	n := 10
	switch nondet.String("nodes", "4", "10", "40", "100") {
	case "4":
		n = 4
	case "40":
		n = 40
	case "100":
		n = 100
	}
	pct := 10
	switch nondet.String("increase", "1%", "7%", "10%", "14%", "25%", "34%", "100%") {
	case "1%":
		pct = 1
	case "7%": // 7% of 100 is exactly 7: no rounding up of an exact share
		pct = 7
	case "14%":
		pct = 14
	case "25%":
		pct = 25
	case "34%":
		pct = 34
	case "100%":
		pct = 100
	}
	ds := zzDaemonset(map[string]string{})
	inc := intstr.FromString(strconv.Itoa(pct) + "%")
	ds.Spec.Strategy.RollingUpdate.SlowStartAdditiveIncrease = &inc
	maxPar := int32(60)
	switch nondet.String("maxParallel", "1", "3", "7", "60") {
	case "1":
		maxPar = 1
	case "3":
		maxPar = 3
	case "7":
		maxPar = 7
	}
	ds.Spec.Strategy.RollingUpdate.MaxParallelPodCreation = &maxPar
	ds.Spec.Strategy.RollingUpdate.SlowStartIntervalDuration = &metav1.Duration{Duration: time.Minute}
	rs := zzReplicaSet()
	steps := zzConcSmall(nondet.Int("elapsedIntervals", 0, 3), 3)
	activeSince := nondet.Base().Add(-time.Duration(steps)*time.Minute - 10*time.Second)
	rs.Status.Conditions = []datadoghqv1alpha1.ExtendedDaemonSetReplicaSetCondition{{
		Type: datadoghqv1alpha1.ConditionTypeActive, Status: corev1.ConditionTrue,
		LastTransitionTime: metav1.NewTime(activeSince), LastUpdateTime: metav1.NewTime(activeSince),
	}}
	cats := make([]int, n)
	for i := range cats {
		cats[i] = zzNoPod
	}
	params, _ := zzParams(ds, rs, cats)
	zzAddUntargetedNodes(params, nondet.String("untargetedNodes", "0", "1", "30"))
	res, err := ManageDeployment(fakeapi.New(), ds, params, metav1.NewTime(nondet.Base()))
	nondet.Assert("C09.pct.noerror", err == nil)
	if err != nil {
		return
	}
	perStep := (pct*n + 99) / 100
	want := (1 + steps) * perStep
	if int(maxPar) < want {
		want = int(maxPar)
	}
	if want > n {
		want = n
	}
	nondet.Assert("C09.pct.create-bound", len(res.PodsToCreate) <= want)
	nondet.Assert("C09.pct.create-exact", len(res.PodsToCreate) == want)
	nondet.Observe("nCreate", len(res.PodsToCreate))
	nondet.Reach("C09.pct.ramp-limited", (1+steps)*perStep < n && (1+steps)*perStep < int(maxPar))
	nondet.Reach("C09.pct.parallel-limited", int(maxPar) < (1+steps)*perStep && int(maxPar) < n)
}
