//go:build verif

package strategy

import (
	"github.com/DataDog/extendeddaemonset/zzverif/fakeapi"
	"github.com/go-logr/logr"
	"strconv"
	"time"

	corev1 "k8s.io/api/core/v1"
	metav1 "k8s.io/apimachinery/pkg/apis/meta/v1"

	datadoghqv1alpha1 "github.com/DataDog/extendeddaemonset/api/v1alpha1"
	"github.com/DataDog/extendeddaemonset/zzverif/nondet"
)

type zzCanaryPod struct {
	restarts    int32
	waiting     string
	finishedAt  time.Time
	hasFinished bool
	start       time.Time
}

var zzCannotStart = map[string]bool{
	"ErrImagePull": true, "ImagePullBackOff": true, "ImageInspectError": true, "ErrImageNeverPull": true,
	"RegistryUnavailable": true, "InvalidImageName": true, "CreateContainerConfigError": true,
	"CreateContainerError": true, "PreStartHookError": true, "PostStartHookError": true, "PreCreateHookError": true,
}

func zzOptDuration(label string, lo, hi time.Duration) (*metav1.Duration, time.Duration) {
	if zzC06Narrow && label != "maxSlowStart" {
		return nil, 0
	}
	if !nondet.Bool(label + ".set") {
		return nil, 0
	}
	d := nondet.Duration(label, lo, hi)
	return &metav1.Duration{Duration: d}, d
}

// zzRSCond appends a condition with an arbitrary status.  mayBeAbsent: the condition may
// also be missing (matters where the code tests for nil); otherwise "absent" is covered by
// status False in the quick tier and explored separately in the thorough tier.
func zzRSCond(rs *datadoghqv1alpha1.ExtendedDaemonSetReplicaSet, label string, t datadoghqv1alpha1.ExtendedDaemonSetReplicaSetConditionType, mayBeAbsent bool) (present, isTrue bool, update, transition time.Time) {
	if zzC06Narrow {
		return
	}
	if (mayBeAbsent || nondet.Thorough()) && !nondet.Bool(label+".present") {
		return
	}
	present = true
	st := corev1.ConditionStatus(nondet.String(label+".status", "True", "False"))
	isTrue = st == corev1.ConditionTrue
	transition = nondet.TimeNs(label+".transition", -30*24*time.Hour, 0)
	update = nondet.TimeNs(label+".update", -30*24*time.Hour, 0)
	rs.Status.Conditions = append(rs.Status.Conditions, datadoghqv1alpha1.ExtendedDaemonSetReplicaSetCondition{
		Type: t, Status: st, LastTransitionTime: metav1.NewTime(transition), LastUpdateTime: metav1.NewTime(update),
	})
	return
}

// zzC06 runs manageCanaryStatus on nPods up-to-date canary pods (one node each) and
// checks the auto-fail / auto-pause triggers of property C06.
// narrow: conditions and annotations absent, durations unset except maxSlowStartDuration — used
// to afford two pods in the quick tier.
var zzC06Narrow bool

func zzC06(nPods int) {
	narrow := zzC06Narrow
	now := nondet.TimeNs("now", 0, 24*time.Hour)
	ds := zzDaemonset(map[string]string{})
	canary := &datadoghqv1alpha1.ExtendedDaemonSetSpecStrategyCanary{}
	autoPause := nondet.Bool("autoPause.enabled")
	autoFail := nondet.Bool("autoFail.enabled")
	pauseMax := nondet.Int32("autoPause.maxRestarts", 0, 50)
	failMax := nondet.Int32("autoFail.maxRestarts", 0, 50)
	slowStartP, slowStart := zzOptDuration("maxSlowStart", 0, 24*time.Hour)
	restartsDurP, restartsDur := zzOptDuration("maxRestartsDuration", 0, 24*time.Hour)
	timeoutP, timeout := zzOptDuration("canaryTimeout", 0, 30*24*time.Hour)
	canary.AutoPause = &datadoghqv1alpha1.ExtendedDaemonSetSpecStrategyCanaryAutoPause{Enabled: &autoPause, MaxRestarts: &pauseMax, MaxSlowStartDuration: slowStartP}
	canary.AutoFail = &datadoghqv1alpha1.ExtendedDaemonSetSpecStrategyCanaryAutoFail{Enabled: &autoFail, MaxRestarts: &failMax, MaxRestartsDuration: restartsDurP, CanaryTimeout: timeoutP}
	ds.Spec.Strategy.Canary = canary
	datadoghqv1alpha1.DefaultExtendedDaemonSetSpec(&ds.Spec, datadoghqv1alpha1.ExtendedDaemonSetSpecStrategyCanaryValidationModeAuto)
	nondet.Assume(datadoghqv1alpha1.ValidateExtendedDaemonSetSpec(&ds.Spec) == nil)

	rs := zzReplicaSet()
	canaryPresent, _, _, canarySince := zzRSCond(rs, "condCanary", datadoghqv1alpha1.ConditionTypeCanary, true)
	restartPresent, restartTrue, restartLast, restartFirst := zzRSCond(rs, "condRestarting", datadoghqv1alpha1.ConditionTypePodRestarting, true)
	_, prevCondPaused, _, _ := zzRSCond(rs, "condPaused", datadoghqv1alpha1.ConditionTypeCanaryPaused, false)
	_, prevFailed, _, _ := zzRSCond(rs, "condFailed", datadoghqv1alpha1.ConditionTypeCanaryFailed, false)

	ann := map[string]string{}
	// annotations: present with an arbitrary value (absent behaves like "false"; absence
	// itself is explored in the thorough tier)
	annPaused := false
	if !narrow && (!nondet.Thorough() || nondet.Bool("annPaused.present")) {
		v := nondet.String("annPaused", "true", "false")
		ann[datadoghqv1alpha1.ExtendedDaemonSetCanaryPausedAnnotationKey] = v
		annPaused = v == "true"
	}
	unpaused := false
	if !narrow && (!nondet.Thorough() || nondet.Bool("annUnpaused.present")) {
		v := nondet.String("annUnpaused", "true", "false")
		ann[datadoghqv1alpha1.ExtendedDaemonSetCanaryUnpausedAnnotationKey] = v
		unpaused = v == "true"
	}

	params := &Parameters{
		EDSName: zzEDSName, Strategy: &ds.Spec.Strategy, Replicaset: rs, ReplicaSetStatus: string(ReplicaSetStatusCanary),
		NewStatus:  rs.Status.DeepCopy(),
		NodeByName: map[string]*NodeItem{}, PodByNodeName: map[*NodeItem]*corev1.Pod{},
	}
	// nPods canary nodes with an up-to-date pod each, plus one canary node still lacking its pod
	pods := make([]zzCanaryPod, nPods)
	for i := 0; i <= nPods; i++ {
		ni := NewNodeItem(&corev1.Node{ObjectMeta: metav1.ObjectMeta{Name: zzNodeName(i)}}, nil)
		params.NodeByName[ni.Node.Name] = ni
		params.CanaryNodes = append(params.CanaryNodes, ni.Node.Name)
		if i == nPods {
			params.PodByNodeName[ni] = nil
			break
		}
		l := "pod" + strconv.Itoa(i)
		cp := zzCanaryPod{
			restarts: nondet.Int32(l+".restarts", 0, 60),
			waiting:  nondet.String(l+".waiting", "", "ContainerCreating", "ImagePullBackOff", "CreateContainerConfigError", "CrashLoopBackOff"),
			start:    nondet.TimeNs(l+".start", -24*time.Hour, 24*time.Hour),
		}
		ready := 2
		if nondet.Thorough() && narrow {
			ready = nondet.Int(l+".ready", 0, 2)
		}
		p := zzPod(i, zzHashNew, ready, true, nondet.Base().Add(-time.Hour))
		st := metav1.NewTime(cp.start)
		p.Status.StartTime = &st
		cs := corev1.ContainerStatus{Name: "c", RestartCount: cp.restarts}
		if cp.waiting != "" {
			cs.State.Waiting = &corev1.ContainerStateWaiting{Reason: cp.waiting}
		}
		// a container that restarted normally has a last termination state; the kubelet drops it when
		// the dead container was garbage collected or the node rebooted — the count still counts
		if cp.restarts > 0 && (narrow || nondet.Bool(l+".lastStateKnown")) {
			cp.hasFinished = true
			cp.finishedAt = nondet.TimeNs(l+".finishedAt", -30*24*time.Hour, 24*time.Hour)
			cs.LastTerminationState.Terminated = &corev1.ContainerStateTerminated{
				Reason: zzTermReason(l), FinishedAt: metav1.NewTime(cp.finishedAt), ExitCode: 1,
			}
		}
		p.Status.ContainerStatuses = []corev1.ContainerStatus{cs}
		params.PodByNodeName[ni] = p
		pods[i] = cp
	}

	// ---- the real code ----
	res := manageCanaryStatus(ann, params, now)

	// ---- triggers, transcribed from the statement ----
	anyOverFail, anyOverPause, anyStartError, anyPendingTooLong := false, false, false, false
	for _, cp := range pods {
		anyOverFail = nondet.Or(anyOverFail, cp.restarts > failMax)
		anyOverPause = nondet.Or(anyOverPause, cp.restarts > pauseMax)
		slowStartOver := true
		if slowStartP != nil {
			slowStartOver = now.After(cp.start.Add(slowStart))
		}
		if zzCannotStart[cp.waiting] {
			anyStartError = nondet.Or(anyStartError, slowStartOver)
		}
		if cp.waiting == "ContainerCreating" && slowStartP != nil {
			anyPendingTooLong = nondet.Or(anyPendingTooLong, slowStartOver)
		}
	}
	// restart timeline as persisted by previous syncs
	spanOver := false
	if restartsDurP != nil && restartPresent {
		spanOver = restartLast.Sub(restartFirst) > restartsDur
	}
	timedOut := false
	if timeoutP != nil && canaryPresent {
		timedOut = now.Sub(canarySince) > timeout
	}
	// a restart first observed by this very sync may or may not already count (sync granularity)
	spanOverIncludingNow := spanOver
	if restartsDurP != nil && restartPresent {
		for _, cp := range pods {
			if cp.hasFinished {
				spanOverIncludingNow = nondet.Or(spanOverIncludingNow, cp.finishedAt.Sub(restartFirst) > restartsDur)
			}
		}
	}
	failTrigger := nondet.And(autoFail, nondet.Or(anyOverFail, spanOver, timedOut))
	failTriggerHigh := nondet.And(autoFail, nondet.Or(anyOverFail, spanOverIncludingNow, timedOut))
	pauseTrigger := nondet.And(autoPause, nondet.Or(anyOverPause, anyStartError, anyPendingTooLong))
	prevPaused := nondet.Or(prevCondPaused, annPaused)

	nondet.Fact("prevFailed", prevFailed)
	nondet.Fact("prevPaused", prevPaused)
	nondet.Fact("unpaused", unpaused)
	nondet.Fact("failTrigger", failTrigger)
	nondet.Fact("pauseTrigger", pauseTrigger)
	nondet.Fact("noPods", nPods == 0)

	if nPods > 0 {
		// "becomes true exactly when ...; once true it stays true"
		nondet.Assert("C06.fail.fires", nondet.Implies(nondet.Or(prevFailed, failTrigger), res.IsFailed))
		nondet.Assert("C06.fail.only-on-trigger", nondet.Implies(res.IsFailed, nondet.Or(prevFailed, failTriggerHigh)))
		// "Otherwise Canary-Paused becomes true when auto-pause is enabled and ..."
		nondet.Assert("C06.pause.fires", nondet.Implies(nondet.And(!res.IsFailed, !unpaused, pauseTrigger), res.IsPaused))
		// "disabled features never fire" / no pause without a trigger
		nondet.Assert("C06.pause.only-on-trigger", nondet.Implies(nondet.And(res.IsPaused, !prevPaused), pauseTrigger))
	}
	// "disabled features never fire"
	nondet.Assert("C06.fail.disabled", nondet.Implies(nondet.And(!autoFail, !prevFailed), !res.IsFailed))
	nondet.Assert("C06.pause.disabled", nondet.Implies(nondet.And(!autoPause, !prevPaused), !res.IsPaused))
	// "Otherwise Canary-Paused becomes true when ...": a canary that had already failed before this
	// sync is not auto-paused any more
	nondet.Assert("C06.pause.not-on-failed-canary", nondet.Implies(nondet.And(prevFailed, res.IsPaused), prevPaused))
	// "once true it stays true while that replica set is the canary"
	nondet.Assert("C06.fail.sticky", nondet.Implies(prevFailed, res.IsFailed))
	// "a manual unpause overrides pausing but never failing"
	nondet.Assert("C06.unpause.overrides-pause", nondet.Implies(nondet.And(unpaused, !res.IsFailed), !res.IsPaused))
	// "while the canary is paused or failed no further canary pod is created"
	nondet.Assert("C06.no-create-when-stopped", nondet.Implies(nondet.Or(res.IsPaused, res.IsFailed), len(res.PodsToCreate) == 0))
	// ... in particular while the user's pause annotation says true (and no unpause overrides it), whatever
	// conditions earlier pauses and unpauses left on the replica set
	nondet.Assert("C06.no-create-while-paused-by-the-user", nondet.Implies(nondet.And(annPaused, !unpaused), nondet.And(len(res.PodsToCreate) == 0, nondet.Or(res.IsPaused, res.IsFailed))))
	// the persisted conditions agree with the verdicts
	failedCond, pausedCond := false, false
	for _, c := range res.NewStatus.Conditions {
		if c.Type == datadoghqv1alpha1.ConditionTypeCanaryFailed {
			failedCond = c.Status == corev1.ConditionTrue
		}
		if c.Type == datadoghqv1alpha1.ConditionTypeCanaryPaused {
			pausedCond = c.Status == corev1.ConditionTrue
		}
	}
	// "the span between the first and the latest observed restart": the record of the restarts seen so
	// far (the PodRestarting condition: first = last transition, latest = last update) is only ever
	// extended by a newer restart; a sync that observes none leaves it exactly as it was
	newer := false
	for _, cp := range pods {
		newer = nondet.Or(newer, nondet.And(cp.restarts > 0, cp.hasFinished, cp.finishedAt.After(restartLast)))
	}
	if restartPresent {
		kept := false
		for _, c := range res.NewStatus.Conditions {
			if c.Type == datadoghqv1alpha1.ConditionTypePodRestarting {
				kept = nondet.And((c.Status == corev1.ConditionTrue) == restartTrue, c.LastTransitionTime.Time.Equal(restartFirst), c.LastUpdateTime.Time.Equal(restartLast))
			}
		}
		nondet.Assert("C06.restart-record-kept", nondet.Implies(!newer, kept))
		// ... and a newer restart extends it: the first observed restart stays what it was as long as
		// the record was already open (condition True), whatever else changes on the condition
		firstKept := false
		for _, c := range res.NewStatus.Conditions {
			if c.Type == datadoghqv1alpha1.ConditionTypePodRestarting {
				firstKept = nondet.And(c.Status == corev1.ConditionTrue, c.LastTransitionTime.Time.Equal(restartFirst))
			}
		}
		nondet.Assert("C06.restart-record-extended", nondet.Implies(nondet.And(newer, restartTrue), firstKept))
	}
	nondet.Assert("C06.cond.failed", failedCond == res.IsFailed)
	nondet.Assert("C06.cond.paused", pausedCond == res.IsPaused)

	nondet.Observe("isFailed", res.IsFailed)
	nondet.Observe("isPaused", res.IsPaused)
	nondet.Observe("nCreate", len(res.PodsToCreate))
	if nPods > 0 {
		nondet.Reach("C06.fail-by-restarts", nondet.And(res.IsFailed, !prevFailed, anyOverFail))
		if !narrow {
			nondet.Reach("C06.fail-by-span", nondet.And(res.IsFailed, !prevFailed, !anyOverFail, spanOver))
			nondet.Reach("C06.fail-by-timeout", nondet.And(res.IsFailed, !prevFailed, !anyOverFail, !spanOver, timedOut))
			nondet.Reach("C06.unpause-wins", nondet.And(unpaused, pauseTrigger, !res.IsPaused, !res.IsFailed))
		}
		nondet.Reach("C06.pause-by-restarts", nondet.And(res.IsPaused, !prevPaused, anyOverPause))
		nondet.Reach("C06.pause-by-start-error", nondet.And(res.IsPaused, !prevPaused, !anyOverPause, anyStartError))
		nondet.Reach("C06.pause-by-slow-create", nondet.And(res.IsPaused, !prevPaused, !anyOverPause, !anyStartError, anyPendingTooLong))
		nondet.Reach("C06.slow-start-gates", nondet.And(autoPause, !res.IsPaused, !res.IsFailed, !unpaused, slowStartP != nil))
	}
	nondet.Reach("C06.creates", nondet.And(!res.IsPaused, !res.IsFailed, len(res.PodsToCreate) == 1))
}

func zzTermReason(l string) string {
	if nondet.Thorough() && zzC06Narrow {
		return nondet.String(l+".termReason", "", "OOMKilled", "Error")
	}
	return "Error"
}

// ZZ_C06_triggers: one canary pod over the full configuration space (previous conditions,
// annotations, optional durations); the thorough tier adds the "condition / annotation absent"
// shapes.  (Two pods over the full space do not finish within hours: two pods are covered by the
// narrow ZZ_C06_twoPods, which in the thorough tier also varies readiness and termination reasons.)
func ZZ_C06_triggers() {
	zzC06Narrow = false
	zzC06(1)
}

// ZZ_C06_twoPods: two canary pods, so that a trigger raised by the first pod must survive the
// evaluation of the second one (narrow configuration: no previous conditions, no annotations).
func ZZ_C06_twoPods() {
	zzC06Narrow = true
	zzC06(2)
}

// ZZ_C06_noPods: no up-to-date canary pod exists yet.
func ZZ_C06_noPods() {
	zzC06Narrow = false
	zzC06(0)
}

// ZZ_C06_anyWaitingContainer: "a canary pod ... is stuck in an image/config/hook start error ... or is
// still creating its containers after maxSlowStartDuration" — a pod has several containers (regular and
// init) and any of them may be the one that is stuck, whatever the others wait for.  One canary pod
// started ten minutes ago, maxSlowStartDuration one minute, auto-pause on, auto-fail on with default
// thresholds; container "first" runs or waits with an unrelated reason, container "second" — a regular
// or an init container — runs or waits in a start error or in ContainerCreating.  The canary is paused
// exactly when some container is in the cannot-start set or still creating.
func ZZ_C06_anyWaitingContainer() {
	ds := zzDaemonset(map[string]string{})
	on := true
	ds.Spec.Strategy.Canary = &datadoghqv1alpha1.ExtendedDaemonSetSpecStrategyCanary{
		AutoPause: &datadoghqv1alpha1.ExtendedDaemonSetSpecStrategyCanaryAutoPause{Enabled: &on, MaxSlowStartDuration: &metav1.Duration{Duration: time.Minute}},
	}
	datadoghqv1alpha1.DefaultExtendedDaemonSetSpec(&ds.Spec, datadoghqv1alpha1.ExtendedDaemonSetSpecStrategyCanaryValidationModeAuto)
	rs := zzReplicaSet()
	params := &Parameters{
		EDSName: zzEDSName, Strategy: &ds.Spec.Strategy, Replicaset: rs, ReplicaSetStatus: string(ReplicaSetStatusCanary),
		NewStatus:  rs.Status.DeepCopy(),
		NodeByName: map[string]*NodeItem{}, PodByNodeName: map[*NodeItem]*corev1.Pod{},
	}
	ni := NewNodeItem(&corev1.Node{ObjectMeta: metav1.ObjectMeta{Name: zzNodeName(0)}}, nil)
	params.NodeByName[ni.Node.Name] = ni
	params.CanaryNodes = []string{ni.Node.Name}
	p := zzPod(0, zzHashNew, 1, true, nondet.Base().Add(-10*time.Minute))
	st := metav1.NewTime(nondet.Base().Add(-10 * time.Minute))
	p.Status.StartTime = &st
	mk := func(name, reason string) corev1.ContainerStatus {
		cs := corev1.ContainerStatus{Name: name}
		if reason != "" {
			cs.State.Waiting = &corev1.ContainerStateWaiting{Reason: reason}
		}
		return cs
	}
	first := nondet.String("first.waiting", "", "PodInitializing", "CrashLoopBackOff")
	second := nondet.String("second.waiting", "", "ImagePullBackOff", "CreateContainerConfigError", "ContainerCreating", "PodInitializing")
	p.Status.ContainerStatuses = []corev1.ContainerStatus{mk("first", first)}
	if nondet.Bool("secondIsAnInitContainer") {
		p.Status.InitContainerStatuses = []corev1.ContainerStatus{mk("second", second)}
	} else {
		p.Status.ContainerStatuses = append(p.Status.ContainerStatuses, mk("second", second))
	}
	params.PodByNodeName[ni] = p

	res := manageCanaryStatus(map[string]string{}, params, nondet.Base())

	stuck := zzCannotStart[first] || zzCannotStart[second] || first == "ContainerCreating" || second == "ContainerCreating"
	nondet.Assert("C06.any-container.paused-exactly-when-some-container-is-stuck", res.IsPaused == stuck)
	nondet.Assert("C06.any-container.not-failed", !res.IsFailed)
	nondet.Observe("isPaused", res.IsPaused)
	nondet.Reach("C06.any-container.init-container-stuck-behind-a-waiting-one", res.IsPaused && first == "PodInitializing" && zzCannotStart[second])
}

// ZZ_C06_timeoutWhateverTheCanaryPodIsDoing: "while at least one up-to-date canary pod exists ... Canary-Failed
// becomes true exactly when ... the canary has lasted longer than autoFail.canaryTimeout" — through the whole
// canary strategy (ManageCanaryDeployment), and whatever state the one canary pod is in: running and healthy,
// bound by the node-name affinity and still unscheduled after one minute, or unscheduled for a quarter of an
// hour (a pod the rolling update would call stuck).  canaryTimeout 30 minutes, the canary 10 minutes or one
// hour old: failed exactly in the second case, and then no pod is created.
func ZZ_C06_timeoutWhateverTheCanaryPodIsDoing() {
	ds := zzDaemonset(map[string]string{})
	on := true
	ds.Spec.Strategy.Canary = &datadoghqv1alpha1.ExtendedDaemonSetSpecStrategyCanary{
		AutoFail: &datadoghqv1alpha1.ExtendedDaemonSetSpecStrategyCanaryAutoFail{Enabled: &on, CanaryTimeout: &metav1.Duration{Duration: 30 * time.Minute}},
	}
	datadoghqv1alpha1.DefaultExtendedDaemonSetSpec(&ds.Spec, datadoghqv1alpha1.ExtendedDaemonSetSpecStrategyCanaryValidationModeAuto)
	rs := zzReplicaSet()
	age := 10 * time.Minute
	if nondet.Bool("canaryOlderThanItsTimeout") {
		age = time.Hour
	}
	since := metav1.NewTime(nondet.Base().Add(-age))
	rs.Status.Conditions = []datadoghqv1alpha1.ExtendedDaemonSetReplicaSetCondition{{Type: datadoghqv1alpha1.ConditionTypeCanary, Status: corev1.ConditionTrue, LastTransitionTime: since, LastUpdateTime: since}}
	params := &Parameters{
		EDSName: zzEDSName, Strategy: &ds.Spec.Strategy, Replicaset: rs, ReplicaSetStatus: string(ReplicaSetStatusCanary),
		NewStatus:  rs.Status.DeepCopy(),
		NodeByName: map[string]*NodeItem{}, PodByNodeName: map[*NodeItem]*corev1.Pod{},
		Logger:     logr.Logger{},
	}
	for i := 0; i < 2; i++ {
		ni := NewNodeItem(&corev1.Node{ObjectMeta: metav1.ObjectMeta{Name: zzNodeName(i)}}, nil)
		params.NodeByName[ni.Node.Name] = ni
		params.CanaryNodes = append(params.CanaryNodes, ni.Node.Name)
		params.PodByNodeName[ni] = nil
	}
	var p *corev1.Pod
	switch nondet.String("canaryPod", "running", "unscheduled-for-a-minute", "unscheduled-for-a-quarter-of-an-hour") {
	case "running":
		p = zzPod(0, zzHashNew, 2, true, nondet.Base().Add(-9*time.Minute))
	case "unscheduled-for-a-minute":
		p = zzPod(0, zzHashNew, 0, false, nondet.Base().Add(-time.Minute))
		p.Status.Phase = corev1.PodPending
	default:
		p = zzPod(0, zzHashNew, 0, false, nondet.Base().Add(-15*time.Minute))
		p.Status.Phase = corev1.PodPending
	}
	st := metav1.NewTime(p.CreationTimestamp.Time)
	p.Status.StartTime = &st
	params.PodByNodeName[params.NodeByName[zzNodeName(0)]] = p

	res, err := ManageCanaryDeployment(fakeapi.New(), ds, params)
	nondet.Assert("C06.timeout.noerror", err == nil && res != nil)
	if res == nil {
		return
	}
	failedCond := false
	for _, c := range res.NewStatus.Conditions {
		if c.Type == datadoghqv1alpha1.ConditionTypeCanaryFailed && c.Status == corev1.ConditionTrue {
			failedCond = true
		}
	}
	want := age > 30*time.Minute
	nondet.Assert("C06.timeout.fires-exactly-when-exceeded", res.IsFailed == want && failedCond == want)
	if want {
		nondet.Assert("C06.timeout.no-create-once-failed", len(res.PodsToCreate) == 0)
	}
	nondet.Observe("failed", res.IsFailed)
	nondet.Observe("creates", len(res.PodsToCreate))
	nondet.Reach("C06.timeout.fires-with-a-stuck-pod", want && p.Spec.NodeName == "" && res.IsFailed)
}
