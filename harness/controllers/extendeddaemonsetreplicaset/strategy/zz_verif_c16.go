//go:build verif

package strategy

import (
	podutils "github.com/DataDog/extendeddaemonset/pkg/controller/utils/pod"
	corev1 "k8s.io/api/core/v1"

	"time"

	metav1 "k8s.io/apimachinery/pkg/apis/meta/v1"
	"k8s.io/apimachinery/pkg/util/intstr"

	datadoghqv1alpha1 "github.com/DataDog/extendeddaemonset/api/v1alpha1"
	"github.com/DataDog/extendeddaemonset/zzverif/fakeapi"
	"github.com/DataDog/extendeddaemonset/zzverif/nondet"
)

func zzAnyIntStr(label string) *intstr.IntOrString {
	if !nondet.Bool(label + ".set") {
		return nil
	}
	if nondet.Bool(label + ".isString") {
		v := intstr.FromString(nondet.String(label+".str", "", "0%", "10%", "abc", "%"))
		return &v
	}
	v := intstr.IntOrString{Type: intstr.Int, IntVal: nondet.Int32(label+".int", -1<<31, 1<<31-1)}
	return &v
}

// ZZ_C16_noPanicStrategy: for every rolling-update block the CRD accepts (any integers,
// any durations including zero and negative ones, malformed percentages), after
// defaulting, one rolling-update sync returns a result or an error but never panics.
func ZZ_C16_noPanicStrategy() {
	ds := zzDaemonset(map[string]string{})
	ru := &ds.Spec.Strategy.RollingUpdate
	*ru = datadoghqv1alpha1.ExtendedDaemonSetSpecStrategyRollingUpdate{
		MaxUnavailable:            zzAnyIntStr("maxUnavailable"),
		MaxPodSchedulerFailure:    zzAnyIntStr("maxPodSchedulerFailure"),
		SlowStartAdditiveIncrease: zzAnyIntStr("slowStartAdditiveIncrease"),
	}
	if nondet.Bool("maxParallel.set") {
		v := nondet.Int32("maxParallel", -1<<31, 1<<31-1)
		ru.MaxParallelPodCreation = &v
	}
	if nondet.Bool("interval.set") {
		iv := nondet.Duration("interval", -10*zzYear, 10*zzYear)
		// sub-second non-zero intervals with huge increases overflow the ramp's machine word
		// (wrap-around, not a crash); they are left out so that the Int encoding stays exact
		nondet.Assume(nondet.Or(iv == 0, iv >= time.Second, iv <= -time.Second))
		ru.SlowStartIntervalDuration = &metav1.Duration{Duration: iv}
	}
	datadoghqv1alpha1.DefaultExtendedDaemonSetSpec(&ds.Spec, datadoghqv1alpha1.ExtendedDaemonSetSpecStrategyCanaryValidationModeAuto)
	nondet.Assume(datadoghqv1alpha1.ValidateExtendedDaemonSetSpec(&ds.Spec) == nil)

	rs := zzReplicaSet()
	cats := []int{zzNoPod, zzOutdatedAvailable}
	params, _ := zzParams(ds, rs, cats)
	res, err := ManageDeployment(fakeapi.New(), ds, params, metav1.Now())

	// reaching this point means no panic; the result is well formed
	nondet.Assert("C16.strategy.result-or-error", res != nil)
	if err == nil {
		nondet.Assert("C16.strategy.plan-sane", len(res.PodsToCreate) <= 1 && len(res.PodsToDelete) <= 1)
	}
	nondet.Observe("failed", err != nil)
	nondet.Reach("C16.strategy.ok", err == nil)
	nondet.Reach("C16.strategy.error", err != nil)
	nondet.Reach("C16.strategy.zero-interval", ru.SlowStartIntervalDuration.Duration == 0)
}

// ZZ_C16_noPanicSubSecondInterval: the part of the duration lattice ZZ_C16_noPanicStrategy leaves out
// to keep its integer encoding exact: a slowStartIntervalDuration strictly between 0 and one second
// (the CRD takes any duration string: "500ms", "1ns"), here with small increases so that the ramp stays
// inside the machine word.  Defaulting keeps the value, validation accepts it, and a rolling-update sync
// of an active replica set — just activated or active for up to ten minutes — returns a result.
func ZZ_C16_noPanicSubSecondInterval() {
	ds := zzDaemonset(map[string]string{})
	ru := &ds.Spec.Strategy.RollingUpdate
	iv := nondet.Duration("interval", 1, time.Second-1)
	ru.SlowStartIntervalDuration = &metav1.Duration{Duration: iv}
	inc := intstr.FromInt(int(nondet.Int32("increase", 1, 3)))
	ru.SlowStartAdditiveIncrease = &inc
	maxPar := nondet.Int32("maxParallel", 1, 4)
	ru.MaxParallelPodCreation = &maxPar
	datadoghqv1alpha1.DefaultExtendedDaemonSetSpec(&ds.Spec, datadoghqv1alpha1.ExtendedDaemonSetSpecStrategyCanaryValidationModeAuto)
	nondet.Assert("C16.subsecond.accepted", datadoghqv1alpha1.ValidateExtendedDaemonSetSpec(&ds.Spec) == nil && ru.SlowStartIntervalDuration.Duration == iv)
	rs := zzReplicaSet()
	since := nondet.Int("activeSinceSec", 0, 600)
	at := metav1.NewTime(nondet.Base().Add(-time.Duration(since) * time.Second))
	rs.Status.Conditions = []datadoghqv1alpha1.ExtendedDaemonSetReplicaSetCondition{{Type: datadoghqv1alpha1.ConditionTypeActive, Status: corev1.ConditionTrue, LastTransitionTime: at, LastUpdateTime: at}}
	params, _ := zzParams(ds, rs, []int{zzNoPod, zzNoPod, zzOutdatedAvailable})
	res, err := ManageDeployment(fakeapi.New(), ds, params, metav1.NewTime(nondet.Base()))
	nondet.Assert("C16.subsecond.result-or-error", res != nil)
	if err == nil {
		nondet.Assert("C16.subsecond.plan-sane", len(res.PodsToCreate) <= 2 && len(res.PodsToCreate) <= int(maxPar))
	}
	nondet.Observe("nCreate", len(res.PodsToCreate))
	nondet.Reach("C16.subsecond.creates", err == nil && len(res.PodsToCreate) >= 1)
}

// ZZ_C16_noPanicPodBuilder: "for every spec the CRD schema accepts ... reconciliation returns a result or
// an error but never crashes" — the pod template is part of the spec.  Over the template shapes of the C10
// harnesses (no affinity, an empty affinity, a node affinity without required terms, one or several required
// terms with or without a node-name field, tolerations, one or two containers), both node-binding modes,
// every node annotation and setting of that lattice: building the pod and comparing it with itself
// returns (a panic in the interpreted code is a violation).
func ZZ_C16_noPanicPodBuilder() {
	in := zzC10Pick(true)
	rs, node, setting := zzC10Build(in)
	pod, _ := podutils.CreatePodFromDaemonSetReplicaSet(fakeapi.NewScheme(), rs, node, setting, in.addAffinity)
	nondet.Assert("C16.pod-builder.returns-a-pod", pod != nil)
	if pod == nil {
		return
	}
	ds := zzDaemonset(map[string]string{})
	params := &Parameters{EDSName: zzEDSName, Strategy: &ds.Spec.Strategy, Replicaset: rs}
	upToDate := compareCurrentPodWithNewPod(params, pod, NewNodeItem(node, setting))
	nondet.Observe("upToDate", upToDate)
	nondet.Reach("C16.pod-builder.node-affinity-without-required-terms", in.affinityShape == "no-required" && in.addAffinity)
}
