//go:build verif

package strategy

import (
	"strconv"
	"time"

	corev1 "k8s.io/api/core/v1"
	metav1 "k8s.io/apimachinery/pkg/apis/meta/v1"

	datadoghqv1alpha1 "github.com/DataDog/extendeddaemonset/api/v1alpha1"
	"github.com/DataDog/extendeddaemonset/zzverif/fakeapi"
	"github.com/DataDog/extendeddaemonset/zzverif/nondet"
)

// ZZ_C02_lemmas: one-step lemmas behind convergence (property C02, reduced scope), for every
// layout of N nodes and all positive rolling-update limits, not paused / frozen:
//
//	quiescence  - every node has one up-to-date Ready pod  =>  nothing planned, nothing
//	              written, desired = ready = N, no requeue;
//	progress    - otherwise the sync plans a creation or a deletion, or asks to be requeued;
//	              with all pods available, none missing and some outdated it plans a deletion;
//	ranking     - creations only target nodes without pod and deletions only outdated pods, so
//	              (kubelet: created pods become Ready) the number of nodes without an
//	              up-to-date Ready pod never grows and shrinks by the number of creations.
func ZZ_C02_lemmas() {
	// every cluster size from a single node up to the bound
	// (thorough: the same sizes, with the slow-start parameters and the activation time symbolic as well;
	// four nodes on top of that did not finish within 25 minutes)
	n := 1 + zzConcSmall(nondet.Int("extraNodes", 0, 2), 2)
	cats := make([]int, n)
	for i := range cats {
		cats[i] = zzConcSmall(nondet.Int("cat"+strconv.Itoa(i), 0, zzNumCat-1), zzNumCat-1)
	}
	ds := zzDaemonset(map[string]string{})
	ru := &ds.Spec.Strategy.RollingUpdate
	ru.MaxUnavailable = zzIntOrString("maxUnavailable", n+1)
	nondet.Assume(ru.MaxUnavailable.IntVal >= 1)
	maxPar := int32(n + 1)
	sinceSec := 0
	if nondet.Thorough() {
		ru.SlowStartAdditiveIncrease = zzIntOrString("increase", n+1)
		nondet.Assume(ru.SlowStartAdditiveIncrease.IntVal >= 1)
		maxPar = nondet.Int32("maxParallel", 1, int32(n+1))
		sinceSec = nondet.Int("activeSinceSec", 0, 600)
	}
	ru.MaxParallelPodCreation = &maxPar
	rs := zzReplicaSet()
	since := nondet.Base().Add(-time.Duration(sinceSec) * time.Second)
	rs.Status.Conditions = []datadoghqv1alpha1.ExtendedDaemonSetReplicaSetCondition{{
		Type: datadoghqv1alpha1.ConditionTypeActive, Status: corev1.ConditionTrue, LastTransitionTime: metav1.NewTime(since), LastUpdateTime: metav1.NewTime(since),
	}}
	params, items := zzParamsV(ds, rs, cats, true)
	client := fakeapi.New()
	res, err := ManageDeployment(client, ds, params, metav1.Now())
	nondet.Assert("C02.noerror", err == nil)
	if err != nil {
		return
	}
	quiescent, missing, outdated, allAvailable := true, 0, 0, true
	notConverged := 0
	for _, c := range cats {
		if c != zzUpToDateAvailable {
			quiescent = false
			notConverged++
		}
		switch c {
		case zzNoPod:
			missing++
		case zzOutdatedAvailable:
			outdated++
		case zzOutdatedUnavailable:
			outdated++
			allAvailable = false
		case zzUpToDateAvailable:
		default:
			allAvailable = false
		}
	}
	if quiescent {
		nondet.Assert("C02.quiescent.nothing-planned", len(res.PodsToCreate) == 0 && len(res.PodsToDelete) == 0)
		nondet.Assert("C02.quiescent.nothing-written", len(client.Writes()) == 0)
		nondet.Assert("C02.quiescent.status", int(res.NewStatus.Desired) == n && int(res.NewStatus.Ready) == n && int(res.NewStatus.Current) == n && int(res.NewStatus.Available) == n)
		nondet.Assert("C02.quiescent.no-requeue", !res.Result.Requeue && res.Result.RequeueAfter == 0)
	} else {
		nondet.Assert("C02.progress-or-wait", len(res.PodsToCreate) > 0 || len(res.PodsToDelete) > 0 || res.Result.Requeue || res.Result.RequeueAfter > 0)
		if missing == 0 && allAvailable && outdated > 0 {
			nondet.Assert("C02.progress.deletes-outdated", len(res.PodsToDelete) >= 1)
		}
		if missing > 0 {
			nondet.Assert("C02.progress.creates-missing", len(res.PodsToCreate) >= 1)
		}
	}
	for _, ni := range res.PodsToCreate {
		nondet.Assert("C02.rank.create-on-free-node", cats[zzIndexOf(items, ni)] == zzNoPod)
	}
	for _, ni := range res.PodsToDelete {
		c := cats[zzIndexOf(items, ni)]
		nondet.Assert("C02.rank.delete-outdated-only", c == zzOutdatedAvailable || c == zzOutdatedUnavailable)
	}
	// measure after the sync and the kubelet step (created pods Ready, deleted pods gone)
	after := notConverged - len(res.PodsToCreate)
	nondet.Assert("C02.rank.non-increasing", after <= notConverged && after >= 0)
	nondet.Observe("creates", len(res.PodsToCreate))
	nondet.Observe("deletes", len(res.PodsToDelete))
	nondet.Reach("C02.single-node-update", n == 1 && len(res.PodsToDelete) == 1)
	nondet.Reach("C02.quiescent", quiescent)
	nondet.Reach("C02.waits", !quiescent && len(res.PodsToCreate) == 0 && len(res.PodsToDelete) == 0)
	nondet.Reach("C02.creates-and-deletes", len(res.PodsToCreate) > 0 && len(res.PodsToDelete) > 0)
}
