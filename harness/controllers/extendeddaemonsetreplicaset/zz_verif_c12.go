//go:build verif

package extendeddaemonsetreplicaset

import (
	"k8s.io/apimachinery/pkg/types"
	appsv1 "k8s.io/api/apps/v1"
	corev1 "k8s.io/api/core/v1"
	metav1 "k8s.io/apimachinery/pkg/apis/meta/v1"

	datadoghqv1alpha1 "github.com/DataDog/extendeddaemonset/api/v1alpha1"
	"github.com/DataDog/extendeddaemonset/zzverif/fakeapi"
	"github.com/DataDog/extendeddaemonset/zzverif/nondet"
)

// ZZ_C12_ersIsolation: a sync of a replica set of X = ns/foo only creates, relabels or deletes
// pods of namespace ns that carry X's name label — plus, with the old-daemonset annotation,
// pods owned by the named DaemonSet in ns.  Pods of a same-named ExtendedDaemonSet in another
// namespace, unrelated pods with overlapping labels and pods of other DaemonSets are never
// touched nor counted.
func ZZ_C12_ersIsolation() {
	c, ds, rsNew, _ := zzStore(2)
	ds.Status.ActiveReplicaSet = rsNew.Name
	migration := nondet.Bool("x.oldDaemonsetAnnotation")
	if migration {
		ds.Annotations[datadoghqv1alpha1.ExtendedDaemonSetOldDaemonsetAnnotationKey] = "legacy"
	}
	// the replica set keeps a copy of the annotations the ExtendedDaemonSet had when it was created: a
	// migration that is no longer declared on the ExtendedDaemonSet is over, whatever the copy says
	if nondet.Bool("replicaSetKeepsStaleMigrationCopy") {
		if rsNew.Annotations == nil {
			rsNew.Annotations = map[string]string{}
		}
		rsNew.Annotations[datadoghqv1alpha1.ExtendedDaemonSetOldDaemonsetAnnotationKey] = "legacy"
	}
	// the pod template may itself name a namespace (the CRD exposes the whole ObjectMeta): pods are
	// still created in the namespace of the ExtendedDaemonSet
	// ... and may carry the reserved link labels with the names of another ExtendedDaemonSet and replica
	// set (copied from a pod manifest): the created pods are still linked to X and its replica set
	if nondet.Bool("x.templateNamesAnotherNamespace") {
		rsNew.Spec.Template.Namespace = "ns2"
		rsNew.Spec.Template.Labels[datadoghqv1alpha1.ExtendedDaemonSetNameLabelKey] = "bar"
		rsNew.Spec.Template.Labels[datadoghqv1alpha1.ExtendedDaemonSetReplicaSetNameLabelKey] = "bar-z"
	}
	// DaemonSets: "legacy" in ns (the declared one), "legacy" in ns2, "other" in ns — same selector
	sel := &metav1.LabelSelector{MatchLabels: map[string]string{"app": "agent"}}
	c.DaemonSets = append(c.DaemonSets,
		&appsv1.DaemonSet{ObjectMeta: metav1.ObjectMeta{Name: "legacy", Namespace: zzNS}, Spec: appsv1.DaemonSetSpec{Selector: sel}},
		&appsv1.DaemonSet{ObjectMeta: metav1.ObjectMeta{Name: "legacy", Namespace: "ns2"}, Spec: appsv1.DaemonSetSpec{Selector: sel}},
		&appsv1.DaemonSet{ObjectMeta: metav1.ObjectMeta{Name: "other", Namespace: zzNS}, Spec: appsv1.DaemonSetSpec{Selector: sel}},
	)
	ctrl := true
	dsPod := func(name, ns, owner string, node int) *corev1.Pod {
		return &corev1.Pod{
			ObjectMeta: metav1.ObjectMeta{Name: name, Namespace: ns, Labels: map[string]string{"app": "agent"},
				OwnerReferences: []metav1.OwnerReference{{APIVersion: "apps/v1", Kind: "DaemonSet", Name: owner, Controller: &ctrl}}},
			Spec:   corev1.PodSpec{NodeName: zzNodeName(node)},
			Status: corev1.PodStatus{Phase: corev1.PodRunning, Conditions: []corev1.PodCondition{{Type: corev1.PodReady, Status: corev1.ConditionTrue}}},
		}
	}
	type podInfo struct {
		pod     *corev1.Pod
		own     bool // belongs to X
		adopted bool // belongs to X only through the migration annotation
	}
	var pods []podInfo
	add := func(p *corev1.Pod, own, adopted bool) {
		c.Pods = append(c.Pods, p)
		pods = append(pods, podInfo{p.DeepCopy(), own, adopted})
	}
	// X's own pod (outdated, on node0) — optional
	if nondet.Bool("x.ownPod") {
		add(zzPod("x-pod", zzNodeName(0), zzOldRS, zzHashOld, 0, corev1.PodRunning, true, nondet.Base().Add(-3600*1e9)), true, false)
	}
	// same-named ExtendedDaemonSet in ns2: its pods carry the same name label
	if nondet.Bool("y.sameNamePod") {
		p := zzPod("y-pod", zzNodeName(1), "foo-y", "hash-y", 0, corev1.PodRunning, true, nondet.Base().Add(-3600*1e9))
		p.Namespace = "ns2"
		add(p, false, false)
	}
	// a pod of another ExtendedDaemonSet in the same namespace
	if nondet.Bool("z.otherEdsPod") {
		p := zzPod("z-pod", zzNodeName(1), "bar-z", "hash-z", 0, corev1.PodRunning, true, nondet.Base().Add(-3600*1e9))
		p.Labels[datadoghqv1alpha1.ExtendedDaemonSetNameLabelKey] = "bar"
		// ... which may itself be in its canary phase (its pods then carry the canary label)
		if nondet.Bool("z.inCanaryPhase") {
			p.Labels[datadoghqv1alpha1.ExtendedDaemonSetReplicaSetCanaryLabelKey] = datadoghqv1alpha1.ExtendedDaemonSetReplicaSetCanaryLabelValue
		}
		add(p, false, false)
	}
	// an unrelated pod that happens to carry the canary label and nothing else of ours
	if nondet.Bool("strayCanaryLabelledPod") {
		p := &corev1.Pod{ObjectMeta: metav1.ObjectMeta{Name: "stray", Namespace: zzNS, Labels: map[string]string{
			datadoghqv1alpha1.ExtendedDaemonSetReplicaSetCanaryLabelKey: datadoghqv1alpha1.ExtendedDaemonSetReplicaSetCanaryLabelValue}},
			Spec: corev1.PodSpec{NodeName: zzNodeName(0)}, Status: corev1.PodStatus{Phase: corev1.PodRunning}}
		add(p, false, false)
	}
	// DaemonSet pods with overlapping labels
	if nondet.Bool("legacyPod") {
		add(dsPod("legacy-pod", zzNS, "legacy", 1), false, true)
	}
	if nondet.Bool("legacyPodOtherNamespace") {
		add(dsPod("legacy-pod-ns2", "ns2", "legacy", 1), false, false)
	}
	if nondet.Bool("otherDaemonsetPod") {
		add(dsPod("other-ds-pod", zzNS, "other", 0), false, false)
	}
	// a bare pod (no owner at all) whose labels match the old DaemonSet's selector: not "owned by the named old DaemonSet"
	if nondet.Bool("ownerlessLookalikePod") {
		p := dsPod("bare-pod", zzNS, "legacy", 0)
		p.OwnerReferences = nil
		add(p, false, false)
	}
	// a pod owned by a ReplicaSet that happens to be called like the old DaemonSet
	if nondet.Bool("sameNameOtherKindOwnerPod") {
		p := dsPod("rs-owned-pod", zzNS, "legacy", 1)
		p.OwnerReferences[0].Kind = "ReplicaSet"
		add(p, false, false)
	}

	_, err := zzReconcile(zzReconciler(c, false), zzNS, rsNew.Name)
	nondet.Assert("C12.ers.noerror", err == nil)

	mine := func(pi podInfo) bool { return pi.own || (pi.adopted && migration) }
	for _, e := range c.Log {
		if e.Kind != "Pod" || e.Verb == "get" || e.Verb == "list" {
			continue
		}
		if e.Verb == "create" {
			p := e.Obj.(*corev1.Pod)
			nondet.Assert("C12.ers.creates-own-pod", p.Namespace == zzNS && p.Labels[datadoghqv1alpha1.ExtendedDaemonSetNameLabelKey] == zzEDSName &&
				p.Labels[datadoghqv1alpha1.ExtendedDaemonSetReplicaSetNameLabelKey] == rsNew.Name)
			continue
		}
		touchedMine := false
		for _, pi := range pods {
			if pi.pod.Name == e.Name && pi.pod.Namespace == e.Namespace {
				touchedMine = mine(pi)
			}
		}
		// "never ... relabelled or deleted"
		nondet.Assert("C12.ers.touches-only-own-pods", touchedMine)
	}
	for _, pi := range pods {
		if mine(pi) {
			continue
		}
		alive := false
		for _, p := range c.Pods {
			if p.Name == pi.pod.Name && p.Namespace == pi.pod.Namespace {
				alive = len(p.Labels) == len(pi.pod.Labels)
			}
		}
		nondet.Assert("C12.ers.foreign-pod-untouched", alive)
	}
	// "never counted in its status": a node occupied only by foreign pods is a node without pod
	var st *datadoghqv1alpha1.ExtendedDaemonSetReplicaSetStatus
	for _, s := range c.ERS {
		if s.Name == rsNew.Name {
			st = &s.Status
		}
	}
	nondet.Assert("C12.ers.status-own-only", st != nil && st.Desired == 2 && st.Current == 0 && st.Ready == 0)
	occupied := map[string]bool{}
	for _, pi := range pods {
		if mine(pi) {
			occupied[fakeapi.PodNode(pi.pod)] = true
		}
	}
	if len(occupied) < 2 {
		// a free node gets its pod even if a foreign pod sits on it
		nondet.Assert("C12.ers.serves-free-node", c.Count("create", "Pod") == 1)
	}
	nondet.Observe("creates", c.Count("create", "Pod"))
	nondet.Observe("deletes", c.Count("delete", "Pod"))
	nondet.Reach("C12.ers.adopts-legacy", migration && c.Count("delete", "Pod") >= 1)
	nondet.Reach("C12.ers.foreign-present", len(pods) >= 3)
}

// ZZ_C12_activeDuringCanaryLeavesForeignPodsAlone: the pods an ExtendedDaemonSet handles are "only pods
// of its namespace that carry its name label" also while a canary is in progress and whichever of its
// replica sets is being synced (active, canary or leftover).  Two nodes; the canary runs on node1; the
// same namespace holds a pod of another ExtendedDaemonSet and a bare pod without any ExtendedDaemonSet
// label, each on node0 or node1.  The sync writes nothing on them and counts none of them.
func ZZ_C12_activeDuringCanaryLeavesForeignPodsAlone() {
	c, ds, rsNew, rsOld := zzStore(2)
	ds.Spec.Strategy.Canary = &datadoghqv1alpha1.ExtendedDaemonSetSpecStrategyCanary{}
	datadoghqv1alpha1.DefaultExtendedDaemonSetSpec(&ds.Spec, datadoghqv1alpha1.ExtendedDaemonSetSpecStrategyCanaryValidationModeAuto)
	// foo-old is active, foo-new is the canary on node1
	ds.Status.ActiveReplicaSet = rsOld.Name
	ds.Status.Canary = &datadoghqv1alpha1.ExtendedDaemonSetStatusCanary{ReplicaSet: rsNew.Name, Nodes: []string{zzNodeName(1)}}
	ds.Status.State = datadoghqv1alpha1.ExtendedDaemonSetStatusStateCanary
	c.Pods = append(c.Pods,
		zzPod("own-active", zzNodeName(0), zzOldRS, zzHashOld, 0, corev1.PodRunning, true, nondet.Base().Add(-3600*1e9)),
		zzPod("own-canary", zzNodeName(1), zzRSName, zzHashNew, 0, corev1.PodRunning, true, nondet.Base().Add(-600*1e9)))
	foreignNode := zzNodeName(0)
	if nondet.Bool("foreignPodsOnTheCanaryNode") {
		foreignNode = zzNodeName(1)
	}
	other := zzPod("bar-pod", foreignNode, "bar-z", "hash-z", 0, corev1.PodRunning, true, nondet.Base().Add(-3600*1e9))
	other.Labels[datadoghqv1alpha1.ExtendedDaemonSetNameLabelKey] = "bar"
	bare := &corev1.Pod{ObjectMeta: metav1.ObjectMeta{Name: "web-0", Namespace: zzNS, Labels: map[string]string{"app": "web"}},
		Spec: corev1.PodSpec{NodeName: foreignNode}, Status: corev1.PodStatus{Phase: corev1.PodRunning, Conditions: []corev1.PodCondition{{Type: corev1.PodReady, Status: corev1.ConditionTrue}}}}
	c.Pods = append(c.Pods, other, bare)
	// a third replica set of foo without role (an earlier version), and a pod that still carries its stamps
	// (replica-set label, template hash) but whose ExtendedDaemonSet name label was rewritten to bar: no pod of foo
	rsLeft := zzRS("foo-left", "hash-left")
	c.ERS = append(c.ERS, rsLeft)
	rewritten := zzPod("rewritten", foreignNode, rsLeft.Name, "hash-left", 0, corev1.PodRunning, true, nondet.Base().Add(-7200*1e9))
	rewritten.Labels[datadoghqv1alpha1.ExtendedDaemonSetNameLabelKey] = "bar"
	c.Pods = append(c.Pods, rewritten)
	synced := rsOld.Name
	switch nondet.String("syncedReplicaSet", "active", "canary", "leftover") {
	case "canary":
		synced = rsNew.Name
	case "leftover":
		synced = rsLeft.Name
	}
	_, err := zzReconcile(zzReconciler(c, nondet.Bool("nodeAffinitySupported")), zzNS, synced)
	nondet.Assert("C12.during-canary.noerror", err == nil)
	for _, e := range c.Writes() {
		if e.Kind == "Pod" {
			nondet.Assert("C12.during-canary.foreign-pod-untouched", e.Name != "bar-pod" && e.Name != "web-0" && e.Name != "rewritten")
		}
	}
	alive := 0
	for _, p := range c.Pods {
		if p.Name == "bar-pod" || p.Name == "web-0" {
			alive++
		}
	}
	nondet.Assert("C12.during-canary.foreign-pods-alive", alive == 2)
	for _, s := range c.ERS {
		if s.Name == synced {
			nondet.Assert("C12.during-canary.status-counts-own-pods-only", s.Status.Current <= 1 && s.Status.Ready <= 1)
			if synced == rsLeft.Name {
				nondet.Assert("C12.during-canary.leftover-counts-no-foreign-pod", s.Status.Current == 0 && s.Status.Ready == 0 && s.Status.Available == 0)
			}
		}
	}
	nondet.Reach("C12.during-canary.active-synced", synced == rsOld.Name)
}

// ZZ_C12_twoExtendedDaemonSetsWithTheSameTemplate: one controller process serves two ExtendedDaemonSets
// whose pod templates are identical (same template hash): X = ns/foo and Y = another name in the same
// namespace, or the same / another name in another namespace.  Their active replica sets are synced
// one after the other by the same process, in either order, on a one-node cluster.  Each creates its
// pod in its own namespace with its own name label and its own replica-set label, and the second sync
// of each creates nothing more.
func ZZ_C12_twoExtendedDaemonSetsWithTheSameTemplate() {
	c, ds, rsX, _ := zzStore(1)
	ds.Status.ActiveReplicaSet = rsX.Name
	yNs, yName := zzNS, "bar"
	switch nondet.String("y", "other-name-same-namespace", "same-name-other-namespace", "other-name-other-namespace") {
	case "same-name-other-namespace":
		yNs, yName = "ns2", zzEDSName
	case "other-name-other-namespace":
		yNs = "ns2"
	}
	dy := zzDS()
	dy.Name, dy.Namespace, dy.UID = yName, yNs, types.UID("uid-y")
	rsY := zzRS(yName+"-y", zzHashNew)
	rsY.Namespace = yNs
	rsY.Labels[datadoghqv1alpha1.ExtendedDaemonSetNameLabelKey] = yName
	rsY.OwnerReferences[0].Name, rsY.OwnerReferences[0].UID = yName, "uid-y"
	dy.Status.ActiveReplicaSet = rsY.Name
	c.EDS = append(c.EDS, dy)
	c.ERS = append(c.ERS, rsY)
	type who struct{ ns, eds, rs string }
	x, y := who{zzNS, zzEDSName, rsX.Name}, who{yNs, yName, rsY.Name}
	order := []who{x, y}
	if nondet.Bool("ySyncedFirst") {
		order = []who{y, x}
	}
	for round := 0; round < 2; round++ {
		for _, w := range order {
			mark := len(c.Log)
			_, err := zzReconcile(zzReconciler(c, nondet.Bool("nodeAffinitySupported")), w.ns, w.rs)
			nondet.Assert("C12.same-template.noerror", err == nil)
			creates := 0
			for _, e := range c.Log[mark:] {
				if e.Kind == "Pod" && e.Verb == "create" {
					creates++
					p := e.Obj.(*corev1.Pod)
					nondet.Assert("C12.same-template.creates-own-pod", p.Namespace == w.ns && p.Labels[datadoghqv1alpha1.ExtendedDaemonSetNameLabelKey] == w.eds &&
						p.Labels[datadoghqv1alpha1.ExtendedDaemonSetReplicaSetNameLabelKey] == w.rs)
				}
				if e.Kind == "Pod" && e.Verb == "delete" {
					nondet.Assert("C12.same-template.deletes-nothing", false)
				}
			}
			nondet.Assert("C12.same-template.one-pod-each", (round == 0 && creates == 1) || (round == 1 && creates == 0))
		}
		zzKubelet(c)
	}
	nondet.Reach("C12.same-template.two-pods", len(c.Pods) == 2)
}
