//go:build verif

package extendeddaemonsetreplicaset

import (
	"time"

	corev1 "k8s.io/api/core/v1"

	datadoghqv1alpha1 "github.com/DataDog/extendeddaemonset/api/v1alpha1"
	"github.com/DataDog/extendeddaemonset/zzverif/nondet"
)

// ZZ_C08_duplicatesWhilePausedOrFrozen: "While the rolling-update-paused annotation is true the active
// replica set deletes no pod in order to update it ...; while the rollout-frozen annotation is true
// it neither creates pods nor deletes pods for updating" — on a node that holds TWO pods: an older
// outdated one and a more recent up-to-date one (or the other way round).  Removing a duplicate is
// not an update (C01: the oldest scheduled pod is kept), so the clean-up still runs, but it must not
// be the back door through which the node moves to the new template: when the outdated pod is the
// older one it survives the sync, and node1's outdated pod is not touched either.
func ZZ_C08_duplicatesWhilePausedOrFrozen() {
	c, ds, rsNew, _ := zzStore(2)
	ds.Status.ActiveReplicaSet = rsNew.Name
	sw := nondet.String("switch", "rolling-update-paused", "rollout-frozen", "both")
	if sw != "rollout-frozen" {
		ds.Annotations[datadoghqv1alpha1.ExtendedDaemonSetRollingUpdatePausedAnnotationKey] = "true"
	}
	if sw != "rolling-update-paused" {
		ds.Annotations[datadoghqv1alpha1.ExtendedDaemonSetRolloutFrozenAnnotationKey] = "true"
	}
	outdatedIsOlder := nondet.Bool("outdatedPodIsTheOlderOne")
	oldAge, newAge := int64(-3600), int64(-60)
	if !outdatedIsOlder {
		oldAge, newAge = -60, -3600
	}
	outdated := zzPod("outdated", zzNodeName(0), zzOldRS, zzHashOld, 0, corev1.PodRunning, true, nondet.Base().Add(durSec(oldAge)))
	uptodate := zzPod("up-to-date", zzNodeName(0), zzRSName, zzHashNew, 0, corev1.PodRunning, true, nondet.Base().Add(durSec(newAge)))
	if nondet.Bool("upToDateListedFirst") {
		c.Pods = append(c.Pods, uptodate, outdated)
	} else {
		c.Pods = append(c.Pods, outdated, uptodate)
	}
	lone := zzPod("outdated-1", zzNodeName(1), zzOldRS, zzHashOld, 0, corev1.PodRunning, true, nondet.Base().Add(durSec(-3600)))
	// the lone outdated pod may be what a canary that ended without promotion left behind: it still
	// carries the canary label; replacing it is an update like any other
	if nondet.Bool("loneOutdatedPodIsOfAnEndedCanary") {
		lone.Labels[datadoghqv1alpha1.ExtendedDaemonSetReplicaSetCanaryLabelKey] = datadoghqv1alpha1.ExtendedDaemonSetReplicaSetCanaryLabelValue
	}
	c.Pods = append(c.Pods, lone)
	_, err := zzReconcile(zzReconciler(c, nondet.Bool("nodeAffinitySupported")), zzNS, rsNew.Name)
	nondet.Assert("C08.dup.noerror", err == nil)
	deleted := map[string]bool{}
	for _, e := range c.Log {
		if e.Kind == "Pod" && e.Verb == "delete" {
			deleted[e.Name] = true
		}
	}
	nondet.Assert("C08.dup.single-outdated-pod-untouched", !deleted["outdated-1"])
	nondet.Assert("C08.dup.nothing-created", c.Count("create", "Pod") == 0)
	if outdatedIsOlder {
		nondet.Assert("C08.dup.older-outdated-pod-survives", !deleted["outdated"])
	}
	nondet.Assert("C08.dup.at-most-the-duplicate-removed", !(deleted["outdated"] && deleted["up-to-date"]))
	nondet.Observe("deletes", c.Count("delete", "Pod"))
	nondet.Reach("C08.dup.duplicate-removed", outdatedIsOlder && deleted["up-to-date"])
}

func durSec(s int64) time.Duration { return time.Duration(s) * time.Second }

// ZZ_C08_pausedStillCreatesThroughTheSync: "while the rolling-update-paused annotation is true the active
// replica set deletes no pod in order to update it but still creates pods on eligible nodes that have none;
// while the rollout-frozen annotation is true it neither creates pods nor deletes pods for updating" — through
// the whole replica-set sync (the strategy's verdict and what the controller then does with it): node0 holds
// an outdated Ready pod, node1 no pod at all (it joined during the pause).
func ZZ_C08_pausedStillCreatesThroughTheSync() {
	// a third node may hold a pod of the current template that is not Ready yet (created by the previous
	// sync): it is nobody's business here — in particular it does not use up what the free node needs
	notReadyYet := nondet.Bool("node2HoldsAnUpToDatePodNotReadyYet")
	n := 2
	if notReadyYet {
		n = 3
	}
	c, ds, rsNew, _ := zzStore(n)
	ds.Status.ActiveReplicaSet = rsNew.Name
	if notReadyYet {
		c.Pods = append(c.Pods, zzPod("starting", zzNodeName(2), rsNew.Name, zzHashNew, 0, corev1.PodRunning, false, nondet.Base().Add(durSec(-20))))
	}
	sw := nondet.String("switch", "none", "rolling-update-paused", "rollout-frozen", "both")
	if sw == "rolling-update-paused" || sw == "both" {
		ds.Annotations[datadoghqv1alpha1.ExtendedDaemonSetRollingUpdatePausedAnnotationKey] = "true"
	}
	if sw == "rollout-frozen" || sw == "both" {
		ds.Annotations[datadoghqv1alpha1.ExtendedDaemonSetRolloutFrozenAnnotationKey] = "true"
	}
	c.Pods = append(c.Pods, zzPod("outdated", zzNodeName(0), zzOldRS, zzHashOld, 0, corev1.PodRunning, true, nondet.Base().Add(durSec(-3600))))
	_, err := zzReconcile(zzReconciler(c, nondet.Bool("nodeAffinitySupported")), zzNS, rsNew.Name)
	nondet.Assert("C08.sync.noerror", err == nil)
	createdOnNode1, deletedOutdated := 0, false
	for _, e := range c.Log {
		if e.Kind == "Pod" && e.Verb == "create" {
			nondet.Assert("C08.sync.creates-only-on-the-free-node", e.Node == zzNodeName(1))
			createdOnNode1++
		}
		if e.Kind == "Pod" && e.Verb == "delete" {
			deletedOutdated = true
		}
	}
	frozen := sw == "rollout-frozen" || sw == "both"
	paused := sw == "rolling-update-paused" || sw == "both"
	nondet.Assert("C08.sync.free-node-served-unless-frozen", (createdOnNode1 == 1) == !frozen)
	nondet.Assert("C08.sync.no-update-deletion-while-paused-or-frozen", !(paused || frozen) || !deletedOutdated)
	nondet.Observe("created", createdOnNode1)
	nondet.Observe("deleted", deletedOutdated)
	nondet.Reach("C08.sync.paused-creates", sw == "rolling-update-paused" && createdOnNode1 == 1)
}
