//go:build verif

package extendeddaemonset

import (
	"k8s.io/apimachinery/pkg/util/intstr"
	"strconv"

	"time"

	corev1 "k8s.io/api/core/v1"
	metav1 "k8s.io/apimachinery/pkg/apis/meta/v1"

	datadoghqv1alpha1 "github.com/DataDog/extendeddaemonset/api/v1alpha1"
	"github.com/DataDog/extendeddaemonset/zzverif/fakeapi"
	"github.com/DataDog/extendeddaemonset/zzverif/nondet"
)

func zzPickTpl(label string) string {
	switch nondet.String(label, "A", "B") {
	case "A":
		return "A"
	}
	return "B"
}

// ZZ_C12_edsIsolation: reconciling ExtendedDaemonSet X = ns1/foo never counts, adopts or
// deletes objects of another ExtendedDaemonSet Y (same name in another namespace, or another
// name in the same namespace), whatever their templates and statuses.
func ZZ_C12_edsIsolation() {
	sameName := nondet.Bool("y.sameNameOtherNamespace")
	yNs, yName := "ns1", "bar"
	if sameName {
		yNs, yName = "ns2", "foo"
	}
	// ... or a name that extends X's with a dash ("foo-gpu"): its replica sets' names start with "foo-" too
	yExtendsX := !sameName && nondet.Bool("y.nameExtendsTheNameOfX")
	if yExtendsX {
		yName = "foo-gpu"
	}
	var canary *datadoghqv1alpha1.ExtendedDaemonSetSpecStrategyCanary
	if nondet.Bool("x.canaryStrategy") {
		canary = &datadoghqv1alpha1.ExtendedDaemonSetSpecStrategyCanary{Duration: &metav1.Duration{Duration: 10 * time.Minute}}
	}
	xTpl := zzPickTpl("x.template")
	xName := "foo"
	if !sameName && !yExtendsX && nondet.Bool("x.nameLongerThan63") {
		// a valid object name that is not a valid label value
		xName = "foo-0123456789-0123456789-0123456789-0123456789-0123456789-0123456789"
	}
	x := zzEDS("ns1", xName, xTpl, canary)
	y := zzEDS(yNs, yName, zzPickTpl("y.template"), nil)
	// X's own metadata.labels may carry the reserved name label with Y's name (a manifest
	// cloned from an object of Y): a legal label that must not redirect X's replica sets
	xCarriesYsName := !sameName && xName == "foo" && nondet.Bool("x.ownLabelsCarryTheNameOfY")
	if xCarriesYsName {
		if x.Labels == nil {
			x.Labels = map[string]string{}
		}
		x.Labels[datadoghqv1alpha1.ExtendedDaemonSetNameLabelKey] = yName
	}
	c := fakeapi.New()
	// X: optionally an active replica set for template A
	xHasA := nondet.Bool("x.rsA.exists")
	var xA *datadoghqv1alpha1.ExtendedDaemonSetReplicaSet
	if xHasA {
		xA = zzRS(x, "A", "foo-xa", nondet.Base().Add(-time.Hour))
		xA.Labels[datadoghqv1alpha1.ExtendedDaemonSetNameLabelKey] = xName
		zzCounters(xA, "x.rsA")
		x.Status.ActiveReplicaSet = "foo-xa"
		c.ERS = append(c.ERS, xA)
	}
	// Y: replica sets for A and/or B with arbitrary (possibly all-zero) counters
	var ys []*datadoghqv1alpha1.ExtendedDaemonSetReplicaSet
	for _, id := range []string{"A", "B"} {
		if nondet.Bool("y.rs" + id + ".exists") {
			rs := zzRS(y, id, yName+"-y"+id, nondet.Base().Add(-2*time.Hour))
			zzCounters(rs, "y.rs"+id)
			c.ERS = append(c.ERS, rs)
			ys = append(ys, rs)
		}
	}
	y.Status.ActiveReplicaSet = yName + "-yA"
	c.Nodes = append(c.Nodes, &corev1.Node{ObjectMeta: metav1.ObjectMeta{Name: "node0"}})
	c.EDS = append(c.EDS, x, y)
	yBefore := y.DeepCopy()

	_, err := zzReconcile(zzReconciler(c), "ns1", xName)
	nondet.Observe("error", err != nil)

	for _, e := range c.Writes() {
		switch e.Kind {
		case "ExtendedDaemonSet":
			nondet.Assert("C12.eds.writes-own-object", e.Namespace == "ns1" && e.Name == xName)
		case "ExtendedDaemonSetReplicaSet":
			rs := e.Obj.(*datadoghqv1alpha1.ExtendedDaemonSetReplicaSet)
			owned := len(rs.OwnerReferences) == 1 && rs.OwnerReferences[0].UID == x.UID
			nondet.Assert("C12.eds.writes-own-replicaset", rs.Namespace == "ns1" && owned)
		default:
			nondet.Assert("C12.eds.writes-known-kind", false)
		}
	}
	// Y and its replica sets are untouched
	for _, rs := range ys {
		still := false
		for _, s := range c.ERS {
			if s.Namespace == rs.Namespace && s.Name == rs.Name {
				still = true
			}
		}
		nondet.Assert("C12.eds.foreign-replicaset-kept", still)
	}
	// nothing X owns is found by the list Y makes of its replica sets (namespace + name label)
	for _, s := range c.ERS {
		if s.Namespace == yNs && s.Labels[datadoghqv1alpha1.ExtendedDaemonSetNameLabelKey] == yName {
			nondet.Assert("C12.eds.nothing-of-x-is-listed-by-y", !(len(s.OwnerReferences) == 1 && s.OwnerReferences[0].UID == x.UID))
		}
	}
	nondet.Reach("C12.eds.own-labels-carry-the-name-of-y", xCarriesYsName && c.Count("create", "ExtendedDaemonSetReplicaSet") == 1)
	yAfter := zzStoredEDS(c, yNs, yName)
	nondet.Assert("C12.eds.foreign-eds-untouched", yAfter != nil && yAfter.Status.ActiveReplicaSet == yBefore.Status.ActiveReplicaSet && zzImage(&yAfter.Spec.Template) == zzImage(&yBefore.Spec.Template))
	// X's status counts only X's own replica sets, and its active replica set is its own
	xs := zzStoredEDS(c, "ns1", xName)
	var own []*datadoghqv1alpha1.ExtendedDaemonSetReplicaSet
	for _, s := range c.ERS {
		if s.Namespace == "ns1" && len(s.OwnerReferences) == 1 && s.OwnerReferences[0].UID == x.UID {
			own = append(own, s)
		}
	}
	statusWritten := false
	for _, e := range c.Log {
		if e.Verb == "status-update" && e.Kind == "ExtendedDaemonSet" {
			statusWritten = true
		}
	}
	if statusWritten {
		var cur, ready, avail int32
		for _, s := range own {
			cur += s.Status.Current
			ready += s.Status.Ready
			avail += s.Status.Available
		}
		nondet.Assert("C12.eds.status-own-sums", nondet.And(xs.Status.Current == cur, xs.Status.Ready == ready, xs.Status.Available == avail))
	}
	if xs.Status.ActiveReplicaSet != "" {
		isOwn := false
		for _, s := range own {
			if s.Name == xs.Status.ActiveReplicaSet {
				isOwn = true
			}
		}
		nondet.Assert("C12.eds.active-is-own", isOwn)
	}
	// a replica set for X's template is created unless X already has one
	xHasMatching := xHasA && xTpl == "A"
	nondet.Assert("C12.eds.creates-own", (c.Count("create", "ExtendedDaemonSetReplicaSet") == 1) == !xHasMatching)
	nondet.Fact("sameName", sameName)
	nondet.Reach("C12.eds.long-name", xName != "foo" && len(ys) > 0)
	nondet.Reach("C12.eds.name-of-y-extends-the-name-of-x", yExtendsX && len(ys) > 0 && !xHasA)
	nondet.Reach("C12.eds.same-name-foreign-rs", sameName && len(ys) > 0)
	nondet.Reach("C12.eds.foreign-matches-template", len(ys) > 0 && !xHasMatching)
}

// ZZ_C12_selectionIgnoresForeignPods: pods of other ExtendedDaemonSets are "never counted": the choice
// of canary nodes ("preferring nodes whose daemon pods restarted least") depends on the restarts of
// this ExtendedDaemonSet's own pods only.  Two worlds with the same three nodes and the same own pods
// (arbitrary restart counts): in the second one an ExtendedDaemonSet of the same name in another
// namespace, and one of another name in the same namespace, also run pods there, with arbitrary
// restart counts.  One reconcile starts the canary in each world: the same nodes are selected.
func ZZ_C12_selectionIgnoresForeignPods() {
	own := []int32{nondet.Int32("own.node0.restarts", 0, 3), nondet.Int32("own.node1.restarts", 0, 3), nondet.Int32("own.node2.restarts", 0, 3)}
	foreign := []int32{nondet.Int32("foreign.node0.restarts", 0, 9), nondet.Int32("foreign.node1.restarts", 0, 9), nondet.Int32("foreign.node2.restarts", 0, 9)}
	foreignKind := nondet.String("foreign", "same-name-other-namespace", "other-name-same-namespace")
	build := func(withForeign bool) *fakeapi.Client {
		c, _ := zzCanaryStore(3, intstr.FromInt(1), -1)
		for i := 0; i < 3; i++ {
			node := "node" + strconv.Itoa(i)
			c.Pods = append(c.Pods, &corev1.Pod{
				ObjectMeta: metav1.ObjectMeta{Name: "own-" + node, Namespace: "ns", Labels: map[string]string{datadoghqv1alpha1.ExtendedDaemonSetNameLabelKey: "foo", datadoghqv1alpha1.ExtendedDaemonSetReplicaSetNameLabelKey: "foo-a"}},
				Spec:       corev1.PodSpec{NodeName: node},
				Status:     corev1.PodStatus{Phase: corev1.PodRunning, ContainerStatuses: []corev1.ContainerStatus{{Name: "agent", RestartCount: own[i]}}},
			})
			if withForeign {
				ns, name := "ns2", "foo"
				if foreignKind == "other-name-same-namespace" {
					ns, name = "ns", "bar"
				}
				c.Pods = append(c.Pods, &corev1.Pod{
					ObjectMeta: metav1.ObjectMeta{Name: "foreign-" + node, Namespace: ns, Labels: map[string]string{datadoghqv1alpha1.ExtendedDaemonSetNameLabelKey: name, datadoghqv1alpha1.ExtendedDaemonSetReplicaSetNameLabelKey: name + "-x"}},
					Spec:       corev1.PodSpec{NodeName: node},
					Status:     corev1.PodStatus{Phase: corev1.PodRunning, ContainerStatuses: []corev1.ContainerStatus{{Name: "agent", RestartCount: foreign[i]}}},
				})
			}
		}
		return c
	}
	alone, crowded := build(false), build(true)
	_, err1 := zzReconcile(zzReconciler(alone), "ns", "foo")
	_, err2 := zzReconcile(zzReconciler(crowded), "ns", "foo")
	nondet.Assert("C12.selection.noerror", err1 == nil && err2 == nil)
	s1, s2 := zzStoredEDS(alone, "ns", "foo"), zzStoredEDS(crowded, "ns", "foo")
	nondet.Assert("C12.selection.canary-started", s1.Status.Canary != nil && s2.Status.Canary != nil && len(s1.Status.Canary.Nodes) == 1)
	if s1.Status.Canary == nil || s2.Status.Canary == nil || len(s1.Status.Canary.Nodes) != 1 {
		return
	}
	nondet.Assert("C12.selection.same-nodes-with-or-without-foreign-pods", len(s2.Status.Canary.Nodes) == 1 && s2.Status.Canary.Nodes[0] == s1.Status.Canary.Nodes[0])
	for _, e := range crowded.Writes() {
		nondet.Assert("C12.selection.foreign-pods-untouched", e.Kind != "Pod")
	}
	nondet.Observe("selected", s1.Status.Canary.Nodes[0])
	nondet.Reach("C12.selection.least-restarted-is-not-node0", s1.Status.Canary.Nodes[0] != "node0")
}
