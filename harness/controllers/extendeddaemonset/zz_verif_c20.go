//go:build verif

package extendeddaemonset

import (
	corev1 "k8s.io/api/core/v1"
	metav1 "k8s.io/apimachinery/pkg/apis/meta/v1"
	ksmetric "k8s.io/kube-state-metrics/v2/pkg/metric"

	datadoghqv1alpha1 "github.com/DataDog/extendeddaemonset/api/v1alpha1"
	"github.com/DataDog/extendeddaemonset/zzverif/nondet"
)

// ZZ_C20_edsFamilies: every ExtendedDaemonSet series reports the number found in the
// object's status.
func ZZ_C20_edsFamilies() {
	ds := &datadoghqv1alpha1.ExtendedDaemonSet{ObjectMeta: metav1.ObjectMeta{
		Name: "foo", Namespace: "ns", Labels: map[string]string{"extendeddaemonset.datadoghq.com/name": nondet.String("label", "foo", "bar")},
		CreationTimestamp: metav1.NewTime(nondet.TimeSec("created", -86400, 0)),
	}}
	// the annotations may say something else than the status (frozen wins over paused in the state,
	// a canary hides both, the status may not have caught up yet): the series follow the status
	ds.Annotations = map[string]string{}
	if nondet.Bool("ann.rollingUpdatePaused") {
		ds.Annotations[datadoghqv1alpha1.ExtendedDaemonSetRollingUpdatePausedAnnotationKey] = "true"
	}
	if nondet.Bool("ann.rolloutFrozen") {
		ds.Annotations[datadoghqv1alpha1.ExtendedDaemonSetRolloutFrozenAnnotationKey] = "true"
	}
	if nondet.Bool("ann.canaryPaused") {
		ds.Annotations[datadoghqv1alpha1.ExtendedDaemonSetCanaryPausedAnnotationKey] = "true"
	}
	st := &ds.Status
	st.Desired = nondet.Int32("desired", 0, 1<<31-1)
	st.Current = nondet.Int32("current", 0, 1<<31-1)
	st.Ready = nondet.Int32("ready", 0, 1<<31-1)
	st.Available = nondet.Int32("available", 0, 1<<31-1)
	st.UpToDate = nondet.Int32("upToDate", 0, 1<<31-1)
	st.IgnoredUnresponsiveNodes = nondet.Int32("ignored", 0, 1<<31-1)
	st.State = datadoghqv1alpha1.ExtendedDaemonSetStatusState(nondet.String("state", "Running", "RollingUpdate Paused", "Rollout frozen", "Canary", "Canary Paused", "Canary Failed"))
	nNodes := 0
	if nondet.Bool("canary") {
		nNodes = nondet.Int("canaryNodes", 0, 3)
		c := &datadoghqv1alpha1.ExtendedDaemonSetStatusCanary{ReplicaSet: "foo-b"}
		for i := 0; i < 3; i++ {
			if i < nNodes {
				c.Nodes = append(c.Nodes, "n")
			}
		}
		st.Canary = c
	}
	pausedCond := false
	if nondet.Bool("pausedCond.present") {
		pausedCond = nondet.Bool("pausedCond.true")
		s := corev1.ConditionFalse
		if pausedCond {
			s = corev1.ConditionTrue
		}
		st.Conditions = append(st.Conditions, datadoghqv1alpha1.ExtendedDaemonSetCondition{Type: datadoghqv1alpha1.ConditionTypeEDSCanaryPaused, Status: s})
	}
	b2f := func(b bool) float64 {
		if b {
			return 1
		}
		return 0
	}
	want := map[string]float64{
		extendeddaemonsetLabels:                         1,
		extendeddaemonsetCreated:                        float64(ds.CreationTimestamp.Unix()),
		extendeddaemonsetStatusDesired:                  float64(st.Desired),
		extendeddaemonsetStatusCurrent:                  float64(st.Current),
		extendeddaemonsetStatusReady:                    float64(st.Ready),
		extendeddaemonsetStatusAvailable:                float64(st.Available),
		extendeddaemonsetStatusUpToDate:                 float64(st.UpToDate),
		extendeddaemonsetStatusIgnoredUnresponsiveNodes: float64(st.IgnoredUnresponsiveNodes),
		extendeddaemonsetStatusCanaryActivated:          b2f(st.Canary != nil),
		extendeddaemonsetStatusCanaryNumberOfNodes:      float64(nNodes),
		extendeddaemonsetStatusCanaryPaused:             b2f(st.Canary != nil && pausedCond),
		extendeddaemonsetStatusRollingUpdatePaused:      b2f(st.State == datadoghqv1alpha1.ExtendedDaemonSetStatusStateRollingUpdatePaused),
		extendeddaemonsetStatusRolloutFrozen:            b2f(st.State == datadoghqv1alpha1.ExtendedDaemonSetStatusStateRolloutFrozen),
	}
	// as the metrics store does: every family of the object is generated first, the series are
	// read (serialised) afterwards — a generator must not disturb what an earlier one returned
	gens := generateMetricFamilies()
	fams := make([]*ksmetric.Family, len(gens))
	for i, f := range gens {
		fams[i] = f.GenerateFunc(ds)
	}
	seen := 0
	for i, f := range gens {
		fam := fams[i]
		w, known := want[f.Name]
		nondet.Assert("C20.eds.known-family", known)
		if !known {
			continue
		}
		seen++
		nondet.Assert("C20.eds.one-sample", len(fam.Metrics) == 1)
		m := fam.Metrics[0]
		nondet.Assert("C20.eds.value", m.Value == w)
		nondet.Assert("C20.eds.labels-paired", len(m.LabelKeys) == len(m.LabelValues) && len(m.LabelKeys) >= 2 &&
			m.LabelKeys[0] == "namespace" && m.LabelValues[0] == "ns" && m.LabelKeys[1] == "name" && m.LabelValues[1] == "foo")
		if f.Name == extendeddaemonsetLabels {
			nondet.Assert("C20.eds.label-info", len(m.LabelKeys) == 3 && m.LabelKeys[2] == "extendeddaemonset_datadoghq_com_name" &&
				m.LabelValues[2] == ds.Labels["extendeddaemonset.datadoghq.com/name"])
		}
	}
	nondet.Assert("C20.eds.all-families", seen == len(want))
	nondet.Reach("C20.eds.canary-paused", st.Canary != nil && pausedCond)
	nondet.Reach("C20.eds.frozen", st.State == datadoghqv1alpha1.ExtendedDaemonSetStatusStateRolloutFrozen)
}
