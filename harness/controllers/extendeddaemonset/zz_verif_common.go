//go:build verif

package extendeddaemonset

import (
	"context"
	"time"

	"github.com/go-logr/logr"
	corev1 "k8s.io/api/core/v1"
	metav1 "k8s.io/apimachinery/pkg/apis/meta/v1"
	"k8s.io/apimachinery/pkg/types"
	"sigs.k8s.io/controller-runtime/pkg/reconcile"

	datadoghqv1alpha1 "github.com/DataDog/extendeddaemonset/api/v1alpha1"
	"github.com/DataDog/extendeddaemonset/pkg/controller/utils/comparison"
	"github.com/DataDog/extendeddaemonset/zzverif/fakeapi"
)

// zzTemplate returns one of the pod templates of the harness alphabet (they differ in the image).
func zzTemplate(id string) corev1.PodTemplateSpec {
	return corev1.PodTemplateSpec{
		ObjectMeta: metav1.ObjectMeta{Labels: map[string]string{"app": "agent"}},
		Spec:       corev1.PodSpec{Containers: []corev1.Container{{Name: "agent", Image: "agent:" + id}}},
	}
}

// zzEDS builds a defaulted ExtendedDaemonSet with the given template.
func zzEDS(ns, name, tpl string, canary *datadoghqv1alpha1.ExtendedDaemonSetSpecStrategyCanary) *datadoghqv1alpha1.ExtendedDaemonSet {
	ds := &datadoghqv1alpha1.ExtendedDaemonSet{
		ObjectMeta: metav1.ObjectMeta{Name: name, Namespace: ns, UID: types.UID("uid-" + ns + "-" + name), Annotations: map[string]string{}},
		Spec:       datadoghqv1alpha1.ExtendedDaemonSetSpec{Template: zzTemplate(tpl)},
	}
	ds.Spec.Strategy.Canary = canary
	datadoghqv1alpha1.DefaultExtendedDaemonSetSpec(&ds.Spec, datadoghqv1alpha1.ExtendedDaemonSetSpecStrategyCanaryValidationModeAuto)
	return ds
}

// zzRS builds the replica set the controller itself would create for the template
// (real newReplicaSetFromInstance), named rsName and owned by ds.
func zzRS(ds *datadoghqv1alpha1.ExtendedDaemonSet, tpl, rsName string, created time.Time) *datadoghqv1alpha1.ExtendedDaemonSetReplicaSet {
	return zzRSOf(ds, zzTemplate(tpl), rsName, created)
}

// zzRSOf: the same for an arbitrary template.
func zzRSOf(ds *datadoghqv1alpha1.ExtendedDaemonSet, tpl corev1.PodTemplateSpec, rsName string, created time.Time) *datadoghqv1alpha1.ExtendedDaemonSetReplicaSet {
	tmp := ds.DeepCopy()
	tmp.Spec.Template = tpl
	tmp.Annotations = nil
	rs, err := newReplicaSetFromInstance(tmp)
	if err != nil {
		panic(err)
	}
	rs.Name = rsName
	rs.GenerateName = ""
	rs.UID = types.UID("uid-" + rsName)
	rs.CreationTimestamp = metav1.NewTime(created)
	ctrl := true
	rs.OwnerReferences = []metav1.OwnerReference{{APIVersion: "datadoghq.com/v1alpha1", Kind: "ExtendedDaemonSet", Name: ds.Name, UID: ds.UID, Controller: &ctrl, BlockOwnerDeletion: &ctrl}}
	return rs
}

func zzHash(tpl string) string {
	t := zzTemplate(tpl)
	h, _ := comparison.GenerateMD5PodTemplateSpec(&t)
	return h
}

func zzReconciler(c *fakeapi.Client) *Reconciler {
	return &Reconciler{
		options:  ReconcilerOptions{DefaultValidationMode: datadoghqv1alpha1.ExtendedDaemonSetSpecStrategyCanaryValidationModeAuto},
		client:   c,
		scheme:   c.Scheme(),
		log:      logr.Logger{},
		recorder: &fakeapi.Recorder{},
	}
}

func zzReconcile(r *Reconciler, ns, name string) (reconcile.Result, error) {
	return r.Reconcile(context.TODO(), reconcile.Request{NamespacedName: types.NamespacedName{Namespace: ns, Name: name}})
}

func zzStoredEDS(c *fakeapi.Client, ns, name string) *datadoghqv1alpha1.ExtendedDaemonSet {
	for _, e := range c.EDS {
		if e.Namespace == ns && e.Name == name {
			return e
		}
	}
	return nil
}

func zzImage(t *corev1.PodTemplateSpec) string {
	if len(t.Spec.Containers) == 0 {
		return ""
	}
	return t.Spec.Containers[0].Image
}

func zzSetCond(rs *datadoghqv1alpha1.ExtendedDaemonSetReplicaSet, t datadoghqv1alpha1.ExtendedDaemonSetReplicaSetConditionType, isTrue bool, at time.Time) {
	st := corev1.ConditionFalse
	if isTrue {
		st = corev1.ConditionTrue
	}
	rs.Status.Conditions = append(rs.Status.Conditions, datadoghqv1alpha1.ExtendedDaemonSetReplicaSetCondition{
		Type: t, Status: st, LastTransitionTime: metav1.NewTime(at), LastUpdateTime: metav1.NewTime(at),
	})
}
