//go:build verif

package extendeddaemonset

import (
	"time"

	metav1 "k8s.io/apimachinery/pkg/apis/meta/v1"

	datadoghqv1alpha1 "github.com/DataDog/extendeddaemonset/api/v1alpha1"
	"github.com/DataDog/extendeddaemonset/zzverif/fakeapi"
	"github.com/DataDog/extendeddaemonset/zzverif/nondet"
)

// ZZ_C13_createOrReuse: one reconcile from an arbitrary store satisfying the invariant
// "replica sets of one ExtendedDaemonSet have pairwise distinct template hashes":
// a replica set is created iff none matches spec.template, the created one is faithful,
// in-use replica sets are never deleted, others only when they report no pods.
func ZZ_C13_createOrReuse() {
	var canary *datadoghqv1alpha1.ExtendedDaemonSetSpecStrategyCanary
	if nondet.Bool("canaryStrategy") {
		canary = &datadoghqv1alpha1.ExtendedDaemonSetSpecStrategyCanary{Duration: &metav1.Duration{Duration: 10 * time.Minute}}
	}
	tpl := nondet.String("spec.template", "A", "B", "C")
	switch tpl { // concrete heap shape
	case "A":
		tpl = "A"
	case "B":
		tpl = "B"
	default:
		tpl = "C"
	}
	ds := zzEDS("ns", "foo", tpl, canary)
	// one peculiarity of the object at a time (kept exclusive to bound the number of paths):
	quirk := nondet.String("eds.quirk", "none", "stale-hash-annotation", "selector-edited", "reserved-label-own-name", "reserved-label-other-name", "rollout-frozen", "matching-replica-set-terminating")
	// a frozen rollout creates and deletes no pod; replica sets are created, promoted and collected as usual
	if quirk == "rollout-frozen" {
		ds.Annotations[datadoghqv1alpha1.ExtendedDaemonSetRolloutFrozenAnnotationKey] = "true"
	}
	// the object itself may carry a (stale) template-hash annotation, e.g. a manifest derived from an export
	if quirk == "stale-hash-annotation" {
		ds.Annotations[datadoghqv1alpha1.MD5ExtendedDaemonSetAnnotationKey] = "hash-of-a-previous-template"
	}
	// the object's own labels are copied onto its replica sets; one of them may be the reserved
	// name label (a manifest assembled from another ExtendedDaemonSet's): the replica set is still
	// filed under the name of its owner
	c := fakeapi.New()
	var present []string
	for _, id := range []string{"A", "B", "C"} {
		if !nondet.Bool("rs" + id + ".exists") {
			continue
		}
		rs := zzRS(ds, id, "foo-"+id, nondet.TimeSec("rs"+id+".created", -7200, 0))
		rs.Status.Desired = nondet.Int32("rs"+id+".desired", 0, 1000)
		rs.Status.Current = nondet.Int32("rs"+id+".current", 0, 1000)
		rs.Status.Ready = nondet.Int32("rs"+id+".ready", 0, 1000)
		rs.Status.Available = nondet.Int32("rs"+id+".available", 0, 1000)
		if nondet.Bool("rs" + id + ".failed") {
			zzSetCond(rs, datadoghqv1alpha1.ConditionTypeCanaryFailed, true, nondet.TimeSec("rs"+id+".failedAt", -600, 0))
		}
		c.ERS = append(c.ERS, rs)
		present = append(present, id)
	}
	// the replica set of spec.template may be under foreground deletion (deletionTimestamp set, held by a
	// finalizer while its pods run): it still exists, so no second one is created for its template
	if quirk == "matching-replica-set-terminating" {
		for _, rs := range c.ERS {
			if rs.Name == "foo-"+tpl {
				at := metav1.NewTime(nondet.Base().Add(-30 * time.Second))
				rs.DeletionTimestamp = &at
				rs.Finalizers = []string{"foregroundDeletion"}
			}
		}
	}
	switch quirk {
	case "reserved-label-own-name":
		ds.Labels = map[string]string{datadoghqv1alpha1.ExtendedDaemonSetNameLabelKey: "foo", "team": "x"}
	case "reserved-label-other-name":
		ds.Labels = map[string]string{datadoghqv1alpha1.ExtendedDaemonSetNameLabelKey: "bar", "team": "x"}
	}
	ds.Status.ActiveReplicaSet = nondet.String("status.active", "", "foo-A", "foo-B", "foo-C", "foo-gone")
	// everything of the ExtendedDaemonSet other than its pod template may have changed since the
	// replica sets were created (they keep a snapshot of spec.selector): a template still has its
	// replica set
	if quirk == "selector-edited" {
		ds.Spec.Selector = &metav1.LabelSelector{MatchLabels: map[string]string{"pool": "edited"}}
	}
	c.EDS = append(c.EDS, ds)

	before := map[string]*datadoghqv1alpha1.ExtendedDaemonSetReplicaSet{}
	for _, rs := range c.ERS {
		before[rs.Name] = rs.DeepCopy()
	}
	matching := false
	for _, id := range present {
		if id == tpl {
			matching = true
		}
	}

	_, err := zzReconcile(zzReconciler(c), "ns", "foo")
	// (a reconcile may legitimately report an error, e.g. no node available for a canary)
	nondet.Observe("error", err != nil)

	creates := 0
	for _, e := range c.Log {
		if e.Verb == "create" && e.Kind == "ExtendedDaemonSetReplicaSet" {
			creates++
			n := e.Obj.(*datadoghqv1alpha1.ExtendedDaemonSetReplicaSet)
			// faithful to the template it was created from
			nondet.Assert("C13.created.template", zzImage(&n.Spec.Template) == "agent:"+tpl)
			nondet.Assert("C13.created.hash", n.Spec.TemplateGeneration == zzHash(tpl) &&
				n.Annotations[datadoghqv1alpha1.MD5ExtendedDaemonSetAnnotationKey] == zzHash(tpl))
			nondet.Assert("C13.created.owned", len(n.OwnerReferences) == 1 && n.OwnerReferences[0].Kind == "ExtendedDaemonSet" &&
				n.OwnerReferences[0].Name == "foo" && n.OwnerReferences[0].UID == ds.UID && n.Namespace == "ns" &&
				n.Labels[datadoghqv1alpha1.ExtendedDaemonSetNameLabelKey] == "foo")
		}
	}
	// "at most one replica set is created while one exists"
	nondet.Assert("C13.create-iff-missing", (creates == 1) == !matching && creates <= 1)
	// invariant preserved: hashes of the stored replica sets stay pairwise distinct
	for i := range c.ERS {
		for j := i + 1; j < len(c.ERS); j++ {
			nondet.Assert("C13.distinct-hashes", c.ERS[i].Spec.TemplateGeneration != c.ERS[j].Spec.TemplateGeneration)
		}
	}
	st := zzStoredEDS(c, "ns", "foo")
	for _, e := range c.Log {
		if e.Verb != "delete" {
			continue
		}
		nondet.Assert("C13.delete.kind", e.Kind == "ExtendedDaemonSetReplicaSet")
		old := before[e.Name]
		nondet.Assert("C13.delete.known", old != nil)
		if old == nil {
			continue
		}
		// "never deletes the active replica set or the one matching spec.template"
		// (the replica set this reconcile makes or keeps active; a replica set that stops being
		// active in this very reconcile may be collected at once if it reports no pods)
		nondet.Assert("C13.delete.not-active", e.Name != st.Status.ActiveReplicaSet)
		nondet.Assert("C13.delete.not-uptodate", e.Name != "foo-"+tpl)
		// "deletes any other only when it reports zero desired, current, ready and available pods"
		nondet.Assert("C13.delete.only-empty", nondet.And(old.Status.Desired == 0, old.Status.Current == 0, old.Status.Ready == 0, old.Status.Available == 0))
	}
	nondet.Observe("creates", creates)
	nondet.Observe("active", st.Status.ActiveReplicaSet)
	nondet.Reach("C13.reuse", matching && creates == 0)
	nondet.Reach("C13.create", !matching && creates == 1)
	nondet.Reach("C13.deletes", c.Count("delete", "ExtendedDaemonSetReplicaSet") > 0)
	nondet.Reach("C13.active-gone", ds.Status.ActiveReplicaSet == "foo-gone" && matching)
}
