//go:build verif

package extendeddaemonset

import (
	"github.com/DataDog/extendeddaemonset/pkg/controller/utils/comparison"
	apiequality "k8s.io/apimachinery/pkg/api/equality"
	"time"

	metav1 "k8s.io/apimachinery/pkg/apis/meta/v1"

	datadoghqv1alpha1 "github.com/DataDog/extendeddaemonset/api/v1alpha1"
	"github.com/DataDog/extendeddaemonset/zzverif/fakeapi"
	"github.com/DataDog/extendeddaemonset/zzverif/nondet"
)

// zzFailedCanaryStore: ExtendedDaemonSet foo with template B under canary, active replica
// set foo-a (template A), canary replica set foo-b (template B) marked failed.
func zzFailedCanaryStore() (*fakeapi.Client, *datadoghqv1alpha1.ExtendedDaemonSet) {
	canary := &datadoghqv1alpha1.ExtendedDaemonSetSpecStrategyCanary{Duration: &metav1.Duration{Duration: 10 * time.Minute}}
	ds := zzEDS("ns", "foo", "B", canary)
	// canary age versus duration: elapsed or not
	createdB := nondet.TimeSec("rsB.created", -3600, 0)
	failedAt := nondet.TimeSec("failedAt", -3600, 0)
	// the two templates may differ in more than the pod spec: annotations (a config checksum, say),
	// an extra label — the rollback restores the whole template of the active replica set
	tplA := zzTemplate("A")
	if nondet.Bool("templatesDifferInMetadata") {
		tplA.Annotations = map[string]string{"checksum/config": "a"}
		// (the CRD exposes the whole ObjectMeta of the template: a namespace and a generateName may be there)
		tplA.Namespace, tplA.GenerateName = "ns2", "agent-"
		ds.Spec.Template.Namespace, ds.Spec.Template.GenerateName = "ns2", "agent-"
		ds.Spec.Template.Annotations = map[string]string{"checksum/config": "b", "canary-only": "x"}
		ds.Spec.Template.Labels["track"] = "next"
	}
	rsA := zzRSOf(ds, tplA, "foo-a", nondet.Base().Add(-24*time.Hour))
	rsB := zzRSOf(ds, ds.Spec.Template, "foo-b", createdB)
	zzSetCond(rsB, datadoghqv1alpha1.ConditionTypeCanaryFailed, true, failedAt)
	// somebody may be getting rid of the bad canary by hand (foreground deletion: deletionTimestamp set, a
	// finalizer keeps it listed): it is still the failed canary, the rollback still happens
	if nondet.Bool("rsB.underForegroundDeletion") {
		t := metav1.NewTime(nondet.Base().Add(-10 * time.Second))
		rsB.DeletionTimestamp = &t
		rsB.Finalizers = []string{"foregroundDeletion"}
	}
	if nondet.Bool("rsB.pausedCond") {
		zzSetCond(rsB, datadoghqv1alpha1.ConditionTypeCanaryPaused, true, failedAt)
	}
	rsA.Status.Desired, rsA.Status.Current, rsA.Status.Ready, rsA.Status.Available = 3, 3, 3, 3
	rsB.Status.Desired, rsB.Status.Current = 1, 1
	if nondet.Bool("ann.paused") {
		ds.Annotations[datadoghqv1alpha1.ExtendedDaemonSetCanaryPausedAnnotationKey] = "true"
	}
	if nondet.Bool("ann.unpaused") {
		ds.Annotations[datadoghqv1alpha1.ExtendedDaemonSetCanaryUnpausedAnnotationKey] = "true"
	}
	// the active replica set may itself have been promoted by `canary validate` in its day: the
	// annotation naming it is still there (nothing removes it) and says nothing about this canary
	if nondet.Bool("ann.validNamesTheActiveReplicaSet") {
		ds.Annotations[datadoghqv1alpha1.ExtendedDaemonSetCanaryValidAnnotationKey] = "foo-a"
	}
	ds.Status.ActiveReplicaSet = "foo-a"
	ds.Status.State = datadoghqv1alpha1.ExtendedDaemonSetStatusStateCanary
	ds.Status.Desired, ds.Status.Current, ds.Status.Ready, ds.Status.Available, ds.Status.UpToDate = 4, 4, 3, 3, 1
	ds.Status.Canary = &datadoghqv1alpha1.ExtendedDaemonSetStatusCanary{ReplicaSet: "foo-b", Nodes: []string{"node1"}}
	c := fakeapi.New()
	c.EDS = append(c.EDS, ds)
	// a third replica set — an older version that still reports a pod, so it is not collected yet — may be
	// listed before the others or after them: it plays no part in the rollback
	switch nondet.String("olderReplicaSet", "none", "listed-first", "listed-last") {
	case "listed-first":
		rsOld := zzRS(ds, "C", "foo-0old", nondet.Base().Add(-48*time.Hour))
		rsOld.Status.Desired, rsOld.Status.Current, rsOld.Status.Ready, rsOld.Status.Available = 0, 1, 1, 1
		c.ERS = append(c.ERS, rsOld, rsA, rsB)
	case "listed-last":
		rsOld := zzRS(ds, "C", "foo-zold", nondet.Base().Add(-48*time.Hour))
		rsOld.Status.Desired, rsOld.Status.Current, rsOld.Status.Ready, rsOld.Status.Available = 0, 1, 1, 1
		c.ERS = append(c.ERS, rsA, rsB, rsOld)
	default:
		c.ERS = append(c.ERS, rsA, rsB)
	}
	return c, ds
}

// ZZ_C07_rollbackWrites: the reconcile that sees the failed canary clears status.canary,
// keeps status.activeReplicaSet, reports Canary Failed and restores spec.template.
func ZZ_C07_rollbackWrites() {
	c, _ := zzFailedCanaryStore()
	r := zzReconciler(c)
	_, err := zzReconcile(r, "ns", "foo")
	nondet.Assert("C07.rollback.noerror", err == nil)

	var statusIdx, specIdx = -1, -1
	for i, e := range c.Log {
		if e.Kind != "ExtendedDaemonSet" {
			continue
		}
		if e.Verb == "status-update" && statusIdx < 0 {
			statusIdx = i
		}
		if e.Verb == "update" && specIdx < 0 {
			specIdx = i
		}
	}
	nondet.Assert("C07.rollback.status-written", statusIdx >= 0)
	nondet.Assert("C07.rollback.spec-written", specIdx > statusIdx)
	if statusIdx >= 0 {
		w := c.Log[statusIdx].Obj.(*datadoghqv1alpha1.ExtendedDaemonSet)
		nondet.Assert("C07.rollback.canary-cleared", w.Status.Canary == nil)
		nondet.Assert("C07.rollback.active-unchanged", w.Status.ActiveReplicaSet == "foo-a")
		nondet.Assert("C07.rollback.state", w.Status.State == datadoghqv1alpha1.ExtendedDaemonSetStatusStateCanaryFailed)
	}
	if specIdx >= 0 {
		w := c.Log[specIdx].Obj.(*datadoghqv1alpha1.ExtendedDaemonSet)
		nondet.Assert("C07.rollback.template-restored", zzImage(&w.Spec.Template) == "agent:A")
	}
	st := zzStoredEDS(c, "ns", "foo")
	for _, rs := range c.ERS {
		if rs.Name == "foo-a" {
			// "restores spec.template to the active replica set's template": all of it, so that the
			// restored template hashes to the active replica set again
			nondet.Assert("C07.rollback.whole-template-restored", apiequality.Semantic.DeepEqual(&st.Spec.Template, &rs.Spec.Template))
			h, _ := comparison.GenerateMD5PodTemplateSpec(&st.Spec.Template)
			nondet.Assert("C07.rollback.hash-of-active", h == rs.Spec.TemplateGeneration)
		}
	}
	nondet.Assert("C07.rollback.store", st.Status.Canary == nil && st.Status.ActiveReplicaSet == "foo-a" && zzImage(&st.Spec.Template) == "agent:A")
	// the failed replica set is not deleted by the reconcile that rolls back
	nondet.Assert("C07.rollback.failed-rs-kept", c.Count("delete", "ExtendedDaemonSetReplicaSet") == 0)
	// ... and the restored template is the active replica set's: the next reconcile finds it up to date —
	// no third replica set, no new canary, the active replica set stays active
	_, err2 := zzReconcile(zzReconciler(c), "ns", "foo")
	st2 := zzStoredEDS(c, "ns", "foo")
	nondet.Assert("C07.rollback.settled", err2 == nil && c.Count("create", "ExtendedDaemonSetReplicaSet") == 0 && st2.Status.Canary == nil && st2.Status.ActiveReplicaSet == "foo-a")
	nondet.Observe("active", st.Status.ActiveReplicaSet)
	nondet.Observe("image", zzImage(&st.Spec.Template))
	nondet.Reach("C07.rollback.done", statusIdx >= 0 && specIdx >= 0)
}

// ZZ_C07_recover2: the rollback completes when the status write succeeds and the spec
// write fails (or the controller stops between them): a second, fault-free reconcile by a
// fresh controller instance issues the spec write and reaches the failure-free store.
func ZZ_C07_recover2() {
	c, _ := zzFailedCanaryStore()
	c.InjectFaults = true
	r := zzReconciler(c)
	_, err1 := zzReconcile(r, "ns", "foo")
	faulted := false
	for _, e := range c.Log {
		if e.Failed {
			faulted = true
		}
	}
	nondet.Assert("C07.recover.error-reported", nondet.Implies(faulted, err1 != nil))

	// safety at the intermediate point: the active replica set never changes
	mid := zzStoredEDS(c, "ns", "foo")
	nondet.Assert("C07.recover.mid-active", mid.Status.ActiveReplicaSet == "foo-a")

	// fresh controller instance, no faults
	c.InjectFaults = false
	n1 := len(c.Log)
	r2 := zzReconciler(c)
	_, err2 := zzReconcile(r2, "ns", "foo")
	nondet.Assert("C07.recover.second-ok", err2 == nil)
	st := zzStoredEDS(c, "ns", "foo")
	nondet.Assert("C07.recover.final-template", zzImage(&st.Spec.Template) == "agent:A")
	nondet.Assert("C07.recover.final-status", st.Status.Canary == nil && st.Status.ActiveReplicaSet == "foo-a")
	_ = n1
	nondet.Observe("image", zzImage(&st.Spec.Template))
	nondet.Reach("C07.recover.spec-write-failed", faulted && zzImage(&mid.Spec.Template) == "agent:B" && mid.Status.Canary == nil)
	nondet.Reach("C07.recover.status-write-failed", faulted && mid.Status.Canary != nil)
	nondet.Reach("C07.recover.no-fault", !faulted)
}

// ZZ_C07_retention: a failed replica set is deleted only once it reports no pods and at
// least two minutes after it failed.
func ZZ_C07_retention() {
	now := nondet.TimeNs("now", -zzTenYears, zzTenYears)
	rs := &datadoghqv1alpha1.ExtendedDaemonSetReplicaSet{ObjectMeta: metav1.ObjectMeta{Name: "foo-b", Namespace: "ns"}}
	rs.Status.Desired = nondet.Int32("desired", 0, 100000)
	rs.Status.Current = nondet.Int32("current", 0, 100000)
	rs.Status.Ready = nondet.Int32("ready", 0, 100000)
	rs.Status.Available = nondet.Int32("available", 0, 100000)
	// other conditions the replica set may carry (a canary that failed while paused keeps both), in
	// either order: only the instant it FAILED counts
	otherFirst := nondet.Bool("pausedCond.listedFirst")
	pausedPresent := nondet.Bool("pausedCond.present")
	pausedAt := nondet.TimeNs("pausedAt", -zzTenYears, zzTenYears)
	pausedTrue := nondet.Bool("pausedCond.true")
	if pausedPresent && otherFirst {
		zzSetCond(rs, datadoghqv1alpha1.ConditionTypeCanaryPaused, pausedTrue, pausedAt)
	}
	failed := nondet.Bool("failed")
	failedAt := nondet.TimeNs("failedAt", -zzTenYears, zzTenYears)
	if nondet.Bool("failedCond.present") {
		zzSetCond(rs, datadoghqv1alpha1.ConditionTypeCanaryFailed, failed, failedAt)
	} else {
		failed = false
	}
	if pausedPresent && !otherFirst {
		zzSetCond(rs, datadoghqv1alpha1.ConditionTypeCanaryPaused, pausedTrue, pausedAt)
	}
	del := shouldDeleteERS(now, rs)
	empty := nondet.And(rs.Status.Desired == 0, rs.Status.Current == 0, rs.Status.Ready == 0, rs.Status.Available == 0)
	// "deleted only once it reports no pods"
	nondet.Assert("C07.retention.only-empty", nondet.Implies(del, empty))
	// "kept for at least two minutes after it failed"
	nondet.Assert("C07.retention.two-minutes", nondet.Implies(nondet.And(del, failed), !now.Before(failedAt.Add(2*time.Minute))))
	// and it is eventually collected
	nondet.Assert("C07.retention.collects", nondet.Implies(nondet.And(empty, nondet.Or(!failed, !now.Before(failedAt.Add(2*time.Minute)))), del))
	nondet.Observe("delete", del)
	nondet.Reach("C07.retention.kept-by-grace", nondet.And(!del, empty, failed))
	nondet.Reach("C07.retention.deleted-failed", nondet.And(del, failed))
}
