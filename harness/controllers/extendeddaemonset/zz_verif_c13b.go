//go:build verif

package extendeddaemonset

import (
	corev1 "k8s.io/api/core/v1"
	"time"

	apiequality "k8s.io/apimachinery/pkg/api/equality"

	datadoghqv1alpha1 "github.com/DataDog/extendeddaemonset/api/v1alpha1"
	"github.com/DataDog/extendeddaemonset/pkg/controller/utils/comparison"
	"github.com/DataDog/extendeddaemonset/zzverif/fakeapi"
	"github.com/DataDog/extendeddaemonset/zzverif/nondet"
)

// ZZ_C13_storedTemplateIsTheTemplate: "a replica set's template, its recorded hash ... always equal
// the template it was created from" — the whole template, metadata included: the CRD exposes the
// full ObjectMeta of the pod template, so spec.template may carry a namespace, a generateName,
// annotations (a name is blanked by defaulting before anything else happens, so it is left out).  No replica set exists; after the first reconcile the
// created replica set stores exactly spec.template and the hash of exactly that; a second
// reconcile finds it by that hash and creates nothing more.
func ZZ_C13_storedTemplateIsTheTemplate() {
	ds := zzEDS("ns", "foo", "A", nil)
	m := &ds.Spec.Template.ObjectMeta
	if nondet.Bool("template.namespace") {
		m.Namespace = "ns2"
	}
	if nondet.Bool("template.generateName") {
		m.GenerateName = "agent-"
	}
	if nondet.Bool("template.annotations") {
		m.Annotations = map[string]string{"team": "x"}
	}
	// the template may already list tolerations — a custom one, or one of those every daemon pod gets anyway
	// (a template written from the pod of a regular DaemonSet): they are part of the template all the same
	switch nondet.String("template.tolerations", "none", "custom", "standard-not-ready") {
	case "custom":
		ds.Spec.Template.Spec.Tolerations = []corev1.Toleration{{Key: "dedicated", Operator: corev1.TolerationOpExists}}
	case "standard-not-ready":
		ds.Spec.Template.Spec.Tolerations = []corev1.Toleration{{Key: "node.kubernetes.io/not-ready", Operator: corev1.TolerationOpExists, Effect: corev1.TaintEffectNoExecute},
			{Key: "dedicated", Operator: corev1.TolerationOpExists}}
	}
	want := ds.Spec.Template.DeepCopy()
	wantHash, _ := comparison.GenerateMD5PodTemplateSpec(want)
	c := fakeapi.New()
	c.EDS = append(c.EDS, ds)
	_, err := zzReconcile(zzReconciler(c), "ns", "foo")
	nondet.Assert("C13.stored.noerror", err == nil)
	creates := 0
	for _, e := range c.Log {
		if e.Verb == "create" && e.Kind == "ExtendedDaemonSetReplicaSet" {
			creates++
			n := e.Obj.(*datadoghqv1alpha1.ExtendedDaemonSetReplicaSet)
			nondet.Assert("C13.stored.whole-template", apiequality.Semantic.DeepEqual(&n.Spec.Template, want))
			nondet.Assert("C13.stored.hash-of-whole-template", n.Spec.TemplateGeneration == wantHash)
			got, _ := comparison.GenerateMD5PodTemplateSpec(&n.Spec.Template)
			nondet.Assert("C13.stored.hash-matches-stored-template", got == n.Spec.TemplateGeneration)
		}
	}
	nondet.Assert("C13.stored.created-once", creates == 1)
	zzReconcile(zzReconciler(c), "ns", "foo")
	nondet.Assert("C13.stored.reused", c.Count("create", "ExtendedDaemonSetReplicaSet") == 1)
	nondet.Reach("C13.stored.with-namespace", ds.Spec.Template.Namespace == "ns2" && creates == 1)
}

// ZZ_C13_sameNameInAnotherNamespace: "For each distinct pod template of an ExtendedDaemonSet at most one
// replica set is created while one exists ... never deletes ... any other only when ..." — the replica
// sets of an ExtendedDaemonSet are those of its own namespace.  ns/foo has template B and no replica
// set yet; ns2 holds a replica set of an ExtendedDaemonSet also called foo (same name label) with
// template B or A, reporting pods or not yet.  Reconciling ns/foo creates its own replica set for B in
// ns, names it in its status, and neither adopts, counts nor deletes the one in ns2.
func ZZ_C13_sameNameInAnotherNamespace() {
	ds := zzEDS("ns", "foo", "B", nil)
	other := zzEDS("ns2", "foo", "B", nil)
	otherTpl := "B"
	if nondet.Bool("otherHasAnotherTemplate") {
		otherTpl = "A"
	}
	rsOther := zzRS(other, otherTpl, "foo-x", nondet.Base().Add(-time.Hour))
	if nondet.Bool("otherReportsPods") {
		rsOther.Status.Desired, rsOther.Status.Current, rsOther.Status.Ready, rsOther.Status.Available = 3, 3, 3, 3
	}
	c := fakeapi.New()
	c.EDS = append(c.EDS, ds, other)
	c.ERS = append(c.ERS, rsOther)
	for i := 0; i < 2; i++ {
		_, err := zzReconcile(zzReconciler(c), "ns", "foo")
		nondet.Assert("C13.ns.noerror", err == nil)
	}
	st := zzStoredEDS(c, "ns", "foo")
	own := 0
	otherAlive := false
	for _, rs := range c.ERS {
		if rs.Namespace == "ns" {
			own++
			nondet.Assert("C13.ns.own-replicaset-is-the-active-one", st.Status.ActiveReplicaSet == rs.Name && rs.Spec.TemplateGeneration == zzHash("B"))
		}
		if rs.Namespace == "ns2" && rs.Name == "foo-x" {
			otherAlive = true
		}
	}
	nondet.Assert("C13.ns.one-own-replicaset-created", own == 1)
	nondet.Assert("C13.ns.other-namespace-untouched", otherAlive)
	nondet.Assert("C13.ns.counts-own-only", st.Status.Current == 0 && st.Status.Ready == 0 && st.Status.Available == 0)
	for _, e := range c.Writes() {
		nondet.Assert("C13.ns.writes-stay-in-the-namespace", e.Namespace == "ns")
	}
	nondet.Reach("C13.ns.same-template-elsewhere", otherTpl == "B" && own == 1)
}
