//go:build verif

package extendeddaemonset

import (
	apiequality "k8s.io/apimachinery/pkg/api/equality"

	datadoghqv1alpha1 "github.com/DataDog/extendeddaemonset/api/v1alpha1"
	"github.com/DataDog/extendeddaemonset/pkg/controller/utils/comparison"
	"github.com/DataDog/extendeddaemonset/zzverif/fakeapi"
	"github.com/DataDog/extendeddaemonset/zzverif/nondet"
)

// ZZ_C13_storedTemplateIsTheTemplate: "a replica set's template, its recorded hash ... always equal
// the template it was created from" — the whole template, metadata included: the CRD exposes the
// full ObjectMeta of the pod template, so spec.template may carry a namespace, a generateName,
// annotations (a name is blanked by defaulting before anything else happens, so it is left out).  No replica set exists; after the first reconcile the
// created replica set stores exactly spec.template and the hash of exactly that; a second
// reconcile finds it by that hash and creates nothing more.
func ZZ_C13_storedTemplateIsTheTemplate() {
	ds := zzEDS("ns", "foo", "A", nil)
	m := &ds.Spec.Template.ObjectMeta
	if nondet.Bool("template.namespace") {
		m.Namespace = "ns2"
	}
	if nondet.Bool("template.generateName") {
		m.GenerateName = "agent-"
	}
	if nondet.Bool("template.annotations") {
		m.Annotations = map[string]string{"team": "x"}
	}
	want := ds.Spec.Template.DeepCopy()
	wantHash, _ := comparison.GenerateMD5PodTemplateSpec(want)
	c := fakeapi.New()
	c.EDS = append(c.EDS, ds)
	_, err := zzReconcile(zzReconciler(c), "ns", "foo")
	nondet.Assert("C13.stored.noerror", err == nil)
	creates := 0
	for _, e := range c.Log {
		if e.Verb == "create" && e.Kind == "ExtendedDaemonSetReplicaSet" {
			creates++
			n := e.Obj.(*datadoghqv1alpha1.ExtendedDaemonSetReplicaSet)
			nondet.Assert("C13.stored.whole-template", apiequality.Semantic.DeepEqual(&n.Spec.Template, want))
			nondet.Assert("C13.stored.hash-of-whole-template", n.Spec.TemplateGeneration == wantHash)
			got, _ := comparison.GenerateMD5PodTemplateSpec(&n.Spec.Template)
			nondet.Assert("C13.stored.hash-matches-stored-template", got == n.Spec.TemplateGeneration)
		}
	}
	nondet.Assert("C13.stored.created-once", creates == 1)
	zzReconcile(zzReconciler(c), "ns", "foo")
	nondet.Assert("C13.stored.reused", c.Count("create", "ExtendedDaemonSetReplicaSet") == 1)
	nondet.Reach("C13.stored.with-namespace", ds.Spec.Template.Namespace == "ns2" && creates == 1)
}
