//go:build verif

package extendeddaemonset

import (
	metav1 "k8s.io/apimachinery/pkg/apis/meta/v1"

	datadoghqv1alpha1 "github.com/DataDog/extendeddaemonset/api/v1alpha1"
	"github.com/DataDog/extendeddaemonset/zzverif/nondet"
)

// ZZ_C08_state: status.state reflects the paused / frozen / canary-paused situation.
func ZZ_C08_state() {
	ann := map[string]string{}
	_, pausedVal := zzAnn(ann, "ruPaused", datadoghqv1alpha1.ExtendedDaemonSetRollingUpdatePausedAnnotationKey, "true", "false", "True")
	_, frozenVal := zzAnn(ann, "frozen", datadoghqv1alpha1.ExtendedDaemonSetRolloutFrozenAnnotationKey, "true", "false", "True")
	paused := pausedVal == "true"
	frozen := frozenVal == "true"

	// no canary in flight
	st := nonCanaryState(ann)
	want := datadoghqv1alpha1.ExtendedDaemonSetStatusStateRunning
	if frozen {
		want = datadoghqv1alpha1.ExtendedDaemonSetStatusStateRolloutFrozen
	} else if paused {
		want = datadoghqv1alpha1.ExtendedDaemonSetStatusStateRollingUpdatePaused
	}
	nondet.Assert("C08.state.noncanary", st == want)
	nondet.Observe("state", string(st))

	// canary in flight: manageStatus
	ds := &datadoghqv1alpha1.ExtendedDaemonSet{ObjectMeta: metav1.ObjectMeta{Name: "foo", Namespace: "ns", Annotations: ann}}
	upToDate := &datadoghqv1alpha1.ExtendedDaemonSetReplicaSet{ObjectMeta: metav1.ObjectMeta{Name: "foo-b", Namespace: "ns"}}
	isActive := nondet.Bool("canaryActive")
	isFailed := nondet.Bool("canaryFailed")
	isPaused := nondet.Bool("canaryPaused")
	status := &datadoghqv1alpha1.ExtendedDaemonSetStatus{}
	manageStatus(status, upToDate, isActive, isFailed, isPaused, datadoghqv1alpha1.ExtendedDaemonSetStatusReasonCLB, ds)
	switch {
	case isFailed:
		nondet.Assert("C08.state.failed", status.State == datadoghqv1alpha1.ExtendedDaemonSetStatusStateCanaryFailed && status.Canary == nil)
	case isActive && isPaused:
		nondet.Assert("C08.state.canary-paused", status.State == datadoghqv1alpha1.ExtendedDaemonSetStatusStateCanaryPaused && status.Reason == datadoghqv1alpha1.ExtendedDaemonSetStatusReasonCLB)
	case isActive:
		nondet.Assert("C08.state.canary", status.State == datadoghqv1alpha1.ExtendedDaemonSetStatusStateCanary && status.Reason == "")
	default:
		nondet.Assert("C08.state.default", status.State == want && status.Canary == nil)
	}
	nondet.Observe("state2", string(status.State))
	nondet.Reach("C08.state.frozen-and-paused", frozen && paused)
	nondet.Reach("C08.state.canary-paused", isActive && isPaused && !isFailed)
}
