//go:build verif

package extendeddaemonset

import (
	"time"

	corev1 "k8s.io/api/core/v1"
	metav1 "k8s.io/apimachinery/pkg/apis/meta/v1"

	datadoghqv1alpha1 "github.com/DataDog/extendeddaemonset/api/v1alpha1"
	"github.com/DataDog/extendeddaemonset/zzverif/fakeapi"
	"github.com/DataDog/extendeddaemonset/zzverif/nondet"
)

// ZZ_C08_state: status.state reflects the paused / frozen / canary-paused situation.
func ZZ_C08_state() {
	ann := map[string]string{}
	_, pausedVal := zzAnn(ann, "ruPaused", datadoghqv1alpha1.ExtendedDaemonSetRollingUpdatePausedAnnotationKey, "true", "false", "True")
	_, frozenVal := zzAnn(ann, "frozen", datadoghqv1alpha1.ExtendedDaemonSetRolloutFrozenAnnotationKey, "true", "false", "True")
	paused := pausedVal == "true"
	frozen := frozenVal == "true"

	// no canary in flight
	st := nonCanaryState(ann)
	want := datadoghqv1alpha1.ExtendedDaemonSetStatusStateRunning
	if frozen {
		want = datadoghqv1alpha1.ExtendedDaemonSetStatusStateRolloutFrozen
	} else if paused {
		want = datadoghqv1alpha1.ExtendedDaemonSetStatusStateRollingUpdatePaused
	}
	nondet.Assert("C08.state.noncanary", st == want)
	nondet.Observe("state", string(st))

	// canary in flight: manageStatus
	ds := &datadoghqv1alpha1.ExtendedDaemonSet{ObjectMeta: metav1.ObjectMeta{Name: "foo", Namespace: "ns", Annotations: ann}}
	upToDate := &datadoghqv1alpha1.ExtendedDaemonSetReplicaSet{ObjectMeta: metav1.ObjectMeta{Name: "foo-b", Namespace: "ns"}}
	isActive := nondet.Bool("canaryActive")
	isFailed := nondet.Bool("canaryFailed")
	isPaused := nondet.Bool("canaryPaused")
	status := &datadoghqv1alpha1.ExtendedDaemonSetStatus{}
	manageStatus(status, upToDate, isActive, isFailed, isPaused, datadoghqv1alpha1.ExtendedDaemonSetStatusReasonCLB, ds)
	switch {
	case isFailed:
		nondet.Assert("C08.state.failed", status.State == datadoghqv1alpha1.ExtendedDaemonSetStatusStateCanaryFailed && status.Canary == nil)
	case isActive && isPaused:
		nondet.Assert("C08.state.canary-paused", status.State == datadoghqv1alpha1.ExtendedDaemonSetStatusStateCanaryPaused && status.Reason == datadoghqv1alpha1.ExtendedDaemonSetStatusReasonCLB)
	case isActive:
		nondet.Assert("C08.state.canary", status.State == datadoghqv1alpha1.ExtendedDaemonSetStatusStateCanary && status.Reason == "")
	default:
		nondet.Assert("C08.state.default", status.State == want && status.Canary == nil)
	}
	nondet.Observe("state2", string(status.State))
	nondet.Reach("C08.state.frozen-and-paused", frozen && paused)
	nondet.Reach("C08.state.canary-paused", isActive && isPaused && !isFailed)
}

// ZZ_C08_canaryPausedReconcile: a canary whose duration has elapsed, paused by the annotation
// and/or by the replica set's own Canary-Paused condition (the annotation may also be present
// with another value): the real Reconcile does not promote it and reports "Canary Paused";
// explicit validation still promotes it.
func ZZ_C08_canaryPausedReconcile() {
	canary := &datadoghqv1alpha1.ExtendedDaemonSetSpecStrategyCanary{
		ValidationMode:     datadoghqv1alpha1.ExtendedDaemonSetSpecStrategyCanaryValidationModeAuto,
		Duration:           &metav1.Duration{Duration: 10 * time.Minute},
		NoRestartsDuration: &metav1.Duration{Duration: time.Minute},
	}
	ds := zzEDS("ns", "foo", "B", canary)
	c := fakeapi.New()
	rsA := zzRS(ds, "A", "foo-a", nondet.Base().Add(-24*time.Hour))
	rsA.Status.Desired, rsA.Status.Current, rsA.Status.Ready, rsA.Status.Available = 2, 2, 2, 2
	ageSec := nondet.Int("canaryAgeSec", 0, 1300)
	rsB := zzRS(ds, "B", "foo-b", nondet.Base().Add(-time.Duration(ageSec)*time.Second))
	condPaused := false
	if nondet.Bool("rsB.pausedCond.present") {
		condPaused = nondet.Bool("rsB.pausedCond")
		zzSetCond(rsB, datadoghqv1alpha1.ConditionTypeCanaryPaused, condPaused, nondet.Base().Add(-time.Minute))
	}
	annPaused := false
	if nondet.Bool("ann.paused.present") {
		v := nondet.String("ann.paused", "true", "false", "")
		ds.Annotations[datadoghqv1alpha1.ExtendedDaemonSetCanaryPausedAnnotationKey] = v
		annPaused = v == "true"
	}
	valid := nondet.Bool("ann.valid")
	if valid {
		ds.Annotations[datadoghqv1alpha1.ExtendedDaemonSetCanaryValidAnnotationKey] = "foo-b"
	}
	ds.Status.ActiveReplicaSet = "foo-a"
	ds.Status.Canary = &datadoghqv1alpha1.ExtendedDaemonSetStatusCanary{ReplicaSet: "foo-b", Nodes: []string{"node0"}}
	c.ERS = append(c.ERS, rsB, rsA)
	c.Nodes = append(c.Nodes, &corev1.Node{ObjectMeta: metav1.ObjectMeta{Name: "node0"}}, &corev1.Node{ObjectMeta: metav1.ObjectMeta{Name: "node1"}})
	c.EDS = append(c.EDS, ds)

	_, err := zzReconcile(zzReconciler(c), "ns", "foo")
	st := zzStoredEDS(c, "ns", "foo").Status
	paused := condPaused || annPaused
	nondet.Fact("paused", paused)
	nondet.Fact("valid", valid)
	nondet.Assert("C08.cr.noerror", err == nil)
	if paused && !valid {
		nondet.Assert("C08.cr.not-promoted", st.ActiveReplicaSet == "foo-a")
		nondet.Assert("C08.cr.state", st.State == datadoghqv1alpha1.ExtendedDaemonSetStatusStateCanaryPaused)
		nondet.Assert("C08.cr.canary-kept", st.Canary != nil && st.Canary.ReplicaSet == "foo-b")
	}
	if valid {
		nondet.Assert("C08.cr.validated", st.ActiveReplicaSet == "foo-b")
	}
	if !paused && !valid && ageSec < 600 {
		nondet.Assert("C08.cr.running-canary", st.ActiveReplicaSet == "foo-a" && st.State == datadoghqv1alpha1.ExtendedDaemonSetStatusStateCanary)
	}
	nondet.Observe("active", st.ActiveReplicaSet)
	nondet.Observe("state", string(st.State))
	nondet.Reach("C08.cr.paused-and-elapsed", paused && !valid && ageSec > 700)
	nondet.Reach("C08.cr.cond-paused-ann-other", condPaused && !annPaused && !valid && ageSec > 700 && len(ds.Annotations) > 0)
}
