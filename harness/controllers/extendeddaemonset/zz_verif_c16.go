//go:build verif

package extendeddaemonset

import (
	"time"

	corev1 "k8s.io/api/core/v1"
	metav1 "k8s.io/apimachinery/pkg/apis/meta/v1"
	"k8s.io/apimachinery/pkg/util/intstr"

	datadoghqv1alpha1 "github.com/DataDog/extendeddaemonset/api/v1alpha1"
	"github.com/DataDog/extendeddaemonset/zzverif/fakeapi"
	"github.com/DataDog/extendeddaemonset/zzverif/nondet"
)

// ZZ_C16_noPanicCanarySelection: "every controller entry point must return a result or an error
// but never crash" — the selection of the canary nodes.  A defaulted ExtendedDaemonSet whose
// template was changed (active replica set for A, replica set for B already created) is reconciled
// on a cluster of 0, 1 or 2 nodes; the canary block asks for 0..3 nodes or a percentage, spreads
// them by no key / a key the nodes carry / a key no node carries, and restricts them by no selector /
// a selector matching some nodes / a selector matching none; the recorded canary nodes are absent,
// name a node that exists or name one that is gone.  Reconcile runs to completion (a panic in the
// interpreted code is a violation) and the object is still stored.
func ZZ_C16_noPanicCanarySelection() {
	canary := &datadoghqv1alpha1.ExtendedDaemonSetSpecStrategyCanary{Duration: &metav1.Duration{Duration: 10 * time.Minute}}
	switch nondet.String("replicas", "0", "1", "3", "50%", "0%") {
	case "0":
		v := intstr.FromInt(0)
		canary.Replicas = &v
	case "1":
		v := intstr.FromInt(1)
		canary.Replicas = &v
	case "3":
		v := intstr.FromInt(3)
		canary.Replicas = &v
	case "50%":
		v := intstr.FromString("50%")
		canary.Replicas = &v
	default:
		v := intstr.FromString("0%")
		canary.Replicas = &v
	}
	switch nondet.String("antiAffinityKeys", "none", "carried", "missing") {
	case "carried":
		canary.NodeAntiAffinityKeys = []string{"zone"}
	case "missing":
		canary.NodeAntiAffinityKeys = []string{"rack", "zone"}
	}
	switch nondet.String("nodeSelector", "none", "some", "nothing") {
	case "some":
		canary.NodeSelector = &metav1.LabelSelector{MatchLabels: map[string]string{"canary": "yes"}}
	case "nothing":
		canary.NodeSelector = &metav1.LabelSelector{MatchLabels: map[string]string{"canary": "never"}}
	}
	ds := zzEDS("ns", "foo", "B", canary)
	c := fakeapi.New()
	nNodes := zzConcInt(nondet.Int("nodes", 0, 2), 0, 2)
	for i := 0; i < nNodes; i++ {
		n := &corev1.Node{ObjectMeta: metav1.ObjectMeta{Name: "node" + string(rune('0'+i)), Labels: map[string]string{}}}
		if nondet.Bool(n.Name + ".zone") {
			n.Labels["zone"] = "a"
		}
		if nondet.Bool(n.Name + ".canary") {
			n.Labels["canary"] = "yes"
		}
		c.Nodes = append(c.Nodes, n)
	}
	rsA := zzRS(ds, "A", "foo-a", nondet.Base().Add(-time.Hour))
	rsB := zzRS(ds, "B", "foo-b", nondet.Base().Add(-time.Minute))
	ds.Status.ActiveReplicaSet = "foo-a"
	switch nondet.String("recorded", "none", "empty", "node0", "gone") {
	case "empty":
		ds.Status.Canary = &datadoghqv1alpha1.ExtendedDaemonSetStatusCanary{ReplicaSet: "foo-b"}
	case "node0":
		ds.Status.Canary = &datadoghqv1alpha1.ExtendedDaemonSetStatusCanary{ReplicaSet: "foo-b", Nodes: []string{"node0"}}
	case "gone":
		ds.Status.Canary = &datadoghqv1alpha1.ExtendedDaemonSetStatusCanary{ReplicaSet: "foo-b", Nodes: []string{"node9"}}
	}
	c.EDS = append(c.EDS, ds)
	c.ERS = append(c.ERS, rsA, rsB)

	_, err := zzReconcile(zzReconciler(c), "ns", "foo")
	nondet.Observe("error", err != nil)

	st := zzStoredEDS(c, "ns", "foo")
	nondet.Assert("C16.canary-selection.object-kept", st != nil)
	nondet.Reach("C16.canary-selection.spread-with-nothing-selected-yet", len(canary.NodeAntiAffinityKeys) > 0 && nNodes > 0 && err == nil && st.Status.Canary != nil && len(st.Status.Canary.Nodes) > 0)
	nondet.Reach("C16.canary-selection.not-enough-nodes", err != nil)
}
