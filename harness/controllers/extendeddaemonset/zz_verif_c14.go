//go:build verif

package extendeddaemonset

import (
	"time"

	corev1 "k8s.io/api/core/v1"
	metav1 "k8s.io/apimachinery/pkg/apis/meta/v1"

	datadoghqv1alpha1 "github.com/DataDog/extendeddaemonset/api/v1alpha1"
	"github.com/DataDog/extendeddaemonset/zzverif/fakeapi"
	"github.com/DataDog/extendeddaemonset/zzverif/nondet"
)

func zzCounters(rs *datadoghqv1alpha1.ExtendedDaemonSetReplicaSet, label string) {
	rs.Status.Desired = nondet.Int32(label+".desired", 0, 1000000)
	rs.Status.Current = nondet.Int32(label+".current", 0, 1000000)
	rs.Status.Ready = nondet.Int32(label+".ready", 0, 1000000)
	rs.Status.Available = nondet.Int32(label+".available", 0, 1000000)
	rs.Status.IgnoredUnresponsiveNodes = nondet.Int32(label+".ignored", 0, 1000000)
}

func zzEDSCondTrue(st *datadoghqv1alpha1.ExtendedDaemonSetStatus, t datadoghqv1alpha1.ExtendedDaemonSetConditionType) bool {
	for _, c := range st.Conditions {
		if c.Type == t {
			return c.Status == corev1.ConditionTrue
		}
	}
	return false
}

// ZZ_C14_statusFn: the status written by a reconcile equals the documented function of the
// replica sets' statuses, roles, conditions and annotations.
func ZZ_C14_statusFn() {
	var canary *datadoghqv1alpha1.ExtendedDaemonSetSpecStrategyCanary
	withCanary := nondet.Bool("canaryStrategy")
	if withCanary {
		canary = &datadoghqv1alpha1.ExtendedDaemonSetSpecStrategyCanary{Duration: &metav1.Duration{Duration: 10 * time.Minute}}
	}
	newTemplate := nondet.Bool("templateChanged") // spec.template = B with replica set foo-b, else A
	tpl := "A"
	if newTemplate {
		tpl = "B"
	}
	ds := zzEDS("ns", "foo", tpl, canary)
	ds.Status.ActiveReplicaSet = "foo-a"
	// what the previous reconcile left in the status must not leak into the new one
	ds.Status.State = datadoghqv1alpha1.ExtendedDaemonSetStatusState(nondet.String("prev.state", "", "Running", "Canary", "Canary Paused", "Canary Failed", "Rollout frozen"))
	ds.Status.Reason = datadoghqv1alpha1.ExtendedDaemonSetStatusReason(nondet.String("prev.reason", "", "CrashLoopBackOff", "OOMKilled"))
	if nondet.Bool("prev.pausedCond.present") {
		st := corev1.ConditionFalse
		if nondet.Bool("prev.pausedCond.true") {
			st = corev1.ConditionTrue
		}
		ds.Status.Conditions = append(ds.Status.Conditions, datadoghqv1alpha1.ExtendedDaemonSetCondition{Type: datadoghqv1alpha1.ConditionTypeEDSCanaryPaused, Status: st, Reason: "CrashLoopBackOff",
			LastTransitionTime: metav1.NewTime(nondet.Base().Add(-time.Hour)), LastUpdateTime: metav1.NewTime(nondet.Base().Add(-time.Hour))})
	}
	// the canary block left by the previous reconcile names this canary's replica set, or the one
	// of an earlier canary that another template edit superseded
	switch nondet.String("prev.canaryBlock", "none", "foo-b", "foo-earlier") {
	case "foo-b":
		ds.Status.Canary = &datadoghqv1alpha1.ExtendedDaemonSetStatusCanary{ReplicaSet: "foo-b", Nodes: []string{"node0"}}
	case "foo-earlier":
		ds.Status.Canary = &datadoghqv1alpha1.ExtendedDaemonSetStatusCanary{ReplicaSet: "foo-earlier", Nodes: []string{"node0"}}
	}
	nondet.Fact("noCanaryStrategy", !withCanary)
	nondet.Fact("prevCanaryBlock", ds.Status.Canary != nil)
	nondet.Fact("prevReason", ds.Status.Reason != "")
	c := fakeapi.New()
	rsA := zzRS(ds, "A", "foo-a", nondet.Base().Add(-24*time.Hour))
	zzCounters(rsA, "rsA")
	c.ERS = append(c.ERS, rsA)
	var rsB *datadoghqv1alpha1.ExtendedDaemonSetReplicaSet
	condFailed, condPaused := false, false
	if newTemplate {
		rsB = zzRS(ds, "B", "foo-b", nondet.TimeSec("rsB.created", -1200, 0))
		zzCounters(rsB, "rsB")
		if nondet.Bool("rsB.failedCond") {
			condFailed = true
			zzSetCond(rsB, datadoghqv1alpha1.ConditionTypeCanaryFailed, true, nondet.Base().Add(-time.Minute))
		}
		switch nondet.String("rsB.pausedCond", "absent", "true", "false") {
		case "true":
			condPaused = true
			zzSetCond(rsB, datadoghqv1alpha1.ConditionTypeCanaryPaused, true, nondet.Base().Add(-time.Minute))
			rsB.Status.Conditions[len(rsB.Status.Conditions)-1].Reason = "CrashLoopBackOff"
		case "false":
			// left by a pause that was lifted: it says nothing about a pause by annotation
			zzSetCond(rsB, datadoghqv1alpha1.ConditionTypeCanaryPaused, false, nondet.Base().Add(-time.Minute))
		}
		c.ERS = append(c.ERS, rsB)
	}
	var rsC *datadoghqv1alpha1.ExtendedDaemonSetReplicaSet
	if nondet.Bool("leftover") {
		rsC = zzRS(ds, "C", "foo-c", nondet.Base().Add(-48*time.Hour))
		zzCounters(rsC, "rsC")
		nondet.Assume(nondet.Or(rsC.Status.Desired > 0, rsC.Status.Current > 0, rsC.Status.Ready > 0, rsC.Status.Available > 0)) // else it is collected
		c.ERS = append(c.ERS, rsC)
	}
	annPaused := nondet.Bool("ann.canaryPaused")
	if annPaused {
		ds.Annotations[datadoghqv1alpha1.ExtendedDaemonSetCanaryPausedAnnotationKey] = "true"
	}
	ruPaused := nondet.Bool("ann.ruPaused")
	if ruPaused {
		ds.Annotations[datadoghqv1alpha1.ExtendedDaemonSetRollingUpdatePausedAnnotationKey] = "true"
	}
	frozen := nondet.Bool("ann.frozen")
	if frozen {
		ds.Annotations[datadoghqv1alpha1.ExtendedDaemonSetRolloutFrozenAnnotationKey] = "true"
	}
	for _, n := range []string{"node0", "node1"} {
		c.Nodes = append(c.Nodes, &corev1.Node{ObjectMeta: metav1.ObjectMeta{Name: n}})
	}
	c.EDS = append(c.EDS, ds)

	_, err := zzReconcile(zzReconciler(c), "ns", "foo")
	nondet.Assert("C14.status.noerror", err == nil)
	// the status "after the reconcile": what it wrote, or — when it found nothing to change — what is stored
	var w *datadoghqv1alpha1.ExtendedDaemonSetStatus
	for _, e := range c.Log {
		if e.Verb == "status-update" && e.Kind == "ExtendedDaemonSet" {
			w = &e.Obj.(*datadoghqv1alpha1.ExtendedDaemonSet).Status
			break
		}
	}
	if w == nil {
		w = &zzStoredEDS(c, "ns", "foo").Status
	}
	// ---- reference, from the statement ----
	sumCur, sumReady, sumAvail := rsA.Status.Current, rsA.Status.Ready, rsA.Status.Available
	for _, rs := range []*datadoghqv1alpha1.ExtendedDaemonSetReplicaSet{rsB, rsC} {
		if rs != nil {
			sumCur += rs.Status.Current
			sumReady += rs.Status.Ready
			sumAvail += rs.Status.Available
		}
	}
	nondet.Assert("C14.status.sums", nondet.And(w.Current == sumCur, w.Ready == sumReady, w.Available == sumAvail))
	active := rsA
	if w.ActiveReplicaSet == "foo-b" {
		active = rsB
	}
	nondet.Assert("C14.status.active-exists", active != nil && (w.ActiveReplicaSet == "foo-a" || w.ActiveReplicaSet == "foo-b"))
	if active == nil {
		return
	}
	upToDate := rsA
	if newTemplate {
		upToDate = rsB
	}
	failed := withCanary && condFailed
	paused := withCanary && (annPaused || condPaused)
	canaryActive := withCanary && !failed && active != upToDate
	wantDesired, wantUpToDate := active.Status.Desired, active.Status.Current
	if canaryActive {
		wantDesired += upToDate.Status.Desired
		wantUpToDate = upToDate.Status.Current
	}
	// ignoredUnresponsiveNodes follows desired: the active replica set's, plus the canary's during a canary
	wantIgnored := active.Status.IgnoredUnresponsiveNodes
	if canaryActive {
		wantIgnored += upToDate.Status.IgnoredUnresponsiveNodes
	}
	nondet.Assert("C14.status.ignored-nodes", w.IgnoredUnresponsiveNodes == wantIgnored)
	nondet.Assert("C14.status.desired", w.Desired == wantDesired)
	nondet.Assert("C14.status.uptodate", w.UpToDate == wantUpToDate)
	plain := datadoghqv1alpha1.ExtendedDaemonSetStatusStateRunning
	if frozen {
		plain = datadoghqv1alpha1.ExtendedDaemonSetStatusStateRolloutFrozen
	} else if ruPaused {
		plain = datadoghqv1alpha1.ExtendedDaemonSetStatusStateRollingUpdatePaused
	}
	wantState := plain
	switch {
	case failed:
		wantState = datadoghqv1alpha1.ExtendedDaemonSetStatusStateCanaryFailed
	case canaryActive && paused:
		wantState = datadoghqv1alpha1.ExtendedDaemonSetStatusStateCanaryPaused
	case canaryActive:
		wantState = datadoghqv1alpha1.ExtendedDaemonSetStatusStateCanary
	}
	nondet.Assert("C14.status.state", w.State == wantState)
	nondet.Assert("C14.status.canary-block", (w.Canary != nil) == canaryActive)
	if canaryActive {
		nondet.Assert("C14.status.canary-rs", w.Canary.ReplicaSet == "foo-b" && len(w.Canary.Nodes) == 1)
	}
	if withCanary {
		nondet.Assert("C14.status.cond-failed", zzEDSCondTrue(w, datadoghqv1alpha1.ConditionTypeEDSCanaryFailed) == failed)
		nondet.Assert("C14.status.cond-paused", zzEDSCondTrue(w, datadoghqv1alpha1.ConditionTypeEDSCanaryPaused) == (paused && !failed))
	}
	if canaryActive && paused && condPaused {
		nondet.Assert("C14.status.reason", w.Reason == "CrashLoopBackOff")
	}
	if canaryActive && paused {
		// the Canary-Paused condition gives the same reason as status.reason, whatever reason it
		// carried while it was already True
		for _, c := range w.Conditions {
			if c.Type == datadoghqv1alpha1.ConditionTypeEDSCanaryPaused {
				nondet.Assert("C14.status.cond-paused-reason", c.Reason == string(w.Reason))
			}
		}
	}
	if canaryActive && paused && !condPaused {
		// paused by the annotation alone, without a reason annotation
		nondet.Assert("C14.status.reason-annotation", w.Reason == datadoghqv1alpha1.ExtendedDaemonSetStatusReasonUnknown)
	}
	// "state, reason ... agree with the canary facts and annotations": a reason is reported only
	// for a paused canary, whatever the previous status said
	if !(canaryActive && paused) {
		nondet.Assert("C14.status.no-stale-reason", w.Reason == "")
	}
	nondet.Observe("state", string(w.State))
	nondet.Observe("active", w.ActiveReplicaSet)
	nondet.Reach("C14.status.canary", canaryActive && !paused)
	nondet.Reach("C14.status.resumed-after-pause", canaryActive && !paused && ds.Status.Reason != "")
	nondet.Reach("C14.status.canary-paused", canaryActive && paused)
	nondet.Reach("C14.status.failed", failed)
	nondet.Reach("C14.status.promoted", newTemplate && w.ActiveReplicaSet == "foo-b")
	nondet.Reach("C14.status.frozen", !canaryActive && !failed && frozen)
}

// ZZ_C14_sumsCountEveryListedReplicaSet: "current, ready and available are sums over replica sets" —
// over every replica set of the ExtendedDaemonSet that exists, whatever it is going through: the
// active one, a leftover one that still reports pods (rolling update in progress or paused), and the
// latter possibly being deleted in the foreground (deletionTimestamp set, finalizer, still listed,
// its pods still there).  Arbitrary small counters; no canary strategy.
func ZZ_C14_sumsCountEveryListedReplicaSet() {
	ds := zzEDS("ns", "foo", "B", nil)
	c := fakeapi.New()
	rsB := zzRS(ds, "B", "foo-b", nondet.Base().Add(-time.Hour))
	rsA := zzRS(ds, "A", "foo-a", nondet.Base().Add(-24*time.Hour))
	rsB.Status.Desired = nondet.Int32("active.desired", 0, 5)
	rsB.Status.Current = nondet.Int32("active.current", 0, 5)
	rsB.Status.Ready = nondet.Int32("active.ready", 0, 5)
	rsB.Status.Available = nondet.Int32("active.available", 0, 5)
	rsA.Status.Current = nondet.Int32("leftover.current", 0, 5)
	rsA.Status.Ready = nondet.Int32("leftover.ready", 0, 5)
	rsA.Status.Available = nondet.Int32("leftover.available", 0, 5)
	if nondet.Bool("leftoverTerminating") {
		t := metav1.NewTime(nondet.Base().Add(-10 * time.Second))
		rsA.DeletionTimestamp = &t
		rsA.Finalizers = []string{"foregroundDeletion"}
	}
	if nondet.Bool("rollingUpdatePaused") {
		ds.Annotations[datadoghqv1alpha1.ExtendedDaemonSetRollingUpdatePausedAnnotationKey] = "true"
	}
	ds.Status.ActiveReplicaSet = "foo-b"
	c.EDS = append(c.EDS, ds)
	if nondet.Bool("leftoverListedFirst") {
		c.ERS = append(c.ERS, rsA, rsB)
	} else {
		c.ERS = append(c.ERS, rsB, rsA)
	}
	_, err := zzReconcile(zzReconciler(c), "ns", "foo")
	nondet.Assert("C14.sums.noerror", err == nil)
	st := zzStoredEDS(c, "ns", "foo")
	stillThere := false
	for _, rs := range c.ERS {
		if rs.Name == "foo-a" {
			stillThere = true
		}
	}
	if stillThere {
		nondet.Assert("C14.sums.current", st.Status.Current == rsB.Status.Current+rsA.Status.Current)
		nondet.Assert("C14.sums.ready", st.Status.Ready == rsB.Status.Ready+rsA.Status.Ready)
		nondet.Assert("C14.sums.available", st.Status.Available == rsB.Status.Available+rsA.Status.Available)
	}
	nondet.Assert("C14.sums.desired-and-uptodate-from-the-active-one", st.Status.Desired == rsB.Status.Desired && st.Status.UpToDate == rsB.Status.Current)
	nondet.Observe("current", int(st.Status.Current))
	nondet.Reach("C14.sums.leftover-terminating-with-pods", stillThere && rsA.DeletionTimestamp != nil && rsA.Status.Current > 0)
}
