//go:build verif

package extendeddaemonset

import (
	"time"

	corev1 "k8s.io/api/core/v1"
	metav1 "k8s.io/apimachinery/pkg/apis/meta/v1"

	datadoghqv1alpha1 "github.com/DataDog/extendeddaemonset/api/v1alpha1"
	"github.com/DataDog/extendeddaemonset/zzverif/fakeapi"
	"github.com/DataDog/extendeddaemonset/zzverif/nondet"
)

const zzTenYears = 10 * 365 * 24 * time.Hour

// zzAnn adds an annotation with a value drawn from the alphabet, or leaves it absent.
func zzAnn(m map[string]string, label, key string, alphabet ...string) (present bool, val string) {
	if nondet.Bool(label + ".present") {
		v := nondet.String(label, alphabet...)
		m[key] = v
		return true, v
	}
	return false, ""
}

// zzCond appends a replica-set condition of the given type with an arbitrary status.
func zzCond(rs *datadoghqv1alpha1.ExtendedDaemonSetReplicaSet, label string, t datadoghqv1alpha1.ExtendedDaemonSetReplicaSetConditionType) (present, isTrue bool, lastUpdate, lastTransition time.Time) {
	if !nondet.Bool(label + ".present") {
		return false, false, time.Time{}, time.Time{}
	}
	st := corev1.ConditionFalse
	isTrue = nondet.Bool(label + ".true")
	if isTrue {
		st = corev1.ConditionTrue
	}
	lastTransition = nondet.TimeNs(label+".transition", -zzTenYears, zzTenYears)
	lastUpdate = nondet.TimeNs(label+".update", -zzTenYears, zzTenYears)
	rs.Status.Conditions = append(rs.Status.Conditions, datadoghqv1alpha1.ExtendedDaemonSetReplicaSetCondition{
		Type: t, Status: st,
		LastTransitionTime: metav1.NewTime(lastTransition),
		LastUpdateTime:     metav1.NewTime(lastUpdate),
	})
	return true, isTrue, lastUpdate, lastTransition
}

// ZZ_C05_selectCurrent: the promotion rule of property C05, decided on
// selectCurrentReplicaSet for every combination of strategy, durations, instants,
// conditions and annotations.
func ZZ_C05_selectCurrent() {
	now := nondet.TimeNs("now", -zzTenYears, zzTenYears)

	ds := &datadoghqv1alpha1.ExtendedDaemonSet{ObjectMeta: metav1.ObjectMeta{Name: "foo", Namespace: "ns", Annotations: map[string]string{}}}
	mode := nondet.String("mode", "none", "auto", "manual")
	var duration, noRestarts time.Duration
	haveNoRestarts := false
	if mode != "none" {
		c := &datadoghqv1alpha1.ExtendedDaemonSetSpecStrategyCanary{ValidationMode: datadoghqv1alpha1.ExtendedDaemonSetSpecStrategyCanaryValidationMode(mode)}
		if mode == "auto" {
			if nondet.Bool("duration.set") {
				duration = nondet.Duration("duration", -zzTenYears, zzTenYears)
				c.Duration = &metav1.Duration{Duration: duration}
			}
			if nondet.Bool("noRestarts.set") {
				c.NoRestartsDuration = &metav1.Duration{Duration: nondet.Duration("noRestarts", -zzTenYears, zzTenYears)}
			}
		}
		ds.Spec.Strategy.Canary = c
		// the controller only reaches the promotion code with a defaulted, validated spec
		datadoghqv1alpha1.DefaultExtendedDaemonSetSpec(&ds.Spec, datadoghqv1alpha1.ExtendedDaemonSetSpecStrategyCanaryValidationModeAuto)
		nondet.Assume(datadoghqv1alpha1.ValidateExtendedDaemonSetSpec(&ds.Spec) == nil)
		if c.Duration != nil {
			duration = c.Duration.Duration
		}
		if c.NoRestartsDuration != nil {
			haveNoRestarts = true
			noRestarts = c.NoRestartsDuration.Duration
		}
	}

	created := nondet.TimeNs("created", -zzTenYears, zzTenYears)
	upToDate := &datadoghqv1alpha1.ExtendedDaemonSetReplicaSet{ObjectMeta: metav1.ObjectMeta{Name: "foo-b", Namespace: "ns", CreationTimestamp: metav1.NewTime(created)}}
	restartPresent, _, lastRestart, _ := zzCond(upToDate, "condRestart", datadoghqv1alpha1.ConditionTypePodRestarting)
	_, condPaused, _, _ := zzCond(upToDate, "condPaused", datadoghqv1alpha1.ConditionTypeCanaryPaused)
	_, condFailed, _, _ := zzCond(upToDate, "condFailed", datadoghqv1alpha1.ConditionTypeCanaryFailed)

	var active *datadoghqv1alpha1.ExtendedDaemonSetReplicaSet
	switch nondet.String("active", "missing", "same", "other") {
	case "same":
		active = upToDate
	case "other":
		active = &datadoghqv1alpha1.ExtendedDaemonSetReplicaSet{ObjectMeta: metav1.ObjectMeta{Name: "foo-a", Namespace: "ns"}}
	}

	pausedPresent, pausedVal := zzAnn(ds.Annotations, "annPaused", datadoghqv1alpha1.ExtendedDaemonSetCanaryPausedAnnotationKey, "true", "false", "True", "")
	zzAnn(ds.Annotations, "annUnpaused", datadoghqv1alpha1.ExtendedDaemonSetCanaryUnpausedAnnotationKey, "true", "false")
	validPresent, validVal := zzAnn(ds.Annotations, "annValid", datadoghqv1alpha1.ExtendedDaemonSetCanaryValidAnnotationKey, "foo-b", "foo-a", "true", "")

	// ---- the real code ----
	cur, requeueAfter := selectCurrentReplicaSet(ds, active, upToDate, now)

	// ---- facts of the scenario, written from the statement ----
	noCanary := mode == "none"
	auto := mode == "auto"
	valid := nondet.And(validPresent, validVal == "foo-b")
	paused := nondet.Or(nondet.And(pausedPresent, pausedVal == "true"), condPaused)
	failed := condFailed
	endInstant := created.Add(duration)
	// "the canary duration has elapsed": now is not before created+duration (boundary accepted either way)
	elapsed := nondet.And(auto, !now.Before(endInstant))
	quiet := true
	quietEnd := endInstant
	if haveNoRestarts && restartPresent && !lastRestart.IsZero() {
		quietEnd = lastRestart.Add(noRestarts)
		quiet = !now.Before(quietEnd)
	}
	rule := nondet.Or(noCanary, valid, nondet.And(auto, elapsed, quiet, !paused, !failed))

	promoted := active != nil && active != upToDate && cur == upToDate

	nondet.Fact("noCanary", noCanary)
	nondet.Fact("auto", auto)
	nondet.Fact("valid", valid)
	nondet.Fact("ended", elapsed)
	nondet.Fact("quiet", quiet)
	nondet.Fact("paused", paused)
	nondet.Fact("failed", failed)
	nondet.Fact("promoted", promoted)

	nondet.Observe("current", cur.Name)
	nondet.Observe("requeueAfter", int64(requeueAfter))

	// "switches ... only if" the rule allows it
	nondet.Assert("C05.rule", nondet.Implies(promoted, rule))
	// "in manual validation mode elapsed time alone never promotes"
	nondet.Assert("C05.manual", nondet.Implies(nondet.And(promoted, mode == "manual"), valid))
	// "if the recorded active replica set no longer exists the matching one is adopted directly"
	if active == nil {
		nondet.Assert("C05.adopt", cur == upToDate)
	}
	if active == upToDate {
		nondet.Assert("C05.same", cur == upToDate)
	}
	// the current replica set is always one of the two candidates
	nondet.Assert("C05.candidates", cur == upToDate || (active != nil && cur == active))

	// wake-up (anchor: RequeueAfter): when only time is missing, the reconcile is
	// re-triggered no later than the instant at which the rule becomes satisfiable.
	if active != nil && active != upToDate && mode == "auto" {
		remaining := endInstant.Sub(now)
		if quietEnd.After(endInstant) {
			remaining = quietEnd.Sub(now)
		}
		// (negative durations make the code's own estimate pessimistic; the statement is silent, so they are left out)
		waiting := nondet.And(!promoted, !valid, !paused, !failed, remaining > 0, duration >= 0, noRestarts >= 0)
		nondet.Assert("C05.wakeup", nondet.Implies(waiting, nondet.And(requeueAfter > 0, requeueAfter <= remaining)))
		nondet.Reach("C05.waiting", waiting)
	}

	nondet.Reach("C05.promoted-by-time", nondet.And(promoted, !valid, !noCanary))
	nondet.Reach("C05.promoted-by-valid", nondet.And(promoted, valid, !elapsed))
	nondet.Reach("C05.held-back-paused", nondet.And(!promoted, paused, elapsed, quiet, active != nil && active != upToDate))
	nondet.Reach("C05.held-back-restarts", nondet.And(!promoted, !quiet, elapsed, !paused, active != nil && active != upToDate))
	nondet.Reach("C05.manual-not-promoted", nondet.And(!promoted, mode == "manual", active != nil && active != upToDate))
}

// ZZ_C05_reconcile: the rule of C05 on status.activeReplicaSet before / after a whole
// ExtendedDaemonSet Reconcile (wall clock read by the reconcile itself, whole-second ages),
// including the wake-up returned to the work queue.
func ZZ_C05_reconcile() {
	mode := nondet.String("mode", "none", "auto", "manual")
	var canary *datadoghqv1alpha1.ExtendedDaemonSetSpecStrategyCanary
	durationSec, noRestartsSec := 0, 0
	switch mode {
	case "auto":
		durationSec = nondet.Int("durationSec", 0, 1200)
		noRestartsSec = nondet.Int("noRestartsSec", 0, 600)
		canary = &datadoghqv1alpha1.ExtendedDaemonSetSpecStrategyCanary{
			ValidationMode:     datadoghqv1alpha1.ExtendedDaemonSetSpecStrategyCanaryValidationModeAuto,
			Duration:           &metav1.Duration{Duration: time.Duration(durationSec) * time.Second},
			NoRestartsDuration: &metav1.Duration{Duration: time.Duration(noRestartsSec) * time.Second},
		}
	case "manual":
		canary = &datadoghqv1alpha1.ExtendedDaemonSetSpecStrategyCanary{ValidationMode: datadoghqv1alpha1.ExtendedDaemonSetSpecStrategyCanaryValidationModeManual}
	}
	ds := zzEDS("ns", "foo", "B", canary)
	c := fakeapi.New()
	rsA := zzRS(ds, "A", "foo-a", nondet.Base().Add(-24*time.Hour))
	rsA.Status.Desired, rsA.Status.Current, rsA.Status.Ready, rsA.Status.Available = 2, 2, 2, 2
	ageSec := nondet.Int("canaryAgeSec", 0, 1300)
	rsB := zzRS(ds, "B", "foo-b", nondet.Base().Add(-time.Duration(ageSec)*time.Second))
	restartAgo := -1
	if nondet.Bool("restarted") {
		restartAgo = nondet.Int("lastRestartAgoSec", 0, 700)
		zzSetCond(rsB, datadoghqv1alpha1.ConditionTypePodRestarting, true, nondet.Base().Add(-time.Duration(restartAgo)*time.Second))
	}
	condPaused := nondet.Bool("rsB.pausedCond")
	if condPaused {
		zzSetCond(rsB, datadoghqv1alpha1.ConditionTypeCanaryPaused, true, nondet.Base().Add(-time.Minute))
	}
	condFailed := nondet.Bool("rsB.failedCond")
	if condFailed {
		zzSetCond(rsB, datadoghqv1alpha1.ConditionTypeCanaryFailed, true, nondet.Base().Add(-time.Minute))
	}
	annPaused := nondet.Bool("ann.paused")
	if annPaused {
		ds.Annotations[datadoghqv1alpha1.ExtendedDaemonSetCanaryPausedAnnotationKey] = "true"
	}
	valid := false
	if nondet.Bool("ann.valid.present") {
		v := nondet.String("ann.valid", "foo-b", "foo-a")
		ds.Annotations[datadoghqv1alpha1.ExtendedDaemonSetCanaryValidAnnotationKey] = v
		valid = v == "foo-b"
	}
	activeExists := nondet.Bool("recordedActiveExists")
	ds.Status.ActiveReplicaSet = "foo-a"
	c.ERS = append(c.ERS, rsB)
	if activeExists {
		c.ERS = append(c.ERS, rsA)
	}
	c.Nodes = append(c.Nodes, &corev1.Node{ObjectMeta: metav1.ObjectMeta{Name: "node0"}}, &corev1.Node{ObjectMeta: metav1.ObjectMeta{Name: "node1"}})
	c.EDS = append(c.EDS, ds)

	res, err := zzReconcile(zzReconciler(c), "ns", "foo")
	after := zzStoredEDS(c, "ns", "foo").Status.ActiveReplicaSet
	promoted := after == "foo-b"
	nondet.Assert("C05.r.active-is-candidate", after == "foo-a" || after == "foo-b")

	noCanary := mode == "none"
	auto := mode == "auto"
	paused := annPaused || condPaused
	failed := condFailed
	// the reconcile reads the clock within one second after the base instant: an age of d seconds
	// has "elapsed" when ageSec >= d (boundary accepted either way, so strict and non-strict agree here)
	elapsed := auto && ageSec >= durationSec
	quiet := !(auto && restartAgo >= 0) || restartAgo >= noRestartsSec
	rule := noCanary || valid || (auto && elapsed && quiet && !paused && !failed)
	nondet.Fact("failed", failed)
	nondet.Fact("paused", paused)
	nondet.Fact("valid", valid)
	nondet.Fact("ended", elapsed)
	if activeExists {
		// "switches ... only if" the rule allows it
		nondet.Assert("C05.r.rule", !promoted || rule)
		if mode == "manual" {
			nondet.Assert("C05.r.manual", !promoted || valid)
		}
		// wake-up: while only time is missing the reconcile asks to be called again in time
		if auto && !promoted && !paused && !failed && !valid && err == nil {
			remaining := durationSec - ageSec
			if restartAgo >= 0 && noRestartsSec-restartAgo > remaining {
				remaining = noRestartsSec - restartAgo
			}
			if remaining > 0 {
				nondet.Assert("C05.r.wakeup", res.RequeueAfter > 0 && res.RequeueAfter <= time.Duration(remaining)*time.Second)
			}
		}
	} else {
		// "if the recorded active replica set no longer exists the matching one is adopted directly"
		nondet.Assert("C05.r.adopt", promoted)
	}
	nondet.Observe("active", after)
	nondet.Reach("C05.r.promoted-by-time", activeExists && promoted && !valid && auto)
	nondet.Reach("C05.r.waiting", activeExists && !promoted && auto && !paused && !failed && !valid)
	nondet.Reach("C05.r.failed-not-promoted", activeExists && !promoted && failed && elapsed)
	nondet.Reach("C05.r.adopted", !activeExists && promoted)
}

// ZZ_C05_validNamesNewReplicaSet: "the canary-valid annotation names the new replica set": with a
// canary that cannot be promoted otherwise (manual mode, or auto mode with the duration not
// elapsed), whatever status.canary still says — nothing, the new replica set, or the canary of an
// earlier template (the status is only refreshed later in the same reconcile) — the new replica
// set is promoted exactly when the annotation carries its name.
func ZZ_C05_validNamesNewReplicaSet() {
	ds := &datadoghqv1alpha1.ExtendedDaemonSet{ObjectMeta: metav1.ObjectMeta{Name: "foo", Namespace: "ns", Annotations: map[string]string{}}}
	c := &datadoghqv1alpha1.ExtendedDaemonSetSpecStrategyCanary{}
	manual := nondet.Bool("manualMode")
	if manual {
		c.ValidationMode = datadoghqv1alpha1.ExtendedDaemonSetSpecStrategyCanaryValidationModeManual
	} else {
		c.ValidationMode = datadoghqv1alpha1.ExtendedDaemonSetSpecStrategyCanaryValidationModeAuto
		c.Duration = &metav1.Duration{Duration: time.Hour}
	}
	ds.Spec.Strategy.Canary = c
	datadoghqv1alpha1.DefaultExtendedDaemonSetSpec(&ds.Spec, datadoghqv1alpha1.ExtendedDaemonSetSpecStrategyCanaryValidationModeAuto)
	now := nondet.Base()
	active := &datadoghqv1alpha1.ExtendedDaemonSetReplicaSet{ObjectMeta: metav1.ObjectMeta{Name: "foo-a", Namespace: "ns", CreationTimestamp: metav1.NewTime(now.Add(-24 * time.Hour))}}
	upToDate := &datadoghqv1alpha1.ExtendedDaemonSetReplicaSet{ObjectMeta: metav1.ObjectMeta{Name: "foo-b", Namespace: "ns", CreationTimestamp: metav1.NewTime(now.Add(-time.Minute))}}
	ds.Status.ActiveReplicaSet = "foo-a"
	switch nondet.String("status.canary", "none", "foo-b", "foo-prev") {
	case "foo-b":
		ds.Status.Canary = &datadoghqv1alpha1.ExtendedDaemonSetStatusCanary{ReplicaSet: "foo-b", Nodes: []string{"node0"}}
	case "foo-prev":
		ds.Status.Canary = &datadoghqv1alpha1.ExtendedDaemonSetStatusCanary{ReplicaSet: "foo-prev", Nodes: []string{"node0"}}
	}
	named := ""
	if nondet.Bool("annValid.present") {
		named = nondet.String("annValid", "foo-b", "foo-prev", "foo-a", "")
		ds.Annotations[datadoghqv1alpha1.ExtendedDaemonSetCanaryValidAnnotationKey] = named
	}
	cur, _ := selectCurrentReplicaSet(ds, active, upToDate, now)
	promoted := cur == upToDate
	nondet.Assert("C05.valid.only-the-named-new-replicaset", promoted == (named == "foo-b"))
	nondet.Assert("C05.valid.candidates", cur == upToDate || cur == active)
	nondet.Observe("current", cur.Name)
	nondet.Reach("C05.valid.stale-canary-named", named == "foo-prev" && ds.Status.Canary != nil && ds.Status.Canary.ReplicaSet == "foo-prev")
}

// ZZ_C05_manualNeverByTime: "in manual validation mode elapsed time alone never promotes" — for
// every spec the controller accepts (defaulted, then validated by the real functions): manual mode
// with or without a duration / noRestartsDuration in the manifest, auto-fail and auto-pause switched
// on or off, the new replica set arbitrarily old.  Whatever validation lets through, the new
// replica set is promoted only by the canary-valid annotation.
func ZZ_C05_manualNeverByTime() {
	ds := &datadoghqv1alpha1.ExtendedDaemonSet{ObjectMeta: metav1.ObjectMeta{Name: "foo", Namespace: "ns", Annotations: map[string]string{}}}
	c := &datadoghqv1alpha1.ExtendedDaemonSetSpecStrategyCanary{ValidationMode: datadoghqv1alpha1.ExtendedDaemonSetSpecStrategyCanaryValidationModeManual}
	if nondet.Bool("duration.set") {
		c.Duration = &metav1.Duration{Duration: time.Minute}
	}
	if nondet.Bool("noRestartsDuration.set") {
		c.NoRestartsDuration = &metav1.Duration{Duration: time.Minute}
	}
	if nondet.Bool("autoFail.set") {
		on := nondet.Bool("autoFail.enabled")
		c.AutoFail = &datadoghqv1alpha1.ExtendedDaemonSetSpecStrategyCanaryAutoFail{Enabled: &on}
	}
	if nondet.Bool("autoPause.set") {
		on := nondet.Bool("autoPause.enabled")
		c.AutoPause = &datadoghqv1alpha1.ExtendedDaemonSetSpecStrategyCanaryAutoPause{Enabled: &on}
	}
	ds.Spec.Strategy.Canary = c
	datadoghqv1alpha1.DefaultExtendedDaemonSetSpec(&ds.Spec, datadoghqv1alpha1.ExtendedDaemonSetSpecStrategyCanaryValidationMode(nondet.String("controllerDefaultMode", "auto", "manual")))
	// the controller refuses to go on with a spec that does not validate
	nondet.Assume(datadoghqv1alpha1.ValidateExtendedDaemonSetSpec(&ds.Spec) == nil)
	now := nondet.Base()
	active := &datadoghqv1alpha1.ExtendedDaemonSetReplicaSet{ObjectMeta: metav1.ObjectMeta{Name: "foo-a", Namespace: "ns", CreationTimestamp: metav1.NewTime(now.Add(-48 * time.Hour))}}
	upToDate := &datadoghqv1alpha1.ExtendedDaemonSetReplicaSet{ObjectMeta: metav1.ObjectMeta{Name: "foo-b", Namespace: "ns", CreationTimestamp: metav1.NewTime(now.Add(-24 * time.Hour))}}
	valid := nondet.Bool("annValid")
	if valid {
		ds.Annotations[datadoghqv1alpha1.ExtendedDaemonSetCanaryValidAnnotationKey] = "foo-b"
	}
	cur, _ := selectCurrentReplicaSet(ds, active, upToDate, now)
	nondet.Assert("C05.manual.only-by-validation", (cur == upToDate) == valid)
	nondet.Observe("current", cur.Name)
	nondet.Reach("C05.manual.waiting", !valid && cur == active)
}

// ZZ_C05_terminatingActiveIsStillThere: "if the recorded active replica set no longer exists the
// matching one is adopted directly" — only then.  An active replica set that is being deleted in the
// foreground (deletionTimestamp set, held by a finalizer, still listed, still owning the pods) exists:
// the promotion rule keeps applying.  Canary in progress in a situation where the rule says no
// (duration not elapsed / failed / paused / manual mode): status.activeReplicaSet stays what it was.
func ZZ_C05_terminatingActiveIsStillThere() {
	canary := &datadoghqv1alpha1.ExtendedDaemonSetSpecStrategyCanary{Duration: &metav1.Duration{Duration: time.Hour}}
	why := nondet.String("ruleSaysNoBecause", "duration-not-elapsed", "failed", "paused", "manual")
	if why == "manual" {
		canary = &datadoghqv1alpha1.ExtendedDaemonSetSpecStrategyCanary{ValidationMode: datadoghqv1alpha1.ExtendedDaemonSetSpecStrategyCanaryValidationModeManual}
	}
	ds := zzEDS("ns", "foo", "B", canary)
	c := fakeapi.New()
	rsA := zzRS(ds, "A", "foo-a", nondet.Base().Add(-24*time.Hour))
	rsA.Status.Desired, rsA.Status.Current, rsA.Status.Ready, rsA.Status.Available = 2, 2, 2, 2
	created := nondet.Base().Add(-time.Minute)
	if why == "failed" || why == "paused" {
		created = nondet.Base().Add(-2 * time.Hour) // the duration has elapsed
	}
	rsB := zzRS(ds, "B", "foo-b", created)
	rsB.Status.Desired, rsB.Status.Current = 1, 1
	if why == "failed" {
		zzSetCond(rsB, datadoghqv1alpha1.ConditionTypeCanaryFailed, true, nondet.Base().Add(-time.Minute))
	}
	if why == "paused" {
		ds.Annotations[datadoghqv1alpha1.ExtendedDaemonSetCanaryPausedAnnotationKey] = "true"
	}
	if nondet.Bool("activeReplicaSetTerminating") {
		t := metav1.NewTime(nondet.Base().Add(-10 * time.Second))
		rsA.DeletionTimestamp = &t
		rsA.Finalizers = []string{"foregroundDeletion"}
	}
	ds.Status.ActiveReplicaSet = "foo-a"
	ds.Status.State = datadoghqv1alpha1.ExtendedDaemonSetStatusStateCanary
	ds.Status.Canary = &datadoghqv1alpha1.ExtendedDaemonSetStatusCanary{ReplicaSet: "foo-b", Nodes: []string{"node0"}}
	c.Nodes = append(c.Nodes, &corev1.Node{ObjectMeta: metav1.ObjectMeta{Name: "node0"}}, &corev1.Node{ObjectMeta: metav1.ObjectMeta{Name: "node1"}})
	c.EDS = append(c.EDS, ds)
	c.ERS = append(c.ERS, rsA, rsB)
	_, err := zzReconcile(zzReconciler(c), "ns", "foo")
	st := zzStoredEDS(c, "ns", "foo")
	nondet.Assert("C05.terminating.noerror", err == nil)
	nondet.Assert("C05.terminating.rule-still-applies", st.Status.ActiveReplicaSet == "foo-a")
	nondet.Assert("C05.terminating.active-not-deleted-again", c.Count("delete", "ExtendedDaemonSetReplicaSet") == 0 || why == "failed")
	nondet.Observe("active", st.Status.ActiveReplicaSet)
	nondet.Reach("C05.terminating.manual", why == "manual" && rsA.DeletionTimestamp != nil)
}

// ZZ_C05_manualModeSetAfterDefaulting: "in manual validation mode elapsed time alone never promotes",
// through the real Reconcile and for a stored object that no longer is what validation accepted: the
// ExtendedDaemonSet was defaulted in auto mode (so spec.strategy.canary.duration is filled), then the
// user switched validationMode to manual and left the rest as it was (optionally with a
// noRestartsDuration as well).  The canary replica set is older than the duration, not paused, not
// failed, never restarted; the canary-valid annotation is absent or names another replica set.  Whatever the
// reconcile answers (an error about the spec, or a status), the active replica set does not change.
func ZZ_C05_manualModeSetAfterDefaulting() {
	canary := &datadoghqv1alpha1.ExtendedDaemonSetSpecStrategyCanary{}
	if nondet.Bool("noRestartsDuration.set") {
		canary.NoRestartsDuration = &metav1.Duration{Duration: 5 * time.Minute}
	}
	ds := zzEDS("ns", "foo", "B", canary) // defaulted in auto mode: duration = 10m
	ds.Spec.Strategy.Canary.ValidationMode = datadoghqv1alpha1.ExtendedDaemonSetSpecStrategyCanaryValidationModeManual
	if nondet.Bool("validAnnotationNamesAnotherReplicaSet") {
		ds.Annotations[datadoghqv1alpha1.ExtendedDaemonSetCanaryValidAnnotationKey] = "foo-earlier"
	}
	c := fakeapi.New()
	rsA := zzRS(ds, "A", "foo-a", nondet.Base().Add(-24*time.Hour))
	rsA.Status.Desired, rsA.Status.Current, rsA.Status.Ready, rsA.Status.Available = 2, 2, 2, 2
	rsB := zzRS(ds, "B", "foo-b", nondet.TimeSec("rsB.created", -7200, -1200)) // older than every duration
	rsB.Status.Desired, rsB.Status.Current, rsB.Status.Ready, rsB.Status.Available = 1, 1, 1, 1
	ds.Status.ActiveReplicaSet = "foo-a"
	ds.Status.State = datadoghqv1alpha1.ExtendedDaemonSetStatusStateCanary
	ds.Status.Canary = &datadoghqv1alpha1.ExtendedDaemonSetStatusCanary{ReplicaSet: "foo-b", Nodes: []string{"node0"}}
	c.Nodes = append(c.Nodes, &corev1.Node{ObjectMeta: metav1.ObjectMeta{Name: "node0"}}, &corev1.Node{ObjectMeta: metav1.ObjectMeta{Name: "node1"}})
	c.EDS = append(c.EDS, ds)
	c.ERS = append(c.ERS, rsA, rsB)
	for round := 0; round < 2; round++ {
		_, err := zzReconcile(zzReconciler(c), "ns", "foo")
		nondet.Observe("error", err != nil)
		st := zzStoredEDS(c, "ns", "foo")
		nondet.Assert("C05.manual-after-defaulting.not-promoted-by-time", st.Status.ActiveReplicaSet == "foo-a")
	}
	nondet.Reach("C05.manual-after-defaulting.duration-left-in-place", ds.Spec.Strategy.Canary.Duration != nil)
}
