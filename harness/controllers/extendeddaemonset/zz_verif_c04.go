//go:build verif

package extendeddaemonset

import (
	"strconv"
	"time"

	"github.com/go-logr/logr"
	corev1 "k8s.io/api/core/v1"
	metav1 "k8s.io/apimachinery/pkg/apis/meta/v1"
	"k8s.io/apimachinery/pkg/util/intstr"

	datadoghqv1alpha1 "github.com/DataDog/extendeddaemonset/api/v1alpha1"
	"github.com/DataDog/extendeddaemonset/zzverif/fakeapi"
	"github.com/DataDog/extendeddaemonset/zzverif/nondet"
)

// ZZ_C04_nodeListBound: "the controller never adds nodes to [status.canary.nodes] beyond the
// resolved spec.strategy.canary.replicas" — for every length of the list selected earlier
// (shorter than, equal to or longer than the replicas now requested, e.g. after replicas was
// lowered or a percentage shrank with the cluster) the selection adds at most the missing
// number of nodes and never a node when the list is already long enough.
func ZZ_C04_nodeListBound() {
	nNodes := 4
	replicas := zzConcInt(nondet.Int("replicas", 0, 3), 0, 3)
	r := intstr.FromInt(replicas)
	canary := &datadoghqv1alpha1.ExtendedDaemonSetSpecStrategyCanary{Replicas: &r}
	ds := zzEDS("ns", "foo", "B", canary)
	c := fakeapi.New()
	for i := 0; i < nNodes; i++ {
		c.Nodes = append(c.Nodes, &corev1.Node{ObjectMeta: metav1.ObjectMeta{Name: "node" + strconv.Itoa(i)}})
	}
	nPrev := zzConcInt(nondet.Int("previouslySelected", 0, 3), 0, 3)
	var prev []string
	for i := 0; i < nPrev; i++ {
		prev = append(prev, "node"+strconv.Itoa(i))
	}
	rs := zzRS(ds, "B", "foo-b", nondet.Base().Add(-time.Minute))
	status := &datadoghqv1alpha1.ExtendedDaemonSetStatusCanary{ReplicaSet: "foo-b", Nodes: append([]string{}, prev...)}
	err := zzReconciler(c).selectNodes(logr.Logger{}, ds, &ds.Spec, rs, status)
	nondet.Assert("C04.bound.noerror", err == nil)
	added := 0
	for _, n := range status.Nodes {
		if !zzHas(prev, n) {
			added++
		}
	}
	missing := replicas - nPrev
	if missing < 0 {
		missing = 0
	}
	nondet.Assert("C04.bound.adds-only-missing", added == missing)
	limit := replicas
	if nPrev > limit {
		limit = nPrev
	}
	nondet.Assert("C04.bound.size", len(status.Nodes) <= limit)
	nondet.Observe("count", len(status.Nodes))
	nondet.Reach("C04.bound.list-longer-than-replicas", nPrev > replicas && replicas >= 1)
	nondet.Reach("C04.bound.extends", nPrev < replicas && nPrev >= 1)
}
