//go:build verif

package extendeddaemonset

import (
	"strconv"
	"time"

	"github.com/go-logr/logr"
	corev1 "k8s.io/api/core/v1"
	metav1 "k8s.io/apimachinery/pkg/apis/meta/v1"
	"k8s.io/apimachinery/pkg/util/intstr"

	datadoghqv1alpha1 "github.com/DataDog/extendeddaemonset/api/v1alpha1"
	"github.com/DataDog/extendeddaemonset/zzverif/fakeapi"
	"github.com/DataDog/extendeddaemonset/zzverif/nondet"
)

type zzCNode struct {
	name     string
	selected bool // carries the label the canary node selector asks for
	tainted  bool // NoSchedule taint the daemon pod does not tolerate
	zone     string
	restarts int32
}

func zzConcInt(x, lo, hi int) int {
	for v := lo; v < hi; v++ {
		if x == v {
			return v
		}
	}
	return hi
}

// ZZ_C15_select: after a successful selectNodes the canary nodes are distinct, valid
// (existing, matching the canary node selector, fit for the pod), keep the still-valid
// earlier choices, reach the requested number, prefer nodes whose daemon pods restarted
// least; with fewer valid nodes than requested an error is reported.
func ZZ_C15_select() {
	// (four nodes in the thorough tier did not finish within 25 minutes: the thorough tier keeps three
	// nodes and combines the canary node selector with the anti-affinity keys)
	nNodes := 3
	withSelector := nondet.Bool("canary.nodeSelector")
	withZones := nondet.Bool("canary.antiAffinity")
	if !nondet.Thorough() {
		nondet.Assume(!(withSelector && withZones)) // the two features are combined in the thorough tier only
	}
	canary := &datadoghqv1alpha1.ExtendedDaemonSetSpecStrategyCanary{}
	if withSelector {
		canary.NodeSelector = &metav1.LabelSelector{MatchLabels: map[string]string{"canary": "yes"}}
	}
	if withZones {
		canary.NodeAntiAffinityKeys = []string{"zone"}
	}
	replicas := zzConcInt(nondet.Int("replicas", 0, nNodes), 0, nNodes)
	r := intstr.FromInt(replicas)
	canary.Replicas = &r
	ds := zzEDS("ns", "foo", "B", canary)
	c := fakeapi.New()
	nodes := make([]zzCNode, nNodes)
	for i := range nodes {
		l := "node" + strconv.Itoa(i)
		n := zzCNode{name: l, selected: !withSelector || nondet.Bool(l+".matchesSelector"), tainted: nondet.Bool(l + ".tainted"), zone: "a"}
		if withZones && nondet.Bool(l+".zoneB") {
			n.zone = "b"
		}
		n.restarts = nondet.Int32(l+".restarts", 0, 2)
		node := &corev1.Node{ObjectMeta: metav1.ObjectMeta{Name: l, Labels: map[string]string{"zone": n.zone}}}
		if withSelector && n.selected {
			node.Labels["canary"] = "yes"
		}
		if n.tainted {
			node.Spec.Taints = []corev1.Taint{{Key: "dedicated", Effect: corev1.TaintEffectNoSchedule}}
		}
		c.Nodes = append(c.Nodes, node)
		// the daemon pod currently on the node, with its restart history
		c.Pods = append(c.Pods, &corev1.Pod{
			// (the daemon pods still belong to an earlier replica set: the previous rollout had not reached them)
			ObjectMeta: metav1.ObjectMeta{Name: "pod-" + l, Namespace: "ns", Labels: map[string]string{datadoghqv1alpha1.ExtendedDaemonSetNameLabelKey: "foo",
				datadoghqv1alpha1.ExtendedDaemonSetReplicaSetNameLabelKey: "foo-earlier"}},
			Spec:   corev1.PodSpec{NodeName: l},
			Status: corev1.PodStatus{ContainerStatuses: []corev1.ContainerStatus{{Name: "agent", RestartCount: n.restarts}}},
		})
		nodes[i] = n
	}
	// previously selected list: up to two names — possibly of a node that no longer exists, possibly the same
	// name twice (a list written by an older version or edited by hand: the result has distinct names all the same)
	var prev []string
	names := []string{"node0", "node1", "node2", "ghost"}
	p0 := zzConcInt(nondet.Int("prev0", 0, 4), 0, 4) // 4 = none
	if p0 < 4 {
		prev = append(prev, names[p0])
		p1 := zzConcInt(nondet.Int("prev1", 0, 4), 0, 4)
		if p1 < 4 {
			prev = append(prev, names[p1])
		}
	}
	rs := zzRS(ds, "B", "foo-b", nondet.Base().Add(-time.Minute))
	status := &datadoghqv1alpha1.ExtendedDaemonSetStatusCanary{ReplicaSet: "foo-b", Nodes: append([]string{}, prev...)}
	rec := zzReconciler(c)

	err := rec.selectNodes(logr.Logger{}, ds, &ds.Spec, rs, status)

	valid := func(name string) bool {
		for _, n := range nodes {
			if n.name == name {
				return n.selected && !n.tainted
			}
		}
		return false
	}
	nValid := 0
	for _, n := range nodes {
		if n.selected && !n.tainted {
			nValid++
		}
	}
	hasStale := false
	for _, p := range prev {
		if !valid(p) {
			hasStale = true
		}
	}
	nondet.Fact("prevHasInvalidNode", hasStale)
	nondet.Fact("antiAffinity", withZones)
	// "if fewer valid nodes exist the reconcile reports an error instead of silently running a smaller canary"
	nondet.Assert("C15.error-when-too-few", nondet.Implies(nValid < replicas, err != nil))
	// "their number reaches spec.strategy.canary.replicas": when enough valid nodes exist (and, with
	// anti-affinity keys, when each value's share ceil(replicas/#values) leaves room for them) the
	// selection succeeds
	feasible := nValid >= replicas
	if withZones {
		zoneSet := map[string]bool{}
		for _, n := range nodes {
			if n.selected {
				zoneSet[n.zone] = true
			}
		}
		if len(zoneSet) > 0 {
			share := (replicas + len(zoneSet) - 1) / len(zoneSet)
			room := 0
			for z := range zoneSet {
				v := 0
				for _, n := range nodes {
					if n.zone == z && n.selected && !n.tainted {
						v++
					}
				}
				if v > share {
					v = share
				}
				room += v
			}
			feasible = room >= replicas
		}
	}
	nondet.Fact("feasible", feasible)
	nondet.Assert("C15.reaches-replicas-when-possible", nondet.Implies(feasible, err == nil))
	if err != nil {
		nondet.Observe("error", true)
		nondet.Reach("C15.too-few", nValid < replicas)
		return
	}
	got := status.Nodes
	for i := range got {
		for j := i + 1; j < len(got); j++ {
			// "the names are distinct"
			nondet.Assert("C15.distinct", got[i] != got[j])
		}
		// "each refers to an existing node that matches nodeSelector and is eligible for the pod"
		nondet.Assert("C15.valid", valid(got[i]))
	}
	// "nodes selected earlier that are still valid are kept"
	for _, p := range prev {
		if valid(p) {
			nondet.Assert("C15.keeps-valid-earlier", zzHas(got, p))
		}
	}
	// "their number reaches replicas ... and never exceeds it through the controller's own choice"
	limit := replicas
	if len(prev) > limit {
		limit = len(prev)
	}
	nondet.Assert("C15.size-reached", len(got) >= replicas)
	// "spreading over the values of nodeAntiAffinityKeys": no value gets more than its share
	// (ceil(replicas / number of values)) unless earlier choices already exceeded it
	if withZones {
		zones := map[string]bool{}
		for _, n := range nodes {
			if n.selected {
				zones[n.zone] = true
			}
		}
		if len(zones) > 0 {
			share := (replicas + len(zones) - 1) / len(zones)
			for z := range zones {
				inZone, prevInZone := 0, 0
				for _, n := range nodes {
					if n.zone == z && zzHas(got, n.name) {
						inZone++
						if zzHas(prev, n.name) {
							prevInZone++
						}
					}
				}
				if prevInZone > share {
					share = prevInZone
				}
				nondet.Assert("C15.spread", inZone <= share)
			}
		}
	}
	nondet.Assert("C15.size-not-exceeded", len(got) <= limit)
	// "additional ones are taken preferring nodes whose daemon pods restarted least"
	if !withZones {
		for _, g := range got {
			if zzHas(prev, g) {
				continue
			}
			for _, n := range nodes {
				if n.selected && !n.tainted && !zzHas(got, n.name) {
					nondet.Assert("C15.prefers-least-restarts", zzRestarts(nodes, g) <= n.restarts)
				}
			}
		}
	}
	nondet.Observe("count", len(got))
	nondet.Reach("C15.fresh-selection", len(prev) == 0 && len(got) == 2)
	nondet.Reach("C15.extends-earlier", len(prev) == 1 && valid(prev[0]) && len(got) == 2)
	nondet.Reach("C15.earlier-node-gone", hasStale && replicas >= 1)
	nondet.Reach("C15.restart-order-matters", !withZones && len(got) == 1 && len(prev) == 0 && nodes[0].restarts > nodes[1].restarts && valid("node0") && valid("node1"))
}

func zzHas(l []string, s string) bool {
	for _, x := range l {
		if x == s {
			return true
		}
	}
	return false
}

func zzRestarts(nodes []zzCNode, name string) int32 {
	for _, n := range nodes {
		if n.name == name {
			return n.restarts
		}
	}
	return 0
}

// zzCanaryStore: foo under canary (template B, replica set foo-b up to date, foo-a active),
// nNodes plain nodes of which `bad` is tainted (-1 = none).
func zzCanaryStore(nNodes int, replicas intstr.IntOrString, bad int) (*fakeapi.Client, *datadoghqv1alpha1.ExtendedDaemonSet) {
	canary := &datadoghqv1alpha1.ExtendedDaemonSetSpecStrategyCanary{Replicas: &replicas, Duration: &metav1.Duration{Duration: time.Hour}}
	ds := zzEDS("ns", "foo", "B", canary)
	c := fakeapi.New()
	rsA := zzRS(ds, "A", "foo-a", nondet.Base().Add(-24*time.Hour))
	rsA.Status.Desired, rsA.Status.Current, rsA.Status.Ready, rsA.Status.Available = int32(nNodes), int32(nNodes), int32(nNodes), int32(nNodes)
	rsB := zzRS(ds, "B", "foo-b", nondet.Base().Add(-time.Minute))
	c.ERS = append(c.ERS, rsA, rsB)
	for i := 0; i < nNodes; i++ {
		n := &corev1.Node{ObjectMeta: metav1.ObjectMeta{Name: "node" + strconv.Itoa(i)}}
		if i == bad {
			n.Spec.Taints = []corev1.Taint{{Key: "dedicated", Effect: corev1.TaintEffectNoSchedule}}
		}
		c.Nodes = append(c.Nodes, n)
	}
	// status as written by the previous reconciles: the active replica set serves every node
	ds.Status.ActiveReplicaSet = "foo-a"
	ds.Status.Desired, ds.Status.Current, ds.Status.Ready, ds.Status.Available, ds.Status.UpToDate = int32(nNodes), int32(nNodes), int32(nNodes), int32(nNodes), int32(nNodes)
	ds.Status.State = datadoghqv1alpha1.ExtendedDaemonSetStatusStateRunning
	c.EDS = append(c.EDS, ds)
	return c, ds
}

// ZZ_C15_percent: replicas given as a percentage is resolved against the number of nodes
// the ExtendedDaemonSet targets, rounded up, when the canary starts.
func ZZ_C15_percent() {
	// (from no targeted node at all: a percentage of nothing is nothing, not a shortage)
	nNodes := zzConcInt(nondet.Int("nNodes", 0, 4), 0, 4)
	pct := 0
	isPct := true
	var replicas intstr.IntOrString
	switch nondet.String("replicas", "0%", "1%", "50%", "100%", "2") {
	case "0%":
		pct, replicas = 0, intstr.FromString("0%")
	case "1%":
		pct, replicas = 1, intstr.FromString("1%")
	case "50%":
		pct, replicas = 50, intstr.FromString("50%")
	case "100%":
		pct, replicas = 100, intstr.FromString("100%")
	default:
		isPct, replicas = false, intstr.FromInt(2)
	}
	want := 2
	if isPct {
		want = (pct*nNodes + 99) / 100
	}
	c, ds := zzCanaryStore(nNodes, replicas, -1)
	// the canary node selector narrows where canary nodes may be picked, not what a percentage is
	// resolved against ("the number of nodes the ExtendedDaemonSet targets"): here all but the
	// last node carry the label it asks for
	candidates := nNodes
	if nNodes >= 1 && nondet.Bool("canaryNodeSelectorExcludesLastNode") {
		ds.Spec.Strategy.Canary.NodeSelector = &metav1.LabelSelector{MatchLabels: map[string]string{"canary": "yes"}}
		for i, n := range c.Nodes {
			if i < nNodes-1 {
				n.Labels = map[string]string{"canary": "yes"}
			}
		}
		candidates = nNodes - 1
	}
	_, err := zzReconcile(zzReconciler(c), "ns", "foo")
	st := zzStoredEDS(c, "ns", "foo")
	nondet.Fact("percent", isPct)
	if want > candidates {
		nondet.Assert("C15.percent.error-when-too-few", err != nil)
		return
	}
	nondet.Assert("C15.percent.noerror", err == nil)
	nondet.Assert("C15.percent.canary-started", st.Status.Canary != nil)
	if st.Status.Canary != nil {
		// "their number reaches spec.strategy.canary.replicas, a percentage being resolved
		// against the number of nodes the ExtendedDaemonSet targets and rounded up"
		nondet.Assert("C15.percent.count", len(st.Status.Canary.Nodes) == want)
		nondet.Observe("count", len(st.Status.Canary.Nodes))
	}
	nondet.Reach("C15.percent.half-of-four", pct == 50 && nNodes == 4)
	nondet.Reach("C15.percent.rounds-up", pct == 1 && nNodes == 3)
	nondet.Reach("C15.percent.zero-percent", isPct && pct == 0 && nNodes == 3)
	nondet.Reach("C15.percent.of-no-node", isPct && pct == 50 && nNodes == 0)
}

// ZZ_C15_refresh: while the canary is still running, a selected node that was deleted or
// tainted is replaced (or an error is reported) even though the number of names still matches.
func ZZ_C15_refresh() {
	bad := -1
	stale := "node1"
	switch nondet.String("event", "tainted", "deleted", "none") {
	case "tainted":
		bad = 1
	case "deleted":
		stale = "ghost"
	}
	c, ds := zzCanaryStore(3, intstr.FromInt(2), bad)
	ds.Status.Canary = &datadoghqv1alpha1.ExtendedDaemonSetStatusCanary{ReplicaSet: "foo-b", Nodes: []string{"node0", stale}}
	ds.Status.State = datadoghqv1alpha1.ExtendedDaemonSetStatusStateCanary
	_, err := zzReconcile(zzReconciler(c), "ns", "foo")
	st := zzStoredEDS(c, "ns", "foo")
	nondet.Observe("error", err != nil)
	nondet.Fact("selectedNodeInvalid", bad == 1 || stale == "ghost")
	nondet.Fact("countStillMatchesReplicas", true)
	if err == nil && st.Status.Canary != nil {
		for _, n := range st.Status.Canary.Nodes {
			ok := n == "node0" || n == "node2" || (n == "node1" && bad != 1)
			// "while the canary is active, each refers to an existing node ... eligible for the pod"
			nondet.Assert("C15.refresh.valid", ok)
		}
		nondet.Assert("C15.refresh.count", len(st.Status.Canary.Nodes) == 2)
		nondet.Assert("C15.refresh.keeps-valid", zzHas(st.Status.Canary.Nodes, "node0"))
	}
	nondet.Reach("C15.refresh.unchanged", err == nil && st.Status.Canary != nil && zzHas(st.Status.Canary.Nodes, "node1"))
}

// ZZ_C15_restartTotals: "preferring nodes whose daemon pods restarted least" — all daemon pods of
// a node and all their containers count.  Two valid nodes, one canary node wanted, nothing
// selected before; node0 holds one or two daemon pods (an older one still terminating, a former
// canary pod) with one or two containers each, node1 one pod; the pods are listed in either
// order.  The node whose pods restarted less in total is selected.
func ZZ_C15_restartTotals() {
	canary := &datadoghqv1alpha1.ExtendedDaemonSetSpecStrategyCanary{Duration: &metav1.Duration{Duration: time.Hour}}
	one := intstr.FromInt(1)
	canary.Replicas = &one
	ds := zzEDS("ns", "foo", "B", canary)
	c := fakeapi.New()
	mkPod := func(name, node string, counts ...int32) *corev1.Pod {
		p := &corev1.Pod{ObjectMeta: metav1.ObjectMeta{Name: name, Namespace: "ns", Labels: map[string]string{datadoghqv1alpha1.ExtendedDaemonSetNameLabelKey: "foo"}},
			Spec: corev1.PodSpec{NodeName: node}}
		for i, n := range counts {
			p.Status.ContainerStatuses = append(p.Status.ContainerStatuses, corev1.ContainerStatus{Name: "c" + strconv.Itoa(i), RestartCount: n})
		}
		return p
	}
	a := nondet.Int32("node0.pod.restarts", 0, 4)
	a2 := nondet.Int32("node0.pod.sidecar.restarts", 0, 4)
	b := nondet.Int32("node1.pod.restarts", 0, 9)
	total0 := a + a2
	pods := []*corev1.Pod{mkPod("pod-node0", "node0", a, a2), mkPod("pod-node1", "node1", b)}
	if nondet.Bool("node0.secondPod") {
		x := nondet.Int32("node0.secondPod.restarts", 0, 4)
		total0 += x
		second := mkPod("pod2-node0", "node0", x)
		if nondet.Bool("secondPodListedFirst") {
			pods = append([]*corev1.Pod{second}, pods...)
		} else {
			pods = append(pods, second)
		}
	}
	c.Pods = pods
	// node order in the store is arbitrary too
	if nondet.Bool("node1ListedFirst") {
		c.Nodes = append(c.Nodes, &corev1.Node{ObjectMeta: metav1.ObjectMeta{Name: "node1"}}, &corev1.Node{ObjectMeta: metav1.ObjectMeta{Name: "node0"}})
	} else {
		c.Nodes = append(c.Nodes, &corev1.Node{ObjectMeta: metav1.ObjectMeta{Name: "node0"}}, &corev1.Node{ObjectMeta: metav1.ObjectMeta{Name: "node1"}})
	}
	rs := zzRS(ds, "B", "foo-b", nondet.Base().Add(-time.Minute))
	status := &datadoghqv1alpha1.ExtendedDaemonSetStatusCanary{ReplicaSet: "foo-b"}
	err := zzReconciler(c).selectNodes(logr.Logger{}, ds, &ds.Spec, rs, status)
	nondet.Assert("C15.totals.noerror", err == nil && len(status.Nodes) == 1)
	if err != nil || len(status.Nodes) != 1 {
		return
	}
	if total0 < b {
		nondet.Assert("C15.totals.least-restarts-node0", status.Nodes[0] == "node0")
	}
	if b < total0 {
		nondet.Assert("C15.totals.least-restarts-node1", status.Nodes[0] == "node1")
	}
	nondet.Observe("selected", status.Nodes[0])
	nondet.Reach("C15.totals.sum-decides", total0 > b && a < b && a2 < b)
}

// ZZ_C15_pausedCanaryStillSized: "Their number reaches spec.strategy.canary.replicas ... if fewer
// valid nodes exist the reconcile reports an error" — also while the canary is paused (by the
// annotation or by the replica set's Canary-Paused condition): a paused canary is still a canary.
// Three (or two) plain nodes, one node selected so far, replicas raised to 3.
func ZZ_C15_pausedCanaryStillSized() {
	nNodes := 3
	if nondet.Bool("onlyTwoNodes") {
		nNodes = 2
	}
	c, ds := zzCanaryStore(nNodes, intstr.FromInt(3), -1)
	ds.Status.Canary = &datadoghqv1alpha1.ExtendedDaemonSetStatusCanary{ReplicaSet: "foo-b", Nodes: []string{"node0"}}
	ds.Status.State = datadoghqv1alpha1.ExtendedDaemonSetStatusStateCanary
	switch nondet.String("pausedBy", "nothing", "annotation", "condition") {
	case "annotation":
		ds.Annotations[datadoghqv1alpha1.ExtendedDaemonSetCanaryPausedAnnotationKey] = "true"
	case "condition":
		for _, rs := range c.ERS {
			if rs.Name == "foo-b" {
				zzSetCond(rs, datadoghqv1alpha1.ConditionTypeCanaryPaused, true, nondet.Base().Add(-time.Minute))
			}
		}
	}
	_, err := zzReconcile(zzReconciler(c), "ns", "foo")
	st := zzStoredEDS(c, "ns", "foo")
	if nNodes < 3 {
		nondet.Assert("C15.paused.error-when-too-few", err != nil)
	} else {
		nondet.Assert("C15.paused.noerror", err == nil)
		nondet.Assert("C15.paused.count-reaches-replicas", st.Status.Canary != nil && len(st.Status.Canary.Nodes) == 3)
		nondet.Assert("C15.paused.keeps-earlier-choice", st.Status.Canary != nil && zzHas(st.Status.Canary.Nodes, "node0"))
	}
	nondet.Observe("error", err != nil)
	nondet.Reach("C15.paused.by-condition", err == nil && st.Status.State == datadoghqv1alpha1.ExtendedDaemonSetStatusStateCanaryPaused)
}

// ZZ_C15_keptAcrossCanaryReplicaSets: "nodes selected earlier that are still valid are kept" — the
// selection belongs to the ExtendedDaemonSet's canary, not to one replica set: when the template
// is edited during a canary, the status still names the previous canary replica set and the nodes
// chosen for it; the new canary runs on the same nodes.  Three plain nodes, one canary node,
// an arbitrary node selected earlier, status.canary.replicaSet naming the current or an older
// replica set.
func ZZ_C15_keptAcrossCanaryReplicaSets() {
	c, ds := zzCanaryStore(3, intstr.FromInt(1), -1)
	earlier := nondet.String("selectedEarlier", "node0", "node1", "node2")
	prevRS := nondet.String("status.canary.replicaSet", "foo-b", "foo-older")
	ds.Status.Canary = &datadoghqv1alpha1.ExtendedDaemonSetStatusCanary{ReplicaSet: prevRS, Nodes: []string{earlier}}
	ds.Status.State = datadoghqv1alpha1.ExtendedDaemonSetStatusStateCanary
	_, err := zzReconcile(zzReconciler(c), "ns", "foo")
	st := zzStoredEDS(c, "ns", "foo")
	nondet.Assert("C15.across.noerror", err == nil)
	if err != nil || st.Status.Canary == nil {
		return
	}
	nondet.Assert("C15.across.names-current-replicaset", st.Status.Canary.ReplicaSet == "foo-b")
	nondet.Assert("C15.across.earlier-node-kept", len(st.Status.Canary.Nodes) == 1 && st.Status.Canary.Nodes[0] == earlier)
	nondet.Reach("C15.across.other-replicaset", prevRS == "foo-older" && earlier == "node2")
}

// ZZ_C15_templateRestrictsTheChoice: "each refers to an existing node that ... is eligible for the pod"
// when the pod template restricts eligibility twice: a nodeSelector (pool=agents) AND a required node
// affinity (zone In [a]).  Three nodes, each in or out of the pool and in zone a or b, one or two
// canary nodes requested, an arbitrary earlier selection of one node: every selected node satisfies
// both restrictions, a still-eligible earlier choice is kept, an earlier choice that is no longer
// eligible is dropped, and too few eligible nodes is an error.
func ZZ_C15_templateRestrictsTheChoice() {
	replicas := 1
	if nondet.Bool("twoReplicas") {
		replicas = 2
	}
	r := intstr.FromInt(replicas)
	canary := &datadoghqv1alpha1.ExtendedDaemonSetSpecStrategyCanary{Replicas: &r}
	ds := zzEDS("ns", "foo", "B", canary)
	ds.Spec.Template.Spec.NodeSelector = map[string]string{"pool": "agents"}
	ds.Spec.Template.Spec.Affinity = &corev1.Affinity{NodeAffinity: &corev1.NodeAffinity{RequiredDuringSchedulingIgnoredDuringExecution: &corev1.NodeSelector{
		NodeSelectorTerms: []corev1.NodeSelectorTerm{{MatchExpressions: []corev1.NodeSelectorRequirement{{Key: "zone", Operator: corev1.NodeSelectorOpIn, Values: []string{"a"}}}}}}}}
	// the same term may also exclude a (quarantined) node by name: expressions and fields of one term are ANDed
	if nondet.Bool("termAlsoExcludesANodeByName") {
		ds.Spec.Template.Spec.Affinity.NodeAffinity.RequiredDuringSchedulingIgnoredDuringExecution.NodeSelectorTerms[0].MatchFields =
			[]corev1.NodeSelectorRequirement{{Key: "metadata.name", Operator: corev1.NodeSelectorOpNotIn, Values: []string{"quarantined"}}}
	}
	c := fakeapi.New()
	eligible := map[string]bool{}
	nEligible := 0
	for i := 0; i < 3; i++ {
		l := "node" + strconv.Itoa(i)
		inPool, zoneA := nondet.Bool(l+".inPool"), nondet.Bool(l+".zoneA")
		node := &corev1.Node{ObjectMeta: metav1.ObjectMeta{Name: l, Labels: map[string]string{"zone": "b", "pool": "other"}}}
		if inPool {
			node.Labels["pool"] = "agents"
		}
		if zoneA {
			node.Labels["zone"] = "a"
		}
		c.Nodes = append(c.Nodes, node)
		eligible[l] = inPool && zoneA
		if inPool && zoneA {
			nEligible++
		}
	}
	earlier := nondet.String("selectedEarlier", "none", "node0", "node2")
	status := &datadoghqv1alpha1.ExtendedDaemonSetStatusCanary{ReplicaSet: "foo-b"}
	if earlier != "none" {
		status.Nodes = []string{earlier}
	}
	rs := zzRSOf(ds, ds.Spec.Template, "foo-b", nondet.Base().Add(-time.Minute))
	err := zzReconciler(c).selectNodes(logr.Logger{}, ds, &ds.Spec, rs, status)
	nondet.Assert("C15.template.error-when-too-few", nondet.Implies(nEligible < replicas, err != nil))
	nondet.Assert("C15.template.succeeds-when-enough", nondet.Implies(nEligible >= replicas, err == nil))
	if err == nil {
		nondet.Assert("C15.template.count", len(status.Nodes) == replicas)
		for _, n := range status.Nodes {
			nondet.Assert("C15.template.every-selected-node-eligible", eligible[n])
		}
		if earlier != "none" && eligible[earlier] {
			nondet.Assert("C15.template.eligible-earlier-choice-kept", zzHas(status.Nodes, earlier))
		}
	}
	nondet.Observe("selected", len(status.Nodes))
	nondet.Reach("C15.template.affinity-matches-but-pool-does-not", err == nil && nEligible == replicas && !eligible["node0"])
}

// ZZ_C15_standardTolerationsCount: "is eligible for the pod" — for the pod the controller really
// creates, which carries the standard DaemonSet tolerations on top of the template's: a canary node
// that is cordoned, NotReady, unreachable or under pressure stays eligible (and selected), one with a
// custom untolerated taint does not.  Three nodes, node0 with one of those taints; either all three
// are requested, or two with node0 selected earlier.
func ZZ_C15_standardTolerationsCount() {
	key, effect, tolerated := "", corev1.TaintEffectNoSchedule, true
	switch nondet.String("node0.taint", "none", "unschedulable", "not-ready", "unreachable", "disk-pressure", "custom") {
	case "unschedulable":
		key = "node.kubernetes.io/unschedulable"
	case "not-ready":
		key, effect = "node.kubernetes.io/not-ready", corev1.TaintEffectNoExecute
	case "unreachable":
		key, effect = "node.kubernetes.io/unreachable", corev1.TaintEffectNoExecute
	case "disk-pressure":
		key = "node.kubernetes.io/disk-pressure"
	case "custom":
		key, tolerated = "dedicated", false
	}
	allThree := nondet.Bool("allThreeRequested")
	replicas := 2
	if allThree {
		replicas = 3
	}
	r := intstr.FromInt(replicas)
	ds := zzEDS("ns", "foo", "B", &datadoghqv1alpha1.ExtendedDaemonSetSpecStrategyCanary{Replicas: &r})
	c := fakeapi.New()
	for i := 0; i < 3; i++ {
		n := &corev1.Node{ObjectMeta: metav1.ObjectMeta{Name: "node" + strconv.Itoa(i)}}
		if i == 0 && key != "" {
			n.Spec.Taints = []corev1.Taint{{Key: key, Effect: effect}}
		}
		c.Nodes = append(c.Nodes, n)
	}
	status := &datadoghqv1alpha1.ExtendedDaemonSetStatusCanary{ReplicaSet: "foo-b"}
	if !allThree {
		status.Nodes = []string{"node0"}
	}
	rs := zzRS(ds, "B", "foo-b", nondet.Base().Add(-time.Minute))
	err := zzReconciler(c).selectNodes(logr.Logger{}, ds, &ds.Spec, rs, status)
	if tolerated {
		nondet.Assert("C15.tolerations.tolerated-taint-keeps-the-node-eligible", err == nil && len(status.Nodes) == replicas && zzHas(status.Nodes, "node0"))
	} else {
		nondet.Assert("C15.tolerations.untolerated-taint-excludes-the-node", !zzHas(status.Nodes, "node0") || err != nil)
		nondet.Assert("C15.tolerations.error-when-too-few", nondet.Implies(allThree, err != nil))
	}
	nondet.Observe("selected", len(status.Nodes))
	nondet.Reach("C15.tolerations.cordoned-node-kept", tolerated && key != "" && !allThree && err == nil)
}

// ZZ_C15_canarySelectorByExpressions: "each refers to an existing node that matches
// spec.strategy.canary.nodeSelector" — however the selector is written: by labels, by expressions only
// (In / NotIn / Exists), or both.  Three nodes labelled pool=canary / staging / other (node2 possibly
// without the label), one or two canary nodes requested, possibly a non-matching node selected earlier:
// every selected node matches, a non-matching earlier choice is dropped, too few matching nodes is an error.
func ZZ_C15_canarySelectorByExpressions() {
	form := nondet.String("selector", "labels", "in", "notin", "exists", "labels-and-in")
	sel := &metav1.LabelSelector{}
	in := metav1.LabelSelectorRequirement{Key: "pool", Operator: metav1.LabelSelectorOpIn, Values: []string{"canary", "staging"}}
	switch form {
	case "labels":
		sel.MatchLabels = map[string]string{"pool": "canary"}
	case "in":
		sel.MatchExpressions = []metav1.LabelSelectorRequirement{in}
	case "notin":
		sel.MatchExpressions = []metav1.LabelSelectorRequirement{{Key: "pool", Operator: metav1.LabelSelectorOpNotIn, Values: []string{"other"}}}
	case "exists":
		sel.MatchExpressions = []metav1.LabelSelectorRequirement{{Key: "pool", Operator: metav1.LabelSelectorOpExists}}
	default:
		sel.MatchLabels = map[string]string{"pool": "canary"}
		sel.MatchExpressions = []metav1.LabelSelectorRequirement{in}
	}
	node2Unlabelled := nondet.Bool("node2.withoutTheLabel")
	pools := []string{"canary", "staging", "other"}
	matches := func(i int) bool {
		p, has := pools[i], !(i == 2 && node2Unlabelled)
		switch form {
		case "labels", "labels-and-in":
			return has && p == "canary"
		case "in":
			return has && (p == "canary" || p == "staging")
		case "notin":
			return !has || p != "other"
		}
		return has // exists
	}
	replicas := 1
	if nondet.Bool("twoReplicas") {
		replicas = 2
	}
	r := intstr.FromInt(replicas)
	ds := zzEDS("ns", "foo", "B", &datadoghqv1alpha1.ExtendedDaemonSetSpecStrategyCanary{Replicas: &r, NodeSelector: sel})
	c := fakeapi.New()
	nMatch := 0
	for i := 0; i < 3; i++ {
		n := &corev1.Node{ObjectMeta: metav1.ObjectMeta{Name: "node" + strconv.Itoa(i), Labels: map[string]string{}}}
		if !(i == 2 && node2Unlabelled) {
			n.Labels["pool"] = pools[i]
		}
		c.Nodes = append(c.Nodes, n)
		if matches(i) {
			nMatch++
		}
	}
	status := &datadoghqv1alpha1.ExtendedDaemonSetStatusCanary{ReplicaSet: "foo-b"}
	if nondet.Bool("node2SelectedEarlier") {
		status.Nodes = []string{"node2"}
	}
	rs := zzRS(ds, "B", "foo-b", nondet.Base().Add(-time.Minute))
	err := zzReconciler(c).selectNodes(logr.Logger{}, ds, &ds.Spec, rs, status)
	nondet.Assert("C15.expr.error-when-too-few", nondet.Implies(nMatch < replicas, err != nil))
	nondet.Assert("C15.expr.succeeds-when-enough", nondet.Implies(nMatch >= replicas, err == nil))
	if err == nil {
		nondet.Assert("C15.expr.count", len(status.Nodes) == replicas)
		for _, name := range status.Nodes {
			for i := 0; i < 3; i++ {
				if name == "node"+strconv.Itoa(i) {
					nondet.Assert("C15.expr.every-selected-node-matches-the-selector", matches(i))
				}
			}
		}
	}
	nondet.Observe("selected", len(status.Nodes))
	nondet.Reach("C15.expr.expressions-only", form == "in" && err == nil && replicas == 2)
}
