//go:build verif

package extendeddaemonset

import (
	"time"

	corev1 "k8s.io/api/core/v1"
	metav1 "k8s.io/apimachinery/pkg/apis/meta/v1"
	"k8s.io/apimachinery/pkg/util/intstr"

	datadoghqv1alpha1 "github.com/DataDog/extendeddaemonset/api/v1alpha1"
	"github.com/DataDog/extendeddaemonset/zzverif/fakeapi"
	"github.com/DataDog/extendeddaemonset/zzverif/nondet"
)

// ZZ_C11_rollbackFaults: the failure-and-rollback scenario of the corpus with a fault at any
// write of the first reconcile (rejected / answer lost / controller stops): a fresh instance
// completes the rollback and reaches the same final spec and status as the failure-free run.
func ZZ_C11_rollbackFaults() {
	c, _ := zzFailedCanaryStore()
	c.InjectFaults = true
	_, err1 := zzReconcile(zzReconciler(c), "ns", "foo")
	faulted := false
	for _, e := range c.Log {
		if e.Failed {
			faulted = true
		}
	}
	nondet.Assert("C11.rollback.error-reported", nondet.Implies(faulted, err1 != nil))
	mid := zzStoredEDS(c, "ns", "foo")
	// safety at the intermediate point: the promotion rule (a failed canary is never made active)
	nondet.Assert("C11.rollback.mid-active", mid.Status.ActiveReplicaSet == "foo-a")
	c.InjectFaults = false
	for i := 0; i < 4; i++ {
		_, err := zzReconcile(zzReconciler(c), "ns", "foo")
		nondet.Assert("C11.rollback.recovery-ok", err == nil)
	}
	final := zzStoredEDS(c, "ns", "foo")
	// failure-free final state: template restored, no canary, active unchanged, state back to Running
	nondet.Assert("C11.rollback.final-template", zzImage(&final.Spec.Template) == "agent:A")
	nondet.Assert("C11.rollback.final-status", final.Status.Canary == nil && final.Status.ActiveReplicaSet == "foo-a" &&
		final.Status.State == datadoghqv1alpha1.ExtendedDaemonSetStatusStateRunning)
	n := len(c.Log)
	_, _ = zzReconcile(zzReconciler(c), "ns", "foo")
	for _, e := range c.Log[n:] {
		if e.Verb != "get" && e.Verb != "list" {
			nondet.Assert("C11.rollback.quiescent", e.Verb == "delete" && e.Name == "foo-b")
		}
	}
	nondet.Observe("state", string(final.Status.State))
	nondet.Reach("C11.rollback.spec-write-failed", faulted && zzImage(&mid.Spec.Template) == "agent:B" && mid.Status.Canary == nil)
	nondet.Reach("C11.rollback.status-write-failed", faulted && mid.Status.Canary != nil)
	nondet.Reach("C11.rollback.no-fault", !faulted)
}

// ZZ_C11_edsFaults: an ExtendedDaemonSet reconcile (first deployment, or promotion of a new
// template without canary strategy) in which any write may fail, be applied with the answer
// lost, or be followed by a controller restart: writes only touch own objects, a failed write
// is reported as an error, the promotion rule is respected at every intermediate store, and
// fault-free reconciles by a fresh instance reach the same final status as the failure-free run.
func ZZ_C11_edsFaults() {
	scenario := nondet.String("scenario", "first-deployment", "promotion")
	ds := zzEDS("ns", "foo", "B", nil)
	c := fakeapi.New()
	if scenario == "promotion" {
		rsA := zzRS(ds, "A", "foo-a", nondet.Base().Add(-time.Hour))
		rsA.Status.Desired, rsA.Status.Current, rsA.Status.Ready, rsA.Status.Available = 2, 2, 2, 2
		rsB := zzRS(ds, "B", "foo-b", nondet.Base().Add(-time.Minute))
		c.ERS = append(c.ERS, rsA, rsB)
		ds.Status.ActiveReplicaSet = "foo-a"
	}
	c.EDS = append(c.EDS, ds)
	c.InjectFaults = true
	first := zzReconciler(c)
	_, err1 := zzReconcile(first, "ns", "foo")
	// afterwards either the same instance keeps running or a fresh one takes over
	next := func() *Reconciler { return zzReconciler(c) }
	if nondet.Bool("sameInstanceSurvives") {
		next = func() *Reconciler { return first }
	}
	faulted := false
	for _, e := range c.Log {
		if e.Failed {
			faulted = true
		}
		if e.Verb == "get" || e.Verb == "list" {
			continue
		}
		// "no foreign object touched"
		switch e.Kind {
		case "ExtendedDaemonSet":
			nondet.Assert("C11.eds.own-object", e.Namespace == "ns" && e.Name == "foo")
		case "ExtendedDaemonSetReplicaSet":
			rs := e.Obj.(*datadoghqv1alpha1.ExtendedDaemonSetReplicaSet)
			nondet.Assert("C11.eds.own-replicaset", rs.Namespace == "ns" && len(rs.OwnerReferences) == 1 && rs.OwnerReferences[0].UID == ds.UID)
		default:
			nondet.Assert("C11.eds.known-kind", false)
		}
	}
	// a failed API call is reported
	nondet.Assert("C11.eds.error-reported", nondet.Implies(faulted, err1 != nil))
	// intermediate store: the active replica set is unset, the old one, or the one matching the template
	mid := zzStoredEDS(c, "ns", "foo")
	if scenario == "promotion" {
		nondet.Assert("C11.eds.mid-active", mid.Status.ActiveReplicaSet == "foo-a" || mid.Status.ActiveReplicaSet == "foo-b")
	}
	// recovery (surviving or fresh instance), no faults: at most three reconciles reach the final state
	c.InjectFaults = false
	for i := 0; i < 3; i++ {
		_, err := zzReconcile(next(), "ns", "foo")
		nondet.Assert("C11.eds.recovery-ok", err == nil)
	}
	final := zzStoredEDS(c, "ns", "foo")
	matching := 0
	for _, rs := range c.ERS {
		if rs.Spec.TemplateGeneration == zzHash("B") {
			matching++
			nondet.Assert("C11.eds.final-active", final.Status.ActiveReplicaSet == rs.Name)
		}
	}
	// "converges to the same final ... status as the run without the failure": exactly one replica
	// set for the template, and it is the active one — also after an applied-but-lost create
	nondet.Assert("C11.eds.one-replicaset-for-template", matching == 1)
	n := len(c.Log)
	_, _ = zzReconcile(next(), "ns", "foo")
	writes := 0
	for _, e := range c.Log[n:] {
		if e.Verb != "get" && e.Verb != "list" {
			writes++
		}
	}
	nondet.Assert("C11.eds.quiescent", writes == 0)
	nondet.Observe("active", final.Status.ActiveReplicaSet != "")
	nondet.Reach("C11.eds.create-lost", faulted && scenario == "first-deployment" && len(c.ERS) >= 1)
	nondet.Reach("C11.eds.status-write-failed", faulted && scenario == "promotion" && mid.Status.ActiveReplicaSet == "foo-a")
	nondet.Reach("C11.eds.no-fault", !faulted)
}

// ZZ_C11_readFaults: "if any single API call made during a reconcile fails ..." — reads included.
// The reconcile that starts a canary (one canary node wanted; node0's daemon pod restarted four
// times, node1's never) with every Get / List failing or not, independently: a reconcile in which a
// read failed reports the failure, and after failure-free reconciles the canary runs on the node
// the failure-free run selects (the one whose pods restarted least) — a selection made from a
// failed read must not stick.
func ZZ_C11_readFaults() {
	one := intstr.FromInt(1)
	// the share may be a percentage of the nodes the ExtendedDaemonSet targets (50% of node0, node1), next to
	// nodes it does not target (tainted): no failed read may make it a share of something else
	percent := nondet.Bool("replicasAsPercentage")
	if percent {
		one = intstr.FromString("50%")
	}
	canary := &datadoghqv1alpha1.ExtendedDaemonSetSpecStrategyCanary{Replicas: &one, Duration: &metav1.Duration{Duration: time.Hour}}
	ds := zzEDS("ns", "foo", "B", canary)
	c := fakeapi.New()
	if percent {
		for _, name := range []string{"tainted0", "tainted1"} {
			c.Nodes = append(c.Nodes, &corev1.Node{ObjectMeta: metav1.ObjectMeta{Name: name}, Spec: corev1.NodeSpec{Taints: []corev1.Taint{{Key: "dedicated", Value: "db", Effect: corev1.TaintEffectNoSchedule}}}})
		}
	}
	rsA := zzRS(ds, "A", "foo-a", nondet.Base().Add(-24*time.Hour))
	rsA.Status.Desired, rsA.Status.Current, rsA.Status.Ready, rsA.Status.Available = 2, 2, 2, 2
	rsB := zzRS(ds, "B", "foo-b", nondet.Base().Add(-time.Minute))
	c.ERS = append(c.ERS, rsA, rsB)
	ds.Status.ActiveReplicaSet = "foo-a"
	ds.Status.Desired = 2
	restarts := []int32{4, 0}
	for i, name := range []string{"node0", "node1"} {
		c.Nodes = append(c.Nodes, &corev1.Node{ObjectMeta: metav1.ObjectMeta{Name: name}})
		c.Pods = append(c.Pods, &corev1.Pod{
			ObjectMeta: metav1.ObjectMeta{Name: "pod-" + name, Namespace: "ns", Labels: map[string]string{datadoghqv1alpha1.ExtendedDaemonSetNameLabelKey: "foo"}},
			Spec:       corev1.PodSpec{NodeName: name},
			Status:     corev1.PodStatus{ContainerStatuses: []corev1.ContainerStatus{{Name: "agent", RestartCount: restarts[i]}}},
		})
	}
	c.EDS = append(c.EDS, ds)
	rec := zzReconciler(c)
	c.InjectReadFaults = true
	_, err1 := zzReconcile(rec, "ns", "foo")
	c.InjectReadFaults = false
	readFailed := false
	for _, e := range c.Log {
		if e.Failed && (e.Verb == "get" || e.Verb == "list") {
			readFailed = true
		}
	}
	// "a failed API call is reported"
	nondet.Assert("C11.read.error-reported", nondet.Implies(readFailed, err1 != nil))
	for i := 0; i < 3; i++ {
		_, err := zzReconcile(rec, "ns", "foo")
		nondet.Assert("C11.read.recovery-ok", err == nil)
	}
	final := zzStoredEDS(c, "ns", "foo")
	nondet.Assert("C11.read.same-canary-node-as-without-failure", final.Status.Canary != nil && len(final.Status.Canary.Nodes) == 1 && final.Status.Canary.Nodes[0] == "node1")
	nondet.Assert("C11.read.active-unchanged", final.Status.ActiveReplicaSet == "foo-a")
	nondet.Observe("readFailed", readFailed)
	nondet.Reach("C11.read.a-read-failed", readFailed)
	nondet.Reach("C11.read.none-failed", !readFailed)
}

// ZZ_C11_canaryEndFaults: the end of a canary takes two writes on the ExtendedDaemonSet — the status
// (status.canary cleared, new active replica set) and the object (canary annotations removed).  A
// paused / unpaused canary is validated by the user (or fails); in the faulty world every write of
// the reconcile that ends it is arbitrarily rejected, applied with the answer lost, or fine, and the
// controller instance survives or is replaced; the reference world runs the same reconcile without
// faults.  After the same failure-free reconciles both worlds hold the same ExtendedDaemonSet:
// status (active replica set, canary block, state) and canary annotations — nothing a failed write
// left half-done stays half-done.
func ZZ_C11_canaryEndFaults() {
	paused := nondet.Bool("ann.canary-paused")
	unpaused := nondet.Bool("ann.canary-unpaused")
	ending := nondet.String("ending", "validated", "failed")
	build := func() *fakeapi.Client {
		canary := &datadoghqv1alpha1.ExtendedDaemonSetSpecStrategyCanary{Duration: &metav1.Duration{Duration: time.Hour}}
		ds := zzEDS("ns", "foo", "B", canary)
		c := fakeapi.New()
		rsA := zzRS(ds, "A", "foo-a", nondet.Base().Add(-24*time.Hour))
		rsA.Status.Desired, rsA.Status.Current, rsA.Status.Ready, rsA.Status.Available = 2, 2, 2, 2
		rsB := zzRS(ds, "B", "foo-b", nondet.Base().Add(-10*time.Minute))
		rsB.Status.Desired, rsB.Status.Current, rsB.Status.Ready, rsB.Status.Available = 1, 1, 1, 1
		if paused {
			ds.Annotations[datadoghqv1alpha1.ExtendedDaemonSetCanaryPausedAnnotationKey] = "true"
			ds.Annotations[datadoghqv1alpha1.ExtendedDaemonSetCanaryPausedReasonAnnotationKey] = "CrashLoopBackOff"
		}
		if unpaused {
			ds.Annotations[datadoghqv1alpha1.ExtendedDaemonSetCanaryUnpausedAnnotationKey] = "true"
		}
		if ending == "validated" {
			ds.Annotations[datadoghqv1alpha1.ExtendedDaemonSetCanaryValidAnnotationKey] = "foo-b"
		} else {
			zzSetCond(rsB, datadoghqv1alpha1.ConditionTypeCanaryFailed, true, nondet.Base().Add(-time.Minute))
		}
		ds.Status.ActiveReplicaSet = "foo-a"
		ds.Status.State = datadoghqv1alpha1.ExtendedDaemonSetStatusStateCanary
		ds.Status.Canary = &datadoghqv1alpha1.ExtendedDaemonSetStatusCanary{ReplicaSet: "foo-b", Nodes: []string{"node0"}}
		c.Nodes = append(c.Nodes, &corev1.Node{ObjectMeta: metav1.ObjectMeta{Name: "node0"}}, &corev1.Node{ObjectMeta: metav1.ObjectMeta{Name: "node1"}})
		c.EDS = append(c.EDS, ds)
		c.ERS = append(c.ERS, rsA, rsB)
		return c
	}
	faulty, reference := build(), build()
	faulty.InjectFaults = true
	first := zzReconciler(faulty)
	_, _ = zzReconcile(first, "ns", "foo")
	faulty.InjectFaults = false
	_, errR := zzReconcile(zzReconciler(reference), "ns", "foo")
	nondet.Assert("C11.canary-end.reference-run-ok", errR == nil)
	next := func() *Reconciler { return zzReconciler(faulty) }
	if nondet.Bool("sameInstanceSurvives") {
		next = func() *Reconciler { return first }
	}
	for i := 0; i < 3; i++ {
		_, e1 := zzReconcile(next(), "ns", "foo")
		_, e2 := zzReconcile(zzReconciler(reference), "ns", "foo")
		nondet.Assert("C11.canary-end.recovery-ok", e1 == nil && e2 == nil)
	}
	f, r := zzStoredEDS(faulty, "ns", "foo"), zzStoredEDS(reference, "ns", "foo")
	nondet.Assert("C11.canary-end.same-status", f.Status.ActiveReplicaSet == r.Status.ActiveReplicaSet && (f.Status.Canary == nil) == (r.Status.Canary == nil) && f.Status.State == r.Status.State)
	for _, k := range []string{datadoghqv1alpha1.ExtendedDaemonSetCanaryPausedAnnotationKey, datadoghqv1alpha1.ExtendedDaemonSetCanaryPausedReasonAnnotationKey, datadoghqv1alpha1.ExtendedDaemonSetCanaryUnpausedAnnotationKey} {
		fv, fok := f.Annotations[k]
		rv, rok := r.Annotations[k]
		nondet.Assert("C11.canary-end.same-canary-annotations", fok == rok && fv == rv)
	}
	nondet.Assert("C11.canary-end.same-template", zzImage(&f.Spec.Template) == zzImage(&r.Spec.Template))
	anyFault := false
	for _, e := range faulty.Log {
		if e.Failed {
			anyFault = true
		}
	}
	nondet.Observe("active", r.Status.ActiveReplicaSet)
	nondet.Reach("C11.canary-end.object-write-rejected", anyFault && paused && r.Status.Canary == nil)
}
