//go:build verif

package extendeddaemonset

import (
	"errors"
	"time"

	corev1 "k8s.io/api/core/v1"
	apierrors "k8s.io/apimachinery/pkg/api/errors"
	metav1 "k8s.io/apimachinery/pkg/apis/meta/v1"
	"k8s.io/apimachinery/pkg/runtime/schema"

	datadoghqv1alpha1 "github.com/DataDog/extendeddaemonset/api/v1alpha1"
	"github.com/DataDog/extendeddaemonset/zzverif/fakeapi"
	"github.com/DataDog/extendeddaemonset/zzverif/nondet"
)

// ZZ_C08_pauseRacingWithTheReconcile: "while a canary is paused by annotation, elapsed time does not
// promote it" when the annotation arrives in the middle of a reconcile: the canary's duration has
// elapsed and the reconcile has decided to promote it from what it read, but before its status write
// reaches the API server the user (kubectl-eds canary pause, or rollout freeze / rolling-update pause
// for the plain rollout) annotates the object, so the write is answered Conflict.  The stored object —
// now paused — still names the old active replica set after that reconcile and after the next one,
// and the next one reports the paused state.
func ZZ_C08_pauseRacingWithTheReconcile() { zzPauseRace("C08.pause-race") }

// ZZ_C05_pauseRacingWithTheReconcile: the same race seen from the promotion rule: "switches ... only if
// ... the canary is neither paused nor failed" — the object that ends up stored is paused and must not
// name the new replica set as active.
func ZZ_C05_pauseRacingWithTheReconcile() { zzPauseRace("C05.pause-race") }

func zzPauseRace(prop string) {
	canary := &datadoghqv1alpha1.ExtendedDaemonSetSpecStrategyCanary{Duration: &metav1.Duration{Duration: 10 * time.Minute}}
	ds := zzEDS("ns", "foo", "B", canary)
	c := fakeapi.New()
	rsA := zzRS(ds, "A", "foo-a", nondet.Base().Add(-24*time.Hour))
	rsA.Status.Desired, rsA.Status.Current, rsA.Status.Ready, rsA.Status.Available = 2, 2, 2, 2
	rsB := zzRS(ds, "B", "foo-b", nondet.TimeSec("rsB.created", -7200, -601)) // the duration has elapsed
	rsB.Status.Desired, rsB.Status.Current, rsB.Status.Ready, rsB.Status.Available = 1, 1, 1, 1
	ds.Status.ActiveReplicaSet = "foo-a"
	ds.Status.State = datadoghqv1alpha1.ExtendedDaemonSetStatusStateCanary
	ds.Status.Canary = &datadoghqv1alpha1.ExtendedDaemonSetStatusCanary{ReplicaSet: "foo-b", Nodes: []string{"node0"}}
	c.Nodes = append(c.Nodes, &corev1.Node{ObjectMeta: metav1.ObjectMeta{Name: "node0"}}, &corev1.Node{ObjectMeta: metav1.ObjectMeta{Name: "node1"}})
	c.EDS = append(c.EDS, ds)
	c.ERS = append(c.ERS, rsA, rsB)
	raced := false
	c.OnStatusUpdate = func(kind, name string) error {
		if raced || kind != "ExtendedDaemonSet" || name != "foo" {
			return nil
		}
		raced = true
		// the user got in first
		for _, s := range c.EDS {
			if s.Name == "foo" && s.Namespace == "ns" {
				if s.Annotations == nil {
					s.Annotations = map[string]string{}
				}
				s.Annotations[datadoghqv1alpha1.ExtendedDaemonSetCanaryPausedAnnotationKey] = "true"
			}
		}
		return apierrors.NewConflict(schema.GroupResource{Resource: "extendeddaemonsets"}, name, errors.New("the object has been modified"))
	}
	_, err := zzReconcile(zzReconciler(c), "ns", "foo")
	nondet.Observe("error", err != nil)
	st := zzStoredEDS(c, "ns", "foo")
	nondet.Assert(prop+".not-promoted-by-the-stale-decision", st.Status.ActiveReplicaSet == "foo-a")
	nondet.Assert(prop+".annotation-kept", st.Annotations[datadoghqv1alpha1.ExtendedDaemonSetCanaryPausedAnnotationKey] == "true")
	_, err = zzReconcile(zzReconciler(c), "ns", "foo")
	st = zzStoredEDS(c, "ns", "foo")
	nondet.Assert(prop+".next-noerror", err == nil)
	nondet.Assert(prop+".next-not-promoted", st.Status.ActiveReplicaSet == "foo-a")
	nondet.Assert(prop+".next-state", st.Status.State == datadoghqv1alpha1.ExtendedDaemonSetStatusStateCanaryPaused)
	nondet.Assert(prop+".next-annotation-kept", st.Annotations[datadoghqv1alpha1.ExtendedDaemonSetCanaryPausedAnnotationKey] == "true")
	nondet.Reach(prop+".raced", raced)
}
