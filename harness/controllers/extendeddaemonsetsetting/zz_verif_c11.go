//go:build verif

package extendeddaemonsetsetting

import (
	"context"
	"time"

	"github.com/go-logr/logr"
	autoscalingv1 "k8s.io/api/autoscaling/v1"
	corev1 "k8s.io/api/core/v1"
	metav1 "k8s.io/apimachinery/pkg/apis/meta/v1"
	"k8s.io/apimachinery/pkg/types"
	"sigs.k8s.io/controller-runtime/pkg/reconcile"

	datadoghqv1alpha1 "github.com/DataDog/extendeddaemonset/api/v1alpha1"
	"github.com/DataDog/extendeddaemonset/zzverif/fakeapi"
	"github.com/DataDog/extendeddaemonset/zzverif/nondet"
)

// ZZ_C11_settingFaults: the "settings change" scenario of C11 for the ExtendedDaemonsetSetting
// controller: "subsequent failure-free reconciliation then converges to the same final ... status
// as the run without the failure".  Two settings of one namespace, s-old and s-new (created later
// or at the same instant), whose selectors overlap on node0 (or not), with the statuses an earlier
// history left (s-old valid or in conflict, s-new not yet examined / valid / in conflict).  Two
// copies of that world: in the faulty one a reconcile of either setting runs with every API call
// (reads and the status write) arbitrarily rejected or applied-with-answer-lost, possibly by a
// controller instance that then stops; in the reference one the same reconcile runs fault-free.
// Then both worlds get the same failure-free reconciles of both settings (either order, twice).
// The final status of each setting is the same in both worlds: no decision depends on what a
// failed reconcile left behind.
func ZZ_C11_settingFaults() {
	overlap := nondet.Bool("selectorsOverlap")
	sameInstant := nondet.Bool("createdAtTheSameInstant")
	oldStatus := nondet.String("s-old.status", "valid", "conflict")
	newStatus := nondet.String("s-new.status", "", "valid", "conflict")
	faultyIsOld := nondet.Bool("faultyReconcileOfOld")
	newFirst := nondet.Bool("recovery.newFirst")

	build := func() *fakeapi.Client {
		c := fakeapi.New()
		c.Nodes = append(c.Nodes,
			&corev1.Node{ObjectMeta: metav1.ObjectMeta{Name: "node0", Labels: map[string]string{"k": "a"}}},
			&corev1.Node{ObjectMeta: metav1.ObjectMeta{Name: "node1", Labels: map[string]string{"k": "b"}}})
		mk := func(name string, created time.Time, sel metav1.LabelSelector, status string) *datadoghqv1alpha1.ExtendedDaemonsetSetting {
			s := &datadoghqv1alpha1.ExtendedDaemonsetSetting{
				ObjectMeta: metav1.ObjectMeta{Name: name, Namespace: "ns", CreationTimestamp: metav1.NewTime(created)},
				Spec: datadoghqv1alpha1.ExtendedDaemonsetSettingSpec{NodeSelector: sel,
					Reference: &autoscalingv1.CrossVersionObjectReference{Kind: "ExtendedDaemonset", Name: "foo"}},
			}
			switch status {
			case "valid":
				s.Status.Status = datadoghqv1alpha1.ExtendedDaemonsetSettingStatusValid
			case "conflict":
				s.Status.Status = datadoghqv1alpha1.ExtendedDaemonsetSettingStatusError
				s.Status.Error = "conflict with another ExtendedDaemonsetSetting: x"
			}
			return s
		}
		newSel := zzSel{"labels-b"}
		if overlap {
			newSel = zzSel{"exists"}
		}
		newCreated := nondet.Base()
		if sameInstant {
			newCreated = nondet.Base().Add(-time.Hour)
		}
		c.Settings = append(c.Settings,
			mk("s-old", nondet.Base().Add(-time.Hour), zzSel{"labels-a"}.selector(), oldStatus),
			mk("s-new", newCreated, newSel.selector(), newStatus))
		return c
	}
	rec := func(c *fakeapi.Client, name string) error {
		r := &Reconciler{client: c, scheme: c.Scheme(), log: logr.Logger{}, recorder: &fakeapi.Recorder{}}
		_, err := r.Reconcile(context.TODO(), reconcile.Request{NamespacedName: types.NamespacedName{Namespace: "ns", Name: name}})
		return err
	}
	faulty, reference := build(), build()
	target := "s-new"
	if faultyIsOld {
		target = "s-old"
	}
	faulty.InjectFaults, faulty.InjectReadFaults = true, true
	rec(faulty, target)
	faulty.InjectFaults, faulty.InjectReadFaults = false, false
	nondet.Assert("C11.settings.reference-run-ok", rec(reference, target) == nil)
	anyFault := false
	for _, e := range faulty.Log {
		if e.Failed {
			anyFault = true
		}
	}
	order := []string{"s-old", "s-new"}
	if newFirst {
		order = []string{"s-new", "s-old"}
	}
	for round := 0; round < 2; round++ {
		for _, n := range order {
			nondet.Assert("C11.settings.recovery-ok", rec(faulty, n) == nil && rec(reference, n) == nil)
		}
	}
	for i := range faulty.Settings {
		f, r := faulty.Settings[i], reference.Settings[i]
		nondet.Assert("C11.settings.same-final-status", f.Name == r.Name && f.Status.Status == r.Status.Status && f.Status.Error == r.Status.Error)
		nondet.Assert("C11.settings.examined", f.Status.Status == datadoghqv1alpha1.ExtendedDaemonsetSettingStatusValid || f.Status.Status == datadoghqv1alpha1.ExtendedDaemonsetSettingStatusError)
	}
	nondet.Observe("s-old", string(faulty.Settings[0].Status.Status))
	nondet.Observe("s-new", string(faulty.Settings[1].Status.Status))
	nondet.Reach("C11.settings.fault-on-current-winner", anyFault && overlap && faulty.Settings[0].Status.Status != faulty.Settings[1].Status.Status)
}
