//go:build verif

package extendeddaemonsetsetting

import (
	"context"
	"strconv"
	"strings"
	"time"

	"github.com/go-logr/logr"
	autoscalingv1 "k8s.io/api/autoscaling/v1"
	corev1 "k8s.io/api/core/v1"
	metav1 "k8s.io/apimachinery/pkg/apis/meta/v1"
	"k8s.io/apimachinery/pkg/types"
	"sigs.k8s.io/controller-runtime/pkg/reconcile"

	datadoghqv1alpha1 "github.com/DataDog/extendeddaemonset/api/v1alpha1"
	"github.com/DataDog/extendeddaemonset/zzverif/fakeapi"
	"github.com/DataDog/extendeddaemonset/zzverif/nondet"
)

type zzSel struct {
	kind string // labels-a labels-b in-a notin-a exists bogus labels-illegal everything
}

func (s zzSel) selector() metav1.LabelSelector {
	switch s.kind {
	case "labels-a":
		return metav1.LabelSelector{MatchLabels: map[string]string{"k": "a"}}
	case "labels-b":
		return metav1.LabelSelector{MatchLabels: map[string]string{"k": "b"}}
	case "in-a":
		return metav1.LabelSelector{MatchExpressions: []metav1.LabelSelectorRequirement{{Key: "k", Operator: metav1.LabelSelectorOpIn, Values: []string{"a"}}}}
	case "notin-a":
		return metav1.LabelSelector{MatchExpressions: []metav1.LabelSelectorRequirement{{Key: "k", Operator: metav1.LabelSelectorOpNotIn, Values: []string{"a"}}}}
	case "exists":
		return metav1.LabelSelector{MatchExpressions: []metav1.LabelSelectorRequirement{{Key: "k", Operator: metav1.LabelSelectorOpExists}}}
	case "labels-illegal":
		// unusable without any expression: a label value that is not a legal one
		return metav1.LabelSelector{MatchLabels: map[string]string{"k": "not a legal value"}}
	case "everything":
		// an empty selector selects every node
		return metav1.LabelSelector{}
	}
	return metav1.LabelSelector{MatchExpressions: []metav1.LabelSelectorRequirement{{Key: "k", Operator: "Bogus", Values: []string{"a"}}}}
}

// matches: reference semantics of the selector kinds on a node label value ("" = label absent)
func (s zzSel) matches(label string) bool {
	switch s.kind {
	case "labels-a", "in-a":
		return label == "a"
	case "labels-b":
		return label == "b"
	case "notin-a":
		return label != "a"
	case "exists":
		return label != ""
	case "everything":
		return true
	}
	return false
}

func zzCreatedMax(n int, small bool) int {
	if small {
		return 1
	}
	return n - 1
}

func (s zzSel) usable() bool { return s.kind != "bogus" && s.kind != "labels-illegal" }

func zzPickSel(label string, small bool) zzSel {
	if small {
		// reduced alphabet of the three-settings quick harness
		switch nondet.String(label, "labels-a", "notin-a", "bogus") {
		case "labels-a":
			return zzSel{"labels-a"}
		case "notin-a":
			return zzSel{"notin-a"}
		}
		return zzSel{"bogus"}
	}
	switch nondet.String(label, "labels-a", "labels-b", "in-a", "notin-a", "exists", "bogus", "labels-illegal", "everything") {
	case "labels-illegal":
		return zzSel{"labels-illegal"}
	case "everything":
		return zzSel{"everything"}
	case "labels-a":
		return zzSel{"labels-a"}
	case "labels-b":
		return zzSel{"labels-b"}
	case "in-a":
		return zzSel{"in-a"}
	case "notin-a":
		return zzSel{"notin-a"}
	case "exists":
		return zzSel{"exists"}
	}
	return zzSel{"bogus"}
}

// ZZ_C18_three: three settings (reduced selector alphabet in the quick tier), so that an
// unusable or losing setting can sit between two others in the precedence order.
// (Three settings over the full alphabets did not finish within 25 minutes: the thorough tier keeps
// the reduced alphabets and adds the reconcile-order swaps; the full alphabets are covered for two
// settings by ZZ_C18_mutex.)
func ZZ_C18_three() { zzC18(3, true) }

// ZZ_C18_single: a setting alone in its namespace (another namespace holds one more): in error
// without a reference or with an unusable selector, valid otherwise, whatever the nodes.
func ZZ_C18_single() { zzC18(1, false) }

// ZZ_C18_mutex: two settings over the full alphabets.
func ZZ_C18_mutex() { zzC18(2, false) }

// zzC18: after every setting of a namespace was reconciled against the same nodes, at
// most one valid setting matches any node; settings without reference or with an unusable
// selector are in error; a well-formed setting overlapping no other one is valid.
func zzC18(nSettings int, small bool) {
	nNodes := 2
	// zero to two nodes (the three-settings quick harness: exactly two)
	if !small {
		for v, k := 0, nondet.Int("nNodes", 0, 2); v <= 2; v++ {
			if k == v {
				nNodes = v
			}
		}
	}
	c := fakeapi.New()
	labels := make([]string, nNodes)
	for i := 0; i < nNodes; i++ {
		nodeLabels := []string{"", "a", "b"}
		if small {
			nodeLabels = []string{"a", "b"}
		}
		switch nondet.String("node"+strconv.Itoa(i)+".label", nodeLabels...) {
		case "a":
			labels[i] = "a"
		case "b":
			labels[i] = "b"
		}
		n := &corev1.Node{ObjectMeta: metav1.ObjectMeta{Name: "node" + strconv.Itoa(i), Labels: map[string]string{}}}
		if labels[i] != "" {
			n.Labels["k"] = labels[i]
		}
		c.Nodes = append(c.Nodes, n)
	}
	sels := make([]zzSel, nSettings)
	hasRef := make([]bool, nSettings)
	for j := 0; j < nSettings; j++ {
		l := "s" + strconv.Itoa(j)
		sels[j] = zzPickSel(l+".selector", small)
		s := &datadoghqv1alpha1.ExtendedDaemonsetSetting{
			ObjectMeta: metav1.ObjectMeta{Name: l, Namespace: "ns", CreationTimestamp: metav1.NewTime(nondet.TimeSec(l+".created", 0, zzCreatedMax(nSettings, small)))},
			Spec:       datadoghqv1alpha1.ExtendedDaemonsetSettingSpec{NodeSelector: sels[j].selector()},
		}
		// (settings of a namespace compete for a node whichever ExtendedDaemonSet they refer to: "bar" is another one)
		refs := []string{"nil", "empty", "foo"}
		if j == 1 {
			refs = []string{"nil", "empty", "foo", "bar"} // (only the second setting may refer to the other one: enough for a mixed pair)
		}
		if small {
			refs = []string{"nil", "foo"}
		}
		switch nondet.String(l+".reference", refs...) {
		case "empty":
			s.Spec.Reference = &autoscalingv1.CrossVersionObjectReference{Kind: "ExtendedDaemonset"}
		case "foo":
			s.Spec.Reference = &autoscalingv1.CrossVersionObjectReference{Kind: "ExtendedDaemonset", Name: "foo"}
			hasRef[j] = true
		case "bar":
			s.Spec.Reference = &autoscalingv1.CrossVersionObjectReference{Kind: "ExtendedDaemonset", Name: "bar"}
			hasRef[j] = true
		}
		// what an earlier reconcile left in the status of the first setting (a conflict or an error whose
		// cause may be gone by now) must not stick
		if j == 0 && nondet.Bool(l+".previouslyInError") {
			s.Status = datadoghqv1alpha1.ExtendedDaemonsetSettingStatus{Status: datadoghqv1alpha1.ExtendedDaemonsetSettingStatusError, Error: "conflict with another ExtendedDaemonsetSetting: gone"}
		}
		c.Settings = append(c.Settings, s)
	}
	// a setting of another namespace never interferes
	c.Settings = append(c.Settings, &datadoghqv1alpha1.ExtendedDaemonsetSetting{
		ObjectMeta: metav1.ObjectMeta{Name: "other", Namespace: "ns2", CreationTimestamp: metav1.NewTime(nondet.Base().Add(time.Hour))},
		Spec:       datadoghqv1alpha1.ExtendedDaemonsetSettingSpec{Reference: &autoscalingv1.CrossVersionObjectReference{Name: "foo"}, NodeSelector: zzSel{"exists"}.selector()},
	})
	r := &Reconciler{client: c, scheme: c.Scheme(), log: logr.Logger{}, recorder: &fakeapi.Recorder{}}
	// every order of reconciling them
	first := 0
	if !small {
		for v, f := 0, nondet.Int("order.first", 0, nSettings-1); v < nSettings; v++ {
			if f == v {
				first = v
			}
		}
	}
	for k := 0; k < nSettings; k++ {
		j := (first + k) % nSettings
		if nondet.Thorough() && k > 0 && nondet.Bool("order.swap"+strconv.Itoa(k)) && k+1 < nSettings {
			j = (first + k + 1) % nSettings
		}
		_, err := r.Reconcile(context.TODO(), reconcile.Request{NamespacedName: types.NamespacedName{Namespace: "ns", Name: "s" + strconv.Itoa(j)}})
		nondet.Assert("C18.noerror", err == nil)
	}
	// make sure each one was reconciled at least once
	for j := 0; j < nSettings; j++ {
		_, err := r.Reconcile(context.TODO(), reconcile.Request{NamespacedName: types.NamespacedName{Namespace: "ns", Name: "s" + strconv.Itoa(j)}})
		nondet.Assert("C18.noerror", err == nil)
	}
	status := func(j int) datadoghqv1alpha1.ExtendedDaemonsetSettingStatus {
		for _, s := range c.Settings {
			if s.Namespace == "ns" && s.Name == "s"+strconv.Itoa(j) {
				return s.Status
			}
		}
		return datadoghqv1alpha1.ExtendedDaemonsetSettingStatus{}
	}
	anyBogus := false
	for j := 0; j < nSettings; j++ {
		if !sels[j].usable() {
			anyBogus = true
		}
	}
	nondet.Fact("someSelectorUnusable", anyBogus)
	for i := 0; i < nNodes; i++ {
		valid := 0
		for j := 0; j < nSettings; j++ {
			if sels[j].matches(labels[i]) && status(j).Status == datadoghqv1alpha1.ExtendedDaemonsetSettingStatusValid {
				valid++
			}
		}
		// "at most one is valid"
		nondet.Assert("C18.at-most-one-valid-per-node", valid <= 1)
	}
	for j := 0; j < nSettings; j++ {
		st := status(j)
		nondet.Assert("C18.status-set", st.Status == datadoghqv1alpha1.ExtendedDaemonsetSettingStatusValid || st.Status == datadoghqv1alpha1.ExtendedDaemonsetSettingStatusError)
		// "a setting without a reference or with an unusable selector is in error"
		if !hasRef[j] || !sels[j].usable() {
			nondet.Assert("C18.malformed-in-error", st.Status == datadoghqv1alpha1.ExtendedDaemonsetSettingStatusError && st.Error != "")
			continue
		}
		overlaps := false
		overlapsValid := false
		for o := 0; o < nSettings; o++ {
			if o == j {
				continue
			}
			for i := 0; i < nNodes; i++ {
				if sels[j].matches(labels[i]) && sels[o].matches(labels[i]) {
					overlaps = true
					if status(o).Status == datadoghqv1alpha1.ExtendedDaemonsetSettingStatusValid {
						overlapsValid = true
					}
				}
			}
		}
		// "a well-formed setting overlapping no other is valid"
		if !overlaps {
			nondet.Assert("C18.wellformed-alone-valid", st.Status == datadoghqv1alpha1.ExtendedDaemonsetSettingStatusValid && st.Error == "")
		}
		// "the others report a conflict error"
		if overlapsValid {
			nondet.Assert("C18.loser-reports-conflict", st.Status == datadoghqv1alpha1.ExtendedDaemonsetSettingStatusError && strings.Contains(st.Error, "conflict"))
		}
	}
	nondet.Observe("s0", string(status(0).Status))
	if nSettings == 1 {
		nondet.Reach("C18.single.unusable-in-error", !sels[0].usable() && hasRef[0] && status(0).Status == datadoghqv1alpha1.ExtendedDaemonsetSettingStatusError)
		nondet.Reach("C18.single.valid", sels[0].usable() && hasRef[0] && status(0).Status == datadoghqv1alpha1.ExtendedDaemonsetSettingStatusValid)
		return
	}
	nondet.Observe("s1", string(status(1).Status))
	nondet.Reach("C18.conflict", status(0).Status == datadoghqv1alpha1.ExtendedDaemonsetSettingStatusError && hasRef[0] && sels[0].usable() && status(1).Status == datadoghqv1alpha1.ExtendedDaemonsetSettingStatusValid)
	if !small {
		nondet.Reach("C18.no-nodes", nNodes == 0)
	}
	nondet.Reach("C18.both-valid-disjoint", status(0).Status == datadoghqv1alpha1.ExtendedDaemonsetSettingStatusValid && status(1).Status == datadoghqv1alpha1.ExtendedDaemonsetSettingStatusValid)
	if nSettings == 3 {
		nondet.Reach("C18.unusable-in-the-middle", !sels[1].usable() && hasRef[0] && hasRef[2] && sels[0].usable() && sels[2].usable())
		return
	}
	nondet.Reach("C18.tie-in-creation-time", hasRef[0] && hasRef[1] && sels[0].kind == "exists" && sels[1].kind == "exists" && nNodes >= 1 && labels[0] != "" && status(0).Status != status(1).Status)
}

// ZZ_C18_selectorChangesBetweenPasses: "once each has been reconciled against the same cluster state at
// most one is valid" also for a long-lived controller process that has seen an earlier state: two
// settings with a reference are reconciled (both orders), then setting s1 gets another node selector —
// edited in place (generation incremented) or deleted and created again under the same name (same
// generation, later creation time) — and both are reconciled again by the same process.  The verdicts
// are those of the selectors as they are now: at most one valid setting per node, a loser reports a
// conflict, a setting overlapping nothing is valid.
func ZZ_C18_selectorChangesBetweenPasses() {
	c := fakeapi.New()
	labels := []string{"a", "b"}
	for i, l := range labels {
		c.Nodes = append(c.Nodes, &corev1.Node{ObjectMeta: metav1.ObjectMeta{Name: "node" + strconv.Itoa(i), Labels: map[string]string{"k": l}}})
	}
	pick := func(label string) zzSel {
		switch nondet.String(label, "labels-a", "labels-b", "notin-a", "exists") {
		case "labels-a":
			return zzSel{"labels-a"}
		case "labels-b":
			return zzSel{"labels-b"}
		case "notin-a":
			return zzSel{"notin-a"}
		}
		return zzSel{"exists"}
	}
	sels := []zzSel{pick("s0.selector"), pick("s1.selector.before")}
	for j := 0; j < 2; j++ {
		c.Settings = append(c.Settings, &datadoghqv1alpha1.ExtendedDaemonsetSetting{
			ObjectMeta: metav1.ObjectMeta{Name: "s" + strconv.Itoa(j), Namespace: "ns", Generation: 1, CreationTimestamp: metav1.NewTime(nondet.Base().Add(time.Duration(j) * time.Minute))},
			Spec:       datadoghqv1alpha1.ExtendedDaemonsetSettingSpec{Reference: &autoscalingv1.CrossVersionObjectReference{Kind: "ExtendedDaemonset", Name: "foo"}, NodeSelector: sels[j].selector()},
		})
	}
	r := &Reconciler{client: c, scheme: c.Scheme(), log: logr.Logger{}, recorder: &fakeapi.Recorder{}}
	pass := func() {
		order := []int{0, 1, 0, 1}
		if nondet.Bool("s1First") {
			order = []int{1, 0, 1, 0}
		}
		for _, j := range order {
			_, err := r.Reconcile(context.TODO(), reconcile.Request{NamespacedName: types.NamespacedName{Namespace: "ns", Name: "s" + strconv.Itoa(j)}})
			nondet.Assert("C18.passes.noerror", err == nil)
		}
	}
	pass()
	// s1 changes
	sels[1] = pick("s1.selector.after")
	for _, s := range c.Settings {
		if s.Namespace == "ns" && s.Name == "s1" {
			s.Spec.NodeSelector = sels[1].selector()
			if nondet.Bool("s1.recreated") {
				s.CreationTimestamp = metav1.NewTime(nondet.Base().Add(10 * time.Minute))
				s.UID = "uid-s1-again"
				s.Status = datadoghqv1alpha1.ExtendedDaemonsetSettingStatus{}
			} else {
				s.Generation = 2
			}
		}
	}
	pass()
	status := func(j int) datadoghqv1alpha1.ExtendedDaemonsetSettingStatus {
		for _, s := range c.Settings {
			if s.Namespace == "ns" && s.Name == "s"+strconv.Itoa(j) {
				return s.Status
			}
		}
		return datadoghqv1alpha1.ExtendedDaemonsetSettingStatus{}
	}
	overlap := false
	for _, l := range labels {
		valid := 0
		both := true
		for j := 0; j < 2; j++ {
			if sels[j].matches(l) {
				if status(j).Status == datadoghqv1alpha1.ExtendedDaemonsetSettingStatusValid {
					valid++
				}
			} else {
				both = false
			}
		}
		if both {
			overlap = true
		}
		nondet.Assert("C18.passes.at-most-one-valid-per-node", valid <= 1)
	}
	for j := 0; j < 2; j++ {
		st := status(j)
		if !overlap {
			nondet.Assert("C18.passes.wellformed-alone-valid", st.Status == datadoghqv1alpha1.ExtendedDaemonsetSettingStatusValid && st.Error == "")
		} else if status(1-j).Status == datadoghqv1alpha1.ExtendedDaemonsetSettingStatusValid {
			nondet.Assert("C18.passes.loser-reports-conflict", st.Status == datadoghqv1alpha1.ExtendedDaemonsetSettingStatusError && strings.Contains(st.Error, "conflict"))
		}
	}
	nondet.Observe("s0", string(status(0).Status))
	nondet.Observe("s1", string(status(1).Status))
	nondet.Reach("C18.passes.overlap-appears", overlap && status(0).Status != status(1).Status)
	nondet.Reach("C18.passes.overlap-disappears", !overlap)
}
