//go:build verif

package podtemplate

import (
	"context"

	"github.com/go-logr/logr"
	corev1 "k8s.io/api/core/v1"
	apiequality "k8s.io/apimachinery/pkg/api/equality"
	metav1 "k8s.io/apimachinery/pkg/apis/meta/v1"
	"k8s.io/apimachinery/pkg/types"
	"sigs.k8s.io/controller-runtime/pkg/reconcile"

	datadoghqv1alpha1 "github.com/DataDog/extendeddaemonset/api/v1alpha1"
	"github.com/DataDog/extendeddaemonset/zzverif/fakeapi"
	"github.com/DataDog/extendeddaemonset/zzverif/nondet"
)

// ZZ_C12_podTemplateIsolation: reconciling X = ns/foo writes only "the PodTemplate of the same
// name and namespace": PodTemplates of a same-named ExtendedDaemonSet in another namespace, of
// another ExtendedDaemonSet in the same namespace and an unowned one are never created, modified
// or deleted, whatever they contain, and the object written for X is owned by X.
func ZZ_C12_podTemplateIsolation() {
	c := fakeapi.New()
	x := &datadoghqv1alpha1.ExtendedDaemonSet{ObjectMeta: metav1.ObjectMeta{Name: "foo", Namespace: "ns", UID: "uid-x", Labels: map[string]string{"team": "x"}},
		Spec: datadoghqv1alpha1.ExtendedDaemonSetSpec{Template: zzTpl(zzPick("x.template"))}}
	y := &datadoghqv1alpha1.ExtendedDaemonSet{ObjectMeta: metav1.ObjectMeta{Name: "foo", Namespace: "ns2", UID: "uid-y"},
		Spec: datadoghqv1alpha1.ExtendedDaemonSetSpec{Template: zzTpl("A")}}
	z := &datadoghqv1alpha1.ExtendedDaemonSet{ObjectMeta: metav1.ObjectMeta{Name: "bar", Namespace: "ns", UID: "uid-z"},
		Spec: datadoghqv1alpha1.ExtendedDaemonSetSpec{Template: zzTpl("A")}}
	c.EDS = append(c.EDS, x, y, z)
	var foreign []*corev1.PodTemplate
	addForeign := func(ns, name, tpl string) {
		pt := &corev1.PodTemplate{ObjectMeta: metav1.ObjectMeta{Name: name, Namespace: ns, Annotations: map[string]string{"k": "v"}}, Template: zzTpl(tpl)}
		c.PodTemplates = append(c.PodTemplates, pt)
		foreign = append(foreign, pt.DeepCopy())
	}
	if nondet.Bool("y.podTemplate") {
		addForeign("ns2", "foo", zzPick("y.podTemplate.template")) // possibly stale w.r.t. Y, possibly equal to X's template
	}
	if nondet.Bool("z.podTemplate") {
		addForeign("ns", "bar", zzPick("z.podTemplate.template"))
	}
	if nondet.Bool("unowned.podTemplate") {
		addForeign("ns", "foo-extra", "B")
	}
	if nondet.Bool("x.podTemplate") {
		c.PodTemplates = append(c.PodTemplates, &corev1.PodTemplate{ObjectMeta: metav1.ObjectMeta{Name: "foo", Namespace: "ns", Annotations: map[string]string{}}, Template: zzTpl(zzPick("x.podTemplate.template"))})
	}
	r := &Reconciler{client: c, scheme: c.Scheme(), log: logr.Logger{}, recorder: &fakeapi.Recorder{}}
	_, err := r.Reconcile(context.TODO(), reconcile.Request{NamespacedName: types.NamespacedName{Namespace: "ns", Name: "foo"}})
	nondet.Assert("C12.pt.noerror", err == nil)
	for _, e := range c.Writes() {
		nondet.Assert("C12.pt.writes-only-own-podtemplate", e.Kind == "PodTemplate" && e.Namespace == "ns" && e.Name == "foo" && (e.Verb == "create" || e.Verb == "update"))
		if pt, ok := e.Obj.(*corev1.PodTemplate); ok {
			nondet.Assert("C12.pt.owned-by-x", len(pt.OwnerReferences) == 1 && pt.OwnerReferences[0].UID == "uid-x" && pt.OwnerReferences[0].Name == "foo")
		}
	}
	for _, f := range foreign {
		found := false
		for _, p := range c.PodTemplates {
			if p.Namespace == f.Namespace && p.Name == f.Name {
				found = apiequality.Semantic.DeepEqual(p.Template, f.Template) && len(p.Annotations) == 1 && p.Annotations["k"] == "v" && len(p.OwnerReferences) == 0
			}
		}
		nondet.Assert("C12.pt.foreign-untouched", found)
	}
	nondet.Observe("writes", len(c.Writes()))
	nondet.Reach("C12.pt.foreign-present", len(foreign) == 3)
}
