//go:build verif

package podtemplate

import (
	"context"

	"github.com/go-logr/logr"
	corev1 "k8s.io/api/core/v1"
	apiequality "k8s.io/apimachinery/pkg/api/equality"
	"k8s.io/apimachinery/pkg/api/resource"
	metav1 "k8s.io/apimachinery/pkg/apis/meta/v1"
	"k8s.io/apimachinery/pkg/types"
	"sigs.k8s.io/controller-runtime/pkg/reconcile"

	datadoghqv1alpha1 "github.com/DataDog/extendeddaemonset/api/v1alpha1"
	"github.com/DataDog/extendeddaemonset/pkg/controller/utils/comparison"
	"github.com/DataDog/extendeddaemonset/zzverif/fakeapi"
	"github.com/DataDog/extendeddaemonset/zzverif/nondet"
)

// zzTpl: templates A, B, C differ in the pod spec (image); Bl and Ba equal B except for a
// label / an annotation / the name of the template's own metadata.
func zzTpl(id string) corev1.PodTemplateSpec {
	t := corev1.PodTemplateSpec{
		ObjectMeta: metav1.ObjectMeta{Labels: map[string]string{"app": "agent"}},
		Spec:       corev1.PodSpec{Containers: []corev1.Container{{Name: "agent", Image: "agent:" + zzImageOf(id)}}},
	}
	switch id {
	case "Bl":
		t.Labels["tier"] = "canary"
	case "Ba":
		t.Annotations = map[string]string{"checksum/config": "abc"}
	case "Bn":
		t.Name = "agent" // as copied from a Pod manifest; defaulting of the ExtendedDaemonSet clears it later
	case "Bq":
		t.Spec.Containers[0].Resources.Requests = corev1.ResourceList{corev1.ResourceMemory: resource.MustParse("1Gi")}
	case "Bq2":
		// the same quantity written differently: another text, so another template and another hash
		t.Spec.Containers[0].Resources.Requests = corev1.ResourceList{corev1.ResourceMemory: resource.MustParse("1073741824")}
	}
	return t
}

func zzImageOf(id string) string {
	if id == "Bl" || id == "Ba" || id == "Bn" || id == "Bq" || id == "Bq2" {
		return "B"
	}
	return id
}

func zzPick(label string) string {
	switch nondet.String(label, "A", "B", "C", "Bl", "Ba", "Bn", "Bq", "Bq2") {
	case "A":
		return "A"
	case "B":
		return "B"
	case "Bl":
		return "Bl"
	case "Ba":
		return "Ba"
	case "Bn":
		return "Bn"
	case "Bq":
		return "Bq"
	case "Bq2":
		return "Bq2"
	}
	return "C"
}

// ZZ_C13_podTemplate: after its reconcile the PodTemplate of the same name and namespace
// equals spec.template and carries its hash, whatever it contained before; an up-to-date
// PodTemplate is not rewritten; nothing else is written.
func ZZ_C13_podTemplate() {
	cur := zzPick("spec.template")
	ds := &datadoghqv1alpha1.ExtendedDaemonSet{
		ObjectMeta: metav1.ObjectMeta{Name: "foo", Namespace: "ns", UID: "uid-foo", Labels: map[string]string{"team": "x"}},
		Spec:       datadoghqv1alpha1.ExtendedDaemonSetSpec{Template: zzTpl(cur)},
	}
	// whatever the ExtendedDaemonSet is going through (canary running, paused, just failed, rolling
	// update paused) the PodTemplate follows spec.template: "edits during a canary" included
	switch nondet.String("eds.phase", "blank", "canary", "canary-paused", "canary-failed", "rolling-update-paused") {
	case "canary":
		ds.Spec.Strategy.Canary = &datadoghqv1alpha1.ExtendedDaemonSetSpecStrategyCanary{}
		ds.Status = datadoghqv1alpha1.ExtendedDaemonSetStatus{ActiveReplicaSet: "foo-a", State: datadoghqv1alpha1.ExtendedDaemonSetStatusStateCanary,
			Canary: &datadoghqv1alpha1.ExtendedDaemonSetStatusCanary{ReplicaSet: "foo-b", Nodes: []string{"node0"}}}
	case "canary-paused":
		ds.Spec.Strategy.Canary = &datadoghqv1alpha1.ExtendedDaemonSetSpecStrategyCanary{}
		ds.Annotations = map[string]string{datadoghqv1alpha1.ExtendedDaemonSetCanaryPausedAnnotationKey: "true"}
		ds.Status = datadoghqv1alpha1.ExtendedDaemonSetStatus{ActiveReplicaSet: "foo-a", State: datadoghqv1alpha1.ExtendedDaemonSetStatusStateCanaryPaused,
			Canary: &datadoghqv1alpha1.ExtendedDaemonSetStatusCanary{ReplicaSet: "foo-b", Nodes: []string{"node0"}}}
	case "canary-failed":
		ds.Spec.Strategy.Canary = &datadoghqv1alpha1.ExtendedDaemonSetSpecStrategyCanary{}
		ds.Status = datadoghqv1alpha1.ExtendedDaemonSetStatus{ActiveReplicaSet: "foo-a", State: datadoghqv1alpha1.ExtendedDaemonSetStatusStateCanaryFailed}
	case "rolling-update-paused":
		ds.Annotations = map[string]string{datadoghqv1alpha1.ExtendedDaemonSetRollingUpdatePausedAnnotationKey: "true"}
		ds.Status = datadoghqv1alpha1.ExtendedDaemonSetStatus{ActiveReplicaSet: "foo-a", State: datadoghqv1alpha1.ExtendedDaemonSetStatusStateRollingUpdatePaused}
	}
	c := fakeapi.New()
	c.EDS = append(c.EDS, ds)
	// an unrelated PodTemplate and one of the same name in another namespace must stay untouched
	other := &corev1.PodTemplate{ObjectMeta: metav1.ObjectMeta{Name: "foo", Namespace: "ns2"}, Template: zzTpl("A")}
	c.PodTemplates = append(c.PodTemplates, other)
	old := ""
	if nondet.Bool("podTemplate.exists") {
		old = zzPick("podTemplate.template")
		pt := &corev1.PodTemplate{ObjectMeta: metav1.ObjectMeta{Name: "foo", Namespace: "ns", Annotations: map[string]string{}}, Template: zzTpl(old)}
		if nondet.Bool("podTemplate.hashed") {
			t := zzTpl(old)
			h, _ := comparison.GenerateMD5PodTemplateSpec(&t)
			pt.Annotations[datadoghqv1alpha1.MD5ExtendedDaemonSetAnnotationKey] = h
		}
		c.PodTemplates = append(c.PodTemplates, pt)
	}
	r := &Reconciler{client: c, scheme: c.Scheme(), log: logr.Logger{}, recorder: &fakeapi.Recorder{}}
	_, err := r.Reconcile(context.TODO(), reconcile.Request{NamespacedName: types.NamespacedName{Namespace: "ns", Name: "foo"}})
	nondet.Assert("C13.pt.noerror", err == nil)

	var got *corev1.PodTemplate
	for _, p := range c.PodTemplates {
		if p.Namespace == "ns" && p.Name == "foo" {
			got = p
		}
	}
	nondet.Assert("C13.pt.exists", got != nil)
	if got == nil {
		return
	}
	want := zzTpl(cur)
	h, _ := comparison.GenerateMD5PodTemplateSpec(&want)
	stale := nondet.And(old != "", old != cur)
	_ = stale
	// "keeps the PodTemplate object of the same name equal to spec.template and its hash"
	// (a pre-existing object whose recorded hash already equals the hash of spec.template is trusted)
	nondet.Assert("C13.pt.hash", got.Annotations[datadoghqv1alpha1.MD5ExtendedDaemonSetAnnotationKey] == h)
	nondet.Assert("C13.pt.template", len(got.Template.Spec.Containers) == 1 && got.Template.Spec.Containers[0].Image == "agent:"+zzImageOf(cur))
	// the whole template — its own labels and annotations included — is the one of spec.template
	nondet.Assert("C13.pt.template-metadata", apiequality.Semantic.DeepEqual(got.Template.ObjectMeta, want.ObjectMeta))
	nondet.Assert("C13.pt.template-equal", apiequality.Semantic.DeepEqual(got.Template, want))
	for _, e := range c.Writes() {
		nondet.Assert("C13.pt.only-own", e.Kind == "PodTemplate" && e.Namespace == "ns" && e.Name == "foo")
	}
	nondet.Assert("C13.pt.other-untouched", other.Template.Spec.Containers[0].Image == "agent:A" && len(other.Annotations) == 0)
	nondet.Observe("writes", len(c.Writes()))
	nondet.Reach("C13.pt.created", old == "" && len(c.Writes()) == 1)
	nondet.Reach("C13.pt.updated", old != "" && old != cur && len(c.Writes()) == 1)
	nondet.Reach("C13.pt.metadata-only-change", old == "B" && cur == "Bl" && len(c.Writes()) == 1)
	nondet.Reach("C13.pt.unchanged", old == cur && len(c.Writes()) == 0)
	nondet.Reach("C13.pt.quantity-rewritten", old == "Bq" && cur == "Bq2" && len(c.Writes()) == 1)
}
