//go:build verif

package v1alpha1

import (
	"time"

	metav1 "k8s.io/apimachinery/pkg/apis/meta/v1"
	"k8s.io/apimachinery/pkg/util/intstr"

	"github.com/DataDog/extendeddaemonset/zzverif/nondet"
)

const zzMaxDur = 100 * 365 * 24 * time.Hour

func zzOptIntStr(label string) *intstr.IntOrString {
	if !nondet.Bool(label + ".set") {
		return nil
	}
	if nondet.Bool(label + ".isString") {
		if nondet.Thorough() {
			v := intstr.FromString(nondet.String(label+".str", "", "0%", "10%", "100%", "abc", "%", "5"))
			return &v
		}
		v := intstr.FromString(nondet.String(label+".str", "10%", "abc"))
		return &v
	}
	v := intstr.IntOrString{Type: intstr.Int, IntVal: nondet.Int32(label+".int", -1<<31, 1<<31-1)}
	return &v
}

func zzOptDur(label string) *metav1.Duration {
	if !nondet.Bool(label + ".set") {
		return nil
	}
	return &metav1.Duration{Duration: nondet.Duration(label, -zzMaxDur, zzMaxDur)}
}

func zzOptInt32(label string) *int32 {
	if !nondet.Bool(label + ".set") {
		return nil
	}
	v := nondet.Int32(label, -1<<31, 1<<31-1)
	return &v
}

func zzOptBool(label string) *bool {
	if !nondet.Bool(label + ".set") {
		return nil
	}
	v := nondet.Bool(label)
	return &v
}

func zzEqIntStr(a, b *intstr.IntOrString) bool {
	if a == nil || b == nil {
		return a == b
	}
	return a.Type == b.Type && a.IntVal == b.IntVal && a.StrVal == b.StrVal
}

func zzEqDur(a, b *metav1.Duration) bool {
	if a == nil || b == nil {
		return a == b
	}
	return a.Duration == b.Duration
}

func zzEqInt32(a, b *int32) bool {
	if a == nil || b == nil {
		return a == b
	}
	return *a == *b
}

func zzEqBool(a, b *bool) bool {
	if a == nil || b == nil {
		return a == b
	}
	return *a == *b
}

func zzEqRolling(a, b *ExtendedDaemonSetSpecStrategyRollingUpdate) bool {
	return nondet.And(zzEqIntStr(a.MaxUnavailable, b.MaxUnavailable), zzEqIntStr(a.MaxPodSchedulerFailure, b.MaxPodSchedulerFailure),
		zzEqInt32(a.MaxParallelPodCreation, b.MaxParallelPodCreation), zzEqDur(a.SlowStartIntervalDuration, b.SlowStartIntervalDuration),
		zzEqIntStr(a.SlowStartAdditiveIncrease, b.SlowStartAdditiveIncrease))
}

// keeps(user, after): every field the user set still has the user's value
func zzKeepsIntStr(u, a *intstr.IntOrString) bool { return u == nil || zzEqIntStr(u, a) }
func zzKeepsDur(u, a *metav1.Duration) bool       { return u == nil || zzEqDur(u, a) }
func zzKeepsInt32(u, a *int32) bool               { return u == nil || zzEqInt32(u, a) }
func zzKeepsBool(u, a *bool) bool                 { return u == nil || zzEqBool(u, a) }

func zzRolling() ExtendedDaemonSetSpecStrategyRollingUpdate {
	return ExtendedDaemonSetSpecStrategyRollingUpdate{
		MaxUnavailable:            zzOptIntStr("maxUnavailable"),
		MaxPodSchedulerFailure:    zzOptIntStr("maxPodSchedulerFailure"),
		MaxParallelPodCreation:    zzOptInt32("maxParallelPodCreation"),
		SlowStartIntervalDuration: zzOptDur("slowStartIntervalDuration"),
		SlowStartAdditiveIncrease: zzOptIntStr("slowStartAdditiveIncrease"),
	}
}

func zzCopyRolling(r ExtendedDaemonSetSpecStrategyRollingUpdate) ExtendedDaemonSetSpecStrategyRollingUpdate {
	s := ExtendedDaemonSetSpecStrategy{RollingUpdate: r}
	return s.DeepCopy().RollingUpdate
}

// ZZ_C16_rolling: defaulting of the rolling-update block is idempotent, complete,
// recognised, and keeps user values.
func ZZ_C16_rolling() {
	user := zzRolling()
	x := zzCopyRolling(user)
	DefaultExtendedDaemonSetSpecStrategyRollingUpdate(&x)
	once := zzCopyRolling(x)
	DefaultExtendedDaemonSetSpecStrategyRollingUpdate(&x)

	nondet.Assert("C16.rolling.idempotent", zzEqRolling(&once, &x))
	nondet.Assert("C16.rolling.recognised", IsDefaultedExtendedDaemonSetSpecStrategyRollingUpdate(&once))
	nondet.Assert("C16.rolling.filled", once.MaxUnavailable != nil && once.MaxPodSchedulerFailure != nil && once.MaxParallelPodCreation != nil &&
		once.SlowStartIntervalDuration != nil && once.SlowStartAdditiveIncrease != nil)
	nondet.Assert("C16.rolling.keeps", nondet.And(zzKeepsIntStr(user.MaxUnavailable, once.MaxUnavailable), zzKeepsIntStr(user.MaxPodSchedulerFailure, once.MaxPodSchedulerFailure),
		zzKeepsInt32(user.MaxParallelPodCreation, once.MaxParallelPodCreation), zzKeepsDur(user.SlowStartIntervalDuration, once.SlowStartIntervalDuration),
		zzKeepsIntStr(user.SlowStartAdditiveIncrease, once.SlowStartAdditiveIncrease)))
	nondet.Reach("C16.rolling.all-nil", user.MaxUnavailable == nil && user.MaxParallelPodCreation == nil && user.SlowStartIntervalDuration == nil)
	nondet.Reach("C16.rolling.zero-interval", user.SlowStartIntervalDuration != nil && user.SlowStartIntervalDuration.Duration == 0)
}

func zzCanary() *ExtendedDaemonSetSpecStrategyCanary {
	c := &ExtendedDaemonSetSpecStrategyCanary{
		Replicas:           zzOptIntStr("replicas"),
		Duration:           zzOptDur("duration"),
		NoRestartsDuration: zzOptDur("noRestartsDuration"),
		ValidationMode:     ExtendedDaemonSetSpecStrategyCanaryValidationMode(nondet.String("validationMode", "", "auto", "manual")),
	}
	// the canary node selector: absent, empty, by labels, or by expressions only
	switch nondet.String("nodeSelector", "unset", "empty", "labels", "expressions") {
	case "empty":
		c.NodeSelector = &metav1.LabelSelector{}
	case "labels":
		c.NodeSelector = &metav1.LabelSelector{MatchLabels: map[string]string{"canary": "yes"}}
	case "expressions":
		c.NodeSelector = &metav1.LabelSelector{MatchExpressions: []metav1.LabelSelectorRequirement{{Key: "pool", Operator: metav1.LabelSelectorOpIn, Values: []string{"canary"}}}}
	}
	if nondet.Bool("autoPause.set") {
		c.AutoPause = &ExtendedDaemonSetSpecStrategyCanaryAutoPause{
			Enabled: zzOptBool("autoPause.enabled"), MaxRestarts: zzOptInt32("autoPause.maxRestarts"), MaxSlowStartDuration: zzOptDur("autoPause.maxSlowStartDuration"),
		}
	}
	if nondet.Bool("autoFail.set") {
		c.AutoFail = &ExtendedDaemonSetSpecStrategyCanaryAutoFail{
			Enabled: zzOptBool("autoFail.enabled"), MaxRestarts: zzOptInt32("autoFail.maxRestarts"),
			MaxRestartsDuration: zzOptDur("autoFail.maxRestartsDuration"), CanaryTimeout: zzOptDur("autoFail.canaryTimeout"),
		}
	}
	return c
}

func zzEqCanary(a, b *ExtendedDaemonSetSpecStrategyCanary) bool {
	if (a.NodeSelector == nil) != (b.NodeSelector == nil) || (a.AutoPause == nil) != (b.AutoPause == nil) || (a.AutoFail == nil) != (b.AutoFail == nil) {
		return false
	}
	r := nondet.And(zzEqIntStr(a.Replicas, b.Replicas), zzEqDur(a.Duration, b.Duration), zzEqDur(a.NoRestartsDuration, b.NoRestartsDuration), a.ValidationMode == b.ValidationMode)
	if a.AutoPause != nil {
		r = nondet.And(r, zzEqBool(a.AutoPause.Enabled, b.AutoPause.Enabled), zzEqInt32(a.AutoPause.MaxRestarts, b.AutoPause.MaxRestarts), zzEqDur(a.AutoPause.MaxSlowStartDuration, b.AutoPause.MaxSlowStartDuration))
	}
	if a.AutoFail != nil {
		r = nondet.And(r, zzEqBool(a.AutoFail.Enabled, b.AutoFail.Enabled), zzEqInt32(a.AutoFail.MaxRestarts, b.AutoFail.MaxRestarts),
			zzEqDur(a.AutoFail.MaxRestartsDuration, b.AutoFail.MaxRestartsDuration), zzEqDur(a.AutoFail.CanaryTimeout, b.AutoFail.CanaryTimeout))
	}
	return r
}

// ZZ_C16_canary: defaulting of the canary block (both controller-level default modes) is a
// fixed point, complete, recognised, keeps user values; validation of the defaulted block
// never crashes and rejects the documented shapes.
func ZZ_C16_canary() {
	user := zzCanary()
	defMode := ExtendedDaemonSetSpecStrategyCanaryValidationMode(nondet.String("defaultMode", "auto", "manual"))
	x := user.DeepCopy()
	DefaultExtendedDaemonSetSpecStrategyCanary(x, defMode)
	once := x.DeepCopy()
	DefaultExtendedDaemonSetSpecStrategyCanary(x, defMode)

	nondet.Assert("C16.canary.idempotent", zzEqCanary(once, x))
	nondet.Assert("C16.canary.recognised", IsDefaultedExtendedDaemonSetSpecStrategyCanary(once))
	nondet.Assert("C16.canary.filled", once.Replicas != nil && once.NodeSelector != nil && once.AutoPause != nil && once.AutoFail != nil &&
		once.AutoPause.Enabled != nil && once.AutoPause.MaxRestarts != nil && once.AutoFail.Enabled != nil && once.AutoFail.MaxRestarts != nil && once.ValidationMode != "")
	keeps := nondet.And(zzKeepsIntStr(user.Replicas, once.Replicas), zzKeepsDur(user.Duration, once.Duration), zzKeepsDur(user.NoRestartsDuration, once.NoRestartsDuration),
		nondet.Or(user.ValidationMode == "", user.ValidationMode == once.ValidationMode))
	if user.AutoPause != nil {
		keeps = nondet.And(keeps, zzKeepsBool(user.AutoPause.Enabled, once.AutoPause.Enabled), zzKeepsInt32(user.AutoPause.MaxRestarts, once.AutoPause.MaxRestarts),
			zzKeepsDur(user.AutoPause.MaxSlowStartDuration, once.AutoPause.MaxSlowStartDuration))
	}
	if user.AutoFail != nil {
		keeps = nondet.And(keeps, zzKeepsBool(user.AutoFail.Enabled, once.AutoFail.Enabled), zzKeepsInt32(user.AutoFail.MaxRestarts, once.AutoFail.MaxRestarts),
			zzKeepsDur(user.AutoFail.MaxRestartsDuration, once.AutoFail.MaxRestartsDuration), zzKeepsDur(user.AutoFail.CanaryTimeout, once.AutoFail.CanaryTimeout))
	}
	nondet.Assert("C16.canary.keeps", keeps)
	// "defaulting changes no value the user set": a node selector the user wrote is kept as written
	if user.NodeSelector != nil {
		got := once.NodeSelector
		same := got != nil && len(got.MatchLabels) == len(user.NodeSelector.MatchLabels) && len(got.MatchExpressions) == len(user.NodeSelector.MatchExpressions)
		if same {
			for k, v := range user.NodeSelector.MatchLabels {
				same = same && got.MatchLabels[k] == v
			}
			for i, e := range user.NodeSelector.MatchExpressions {
				g := got.MatchExpressions[i]
				same = same && g.Key == e.Key && g.Operator == e.Operator && len(g.Values) == len(e.Values) && (len(e.Values) == 0 || g.Values[0] == e.Values[0])
			}
		}
		nondet.Assert("C16.canary.keeps-node-selector", same)
	}

	// validation of the defaulted spec: returns, never panics (a panic ends the path as a violation)
	spec := &ExtendedDaemonSetSpec{}
	spec.Strategy.Canary = once
	err := ValidateExtendedDaemonSetSpec(spec)

	manual := once.ValidationMode == ExtendedDaemonSetSpecStrategyCanaryValidationModeManual
	nondet.Fact("manual", manual)
	nondet.Fact("canaryTimeoutSet", once.AutoFail.CanaryTimeout != nil)
	nondet.Fact("durationSet", once.Duration != nil)
	// "validation rejects autoFail.maxRestarts below autoPause.maxRestarts"
	nondet.Assert("C16.validate.maxRestarts", nondet.Implies(nondet.And(*once.AutoFail.Enabled, *once.AutoPause.Enabled, *once.AutoFail.MaxRestarts < *once.AutoPause.MaxRestarts), err != nil))
	// "a canaryTimeout not above the canary duration"
	if once.AutoFail.CanaryTimeout != nil && once.Duration != nil {
		nondet.Assert("C16.validate.canaryTimeout", nondet.Implies(nondet.And(*once.AutoFail.Enabled, once.AutoFail.CanaryTimeout.Duration <= once.Duration.Duration), err != nil))
	}
	// "duration or noRestartsDuration in manual validation mode"
	if manual {
		nondet.Assert("C16.validate.manual", nondet.Implies(once.Duration != nil || once.NoRestartsDuration != nil, err != nil))
	}
	nondet.Observe("rejected", err != nil)
	nondet.Reach("C16.canary.accepted-auto", nondet.And(err == nil, !manual))
	nondet.Reach("C16.canary.accepted-manual", nondet.And(err == nil, manual))
	nondet.Reach("C16.canary.rejected", err != nil)
}

// ZZ_C16_whole: whole-object defaulting: fixed point, recognised, template name cleared,
// reconcile frequency filled.
func ZZ_C16_whole() {
	ds := &ExtendedDaemonSet{ObjectMeta: metav1.ObjectMeta{Name: "foo", Namespace: "ns"}}
	ds.Spec.Template.Name = nondet.String("template.name", "", "agent")
	ds.Spec.Template.Labels = map[string]string{"app": "x"}
	// blocks: all-nil or all-set with arbitrary values (field-by-field nil-ness is decided by
	// ZZ_C16_rolling / ZZ_C16_canary; here the composition is checked)
	if nondet.Bool("rolling.set") {
		mp := nondet.Int32("maxParallelPodCreation", -1<<31, 1<<31-1)
		ds.Spec.Strategy.RollingUpdate = ExtendedDaemonSetSpecStrategyRollingUpdate{
			MaxUnavailable:            &intstr.IntOrString{Type: intstr.Int, IntVal: nondet.Int32("maxUnavailable", -1<<31, 1<<31-1)},
			MaxPodSchedulerFailure:    &intstr.IntOrString{Type: intstr.String, StrVal: nondet.String("maxPodSchedulerFailure", "10%", "abc")},
			MaxParallelPodCreation:    &mp,
			SlowStartIntervalDuration: &metav1.Duration{Duration: nondet.Duration("slowStartIntervalDuration", -zzMaxDur, zzMaxDur)},
			SlowStartAdditiveIncrease: &intstr.IntOrString{Type: intstr.Int, IntVal: nondet.Int32("slowStartAdditiveIncrease", -1<<31, 1<<31-1)},
		}
	}
	switch nondet.String("canary.shape", "nil", "empty", "full") {
	case "empty":
		ds.Spec.Strategy.Canary = &ExtendedDaemonSetSpecStrategyCanary{}
	case "full":
		pe, fe := nondet.Bool("autoPause.enabled"), nondet.Bool("autoFail.enabled")
		pm, fm := nondet.Int32("autoPause.maxRestarts", -1<<31, 1<<31-1), nondet.Int32("autoFail.maxRestarts", -1<<31, 1<<31-1)
		ds.Spec.Strategy.Canary = &ExtendedDaemonSetSpecStrategyCanary{
			Replicas:           &intstr.IntOrString{Type: intstr.Int, IntVal: nondet.Int32("replicas", -1<<31, 1<<31-1)},
			Duration:           &metav1.Duration{Duration: nondet.Duration("duration", -zzMaxDur, zzMaxDur)},
			NoRestartsDuration: &metav1.Duration{Duration: nondet.Duration("noRestartsDuration", -zzMaxDur, zzMaxDur)},
			NodeSelector:       &metav1.LabelSelector{},
			ValidationMode:     ExtendedDaemonSetSpecStrategyCanaryValidationMode(nondet.String("validationMode", "", "auto", "manual")),
			AutoPause:          &ExtendedDaemonSetSpecStrategyCanaryAutoPause{Enabled: &pe, MaxRestarts: &pm, MaxSlowStartDuration: &metav1.Duration{Duration: nondet.Duration("maxSlowStart", -zzMaxDur, zzMaxDur)}},
			AutoFail: &ExtendedDaemonSetSpecStrategyCanaryAutoFail{Enabled: &fe, MaxRestarts: &fm,
				MaxRestartsDuration: &metav1.Duration{Duration: nondet.Duration("maxRestartsDuration", -zzMaxDur, zzMaxDur)},
				CanaryTimeout:       &metav1.Duration{Duration: nondet.Duration("canaryTimeout", -zzMaxDur, zzMaxDur)}},
		}
	}
	ds.Spec.Strategy.ReconcileFrequency = zzOptDur("reconcileFrequency")
	userFreq := ds.Spec.Strategy.ReconcileFrequency
	defMode := ExtendedDaemonSetSpecStrategyCanaryValidationMode(nondet.String("defaultMode", "auto", "manual"))

	// the reconcilers skip defaulting for an object recognised as defaulted and then dereference
	// these fields: recognised implies complete (else "reconciliation ... never crash" is lost)
	if IsDefaultedExtendedDaemonSet(ds) {
		r := &ds.Spec.Strategy.RollingUpdate
		nondet.Assert("C16.whole.recognised-means-complete", ds.Spec.Strategy.ReconcileFrequency != nil && ds.Spec.Template.Name == "" &&
			r.MaxUnavailable != nil && r.MaxPodSchedulerFailure != nil && r.MaxParallelPodCreation != nil && r.SlowStartIntervalDuration != nil && r.SlowStartAdditiveIncrease != nil)
		nondet.Reach("C16.whole.recognised-as-given", true)
	}
	d1 := DefaultExtendedDaemonSet(ds, defMode)
	d2 := DefaultExtendedDaemonSet(d1, defMode)

	nondet.Assert("C16.whole.recognised", IsDefaultedExtendedDaemonSet(d1))
	nondet.Assert("C16.whole.template-name", d1.Spec.Template.Name == "" && d1.Spec.Template.Labels["app"] == "x")
	nondet.Assert("C16.whole.frequency", d1.Spec.Strategy.ReconcileFrequency != nil && zzKeepsDur(userFreq, d1.Spec.Strategy.ReconcileFrequency))
	same := nondet.And(zzEqRolling(&d1.Spec.Strategy.RollingUpdate, &d2.Spec.Strategy.RollingUpdate), zzEqDur(d1.Spec.Strategy.ReconcileFrequency, d2.Spec.Strategy.ReconcileFrequency),
		(d1.Spec.Strategy.Canary == nil) == (d2.Spec.Strategy.Canary == nil))
	if d1.Spec.Strategy.Canary != nil && d2.Spec.Strategy.Canary != nil {
		same = nondet.And(same, zzEqCanary(d1.Spec.Strategy.Canary, d2.Spec.Strategy.Canary))
	}
	nondet.Assert("C16.whole.idempotent", same)
	nondet.Assert("C16.whole.input-untouched", ds.Spec.Strategy.ReconcileFrequency == userFreq)
	// validation returns (no panic)
	err := ValidateExtendedDaemonSetSpec(&d1.Spec)
	nondet.Observe("rejected", err != nil)
	nondet.Reach("C16.whole.no-canary", d1.Spec.Strategy.Canary == nil)
	nondet.Reach("C16.whole.canary", d1.Spec.Strategy.Canary != nil)
}
