#!/bin/bash
# probes the thorough tier of the given properties with progress output (development aid)
cd "$(dirname "$0")/.."
export VERIF_ROOT="$(pwd)"
[ -x bin/gosym ] || (cd engine && GOFLAGS=-mod=mod GOPROXY=off GOSUMDB=off GOTOOLCHAIN=local go build -o ../bin/gosym ./cmd/gosym)
for id in "$@"; do
  echo "=== $id $(date +%T)"
  timeout 7200 bin/gosym check $id --tier thorough --jobs 8 -v 2>&1 | grep -v '^  \[.*0s paths' | cut -c1-400 | tail -12
done
