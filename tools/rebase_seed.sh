#!/bin/bash
# tools/rebase_seed.sh <seed-dir> : re-creates seeded/<seed>/patch.diff against /repo HEAD with a 3-way apply
# (used when a fix: commit in /repo touched lines near a kept seeded change); keeps the old patch as patch.orig-<sha>.diff
set -u
d=$(readlink -f "$1"); wt=/tmp/rb-$$
git -C /repo worktree add --detach $wt HEAD -q || exit 2
trap 'git -C /repo worktree remove --force $wt >/dev/null 2>&1; git -C /repo worktree prune' EXIT
if git -C $wt apply --check "$d/patch.diff" 2>/dev/null; then echo "applies cleanly, nothing to do"; exit 0; fi
if ! git -C $wt apply --3way "$d/patch.diff" 2>/dev/null; then
  git -C $wt checkout -q -- . ; git -C $wt reset -q --hard HEAD
  (cd $wt && patch -p1 -F 3 --no-backup-if-mismatch < "$d/patch.diff") || { echo "3-way apply and fuzzy patch both failed"; exit 1; }
fi
git -C $wt diff HEAD --stat | tail -1
(cd $wt && GOFLAGS= GOPROXY=off go build ./... ) || { echo "does not build"; exit 1; }
cp "$d/patch.diff" "$d/patch.orig-$(git -C /repo rev-parse --short HEAD~1).diff"
git -C $wt diff HEAD > "$d/patch.diff"
echo "rebased $d"
