#!/usr/bin/env python3
"""Regenerates /verif/MANIFEST.json from tools/checks.json (claimed checks) and properties.jsonl."""
import json, os
root = os.path.dirname(os.path.dirname(os.path.abspath(__file__)))
props = [json.loads(l) for l in open(os.path.join(root, 'properties.jsonl'))]
cfg = json.load(open(os.path.join(root, 'tools', 'checks.json')))
claimed = cfg['claimed']
na = cfg['not_applicable']
checks = []
for p in props:
    pid = p['id']
    if pid in claimed:
        c = claimed[pid]
        checks.append({
            "property_id": pid,
            "quick_cmd": f"/verif/checks/run.sh {pid} quick",
            "thorough_cmd": f"/verif/checks/run.sh {pid} thorough",
            "evidence_file": f"/verif/evidence/{pid}.json",
            "replay_cmd_template": "/verif/bin/gosym replay {path}",
            "engine": "gosym",
            "level_claimed": {
                "category": "model_checking",
                "text": c['text'],
                "design_ref": c.get('design_ref', 'DESIGN.md §3/' + pid),
            },
            "level_note": c['note'],
            "technique": c.get('technique', "bounded symbolic execution of the repo's go/ssa with z3 (SMT) deciding every path/assertion; counterexamples replayed natively"),
        })
    else:
        assert pid in na, pid
m = {
    "version": 1,
    "setup_cmd": "cd /verif/engine && GOFLAGS=-mod=mod GOPROXY=off GOSUMDB=off GOTOOLCHAIN=local go build -o /verif/bin/gosym ./cmd/gosym && /verif/bin/gosym selftest",
    "hooks": {
        "guard": "verif",
        "enable": "no source hooks: harnesses (//go:build verif) are injected in-package by overlay (go/packages Overlay for the engine, `go test -tags verif -overlay` for native replays); /repo is never written by a check",
        "baseline_off_cmd": "cd /repo && GOFLAGS= GOPROXY=off go test -vet=off -count=1 ./... ; cd /repo/api && GOFLAGS= GOPROXY=off go test -vet=off -count=1 ./...",
        "source_commits": [],
        "add_only": True,
    },
    "engines": [{
        "name": "gosym", "path": "/verif/engine",
        "serves_properties": sorted(claimed.keys()),
        "kind_free_text": "symbolic interpreter for go/ssa (forking by re-execution, Int/Bool terms, overflow obligations) + z3 4.8.12 over `z3 -in`; native replay of solver models through `go test -overlay`",
    }],
    "checks": checks,
    "notes": cfg.get('notes', ''),
    "not_applicable": [{"property_id": k, "reason": v} for k, v in sorted(na.items())],
}
json.dump(m, open(os.path.join(root, 'MANIFEST.json'), 'w'), indent=1)
print("claimed:", sorted(claimed.keys()))
