#!/bin/bash
# tools/thorough_validate.sh [PROP...] : runs the registered thorough check of each property (all claimed ones by
# default) exactly as checks/run.sh does, plus -v so that the per-harness statistics are logged (development aid).
cd "$(dirname "$0")/.."
export VERIF_ROOT="$(pwd)"
[ -x bin/gosym ] || (cd engine && GOFLAGS=-mod=mod GOPROXY=off GOSUMDB=off GOTOOLCHAIN=local go build -o ../bin/gosym ./cmd/gosym)
props="$@"
[ -z "$props" ] && props=$(python3 -c "import json;print(' '.join(c['property_id'] for c in json.load(open('MANIFEST.json'))['checks']))")
mkdir -p evidence-thorough
for id in $props; do
  start=$(date +%s)
  bin/gosym check $id --tier thorough --seed "${VERIF_SEED:-1}" -v > out/thorough-$id.log 2>&1; code=$?
  echo "$id exit=$code $(( $(date +%s) - start ))s $(tail -1 out/thorough-$id.log | cut -c1-200)"
  grep -E '^ZZ_[A-Za-z0-9_]+: ' out/thorough-$id.log | sed -E 's/^(ZZ_[A-Za-z0-9_]+): paths=([0-9]+).* wall=([0-9.]+)s.*/   \1 paths=\2 wall=\3s/' 
  grep -E '^(VIOLATION|KNOWN-FINDING|INCONCLUSIVE)' out/thorough-$id.log | cut -c1-300 | head -5
  cp evidence/$id.json evidence-thorough/$id.json 2>/dev/null
done
