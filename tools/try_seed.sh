#!/bin/bash
# tools/try_seed.sh <patch.diff> <PROP> [tier]
# Runs the registered check of <PROP> against a seeded change WITHOUT touching /repo or the
# committed evidence: the patch is applied in a scratch worktree of /repo HEAD (VERIF_REPO) and
# the run writes its out/ and evidence/ under a scratch VERIF_ROOT holding a copy of the harness.
# (Equivalent to `git -C /repo apply`, run, `git -C /repo checkout -- .`, but safe to run while
# other checks are reading /repo.)
set -u
here="$(cd "$(dirname "$0")/.." && pwd)"
patch=$(readlink -f "$1"); prop=$2; tier=${3:-quick}
tag=$(basename "$(dirname "$patch")")-$$
wt=/tmp/ts-repo-$tag; root=/tmp/ts-root-$tag
cleanup() { git -C /repo worktree remove --force "$wt" >/dev/null 2>&1; rm -rf "$root" "$wt"; git -C /repo worktree prune; }
trap cleanup EXIT
git -C /repo worktree add --detach "$wt" HEAD -q || { echo "cannot create worktree"; exit 2; }
git -C "$wt" apply "$patch" || { echo "patch does not apply"; exit 2; }
mkdir -p "$root"; cp -r "$here/harness" "$here/known_findings.json" "$root/"; mkdir -p "$root/bin"; 
[ -x "$here/bin/gosym" ] || (cd "$here/engine" && GOFLAGS=-mod=mod GOPROXY=off GOSUMDB=off GOTOOLCHAIN=local go build -o ../bin/gosym ./cmd/gosym)
VERIF_ROOT="$root" VERIF_REPO="$wt" "$here/bin/gosym" check "$prop" --tier "$tier" --seed "${VERIF_SEED:-1}" > "$root/run.out" 2>&1; code=$?
grep -E '^(VIOLATION|KNOWN-FINDING|INCONCLUSIVE|HOLDS|VIOLATED)' "$root/run.out" | cut -c1-400 | head -12
python3 - "$root/out/$prop" <<'PY'
import json,glob,sys,collections
c=collections.Counter()
for f in glob.glob(sys.argv[1]+'/cex-*.json'):
    d=json.load(open(f)); c[(d.get('kind'),d.get('harness'),d.get('assertion'))]+=1
for (k,h,a),n in sorted(c.items(), key=str): print(f"  {'known-finding' if k=='known' else 'failing'}: {h} {a} x{n}")
PY
echo "exit=$code"
exit $code
