#!/bin/bash
# tools/try_seed.sh <patch.diff> <PROP> [tier] : applies a seeded change to /repo, runs the check, reverts.
cd "$(dirname "$0")/.."
patch=$1; prop=$2; tier=${3:-quick}
git -C /repo diff --quiet || { echo "/repo is dirty"; exit 2; }
git -C /repo apply "$patch" || { echo "patch does not apply"; exit 2; }
checks/run.sh $prop $tier > /tmp/try_seed.out 2>&1; code=$?
git -C /repo checkout -- . 
grep -E '^(VIOLATION|KNOWN-FINDING|INCONCLUSIVE|HOLDS|VIOLATED)' /tmp/try_seed.out | cut -c1-400 | head -12
echo "exit=$code"
exit $code
