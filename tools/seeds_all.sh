#!/bin/bash
# Re-runs every kept seeded change against the quick check of its property.
cd "$(dirname "$0")/.."
for d in seeded/*/; do
  name=$(basename $d); prop=$(python3 -c "import json;print(json.load(open('$d/meta.json'))['property'])")
  out=$(tools/try_seed.sh /verif/$d/patch.diff $prop 2>&1); code=$?
  echo "$name prop=$prop exit=$code $(echo "$out" | grep -cE '^VIOLATION') violation lines"
done
