#!/bin/bash
# tools/refind_fixed.sh : for every "fixed:" entry of known_findings.json, reverts that fix: commit in a scratch
# worktree of /repo HEAD and runs the quick check of its property against it: the violation must be reported again
# (exit 1).  Prints one line per entry.  (Development aid; nothing is written to /repo or to evidence/.)
cd "$(dirname "$0")/.."
here=$(pwd)
python3 - <<'PY' > /tmp/refind.list
import json,re
k=json.load(open('known_findings.json'))
for e in k['fixed']:
    m=re.match(r'fixed: property=(C\d+) ([0-9a-f]{7,})',e)
    if m: print(m.group(1),m.group(2))
    else:
        m=re.match(r'fixed: property=(C\d+)',e); print(m.group(1),'?')
PY
# entries recorded before the sha was part of the line: map by order of the fix commits
mapfile -t shas < <(git -C /repo log --reverse --format=%h --grep='^fix:')
i=0
while read prop sha; do
  [ "$sha" = "?" ] && sha=""
  echo "$prop $sha"
done < /tmp/refind.list > /tmp/refind.list2
while read prop sha; do
  if [ -z "$sha" ]; then echo "$prop: no sha recorded in the entry (older format) - skipped"; continue; fi
  wt=/tmp/rf-repo-$sha; root=/tmp/rf-root-$sha
  git -C /repo worktree add --detach $wt HEAD -q || continue
  if ! git -C $wt revert -n $sha >/dev/null 2>&1; then echo "$prop $sha: revert conflicts with later commits - skipped"; git -C /repo worktree remove --force $wt; continue; fi
  mkdir -p $root; cp -r $here/harness $here/known_findings.json $root/
  VERIF_ROOT=$root VERIF_REPO=$wt $here/bin/gosym check $prop --tier quick > $root/out.txt 2>&1; code=$?
  echo "$prop $sha: exit=$code $(grep -E '^(VIOLATED|HOLDS|INCONCLUSIVE) ' $root/out.txt | tail -1 | cut -c1-120)"
  git -C /repo worktree remove --force $wt; rm -rf $root
done < /tmp/refind.list2
git -C /repo worktree prune
