#!/bin/bash
# tools/confirm_seed.sh <wt-dir> <seed-name> <PROP>
# Confirms a seeded change in a fresh scratch worktree (build, existing tests, demo fails with / passes without),
# then copies it to /verif/seeded/<seed-name>/ and runs the property's quick check against it.
set -u
wt=$1; name=$2; prop=$3
cf=/tmp/cf-$name
export GOFLAGS= GOPROXY=off
git -C /repo worktree remove --force $cf 2>/dev/null
git -C /repo worktree add --detach $cf HEAD -q || exit 2
patch=$wt/SEED/patch.diff
demo=$(ls $wt/SEED/*_test.go | head -1)
# demo package dir: where the agent left it in its worktree
demodir=$(cd $wt && git status --porcelain | grep '_test.go' | grep -v SEED/ | awk '{print $2}' | head -1 | xargs dirname)
echo "patch=$patch demo=$demo demodir=$demodir"
(cd $cf && git apply $patch) || { echo "PATCH DOES NOT APPLY"; exit 2; }
(cd $cf && go build ./... && cd api && go build ./...) || { echo "BUILD FAILS"; exit 2; }
tests=$( (cd $cf && go test -vet=off -count=1 ./... 2>&1; cd $cf/api && go test -vet=off -count=1 ./... 2>&1) | grep -E '^(FAIL|---|ok)' | grep -v 'controllers\s' | grep -E '^(FAIL|--- FAIL)' | grep -v TestAPIs | grep -v '^FAIL$')
if [ -n "$tests" ]; then echo "EXISTING TESTS FAIL WITH CHANGE:"; echo "$tests"; else echo "existing tests pass with change"; fi
cp $demo $cf/$demodir/
pkg=./$demodir/
[ "${demodir#api/}" != "$demodir" ] && { pkgdir=$cf/api; pkg=./${demodir#api/}/; } || pkgdir=$cf
with=$(cd $pkgdir && go test -vet=off -count=1 -run 'Seed|seed|Demo|demo' $pkg 2>&1 | tail -3)
echo "demo WITH change: $(echo "$with" | tail -1)"
(cd $cf && git apply -R $patch)
without=$(cd $pkgdir && go test -vet=off -count=1 -run 'Seed|seed|Demo|demo' $pkg 2>&1 | tail -3)
echo "demo WITHOUT change: $(echo "$without" | tail -1)"
git -C /repo worktree remove --force $cf
mkdir -p /verif/seeded/$name
cp $patch /verif/seeded/$name/patch.diff
cp $demo /verif/seeded/$name/
cp $wt/SEED/README.md /verif/seeded/$name/README.agent.md 2>/dev/null
echo "--- running check $prop against the change"
/verif/tools/try_seed.sh /verif/seeded/$name/patch.diff $prop
