#!/usr/bin/env python3
# tools/cost_table.py : prints the measured-cost table of DESIGN Appendix B from evidence/ (quick tier, as
# left by tools/run_all.sh quick) and evidence-thorough/ (copies kept by tools/thorough_validate.sh).
import json, glob, os
here = os.path.join(os.path.dirname(__file__), '..')
def load(d):
    out = {}
    for f in sorted(glob.glob(os.path.join(here, d, 'C*.json'))):
        e = json.load(open(f)); out[e['property_id']] = e
    return out
q, t = load('evidence'), load('evidence-thorough')
print('| property | harnesses | quick: paths | queries | wall | thorough: paths | queries | solver time (16 workers, summed) | wall |')
print('|---|---|---|---|---|---|---|---|---|')
tot = [0, 0.0, 0, 0.0]
for pid in sorted(set(q) | set(t)):
    row = [pid]
    eq, et = q.get(pid), t.get(pid)
    row.append(str(len((et or eq)['coverage'].get('harnesses', []))))
    for e, full in ((eq, False), (et, True)):
        if e is None or (e['tier'] == 'thorough') != full:
            row += ['—'] * (4 if full else 3); continue
        c = e['coverage']; s = c.get('solver', {})
        row += [f"{c.get('states', 0):,}", f"{s.get('queries', 0):,}"]
        if full:
            row.append(f"{s.get('total_s', 0):,.0f} s")
        row.append(f"{e['wall_s']:,.0f} s")
        i = 2 if full else 0
        tot[i] += c.get('states', 0); tot[i + 1] += e['wall_s']
    print('| ' + ' | '.join(row) + ' |')
print(f"| total | | {tot[0]:,} | | {tot[1]:,.0f} s | {tot[2]:,} | | | {tot[3]:,.0f} s |")
