#!/bin/bash
# Runs every claimed check (tier $1, default quick) against /repo and rewrites the evidence files.
cd "$(dirname "$0")/.."
tier=${1:-quick}
rc=0
for id in $(python3 -c "import json;print(' '.join(c['property_id'] for c in json.load(open('MANIFEST.json'))['checks']))"); do
  out=$(checks/run.sh $id $tier 2>&1); code=$?
  echo "$id exit=$code $(echo "$out" | tail -1)"
  echo "$out" | grep -E '^(VIOLATION|KNOWN-FINDING|INCONCLUSIVE)' | cut -c1-300 | head -5
  [ $code -ne 0 ] && rc=1
  # evidence/<id>.json holds the last run of either tier; keep a copy of the thorough one beside it
  [ "$tier" = thorough ] && mkdir -p evidence-thorough && cp evidence/$id.json evidence-thorough/$id.json
done
exit $rc
