#!/bin/bash
# probes every thorough-tier harness of the given properties separately under a wall-clock cap (development aid)
# usage: tools/thorough_probe2.sh <cap-seconds> <PROP>...
cd "$(dirname "$0")/.."
export VERIF_ROOT="$(pwd)"
cap=$1; shift
[ -x bin/gosym ] || (cd engine && GOFLAGS=-mod=mod GOPROXY=off GOSUMDB=off GOTOOLCHAIN=local go build -o ../bin/gosym ./cmd/gosym)
for id in "$@"; do
  for h in $(grep -rhoE "^func (ZZ_${id}_[A-Za-z0-9_]+)\(\)" harness | sed -E 's/^func (.*)\(\)/\1/' | sort -u); do
    start=$(date +%s)
    out=$(timeout $cap bin/gosym check $id --tier thorough --only $h --no-replay -v 2>&1 | grep -E "^$h:|INCONCLUSIVE|VIOLAT" | cut -c1-260 | head -3)
    echo "[$id] $h $(( $(date +%s) - start ))s :: ${out:-TIMEOUT(cap ${cap}s)}"
  done
done
