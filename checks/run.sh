#!/bin/bash
# thin wrapper: /verif/checks/run.sh <PROP> <quick|thorough>
# exit 0 = property held on everything explored; exit 1 = VIOLATION line printed; exit 2 = inconclusive.
set -u
cd "$(dirname "$0")/.."
if [ ! -x bin/gosym ]; then
  (cd engine && GOFLAGS=-mod=mod GOPROXY=off GOSUMDB=off GOTOOLCHAIN=local go build -o ../bin/gosym ./cmd/gosym) || exit 2
fi
export VERIF_ROOT="$(pwd)"
exec bin/gosym check "$1" --tier "${2:-quick}" --seed "${VERIF_SEED:-1}"
